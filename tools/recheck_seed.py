#!/venv/bin/python
"""re-run the owning check against an already stored seed (seeded/<id>/patch.diff) and record the result in its meta.json
usage: tools/recheck_seed.py <seed-id> [note]"""
import json, os, shutil, subprocess, sys, tempfile
from pathlib import Path
V = Path('/verif'); CHK = Path(os.environ.get('CHECK_ROOT', '/verif'))
sd = sys.argv[1]; note = sys.argv[2] if len(sys.argv) > 2 else None
prop = sd.split('-')[0]
scratch = Path(tempfile.mkdtemp(prefix='amisc_re_'))
try:
    shutil.copytree('/repo/src', scratch / 'src')
    r = subprocess.run(f'patch -p1 -d {scratch} < {V}/seeded/{sd}/patch.diff', shell=True, capture_output=True, text=True)
    assert r.returncode == 0, r.stdout
    r = subprocess.run(['./check', prop, 'quick'], cwd=CHK, env=dict(os.environ, AMISC_SRC=str(scratch / 'src')), capture_output=True, text=True)
    m = json.loads((V / 'seeded' / sd / 'meta.json').read_text())
    m['recheck'] = {'exit': r.returncode, 'lines': [l for l in r.stdout.splitlines() if l.startswith(('VIOLATION', '['))][:3]}
    if note:
        m['first_try'] = note
    (V / 'seeded' / sd / 'meta.json').write_text(json.dumps(m, indent=1))
    print(sd, 'exit', r.returncode)
finally:
    shutil.rmtree(scratch, ignore_errors=True)
