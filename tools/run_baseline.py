#!/venv/bin/python
"""Run the pinned baseline test suite of /repo and compare with /root/.vp/BASELINE.json (stable_pass list)."""
import json, subprocess, sys, tempfile, os, xml.etree.ElementTree as ET
base = json.load(open('/root/.vp/BASELINE.json'))
with tempfile.TemporaryDirectory() as td:
    xml = os.path.join(td, 'r.xml')
    cmd = base['cmd'].replace('<file>', xml)
    env = dict(os.environ); env.pop('ECKELSJD_AMISC_VERIF', None)
    subprocess.run(cmd, shell=True, env=env, stdout=subprocess.DEVNULL, stderr=subprocess.DEVNULL)
    passed = set()
    for tc in ET.parse(xml).getroot().iter('testcase'):
        if not any(ch.tag in ('failure', 'error', 'skipped') for ch in tc):
            passed.add(f"{tc.get('classname')}::{tc.get('name')}")
missing = [t for t in base['stable_pass'] if t not in passed]
print(f"baseline: {len(base['stable_pass']) - len(missing)}/{len(base['stable_pass'])} stable tests pass")
for m in missing: print("  NOT PASSING:", m)
sys.exit(1 if missing else 0)
