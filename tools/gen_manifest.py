#!/venv/bin/python
"""Write MANIFEST.json from tools/manifest_src.json (claimed checks) + properties.jsonl (everything else n/a)."""
import json
from pathlib import Path
V = Path(__file__).resolve().parents[1]
src = json.loads((V / 'tools' / 'manifest_src.json').read_text())
props = [json.loads(l)['id'] for l in (V / 'properties.jsonl').read_text().splitlines() if l.strip()]
base = json.load(open('/root/.vp/BASELINE.json'))
checks = []
for pid in props:
    if pid in src['checks']:
        c = src['checks'][pid]
        checks.append({
            'property_id': pid,
            'quick_cmd': f'./check {pid} quick',
            'thorough_cmd': f'./check {pid} thorough',
            'evidence_file': f'evidence/{pid}.json',
            'replay_cmd_template': f'./check {pid} quick --replay {{path}}',
            'engine': 'lean-model+py-harness',
            'level_claimed': {'category': 'proof', 'text': c['text'], 'design_ref': c.get('design_ref', f'DESIGN.md §4 {pid}')},
            'level_note': c['note'],
            'technique': c['technique'],
        })
na = [{'property_id': p, 'reason': src['not_applicable'].get(p, 'check not built yet in this round (design in DESIGN.md §4); not claimed')}
      for p in props if p not in src['checks']]
m = {
    'version': 1,
    'setup_cmd': './setup.sh',
    'hooks': {'guard': 'ECKELSJD_AMISC_VERIF', 'enable': 'no source hooks are needed: all observation is through public extension points',
              'baseline_off_cmd': base['cmd'].replace('<file>', '/tmp/amisc_baseline.junit.xml'), 'source_commits': [], 'add_only': True},
    'engines': [{'name': 'lean-model+py-harness', 'path': 'lean/ + harness/', 'serves_properties': list(src['checks']),
                 'kind_free_text': 'Lean 4 model + theorems (lake build, #print axioms audit) tied to /repo by translators '
                                   '(regenerated each run) and a differential correspondence harness driving the real amisc'}],
    'checks': checks,
    'notes': src.get('notes', ''),
    'not_applicable': na,
}
(V / 'MANIFEST.json').write_text(json.dumps(m, indent=1))
print('claimed', len(checks), 'n/a', len(na))
