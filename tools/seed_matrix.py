#!/venv/bin/python
"""Cross matrix: every seeded change (seeded/<id>/patch.diff) against EVERY claimed check (quick tier).
For each seed a scratch copy of /repo/src is patched (removed afterwards) and all checks run against it with AMISC_SRC, in
parallel within one seed (same source => same generated fragments). Output: one line per seed with the exit code per property.
Used to find (a) misses of the owning check, (b) alarms of non-owning checks, which are then judged by hand."""
import json, os, shutil, subprocess, sys, tempfile
from concurrent.futures import ThreadPoolExecutor
from pathlib import Path
V = Path(__file__).resolve().parents[1]
props = [c['property_id'] for c in json.loads((V / 'MANIFEST.json').read_text())['checks']]
seeds = sorted(p.name for p in (V / 'seeded').iterdir() if (p / 'patch.diff').exists())
if len(sys.argv) > 1:
    seeds = [s for s in seeds if s in sys.argv[1:]]
subprocess.run(['./setup.sh'], cwd=V, capture_output=True)
for sd in seeds:
    scratch = Path(tempfile.mkdtemp(prefix='amisc_mx_'))
    try:
        shutil.copytree('/repo/src', scratch / 'src')
        r = subprocess.run(f'patch -p1 -d {scratch} < {V}/seeded/{sd}/patch.diff', shell=True, capture_output=True, text=True)
        if r.returncode != 0:
            print(sd, 'PATCH-FAILED', r.stdout[-200:], flush=True); continue
        env = dict(os.environ, AMISC_SRC=str(scratch / 'src'), VERIF_SEED='1')
        def one(p):
            r = subprocess.run(['./check', p, 'quick'], cwd=V, env=env, capture_output=True, text=True)
            kinds = sorted({l.split('replay=')[0] for l in r.stdout.splitlines() if l.startswith('VIOLATION')})
            nf = any('no-failing-input-found' in l for l in r.stdout.splitlines())
            return p, r.returncode, nf
        with ThreadPoolExecutor(max_workers=7) as ex:
            res = list(ex.map(one, props))
        print(sd, ' '.join(f'{p}={rc}{"n" if nf else ""}' for p, rc, nf in res if rc != 0) or 'none', flush=True)
    finally:
        shutil.rmtree(scratch, ignore_errors=True)
