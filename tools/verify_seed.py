#!/venv/bin/python
"""Verify a seeded change produced by a sub-agent and run my checks against it.
usage: tools/verify_seed.py <prop> <worktree> <k> [extra props...]
 1. in the scratch worktree: demo on the unchanged tree (must exit 0), apply patch, demo (must exit != 0), baseline test
    suite with the patch (stable tests must pass), revert;
 2. in /repo: git apply patch, run ./check <prop> quick (and extra props), git checkout -- . ;
 3. store under /verif/seeded/<prop>-<k>/ (patch.diff, demo.py, meta.json with what was run)."""
import json, os, shutil, subprocess, sys, tempfile, xml.etree.ElementTree as ET
from pathlib import Path
prop, wt, k = sys.argv[1], Path(sys.argv[2]), sys.argv[3]
extra = sys.argv[4:]
V = Path('/verif')
CHK = Path(os.environ.get('CHECK_ROOT', '/verif'))   # where ./check is run (a synced sandbox copy keeps /verif/lean undisturbed)
src = wt / 'seed_out' / k
env = dict(os.environ, PYTHONPATH=str(wt / 'src'))
def sh(cmd, cwd=None, env=env, timeout=3000):
    return subprocess.run(cmd, shell=True, cwd=cwd, env=env, capture_output=True, text=True, timeout=timeout)
res = {}
assert sh('git status --porcelain -- src', wt).stdout.strip() == '', 'worktree src not clean'
r = sh(f'/venv/bin/python {src}/demo.py', wt); res['demo_unchanged_exit'] = r.returncode
r = sh(f'git apply {src}/patch.diff', wt); assert r.returncode == 0, r.stderr
try:
    r = sh(f'/venv/bin/python {src}/demo.py', wt); res['demo_patched_exit'] = r.returncode
    res['demo_patched_output'] = (r.stdout + r.stderr)[-600:]
    base = json.load(open('/root/.vp/BASELINE.json'))
    xml = tempfile.mktemp(suffix='.xml')
    sh(f'/venv/bin/python -m pytest -ra -q -p no:cacheprovider --timeout=900 --continue-on-collection-errors --junitxml={xml} tests', wt)
    passed = {f"{tc.get('classname')}::{tc.get('name')}" for tc in ET.parse(xml).getroot().iter('testcase')
              if not any(ch.tag in ('failure', 'error', 'skipped') for ch in tc)}
    os.unlink(xml)
    res['tests_not_passing_with_patch'] = [t for t in base['stable_pass'] if t not in passed]
finally:
    sh('git checkout -- src', wt)
# my checks against a scratch copy of /repo/src with the patch applied (AMISC_SRC), so that /repo itself is never modified while
# background sweeps / vp check read it; `INREPO=1` applies to /repo instead (git apply ... git checkout -- .)
checks = {}
if os.environ.get('INREPO'):
    assert sh('git status --porcelain', '/repo', env=os.environ).stdout.strip() == '', '/repo not clean'
    r = sh(f'git -C /repo apply {src}/patch.diff', env=os.environ); assert r.returncode == 0, r.stderr
    cenv = dict(os.environ)
else:
    scratch = Path(tempfile.mkdtemp(prefix='amisc_seed_'))
    shutil.copytree('/repo/src', scratch / 'src')
    r = sh(f'patch -p1 -d {scratch} < {src}/patch.diff', env=os.environ); assert r.returncode == 0, r.stdout + r.stderr
    cenv = dict(os.environ, AMISC_SRC=str(scratch / 'src'))
try:
    for p in [prop] + extra:
        r = sh(f'./check {p} quick', CHK, env=cenv)
        checks[p] = {'exit': r.returncode, 'lines': [l for l in r.stdout.splitlines() if l.startswith(('VIOLATION', 'KNOWN', '['))][:4]}
finally:
    if os.environ.get('INREPO'):
        sh('git -C /repo checkout -- .', env=os.environ)
    else:
        shutil.rmtree(scratch, ignore_errors=True)
res['checks_with_patch'] = checks
out = V / 'seeded' / f'{prop}-{os.environ.get("OUTK", k)}'
out.mkdir(parents=True, exist_ok=True)
shutil.copy(src / 'patch.diff', out / 'patch.diff'); shutil.copy(src / 'demo.py', out / 'demo.py')
meta = json.loads((src / 'meta.json').read_text())
meta['verified_by_me'] = res
meta['what_i_ran'] = ('scratch worktree: demo unchanged / demo patched / baseline pytest with patch; patched copy of /repo/src (AMISC_SRC): ./check '
                      + ' '.join([prop] + extra) + ' quick')
(out / 'meta.json').write_text(json.dumps(meta, indent=1))
ok = res['demo_unchanged_exit'] == 0 and res['demo_patched_exit'] != 0 and not res['tests_not_passing_with_patch']
print(json.dumps({'valid_seed': ok, 'caught': {p: c['exit'] == 1 for p, c in checks.items()}, **res}, indent=1)[:3000])
