#!/venv/bin/python
"""Development-time mutant self-test (not a registered command).
usage: tools/mutate.py <mutant-id|all> [props...]   — applies a catalogue mutant to a scratch copy of /repo/src (removed
afterwards), points the checks at it with AMISC_SRC and reports the exit codes."""
import json, os, shutil, subprocess, sys, tempfile, time
from pathlib import Path
VERIF = Path(__file__).resolve().parents[1]
cat = json.loads((VERIF / 'tools' / 'mutants.json').read_text())

def run_one(mid, props):
    m = cat[mid]
    td = Path(tempfile.mkdtemp(prefix='amisc_mut_'))
    try:
        shutil.copytree('/repo/src', td / 'src')
        f = td / 'src' / 'amisc' / m['file']
        s = f.read_text()
        assert s.count(m['old']) >= 1, f'{mid}: pattern not found'
        s = s.replace(m['old'], m['new'], 1 if not m.get('all') else -1)
        f.write_text(s)
        for extra in m.get('also', []):
            f2 = td / 'src' / 'amisc' / extra['file']
            s2 = f2.read_text()
            assert s2.count(extra['old']) >= 1, f'{mid}: extra pattern not found'
            f2.write_text(s2.replace(extra['old'], extra['new'], 1))
        env = dict(os.environ, AMISC_SRC=str(td / 'src'))
        out = {}
        for p in (props or m['props']):
            t = time.time()
            r = subprocess.run([str(VERIF / 'check'), p, 'quick'], env=env, capture_output=True, text=True, cwd=VERIF)
            viol = [l for l in r.stdout.splitlines() if l.startswith('VIOLATION')]
            out[p] = (r.returncode, viol[:1], round(time.time() - t, 1))
            if r.returncode == 2:
                print(r.stdout[-1500:], r.stderr[-1500:])
        exp = 'benign' if m.get('benign') else 'KILL'
        print(mid, exp, out, flush=True)
    finally:
        shutil.rmtree(td, ignore_errors=True)

ids = list(cat) if sys.argv[1] == 'all' else [sys.argv[1]]
for mid in ids:
    try:
        run_one(mid, sys.argv[2:])
    except AssertionError as e:      # a catalogue pattern that no longer occurs in the (repaired) source: reported, not fatal
        print(mid, 'STALE', e, flush=True)
