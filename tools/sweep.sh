#!/bin/bash
# background sweep (vp run): rebuild, then every claimed check, quick tier with several seeds and thorough once
cd "$(dirname "$0")/.."
./setup.sh > /dev/null 2>&1
props=$(/venv/bin/python -c "import json; print(' '.join(c['property_id'] for c in json.load(open('MANIFEST.json'))['checks']))")
for s in ${SEEDS:-2 3 4 5 6}; do
  for p in $props; do
    out=$(VERIF_SEED=$s timeout 1800 ./check $p quick 2>&1); rc=$?
    echo "quick seed=$s $p rc=$rc $(echo "$out" | grep -E '^\[|VIOLATION' | tr '\n' ' ' | cut -c1-300)"
  done
done
if [ -n "$THOROUGH" ]; then
  for p in $props; do
    t0=$(date +%s); out=$(VERIF_SEED=0 timeout 3600 ./check $p thorough 2>&1); rc=$?
    echo "thorough $p rc=$rc $(( $(date +%s) - t0 ))s $(echo "$out" | grep -E '^\[|VIOLATION' | tr '\n' ' ' | cut -c1-300)"
  done
fi
