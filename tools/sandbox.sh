#!/bin/bash
# sync a private copy of /verif (incl. the Lean build output) to $1 (default /tmp/verif_sb) and build it: seed / mutant runs
# that regenerate fragments from PATCHED sources then never disturb the live lean directory
SB=${1:-/tmp/verif_sb}
mkdir -p "$SB"
rsync -a --delete --exclude .git --exclude replays /verif/ "$SB"/
cd "$SB" && ./setup.sh > /dev/null 2>&1 && echo "sandbox ready: $SB"
