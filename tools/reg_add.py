#!/usr/bin/env python3
"""tools/reg_add.py <prop> <theorem>... : add fully-qualified theorem names to lean/registry.json (idempotent)."""
import json, sys
p = '/verif/lean/registry.json'
r = json.load(open(p)); prop = sys.argv[1]
for t in sys.argv[2:]:
    t = t if t.startswith('Amisc.') else f'Amisc.{prop}.{t}'
    if t not in r[prop]['theorems']: r[prop]['theorems'].append(t)
json.dump(r, open(p, 'w'), indent=1); print(prop, len(r[prop]['theorems']))
