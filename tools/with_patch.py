#!/venv/bin/python
"""usage: tools/with_patch.py <patch.diff> <prop> [props...] [--tier quick|thorough]
Applies the patch to a scratch copy of /repo/src (removed afterwards) and runs the checks against it with AMISC_SRC."""
import os, shutil, subprocess, sys, tempfile
from pathlib import Path
args = sys.argv[1:]
tier = 'quick'
if '--tier' in args:
    i = args.index('--tier'); tier = args[i + 1]; del args[i:i + 2]
patch, props = Path(args[0]).resolve(), args[1:]
scratch = Path(tempfile.mkdtemp(prefix='amisc_patch_'))
try:
    shutil.copytree('/repo/src', scratch / 'src')
    r = subprocess.run(f'patch -p1 -d {scratch} < {patch}', shell=True, capture_output=True, text=True)
    assert r.returncode == 0, r.stdout + r.stderr
    env = dict(os.environ, AMISC_SRC=str(scratch / 'src'))
    for p in props:
        r = subprocess.run(['./check', p, tier], cwd=os.environ.get('CHECK_ROOT', '/verif'), env=env, capture_output=True, text=True)
        lines = [l for l in r.stdout.splitlines() if l.startswith(('VIOLATION', 'KNOWN', '['))]
        print(p, 'exit', r.returncode); print('\n'.join('   ' + l[:260] for l in lines[:6]))
        if r.returncode == 2:
            print(r.stdout[-1500:], r.stderr[-1500:])
finally:
    shutil.rmtree(scratch, ignore_errors=True)
