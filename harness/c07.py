"""C07: feed-forward System.predict is the composition of components in dependency order.

(A) exact: random DAGs of components with small-integer polynomial models (float arithmetic exact) evaluated with the
    underlying models (no surrogate / use_model) — compared bitwise with the Lean model `Amisc.predictFF` (exact
    rationals), over listing permutations, target subsets, raw vs normalised inputs;
(B) surrogate mode: trained systems — System.predict vs manual chaining of Component.predict in a topological order
    computed by the harness, per-component overrides (model / train / test), partial targets."""
from __future__ import annotations

import itertools
import random

import numpy as np

from harness.lib import core
from harness.lib.core import rat_str
from harness import comp_common as cc

from amisc import Component, Variable, System  # noqa: E402
from amisc.training import SparseGrid  # noqa: E402


def gen_dag(rng, ncomp=None):
    ncomp = ncomp or rng.randint(2, 6)
    nexo = rng.randint(1, 4)
    exo = [f'x{i}' for i in range(nexo)]
    avail = list(exo)
    comps = []
    for k in range(ncomp):
        nin = rng.randint(1, min(3, len(avail)))
        # prefer coupling to earlier outputs so that chains / diamonds / fans appear
        prod = [v for v in avail if v.startswith('y')]
        ins = []
        if prod and rng.random() < 0.8:
            ins.append(rng.choice(prod))
        while len(ins) < nin:
            v = rng.choice(avail)
            if v not in ins:
                ins.append(v)
        nout = rng.choice([1, 1, 2])
        outs = [f'y{k}_{o}' for o in range(nout)]
        polys = {}
        for o in outs:
            terms = []
            for _ in range(rng.randint(1, 3)):
                ks = tuple(rng.choice([0, 0, 1, 1, 2]) if rng.random() < 0.8 else 0 for _ in ins)
                if sum(ks) > 2:
                    ks = tuple(min(k_, 1) for k_ in ks)
                terms.append((rng.choice([-2, -1, 1, 2, 3]), ks))
            polys[o] = terms
        comps.append({'name': f'c{k}', 'ins': ins, 'outs': outs, 'polys': polys,
                      'unpacked': (len(ins) + len(outs) >= 3) and rng.random() < 0.5})
        avail.extend(outs)
    used = [v for v in exo if any(v in c['ins'] for c in comps)]
    return {'exo': used, 'comps': comps}


def make_model(c):
    ins, outs, polys = c['ins'], c['outs'], c['polys']

    def model(inputs):
        res = {}
        for o in outs:
            tot = 0.0
            for coef, ks in polys[o]:
                p = float(coef)
                for v, k in zip(ins, ks):
                    p = p * inputs[v] ** k
                tot = tot + p
            res[o] = tot
        return res
    return model


def make_model_unpacked(c):
    """the same polynomial model with the documented unpacked signature `f(a, b) -> (c, d)`: arguments and return values are
    positional, in the order in which the component declares its inputs / outputs"""
    ins, outs = c['ins'], c['outs']
    dict_model = make_model(c)

    def call(*args):
        r = dict_model(dict(zip(ins, args)))
        return tuple(r[o] for o in outs) if len(outs) > 1 else r[outs[0]]
    # amisc inspects the signature: the parameters must carry the input names, in the declared order
    import linecache
    ns = {'_call': call}
    # … and the return statement the output names (amisc also inspects it)
    src = f"def model({', '.join(ins)}):\n    {', '.join(outs)} = _call({', '.join(ins)})\n    return {', '.join(outs)}\n"
    fname = f"<c07_unpacked_{c['name']}_{abs(hash(src)) % 10 ** 8}>"
    linecache.cache[fname] = (len(src), None, src.splitlines(True), fname)     # so that inspect.getsource works
    exec(compile(src, fname, 'exec'), ns)
    return ns['model']


def build_exact_system(dag, order, norms):
    vars_ = {}

    def var(n):
        if n not in vars_:
            vars_[n] = Variable(n, domain=(-4.0, 4.0) if n.startswith('x') else (-1e6, 1e6), norm=norms.get(n))
        return vars_[n]
    comps = []
    for i in order:
        c = dag['comps'][i]
        if c.get('unpacked'):
            comps.append(Component(make_model_unpacked(c), inputs=[var(v) for v in c['ins']], outputs=[var(v) for v in c['outs']],
                                   name=c['name'], vectorized=True, call_unpacked=True, ret_unpacked=True))
        else:
            comps.append(Component(make_model(c), inputs=[var(v) for v in c['ins']], outputs=[var(v) for v in c['outs']],
                                   name=c['name'], vectorized=True))
    return System(*comps, name='sysA')


def lean_lines(dag, order, x, targets):
    lines = ['sys.reset']
    for i in order:
        c = dag['comps'][i]
        outs = ' | '.join(f'{o} : ' + ' ; '.join(f'{coef} ' + ' '.join(map(str, ks)) for coef, ks in c['polys'][o])
                          for o in c['outs'])
        lines.append(f'sys.comp {c["name"]} | {" ".join(c["ins"])} | {outs}')
    lines.append('sys.predict ' + ' '.join(f'{k}={rat_str(v)}' for k, v in x.items()) + ' | ' + ' '.join(targets))
    return lines


def run_exact(ctx, res, dag, lines, post):
    rng = ctx.rng
    n = len(dag['comps'])
    perms = list(itertools.permutations(range(n))) if n <= 3 else [tuple(rng.sample(range(n), n)) for _ in range(5)]
    perms = [tuple(range(n))] + [p for p in perms if p != tuple(range(n))][:5]
    all_out = [o for c in dag['comps'] for o in c['outs']]
    xs = {v: float(rng.choice([-3, -2, -1, 0, 1, 2, 3, 0.5, -1.5])) for v in dag['exo']}
    norms = {v: rng.choice([None, 'linear(0.5, 1)', 'linear(2, -1)']) for v in dag['exo']}
    ref = None
    for pi, perm in enumerate(perms):
        system = build_exact_system(dag, perm, norms)
        xin = {k: np.array([v, v + 1.0]) for k, v in xs.items()}
        try:
            y = system.predict(xin, use_model='best', normalized_inputs=False)
        except Exception as e:  # noqa: BLE001
            res.failures.append({'kind': 'predict-raised', 'input': {'dag': dag, 'listing': list(perm)},
                                 'observed': repr(e)[:300]})
            continue
        got = {o: float(np.asarray(y[o])[0]) for o in all_out if o in y}
        if set(got) != set(all_out):
            res.failures.append({'kind': 'missing-outputs', 'input': {'dag': dag, 'listing': list(perm)},
                                 'observed': sorted(got), 'expected': all_out})
        if ref is None:
            ref = got
            lines.extend(lean_lines(dag, perm, xs, []))
            post.extend([None] * (len(dag['comps']) + 1) + [('exact', dag, list(perm), xs, got)])
        elif got != ref:
            res.failures.append({'kind': 'result-depends-on-listing-order', 'input': {'dag': dag, 'listing': list(perm), 'x': xs},
                                 'observed': got, 'expected': ref})
        res.hit('listing-permutation')
        if pi == 0:
            # the model side must not depend on the listing order either (different order -> same values)
            perm2 = tuple(reversed(perm))
            lines.extend(lean_lines(dag, perm2, xs, []))
            post.extend([None] * (len(dag['comps']) + 1) + [('exact', dag, list(perm2), xs, got)])
            # requested-output subsets
            deepest = [list(dag['comps'][-1]['outs']), [dag['comps'][-1]['outs'][0]]]   # a target with the longest ancestry
            for ti in range(4):
                tg = deepest[ti] if ti < 2 else rng.sample(all_out, rng.randint(1, len(all_out)))
                yt = system.predict(xin, use_model='best', normalized_inputs=False, targets=tg)
                for o in tg:
                    if o not in yt or float(np.asarray(yt[o])[0]) != ref[o]:
                        res.failures.append({'kind': 'target-subset-changes-values',
                                             'input': {'dag': dag, 'targets': tg, 'x': xs},
                                             'observed': None if o not in yt else float(np.asarray(yt[o])[0]),
                                             'expected': ref[o]})
                res.hit('target-subset')
            # normalised inputs
            xn = {k: system.inputs()[k].normalize(np.array([v, v + 1.0])) for k, v in xs.items()}
            yn = system.predict(xn, use_model='best', normalized_inputs=True)
            for o in all_out:
                if float(np.asarray(yn[o])[0]) != ref[o]:
                    res.failures.append({'kind': 'raw-vs-normalised-inputs-differ', 'input': {'dag': dag, 'x': xs, 'norms': norms},
                                         'observed': float(np.asarray(yn[o])[0]), 'expected': ref[o]})
            res.hit('normalised-inputs')
    # raw / normalised forms: coupling variables carry (dyadic, hence exact) linear normalisations too, a random SUBSET of the
    # components is evaluated through its model (`use_model` per component), the others through the surrogate-form path, and the
    # inputs are handed over raw or normalised: every number `System.predict` returns must be the one the forms model holds
    # (`sweepF`: value in the form recorded for it), which by `C07.decode_sweepF` stands for the plain composition
    if ref is not None:
        lin = {None: (1.0, 0.0), 'linear(0.5, 1)': (0.5, 1.0), 'linear(2, -1)': (2.0, -1.0), 'linear(4, 3)': (4.0, 3.0)}
        norms2 = dict(norms)
        for o in all_out:
            norms2[o] = rng.choice([None, 'linear(0.5, 1)', 'linear(2, -1)', 'linear(4, 3)'])
        names = [c['name'] for c in dag['comps']]
        for _ in range(2):
            ums = [nme for nme in names if rng.random() < 0.5]
            ni = rng.random() < 0.5
            sysf = build_exact_system(dag, perms[0], norms2)
            xgiven = {k: (float(sysf.inputs()[k].normalize(np.array([v]))[0]) if ni else v) for k, v in xs.items()}
            try:
                yf = sysf.predict({k: np.array([v]) for k, v in xgiven.items()}, use_model={nme: 'best' for nme in ums},
                                  normalized_inputs=ni)
            except Exception as e:  # noqa: BLE001
                res.failures.append({'kind': 'predict-raised', 'input': {'dag': dag, 'use_model': ums, 'norms': norms2, 'normalized_inputs': ni},
                                     'observed': repr(e)[:300]})
                continue
            gotf = {o: float(np.asarray(yf[o]).reshape(-1)[0]) for o in all_out if o in yf}
            lines.extend(lean_lines(dag, perms[0], xs, [])[:-1])
            post.extend([None] * (len(dag['comps']) + 1))
            lines.append('sys.forms ' + ' '.join(ums) + ' | ' + ' '.join(f'{v}={rat_str(lin[nn][0])}:{rat_str(lin[nn][1])}' for v, nn in norms2.items() if nn)
                         + ' | ' + ' '.join(f'{k}={rat_str(v)}' for k, v in xgiven.items()) + ' | ' + ('1' if ni else '0'))
            post.append(('forms', dag, {'use_model': ums, 'norms': {k: v for k, v in norms2.items() if v}, 'normalized_inputs': ni, 'x': xgiven}, gotf))
            # … and the physical values are those of the reference run, whatever the path selection
            for o in all_out:
                m_, b_ = lin[norms2[o]]
                raw = gotf[o] if (sysf.get_component(next(c['name'] for c in dag['comps'] if o in c['outs'])).name in ums) else (gotf[o] - b_) / m_
                if raw != ref[o]:
                    res.failures.append({'kind': 'physical-value-depends-on-evaluation-paths-or-input-form',
                                         'input': {'dag': dag, 'use_model': ums, 'norms': norms2, 'normalized_inputs': ni, 'x': xs, 'output': o},
                                         'observed': raw, 'expected': ref[o]})
            res.hit('mixed-paths-and-forms')
    res.case(('exact', str(dag)), len(dag['comps']) >= 3, {'dag': dag, 'x': xs, 'outputs': ref})


def run_mutations(ctx, res, dag):
    """a system that has already been USED is edited through the public API (swap_component with a same-named component that
    is wired differently, remove_component + insert_components) and must then predict exactly what a freshly built system of
    the final components predicts (no dependence on how / in which order the components were inserted)"""
    import copy
    rng = ctx.rng
    n = len(dag['comps'])
    # consumers listed BEFORE their producers in half of the cases (the listing must not matter, before or after the edits)
    perm = tuple(reversed(range(n))) if rng.random() < 0.5 else tuple(rng.sample(range(n), n))
    norms = {}
    system = build_exact_system(dag, perm, norms)
    xs = {v: float(rng.choice([-3, -2, -1, 1, 2, 3, 0.5, -1.5])) for v in dag['exo']}
    xin = {k: np.array([v, v + 1.0]) for k, v in xs.items()}
    try:
        system.predict(dict(xin), use_model='best', normalized_inputs=False)     # the system has been used before the edits
        system.graph()
    except Exception as e:  # noqa: BLE001
        res.failures.append({'kind': 'predict-raised', 'input': {'dag': dag, 'listing': list(perm)}, 'observed': repr(e)[:300]})
        return
    dag2 = copy.deepcopy(dag)
    ops = []
    for _ in range(rng.randint(1, 3)):
        k = rng.randrange(n)
        c = dag2['comps'][k]
        if rng.random() < 0.65 and k >= 1:
            # rewire: same name, same outputs, same polynomial shapes, other inputs (exogenous <-> outputs of earlier components)
            avail = list(dag['exo']) + [o for cc_ in dag2['comps'][:k] for o in cc_['outs']]
            cand = [v for v in avail if v not in c['ins']]
            if not cand:
                continue
            # prefer a NEW dependency on a component that is listed after the rewired one, replacing an exogenous input
            later = [v for v in cand if v.startswith('y') and
                     perm.index(int(v[1:].split('_')[0])) > perm.index(k)]
            exo_pos = [jj for jj, v in enumerate(c['ins']) if v.startswith('x')]
            j = rng.choice(exo_pos) if exo_pos and rng.random() < 0.7 else rng.randrange(len(c['ins']))
            c['ins'] = c['ins'][:j] + [rng.choice(later or cand)] + c['ins'][j + 1:]
            vars_ = {str(v): v for cc_ in system.components for v in list(cc_.inputs) + list(cc_.outputs)}

            def var(nm):
                return vars_.get(nm) or Variable(nm, domain=(-4.0, 4.0) if nm.startswith('x') else (-1e6, 1e6))
            newc = Component(make_model(c), inputs=[var(v) for v in c['ins']], outputs=[var(v) for v in c['outs']],
                             name=c['name'], vectorized=True)
            system.swap_component(c['name'], newc)
            ops.append(['swap', c['name'], list(c['ins'])])
        else:
            old = system[c['name']]
            system.remove_component(c['name'])
            system.insert_components(old)
            ops.append(['remove+insert', c['name']])
    info = {'dag': dag, 'listing': list(perm), 'edits': ops, 'x': xs}
    need = [str(v) for v in system.inputs()]
    if any(v not in xin for v in need):
        return
    fresh = build_exact_system(dag2, tuple(range(n)), norms)
    x2 = {k: xin[k] for k in need}
    try:
        exp = fresh.predict(dict(x2), use_model='best', normalized_inputs=False)
    except Exception:  # noqa: BLE001
        return
    try:
        got = system.predict(dict(x2), use_model='best', normalized_inputs=False)
    except Exception as e:  # noqa: BLE001
        res.failures.append({'kind': 'edited-system-raises-where-a-fresh-system-of-the-same-components-predicts', 'input': info,
                             'observed': repr(e)[:300]})
        return
    for o in exp:
        if o not in got or not np.array_equal(np.asarray(got[o]), np.asarray(exp[o]), equal_nan=True):
            res.failures.append({'kind': 'edited-system-differs-from-fresh-system-of-the-same-components',
                                 'input': {**info, 'output': o},
                                 'observed': None if o not in got else np.asarray(got[o]).tolist(),
                                 'expected': np.asarray(exp[o]).tolist()})
    res.hit('edited-system-' + '+'.join(sorted({o[0] for o in ops})) if ops else 'edited-system-none')
    res.case(('edits', str(dag), str(ops)), bool(ops), {'dag': dag, 'edits': ops})


def run_assembly(ctx, res, dag):
    """the same components — each declaring its OWN variable objects, the producer of a variable richly (domain, normalisation), its
    consumers by bare name — assembled in different ways: listed in the constructor (two orders), inserted one by one, inserted as
    a list. Every assembly must predict what the constructor-built system predicts, through every prediction path"""
    rng = ctx.rng
    n = len(dag['comps'])
    norms = {v: rng.choice([None, 'linear(0.5, 1)', 'linear(2, -1)']) for v in dag['exo']}
    for c in dag['comps']:
        for o in c['outs']:
            norms[o] = rng.choice([None, None, 'linear(0.25, 2)'])

    def parts():
        declared, comps = set(), []
        for c in dag['comps']:
            def var(nm, c=c):
                rich = (nm in c['outs']) or (nm.startswith('x') and nm not in declared)
                if rich:
                    declared.add(nm)
                    return Variable(nm, domain=(-4.0, 4.0) if nm.startswith('x') else (-1e6, 1e6), norm=norms.get(nm))
                return Variable(nm)
            outs = [var(v) for v in c['outs']]
            ins = [var(v) for v in c['ins']]
            comps.append(Component(make_model(c), inputs=ins, outputs=outs, name=c['name'], vectorized=True))
        return comps

    def assemblies():
        cs = parts(); yield 'constructor(reversed)', System(*reversed(cs), name='s1')
        cs = parts(); order = rng.sample(range(n), n)
        s_ = System(cs[order[0]], name='s2')
        for i in order[1:]:
            s_.insert_components(cs[i])
        yield f'inserted one by one {order}', s_
        cs = parts(); order = rng.sample(range(n), n); k = rng.randint(1, n - 1) if n > 1 else 1
        s_ = System(*[cs[i] for i in order[:k]], name='s3')
        if order[k:]:
            s_.insert_components([cs[i] for i in order[k:]])
        yield f'constructor {order[:k]} + insert list {order[k:]}', s_
    try:
        ref_sys = System(*parts(), name='s0')
        xs = {v: np.array([float(rng.choice([-3, -2, -1, 1, 2, 3, 0.5, -1.5])), 0.75]) for v in dag['exo']}
        xn = {k: ref_sys.inputs()[k].normalize(v) for k, v in xs.items()}
        calls = [('default path, normalised inputs', lambda s_: s_.predict(dict(xn))),
                 ('default path, raw inputs', lambda s_: s_.predict(dict(xs), normalized_inputs=False)),
                 ("use_model='best', raw inputs", lambda s_: s_.predict(dict(xs), use_model='best', normalized_inputs=False))]
        refs = [call(ref_sys) for _, call in calls]
    except Exception as e:  # noqa: BLE001
        res.failures.append({'kind': 'predict-raised', 'input': {'dag': dag, 'assembly': 'constructor'}, 'observed': repr(e)[:300]})
        return
    for tag, s_ in assemblies():
        for (cname, call), ref in zip(calls, refs):
            info = {'dag': dag, 'norms': norms, 'assembly': tag, 'call': cname}
            try:
                got = call(s_)
            except Exception as e:  # noqa: BLE001
                res.failures.append({'kind': 'assembled-system-raises-where-the-constructor-built-system-predicts', 'input': info,
                                     'observed': repr(e)[:300]})
                continue
            for o in ref:
                if o not in got or not np.allclose(np.asarray(got[o]), np.asarray(ref[o]), rtol=1e-12, atol=1e-12, equal_nan=True):
                    res.failures.append({'kind': 'prediction-depends-on-how-the-system-was-assembled', 'input': {**info, 'output': o},
                                         'observed': None if o not in got else np.asarray(got[o]).tolist(),
                                         'expected': np.asarray(ref[o]).tolist()})
        res.hit('assembly-' + tag.split(' ')[0])
    res.case(('assembly', str(dag)), n >= 3, {'dag': dag, 'norms': norms})


def topo_order(system):
    produced = {str(o): c.name for c in system.components for o in c.outputs}
    done, order = set(), []
    comps = list(system.components)
    while comps:
        for c in comps:
            if all((str(v) not in produced) or (produced[str(v)] in done) for v in c.inputs):
                order.append(c); done.add(c.name); comps.remove(c)
                break
        else:
            raise RuntimeError('cycle')
    return order


def manual_chain(system, x_norm, overrides, index_sets):
    """evaluate components one by one in a topological order (normalised variable space between surrogates)"""
    env = dict(x_norm)           # normalised values
    normed = {k: True for k in env}
    for c in topo_order(system):
        use_model = overrides.get(c.name)
        call_model = use_model is not None or not c.has_surrogate
        inp = {}
        for v in c.inputs:
            val = env[str(v)]
            if use_model is not None:
                inp[str(v)] = v.denormalize(val) if normed[str(v)] else val
            else:
                inp[str(v)] = val if normed[str(v)] else v.normalize(val)
        out = c.predict(inp, use_model=use_model, index_set=index_sets.get(c.name, 'test'))
        for k, arr in out.items():
            env[k] = arr
            normed[k] = use_model is None
    return env, normed


def run_surrogate(ctx, res, seed):
    rng = random.Random(seed)
    # chain / diamond with surrogates: c0: (x0,x1)->y0 ; c1: (y0,x1)->y1 ; c2: (y0,x0)->y2 ; c3 (no surrogate): (y1,y2)->y3
    norm_y0 = rng.choice([None, 'linear(0.5, 1)'])
    x0 = Variable('x0', domain=(0.0, 1.0), norm=rng.choice([None, 'linear(2, 1)']))
    x1 = Variable('x1', domain=(-1.0, 1.0))
    y0 = Variable('y0', domain=(-1.0, 3.0), norm=norm_y0)
    # which component has NO surrogate: the last one, or one in the MIDDLE of the chain whose (normalised) output feeds a
    # surrogate component downstream
    nosurr = ['c3', 'c1'][seed % 2]
    y1 = Variable('y1', domain=(-3.0, 6.0), norm=rng.choice([None, 'linear(0.1, 2)']) if nosurr == 'c3' else 'linear(0.1, 2)')
    y2 = Variable('y2', domain=(-2.0, 5.0), norm=rng.choice([None, 'linear(3, -1)'])); y3 = Variable('y3')
    sgk = dict(opt_args={'locally_biased': False, 'maxfun': 60})

    def m0(inputs): return {'y0': np.exp(0.5 * inputs['x0']) + inputs['x1'] ** 2}
    def m1(inputs): return {'y1': np.sin(inputs['y0']) + 2 * inputs['x1']}
    def m2(inputs): return {'y2': inputs['y0'] * inputs['x0'] + 0.5}
    def m3(inputs): return {'y3': inputs['y1'] - 2 * inputs['y2']}
    comps = [Component(m0, inputs=[x0, x1], outputs=[y0], name='c0', vectorized=True, data_fidelity=(2, 2),
                       training_data=SparseGrid(**sgk)),
             (Component(m1, inputs=[y0, x1], outputs=[y1], name='c1', vectorized=True, data_fidelity=(2, 2),
                        training_data=SparseGrid(**sgk)) if nosurr != 'c1' else
              Component(m1, inputs=[y0, x1], outputs=[y1], name='c1', vectorized=True)),
             Component(m2, inputs=[y0, x0], outputs=[y2], name='c2', vectorized=True, data_fidelity=(2, 2),
                       training_data=SparseGrid(**sgk)),
             (Component(m3, inputs=[y1, y2], outputs=[y3], name='c3', vectorized=True) if nosurr == 'c3' else
              Component(m3, inputs=[y1, y2], outputs=[y3], name='c3', vectorized=True, data_fidelity=(1, 1),
                        training_data=SparseGrid(**sgk)))]
    listing = rng.sample(range(4), 4)
    system = System(*[comps[i] for i in listing], name='sysB')
    np.random.seed(seed % 2 ** 31)
    system.fit(max_iter=rng.randint(5, 9), num_refine=30, max_tol=-np.inf, update_bounds=False)
    np.random.seed(seed % 2 ** 31 + 1)
    xs = system.sample_inputs(6)
    # `()` is the (only) explicit fidelity of a component without model-fidelity indices: a per-component override like any other
    configs = [({}, {}), ({'c1': 'best'}, {}), ({}, {'c0': 'train'}), ({'c0': 'best', 'c2': 'best'}, {'c1': 'train'}),
               ({'c3': 'best'}, {}), ({'c2': ()}, {}), ({'c0': (), 'c3': ()}, {'c2': 'train'})]
    for overrides, isets in configs:
        um = {c.name: overrides.get(c.name) for c in system.components} if overrides else None
        iset = {c.name: isets.get(c.name, 'test') for c in system.components}
        try:
            y = system.predict(xs, use_model=um, index_set=iset)
        except Exception as e:  # noqa: BLE001
            res.failures.append({'kind': 'predict-raised', 'input': {'seed': seed, 'overrides': overrides, 'index_sets': isets},
                                 'observed': repr(e)[:300]})
            continue
        env, normed = manual_chain(system, xs, overrides, iset)
        for o in ('y0', 'y1', 'y2', 'y3'):
            a, b = np.asarray(y[o]), np.asarray(env[o])
            if not np.allclose(a, b, rtol=1e-12, atol=1e-13):
                res.failures.append({'kind': 'system-predict-differs-from-manual-composition',
                                     'input': {'seed': seed, 'listing': listing, 'overrides': overrides, 'index_sets': isets,
                                               'output': o}, 'observed': a.tolist(), 'expected': b.tolist()})
        res.hit('surrogate-config-' + ('override' if overrides or isets else 'default'))
        # partial targets
        tg = rng.sample(['y0', 'y1', 'y2', 'y3'], 2)
        yt = system.predict(xs, use_model=um, index_set=iset, targets=tg)
        for o in tg:
            if o not in yt or not np.array_equal(np.asarray(yt[o]), np.asarray(y[o])):
                res.failures.append({'kind': 'target-subset-changes-values',
                                     'input': {'seed': seed, 'targets': tg, 'overrides': overrides, 'output': o}})
    # an override of one component affects only the outputs that depend on it
    base = system.predict(xs)
    ov = system.predict(xs, use_model={'c1': 'best'})
    for o in ('y0', 'y2'):
        if not np.array_equal(np.asarray(base[o]), np.asarray(ov[o])):
            res.failures.append({'kind': 'override-affects-independent-output', 'input': {'seed': seed, 'override': 'c1', 'output': o}})
    # the same composition when the per-index terms of every component are evaluated through an executor whose tasks complete in
    # reverse order (System.predict hands `executor` down to Component.predict)
    from harness.c15 import ScheduledExecutor
    ex = ScheduledExecutor(lambda n: list(reversed(range(n))))
    try:
        yex = system.predict(xs, executor=ex)
    finally:
        ex.shutdown()
    for o in base:
        a_, b_ = np.asarray(base[o], dtype=float), np.asarray(yex[o], dtype=float)
        if a_.shape != b_.shape or not np.allclose(a_, b_, rtol=1e-10, atol=1e-12, equal_nan=True):
            res.failures.append({'kind': 'system-predict-through-an-executor-differs-from-the-composition',
                                 'input': {'seed': seed, 'output': o, 'executor': 'reverse completion order'},
                                 'observed': b_.reshape(-1)[:5].tolist(), 'expected': a_.reshape(-1)[:5].tolist()})
    res.hit('prediction-through-executor')
    res.hit('surrogate-less-' + ('last' if nosurr == 'c3' else 'middle'))
    res.case(('surrogate', seed), True, {'system': 'c0->(c1,c2)->c3 diamond', 'seed': seed, 'listing': listing, 'no_surrogate': nosurr,
                                         'steps': len(system.train_history)})


def run_nan_sibling(ctx, res, seed):
    """a component that returns NaN for some samples next to a SIBLING that does not depend on it: whatever the listing, the
    sibling's output must be the composition of the components it depends on (known finding F15: it is not)"""
    rng = random.Random(seed)
    thr = rng.choice([0.8, 1.0, 1.2])

    def mk():
        x = Variable('x', domain=(0.0, 1.0)); y0 = Variable('y0', domain=(0.0, 2.0))
        return {'A': Component(lambda inputs: {'y0': inputs['x'] * 2.0}, inputs=[x], outputs=[y0], name='A', vectorized=True),
                'B': Component(lambda inputs: {'yb': np.log(inputs['y0'] - thr)}, inputs=[y0], outputs=[Variable('yb')], name='B',
                               vectorized=True),      # undefined (NaN) for y0 <= thr
                'C': Component(lambda inputs: {'yc': inputs['y0'] + 1.0}, inputs=[y0], outputs=[Variable('yc')], name='C',
                               vectorized=True)}
    xs = np.array([0.05, 0.3, 0.55, 0.7, 0.95])
    expected_yc = xs * 2.0 + 1.0
    import itertools as _it
    for order in _it.permutations('ABC'):
        comps = mk()
        with np.errstate(all='ignore'):
            y = System(*[comps[n] for n in order], name='nansib').predict({'x': xs}, use_model='best')
        yc = np.asarray(y['yc'], dtype=float)
        if not np.allclose(yc, expected_yc, rtol=1e-12, equal_nan=False):
            res.failures.append({'kind': 'output-of-an-independent-sibling-depends-on-the-listing-when-another-component-returns-NaN',
                                 'signature': 'nan-sibling-mask',
                                 'input': {'nan_sibling': seed, 'listing': list(order), 'threshold': thr},
                                 'observed': yc.tolist(), 'expected': expected_yc.tolist()})
        res.hit('nan-sibling-listing')
    res.case(('nan-sibling', seed), True, {'nan_sibling': seed, 'threshold': thr})


def run(ctx: core.Ctx, only=None) -> core.Result:
    res = core.Result()
    res.rule = ('(A) random DAGs (2-6 components, chains/fans/diamonds/shared inputs, 1-2 outputs each) of small-integer '
                'polynomial models, all listing permutations (<= 3 components) or 5 random ones, target subsets, raw vs '
                'normalised inputs: bitwise against the exact Lean model; (B) trained diamond systems with surrogate and '
                'surrogate-less components in random listing order vs manual chaining, overrides and partial targets. '
                'every DAG system is also EDITED after use (swap_component with a same-named, differently wired component; remove + insert) and compared with a fresh system of the final components; non-trivial = >= 3 components.')
    lines, post = [], []
    if only is not None:
        items = [o.get('input', o) for o in only]
    else:
        items = core.corpus_cases('C07') + [{'dag': gen_dag(ctx.rng)} for _ in range(ctx.scale(25, 300))] + \
            [{'seed': 2 * ctx.rng.randrange(10 ** 6) + k % 2} for k in range(ctx.scale(2, 12))]
    if only is None:
        items = items + [{'nan_sibling': ctx.rng.randrange(10 ** 6)}]
    for it in items:
        with core.guarded(res, 'scenario-raised', it):
            if 'nan_sibling' in it:
                run_nan_sibling(ctx, res, it['nan_sibling'])
            elif 'dag' in it:
                run_exact(ctx, res, it['dag'], lines, post)
                if it.get('edits', True):
                    for _ in range(2):
                        run_mutations(ctx, res, it['dag'])
                    run_assembly(ctx, res, it['dag'])
            else:
                run_surrogate(ctx, res, it['seed'])
    out = core.try_driver(lines, res, 'Amisc.predictFF')
    n = min(len(post), len(lines))
    for pst, o in zip(post[:n], (out or [])[:n]):
        if pst is None:
            continue
        if pst[0] == 'forms':
            _, dag, cfg, gotf = pst
            model = {kv.split('=')[0]: float(core.parse_rat(kv.split('=')[1].split(':')[0])) for kv in o.split()}
            if model != gotf:
                res.disagreements.append({'name': 'Amisc.sweepF (raw / normalised forms) vs System.predict(use_model per component)',
                                          'input': {'dag': dag, **cfg}, 'impl': gotf, 'model': model})
            continue
        _, dag, perm, xs, got = pst
        vals, meta = o.split(' | ')
        model = {kv.split('=')[0]: float(core.parse_rat(kv.split('=')[1])) for kv in vals.split()}
        if 'topo=true' not in meta:
            res.disagreements.append({'name': 'model toposort is not topological', 'input': {'dag': dag}, 'model': o})
        if model != got:
            res.disagreements.append({'name': 'Amisc.predictFF vs System.predict(use_model)',
                                      'input': {'dag': dag, 'listing': perm, 'x': xs}, 'impl': got, 'model': model})
    # known finding F15
    kf = {k['id'] for k in core.known_findings() if k.get('status') == 'open' and k['property'] == 'C07'}
    if 'F15' in kf:
        kept = []
        for f_ in res.failures:
            if f_.get('signature') == 'nan-sibling-mask':
                res.known_hits['F15'] = res.known_hits.get('F15', 0) + 1
            else:
                kept.append(f_)
        res.failures = kept
        if res.known_hits.get('F15'):
            res.extra.setdefault('known_lines', []).append(
                ('F15', 'nan-sibling-mask: when a component returns NaN for some samples, System.predict drops those samples '
                        'for every component evaluated LATER in the topological order — also for siblings that do not depend '
                        'on it — so their outputs depend on the order in which the components were listed'))
    return res


ASSUMPTIONS = ['networkx condensation / topological_sort are covered by the correspondence (any topological order is '
               'accepted by the theorem)', 'component behaviour is abstract in the model (a function of its named inputs)']
