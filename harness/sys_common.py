"""Random multi-component training scenarios shared by C08 / C18 / C12 / C13 / C15 / C19 / C20 / C04."""
from __future__ import annotations

import copy
import random

import numpy as np

from harness.lib import core
from harness import comp_common as cc

from amisc import Component, Variable, System  # noqa: E402
from amisc.training import SparseGrid  # noqa: E402

SGK = dict(opt_args={'locally_biased': False, 'maxfun': 60})


def gen_system_spec(rng, allow_alpha=True, allow_nosurr=True, max_comp=3):
    """feed-forward system spec: 2-3 components, transcendental models with distinct sensitivities"""
    ncomp = rng.randint(2, max_comp)
    nexo = rng.randint(2, 3)
    spec = {'exo': [f'x{i}' for i in range(nexo)], 'comps': [], 'seed': rng.randrange(10 ** 9)}
    avail = list(spec['exo'])
    for k in range(ncomp):
        ins = []
        prod = [v for v in avail if v.startswith('y')]
        if prod:
            ins.append(rng.choice(prod))
        while len(ins) < 2:
            v = rng.choice(spec['exo'])
            if v not in ins:
                ins.append(v)
        nosurr = allow_nosurr and k == ncomp - 1 and rng.random() < 0.25
        na = rng.choice([0, 0, 1]) if (allow_alpha and not nosurr) else 0
        spec['comps'].append({
            'name': f'c{k}', 'ins': ins, 'out': f'y{k}', 'na': na,
            'beta': [rng.choice([1, 2]) for _ in ins], 'nosurr': nosurr,
            'w': [round(rng.uniform(0.4, 1.6), 3) for _ in ins], 'kind': rng.choice(['exp', 'sin', 'rat']),
            'cost': rng.choice(['none', 'alpha', 'small', 'big']),
        })
        avail.append(f'y{k}')
    return spec


def comp_fn(c, coupling_domain=(-1.0, 3.0)):
    w, kind = c['w'], c['kind']

    def unit(v, t):     # position of t in the domain of variable v (exogenous inputs live on (0,1))
        lb, ub = (0.0, 1.0) if v.startswith('x') else coupling_domain
        return (t - lb) / (ub - lb)

    def f(alpha, x):
        if kind == 'zero':
            # vanishes on every node of the level-0 and level-1 grids (centre and end points of every input domain): the
            # surrogate stays identically zero — and every error indicator on this output undefined — until level 2
            g = 1.0
            for wi, v in zip(w, c['ins']):
                u = unit(v, x[v])
                g = g * (8.0 * wi * u * (u - 0.5) * (u - 1.0))
            return {c['out']: float(g * (1.0 + 0.15 * sum(alpha)))}
        s = sum(wi * x[v] for wi, v in zip(w, c['ins']))
        a = 1.0 + 0.15 * sum(alpha)
        if kind == 'exp':
            v = np.exp(0.3 * s) * a
        elif kind == 'sin':
            v = np.sin(s) * a + 0.2 * s
        else:
            v = a / (2.0 + s * s)
        return {c['out']: float(v)}
    return f


def cost_of(kind):
    return {'none': None, 'alpha': lambda al, k: 1.0 + 3.0 * sum(al), 'small': lambda al, k: 0.2 + 0.1 * sum(al),
            'big': lambda al, k: 40.0 + 25.0 * sum(al),
            # (absurdly) expensive evaluations: every error indicator (relative change / cost) is far below 1e-8
            'huge': lambda al, k: 2.0e9 + 1.0e9 * sum(al),
            # a cost that differs from call to call (a measured run time)
            'percall': lambda al, k: 1.5 + 3.0 * sum(al) + 0.05 * (k % 7)}[kind]


def build_system(spec, listing=None, name='sys', root_dir=None, vectorized=True, recorders=None, model_wrap=None):
    vars_ = {}
    for i_, v in enumerate(spec['exo']):
        # (different categories: nothing that is learned may depend on them, nor on the order of a set of them)
        vars_[v] = Variable(v, domain=(0.0, 1.0), category=['calibration', 'design', 'operating'][i_ % 3])
    for c in spec['comps']:
        vars_[c['out']] = Variable(c['out'], domain=tuple(spec.get('coupling_domain', (-1.0, 3.0))))
    comps = []
    for c in spec['comps']:
        rec = cc.Recorder(comp_fn(c, tuple(spec.get('coupling_domain', (-1.0, 3.0)))), c['ins'], [c['out']], c['na'], vectorized, cost_of(c['cost']))
        if recorders is not None:
            recorders[c['name']] = rec
        model = rec.model()
        if model_wrap is not None:
            model = model_wrap(c['name'], model)
        kw = {}
        if not c['nosurr']:
            kw = dict(model_fidelity=(1,) * c['na'], data_fidelity=tuple(c['beta']), training_data=SparseGrid(**copy.deepcopy(SGK)))
        comps.append(Component(model, inputs=[vars_[v] for v in c['ins']], outputs=[vars_[c['out']]], name=c['name'],
                               vectorized=vectorized, **kw))
    order = listing if listing is not None else list(range(len(comps)))
    return System(*[comps[i] for i in order], name=name, root_dir=root_dir)


def state_digest(system):
    """canonical, comparable summary of everything that is learned"""
    from harness import index_common as ic
    out = {}
    for c in system.components:
        if not c.has_surrogate:
            continue
        td = c.training_data
        out[c.name] = {
            'state': ic.canon_state(c),
            'costs': sorted((tuple(a) + tuple(b), float(v)) for a, b, v in c.misc_costs),
            'model_costs': sorted((tuple(k), float(v)) for k, v in c.model_costs.items()),
            'grids': {k: [float(x) for x in v] for k, v in td.x_grids.items()},
            'data': sorted((tuple(a), tuple(k), tuple(sorted((kk, repr(vv)) for kk, vv in d.items())))
                           for a, m in td.yi_map.items() for k, d in m.items()),
        }
    out['_history'] = [(r['component'], tuple(r['alpha']), tuple(r['beta']), int(r['num_evals']), float(r['added_cost']),
                        repr(float(r['added_error']))) for r in system.train_history]
    out['_domains'] = {str(v): tuple(map(float, v.get_domain())) if v.get_domain() is not None else None
                       for v in system.variables()}
    return out
