"""C16: normalisation, compression and dataset conversion are inverse and time-stable.

* translator: the `_transform` formulas are regenerated into Lean on every run; the round-trip theorems are re-checked.
* correspondence: `Variable.normalize` / `denormalize` for chains of linear / minmax / zscore transforms (with the
  hyper-parameter propagation of domain and Normal arguments) vs the Lean model `Amisc.normalize` / `denormalize`
  in exact rationals.
* oracle on the real code: round trips for all transform kinds (log included) x distributions x domains; normalised
  domain = image of the domain; System.sample_inputs inside the normalised domains; dataset conversion round trip with
  SVD-compressed field quantities (with / without field normalisation); decoding of stored normalised training inputs
  before and after a domain update (time stability)."""
from __future__ import annotations

import random

import numpy as np

from harness.lib import core
from harness.lib.core import rat_str
from harness import comp_common as cc

from amisc import Component, Variable, System  # noqa: E402
from amisc.compression import SVD  # noqa: E402
from amisc.utils import to_model_dataset, to_surrogate_dataset  # noqa: E402
from amisc.training import SparseGrid  # noqa: E402


def gen_var(rng):
    """a random variable spec: distribution/domain + chain of transforms"""
    lb = rng.choice([-3.0, 0.5, 2.0, 10.0]); w = rng.choice([0.5, 1.0, 4.0, 100.0])
    dist = rng.choice(['none', 'U', 'N', 'LU', 'LN', 'none'])
    spec = {'domain': [lb, lb + w], 'dist': dist}
    if dist == 'N':
        spec['dist_args'] = [lb + w / 2, w / 6]
    elif dist in ('LU',):
        spec['domain'] = [1e-3 * rng.choice([1, 5]), 1e-1 * rng.choice([1, 3])]
    elif dist == 'LN':
        spec['dist_args'] = [rng.choice([-1.0, 0.5]), rng.choice([0.2, 0.5])]
    n = rng.randint(1, 3)
    chain = []
    positive = spec['domain'][0] > 0 and dist != 'N'
    for k in range(n):
        kind = rng.choice(['linear', 'minmax', 'zscore', 'log'] if (positive and k == 0) else ['linear', 'minmax', 'zscore'])
        if kind == 'linear':
            chain.append(f'linear({rng.choice([0.5, 2.0, -1.5, 4.0])}, {rng.choice([0.0, 1.0, -2.0])})')
        elif kind == 'minmax':
            chain.append(rng.choice(['minmax', 'minmax(lb_norm=-1, ub_norm=1)', 'minmax(0.0, 8.0, 0, 1)']))
        elif kind == 'zscore':
            chain.append('zscore' if dist == 'N' else f'zscore({rng.choice([0.0, 1.5])}, {rng.choice([0.5, 2.0])})')
        else:
            chain.append(rng.choice(['log', 'log10', 'log(2)', 'log(10, 2.0)', 'log(offset=0.5)', 'log(10, 1)', 'log(2, 1.0)', 'log(offset=1)']))
    spec['norm'] = chain
    return spec


def gen_valid_var(rng):
    """rejects degenerate chains (a stage whose propagated std / width is 0, i.e. the side conditions `chainOK` of the
    round-trip theorem fail): amisc itself refuses those with 'Transform args may have missing values'"""
    for _ in range(50):
        spec = gen_var(rng)
        try:
            v = make_var(spec)
            z = v.normalize(np.array(v.get_domain(), dtype=float))
            hyper_ok = np.all(np.isfinite(z)) and abs(z[1] - z[0]) > 1e-9
            if hyper_ok:
                return spec
        except (RuntimeError, FloatingPointError, ZeroDivisionError):
            continue
    raise RuntimeError('could not generate a valid variable spec')


def make_var(spec, name='v'):
    kw = {}
    d = spec['dist']
    if d == 'U':
        kw['distribution'] = f'U({spec["domain"][0]}, {spec["domain"][1]})'
    elif d == 'N':
        kw['distribution'] = f'N({spec["dist_args"][0]}, {spec["dist_args"][1]})'
        kw['domain'] = tuple(spec['domain'])
    elif d == 'LU':
        kw['distribution'] = f'LU({spec["domain"][0]}, {spec["domain"][1]})'
    elif d == 'LN':
        kw['distribution'] = f'LN({spec["dist_args"][0]}, {spec["dist_args"][1]})'
    else:
        kw['domain'] = tuple(spec['domain'])
    return Variable(name, norm=spec['norm'], **kw)


def lean_chain(var):
    """encode the variable's transform chain for the driver (None if it contains a Log stage)"""
    from amisc.transform import Linear, Minmax, Zscore, Log
    toks = []
    for t in var.norm:
        a = t.transform_args
        if isinstance(t, Linear):
            toks.append(f'lin:{rat_str(a[0])}:{rat_str(a[1])}')
        elif isinstance(t, Minmax):
            lb, ub = (0.0, 0.0) if np.any(np.isnan(a[:2])) else a[:2]
            toks.append(f'mm:{rat_str(lb)}:{rat_str(ub)}:{rat_str(a[2])}:{rat_str(a[3])}')
        elif isinstance(t, Zscore):
            mu, sd = (0.0, 0.0) if np.any(np.isnan(a)) else a
            toks.append(f'z:{rat_str(mu)}:{rat_str(sd)}')
        elif isinstance(t, Log):
            return None
    return toks


def run_variable_case(ctx, res, spec, lines, post):
    from amisc.distribution import Normal
    var = make_var(spec)
    rng = random.Random(repr(spec))
    dom = var.get_domain()
    xs = np.array([dom[0], dom[1], dom[0] + 0.3 * (dom[1] - dom[0]), dom[0] + 0.77 * (dom[1] - dom[0]),
                   dom[0] - 0.1 * (dom[1] - dom[0]) if dom[0] - 0.1 * (dom[1] - dom[0]) > 0 or 'log' not in str(spec['norm']) else dom[0] * 1.01])
    z = var.normalize(xs)
    back = var.denormalize(z)
    info = {'spec': spec}
    scale = np.maximum(1.0, np.abs(xs))
    if not np.all(np.abs(back - xs) <= 1e-9 * scale):
        res.failures.append({'kind': 'denormalize(normalize(x)) != x', 'input': info, 'observed': back.tolist(), 'expected': xs.tolist()})
    z2 = var.normalize(var.denormalize(z))
    if not np.all(np.abs(z2 - z) <= 1e-9 * np.maximum(1.0, np.abs(z))):
        res.failures.append({'kind': 'normalize(denormalize(z)) != z', 'input': info, 'observed': z2.tolist(), 'expected': z.tolist()})
    # the same values handed over in other containers / dtypes (integer array, float32 array, list, scalar): same normalised values
    ints = [v for v in range(int(np.ceil(dom[0])), int(np.floor(dom[1])) + 1)][:5]
    if ints and len(spec['norm']) >= 1:
        ref_z = np.asarray(var.normalize(np.array(ints, dtype=np.float64)), dtype=float)
        for label, arg in (('int64 array', np.array(ints, dtype=np.int64)), ('list of ints', list(ints)),
                           ('float32 array', np.array(ints, dtype=np.float32))):
            try:
                got_z = np.asarray(var.normalize(arg), dtype=float)
                back_i = np.asarray(var.denormalize(var.normalize(arg)), dtype=float)
            except Exception as e:  # noqa: BLE001
                res.failures.append({'kind': 'normalize-raised', 'input': {**info, 'container': label}, 'observed': repr(e)[:200]})
                continue
            tol_ = 1e-5 if 'float32' in label else 1e-9
            if got_z.shape != ref_z.shape or not np.all(np.abs(got_z - ref_z) <= tol_ * np.maximum(1.0, np.abs(ref_z))):
                res.failures.append({'kind': 'normalised-values-depend-on-the-container-or-dtype-of-the-input',
                                     'input': {**info, 'container': label, 'values': ints},
                                     'observed': got_z.tolist(), 'expected': ref_z.tolist()})
            elif not np.all(np.abs(back_i - np.array(ints, dtype=float)) <= max(tol_, 1e-9) * np.maximum(1.0, np.abs(ints))):
                res.failures.append({'kind': 'denormalize(normalize(x)) != x', 'input': {**info, 'container': label, 'values': ints},
                                     'observed': back_i.tolist(), 'expected': ints})
        res.hit('integer-and-float32-containers')
    # normalised domain is the image of the domain
    from amisc.variable import VariableList
    nd = VariableList([var]).get_domains()[var.name]
    img = var.normalize(np.array(dom))
    if not np.allclose(np.asarray(nd, dtype=float), img, rtol=1e-12, atol=1e-13):
        res.failures.append({'kind': 'normalised-domain-is-not-the-image-of-the-domain', 'input': info,
                             'observed': list(map(float, nd)), 'expected': img.tolist()})
    res.hit('chain-len-%d' % len(spec['norm']))
    res.hit('dist-' + spec['dist'])
    toks = lean_chain(var)
    if toks is not None:
        dist = var.distribution
        dist_s = ' '.join(rat_str(v) for v in dist.dist_args) if isinstance(dist, Normal) else '-'
        dom_s = ' '.join(rat_str(v) for v in dom)
        lines.append(f'xf.norm {" ".join(toks)} | {dom_s} | {dist_s} | ' + ' '.join(rat_str(v) for v in xs))
        post.append(('norm', info, z.tolist()))
        lines.append(f'xf.denorm {" ".join(toks)} | {dom_s} | {dist_s} | ' + ' '.join(rat_str(v) for v in z))
        post.append(('denorm', info, back.tolist()))
    else:
        res.hit('log-stage(oracle-only)')
    res.case(('var', repr(spec)), len(spec['norm']) >= 2, {'variable': spec})


def run_sampling_case(ctx, res, seed):
    """samples drawn for a system lie inside the normalised domains"""
    rng = random.Random(seed)
    specs = [gen_valid_var(rng) for _ in range(3)]
    vars_ = [make_var(s, f'x{i}') for i, s in enumerate(specs)]

    def m(inputs):
        return {'y': sum(inputs[f'x{i}'] for i in range(3))}
    comp = Component(m, inputs=vars_, outputs=[Variable('y')], name='c', vectorized=True)
    system = System(comp, name='s')
    np.random.seed(seed % 2 ** 31)
    for use_pdf in (False, True):
        smp = system.sample_inputs(200, use_pdf=use_pdf)
        doms = system.inputs().get_domains()
        for v in vars_:
            lo, hi = sorted(map(float, doms[v.name]))
            arr = np.asarray(smp[v.name], dtype=float)
            if not (np.all(arr >= lo - 1e-12 * max(1, abs(lo))) and np.all(arr <= hi + 1e-12 * max(1, abs(hi)))):
                res.failures.append({'kind': 'sample-outside-normalised-domain',
                                     'input': {'seed': seed, 'specs': specs, 'use_pdf': use_pdf, 'variable': v.name},
                                     'observed': [float(arr.min()), float(arr.max())], 'expected': [lo, hi]})
    # distributions of which the domain holds only part of the mass (rejection sampling has to reject often): a standard
    # normal cut to half a sigma, a normal restricted to a tail, a log-normal on one decade
    tight = [Variable('t0', distribution='N(0, 1)', domain=(-0.5, 0.5), norm=rng.choice([None, 'minmax'])),
             Variable('t1', distribution='N(0, 1)', domain=(1.8, 2.6), norm=rng.choice([None, 'zscore'])),
             Variable('t2', distribution='LN(0, 1)', domain=(3.0, 30.0), norm=rng.choice([None, 'log10']))]

    def mt(inputs):
        return {'y': inputs['t0'] + inputs['t1'] + inputs['t2']}
    tsys = System(Component(mt, inputs=tight, outputs=[Variable('y')], name='c', vectorized=True), name='tight')
    np.random.seed(seed % 2 ** 31 + 1)
    smp = tsys.sample_inputs(3000, use_pdf=True)
    doms = tsys.inputs().get_domains()
    for v in tight:
        lo, hi = sorted(map(float, doms[v.name]))
        arr = np.asarray(smp[v.name], dtype=float)
        nout = int(np.sum((arr < lo - 1e-12 * max(1, abs(lo))) | (arr > hi + 1e-12 * max(1, abs(hi)))))
        if nout:
            res.failures.append({'kind': 'sample-outside-normalised-domain',
                                 'input': {'seed': seed, 'variable': v.name, 'distribution': str(v.distribution),
                                           'domain': list(map(float, v.get_domain())), 'use_pdf': True},
                                 'observed': {'outside': nout, 'of': 3000, 'range': [float(arr.min()), float(arr.max())]},
                                 'expected': [lo, hi]})
    res.hit('sample-inputs-tight-domains')
    res.hit('sample-inputs')
    res.case(('sampling', seed), True, {'seed': seed, 'specs': specs})


def run_compression_case(ctx, res, seed, rank=None):
    """dataset conversion round trip with SVD-compressed field quantities"""
    rng = random.Random(seed)
    ngrid, nsamp = rng.choice([20, 50]), 40
    nfields = rng.choice([1, 2, 3])
    rank = rank or rng.choice([1, 2, 3, 4, 4, 11, 13])   # > 10 latent coefficients: names LATENT10.. sort before LATENT2 as strings
    if rank > 4:
        ngrid = 50
    grid = np.linspace(-1, 1, ngrid)
    rs = np.random.RandomState(seed % 2 ** 31)
    coef = rs.rand(nsamp, rank)
    modes = [np.sin((k + 1) * np.pi * grid / 2 + f) for k in range(rank) for f in range(nfields)]
    fields = [f'p{f}' for f in range(nfields)]
    data = {fn: sum(coef[:, [k]] * np.sin((k + 1) * np.pi * grid / 2 + f)[None, :] for k in range(rank))
            for f, fn in enumerate(fields)}
    mat = np.concatenate([data[fn][..., np.newaxis] for fn in fields], axis=-1).reshape((nsamp, -1))
    norm = rng.choice([None, 'linear(0.5, 1)', None])
    # the grid is 1-d, or the same number of points arranged as 2-d coordinates (num_pts, 2)
    two_d = (seed % 3 == 0)
    coords = np.stack([grid, np.cos(3 * grid)], axis=-1) if two_d else grid
    comp = SVD(rank=rank, data_matrix=mat.T if norm is None else (0.5 * mat.T + 1), coords=coords, fields=fields)
    var = Variable('p', compression=comp, norm=norm)
    P = comp.projection_matrix
    ortho = float(np.max(np.abs(P.T @ P - np.eye(P.shape[1]))))
    info = {'svd': seed, 'coords_dim': 2 if two_d else 1, 'rank': rank, 'fields': nfields, 'grid': ngrid, 'norm': norm, 'PtP_minus_I': ortho}
    if ortho > 1e-10:
        res.failures.append({'kind': 'projection-columns-not-orthonormal', 'input': info}); return
    from amisc.variable import VariableList
    vl = VariableList([var])
    lat = {f'p_LATENT_{i}': rs.randn(7) for i in range(rank)}
    from amisc.typing import LATENT_STR_ID
    lat = {f'p{LATENT_STR_ID}{i}': rs.randn(7) for i in range(rank)}
    model_ds, coords = to_model_dataset(dict(lat), vl, del_latent=True)
    back, names = to_surrogate_dataset(dict(model_ds), vl, del_fields=True, **coords)
    # independent oracle: the model-form fields are the reconstruction  P @ latent  (de-normalised), coefficient i on column i
    latent = np.stack([lat[f'p{LATENT_STR_ID}{i}'] for i in range(rank)], axis=-1)          # (7, rank)
    direct = var.denormalize((P @ latent[..., np.newaxis])[..., 0]) if norm else (P @ latent[..., np.newaxis])[..., 0]
    direct = direct.reshape((7, ngrid, nfields))
    for f, fn in enumerate(fields):
        got_f = np.asarray(model_ds.get(fn))
        if got_f.shape != direct[..., f].shape or not np.allclose(got_f, direct[..., f], rtol=1e-9, atol=1e-10):
            res.failures.append({'kind': 'model-form-field-is-not-the-reconstruction-of-its-latent-coefficients',
                                 'input': {**info, 'field': fn}, 'observed': 'max abs diff %.3e' % (
                                     float(np.max(np.abs(got_f - direct[..., f]))) if got_f.shape == direct[..., f].shape else np.nan)})
            break
    for k, v in lat.items():
        if k not in back or not np.allclose(back[k], v, rtol=1e-9, atol=1e-10):
            res.failures.append({'kind': 'latent-coefficients-not-recovered-by-dataset-round-trip',
                                 'input': {**info, 'coefficient': k},
                                 'observed': None if k not in back else np.asarray(back[k]).tolist(), 'expected': v.tolist()})
    # other coordinates with the SAME number of points: the grid points in reversed order. Interpolating a field to its own
    # grid points reproduces the grid values, so the field at the reversed coordinates is the reversed field (RBF
    # interpolation is exact at its nodes up to the solver's accuracy); and converting back recovers the latent coefficients
    grid_coords = comp.coords
    rev = grid_coords[::-1].copy()
    try:
        m_rev, c_rev = to_model_dataset(dict(lat), vl, del_latent=True, p_coords=rev)
        for f, fn in enumerate(fields):
            a, b = np.asarray(m_rev[fn]), np.asarray(model_ds[fn])[..., ::-1]
            sc = max(1.0, float(np.max(np.abs(b))))
            if a.shape != b.shape or not np.allclose(a, b, rtol=0, atol=1e-5 * sc):
                res.failures.append({'kind': 'field-at-permuted-coordinates-is-not-the-permuted-field',
                                     'input': {**info, 'field': fn},
                                     'observed': 'max abs diff %.3e' % (float(np.max(np.abs(a - b))) if a.shape == b.shape else np.nan)})
                break
        back_rev, _ = to_surrogate_dataset(dict(m_rev), vl, del_fields=True, p_coords=rev)
        for k, v in lat.items():
            if k not in back_rev or not np.allclose(back_rev[k], v, rtol=1e-5, atol=1e-5 * max(1.0, float(np.max(np.abs(v))))):
                res.failures.append({'kind': 'latent-coefficients-not-recovered-at-other-coordinates',
                                     'input': {**info, 'coefficient': k}})
                break
        res.hit('compression-other-coordinates')
    except Exception as e:  # noqa: BLE001
        res.failures.append({'kind': 'conversion-at-other-coordinates-raised', 'input': info, 'observed': repr(e)[:300]})
    res.hit('compression-roundtrip' + ('-normalised' if norm else ''))
    res.case(('svd', seed), True, info)


def run_renorm_case(ctx, res, seed):
    """object life: a variable is used (values normalised and decoded), then its `norm` is RE-ASSIGNED to another chain of the same
    length; from then on it must behave exactly like a fresh variable declared with the new chain (round trip, normalised domain)"""
    rng = random.Random(seed)
    designed = {1: ({'domain': [0.001, 10.0], 'dist': 'none', 'norm': ['log10', 'minmax']}, ['log', 'minmax']),
                2: ({'domain': [2.0, 6.0], 'dist': 'none', 'norm': ['linear(2.0, 1.0)', 'minmax(lb_norm=-1, ub_norm=1)']}, ['linear(-1.5, 0.0)', 'minmax(lb_norm=-1, ub_norm=1)']),
                3: ({'domain': [0.5, 4.5], 'dist': 'N', 'dist_args': [2.5, 0.6], 'norm': ['linear(0.5, 1.0)', 'zscore']}, ['linear(4.0, -2.0)', 'zscore'])}
    alt = {'linear': ['linear(3.0, 0.5)', 'linear(-2.0, 1.0)'], 'log': ['log', 'log10', 'log(2)'],
           'minmax': ['minmax', 'minmax(lb_norm=-1, ub_norm=1)'], 'zscore': ['zscore(0.5, 1.5)', 'zscore(1.0, 3.0)']}
    for _ in range(40):
        if seed in designed:
            spec_a, nb = designed[seed]
            spec_b = {**spec_a, 'norm': nb}
            fresh = make_var(spec_b)
            break
        spec_a = gen_valid_var(rng)
        if len(spec_a['norm']) < 2:
            continue
        first = spec_a['norm'][0]
        kind = next(k for k in alt if first.startswith(k))
        if kind == 'zscore' and spec_a['dist'] == 'N':
            continue
        choices = [c for c in alt[kind] if c != first]
        spec_b = {**spec_a, 'norm': [rng.choice(choices)] + list(spec_a['norm'][1:])}
        try:
            fresh = make_var(spec_b)
            zf = fresh.normalize(np.array(fresh.get_domain(), dtype=float))
            if not (np.all(np.isfinite(zf)) and abs(zf[1] - zf[0]) > 1e-9):
                continue
        except (RuntimeError, FloatingPointError, ZeroDivisionError):
            continue
        break
    else:
        return
    var = make_var(spec_a)
    lb, ub = map(float, var.get_domain())
    vals = np.array([lb + t * (ub - lb) for t in (0.0, 0.13, 0.5, 0.77, 1.0)])
    z_a = var.normalize(vals)
    back_a = var.denormalize(z_a)                      # the variable has been used with its first chain
    var.norm = spec_b['norm']
    info = {'renorm': seed, 'spec_before': spec_a, 'norm_after': spec_b['norm']}
    z_new, z_fresh = np.asarray(var.normalize(vals), dtype=float), np.asarray(fresh.normalize(vals), dtype=float)
    rt = np.asarray(var.denormalize(z_new), dtype=float)
    dec = np.asarray(var.denormalize(z_fresh), dtype=float)
    ok = (np.allclose(back_a, vals, rtol=1e-9, atol=1e-12) and np.allclose(z_new, z_fresh, rtol=1e-10, atol=1e-12)
          and np.allclose(rt, vals, rtol=1e-9, atol=1e-12) and np.allclose(dec, vals, rtol=1e-9, atol=1e-12))
    if not ok:
        res.failures.append({'kind': 'variable-with-re-assigned-norm-differs-from-a-fresh-variable', 'signature': 'none', 'input': info,
                             'observed': {'normalize': z_new.tolist(), 'round_trip': rt.tolist(), 'decode_of_fresh_values': dec.tolist()},
                             'expected': {'normalize': z_fresh.tolist(), 'round_trip': vals.tolist()}})
    res.hit('norm-re-assigned-after-use')
    res.case(('renorm', seed), True, info)


def run_time_stability_case(ctx, res, seed):
    """a stored normalised training input must decode to the evaluated physical point also after the domain changes"""
    rng = random.Random(seed)
    norm = rng.choice(['minmax', 'linear(0.5, 1)', None, 'minmax'])
    x = Variable('x', domain=(1.0, 3.0), norm=norm)
    rec = []

    def m(inputs):
        rec.extend(np.atleast_1d(inputs['x']).tolist())
        return {'y': np.atleast_1d(inputs['x']) ** 2}
    comp = Component(m, inputs=[x], outputs=[Variable('y')], name='c', vectorized=True, data_fidelity=(2,),
                     training_data=SparseGrid(**{'opt_args': {'locally_biased': False, 'maxfun': 60}}))
    comp.activate_index((), (0,)); comp.activate_index((), (1,))
    xt, yt = comp.get_training_data((), (1,))
    before = np.sort(np.asarray(x.denormalize(xt['x']), dtype=float))
    evaluated = np.sort(np.array(rec))
    x.update_domain((0.0, 5.0))
    xt2, _ = comp.get_training_data((), (1,))
    after = np.sort(np.asarray(x.denormalize(xt2['x']), dtype=float))
    info = {'seed': seed, 'norm': norm, 'domain_before': [1.0, 3.0], 'domain_after': [0.0, 5.0]}
    if not np.allclose(before, evaluated[:len(before)] if len(before) == len(evaluated) else before, rtol=1e-12):
        pass
    if not np.allclose(after, before, rtol=1e-10, atol=1e-12):
        res.failures.append({'kind': 'stored-normalised-value-decodes-differently-after-domain-update',
                             'signature': 'minmax-restamp' if norm == 'minmax' else 'none',
                             'input': info, 'observed': after.tolist(), 'expected': before.tolist()})
    res.hit('time-stability-' + str(norm))
    res.case(('time', seed), True, info)


def run(ctx: core.Ctx, only=None) -> core.Result:
    res = core.Result()
    res.rule = ('variables with distributions U/N/LU/LN/none, domains of several locations/widths, chains of 1-3 transforms '
                '(linear, minmax incl. deferred bounds, zscore incl. deferred Normal arguments, log/log10/log2): round trips, '
                'normalised domain, Lean chain model; System.sample_inputs with and without pdf; SVD compression (rank 1-13, '
                '1-3 fields, with/without field normalisation) dataset round trip; time stability of stored normalised inputs '
                'across a domain update. non-trivial = chain of >= 2 transforms or a system/compression/time case.')
    lines, post = [], []
    if only is not None:
        items = [o.get('input', o) for o in only]
    else:
        items = core.corpus_cases('C16') + [{'spec': gen_valid_var(ctx.rng)} for _ in range(ctx.scale(60, 800))] + \
            [{'sampling': ctx.rng.randrange(10 ** 6)} for _ in range(ctx.scale(4, 40))] + \
            [{'svd': ctx.rng.randrange(10 ** 6), 'rank': [11, 2, 13, 4, 1, 3][k % 6]} for k in range(ctx.scale(4, 40))] + \
            [{'time': s} for s in range(ctx.scale(4, 8))] + [{'renorm': k} for k in (1, 2, 3)] + [{'renorm': ctx.rng.randrange(10, 10 ** 6)} for _ in range(ctx.scale(6, 60))]
    for it in items:
        with core.guarded(res, 'scenario-raised', it):
            if 'spec' in it:
                run_variable_case(ctx, res, it['spec'], lines, post)
            elif 'sampling' in it:
                run_sampling_case(ctx, res, it['sampling'])
            elif 'svd' in it:
                run_compression_case(ctx, res, it['svd'], it.get('rank'))
            elif 'renorm' in it:
                run_renorm_case(ctx, res, it['renorm'])
            elif 'time' in it or 'norm' in it:
                run_time_stability_case(ctx, res, it.get('time', it.get('seed', 0)))
    out = core.try_driver(lines, res, 'Amisc.normalize / denormalize (generated transform formulas)')
    for pst, o in zip(post, out or []):
        kind, info, got = pst
        model = [float(core.parse_rat(t)) for t in o.split()]
        if not np.allclose(model, got, rtol=1e-10, atol=1e-12):
            res.disagreements.append({'name': f'Amisc.{"normalize" if kind == "norm" else "denormalize"} vs Variable.normalize',
                                      'input': info, 'impl': got, 'model': model})
    # known finding F6
    kf = {k['id'] for k in core.known_findings() if k.get('status') == 'open' and k['property'] == 'C16'}
    if 'F6' in kf:
        kept = []
        for f in res.failures:
            if f.get('signature') == 'minmax-restamp':
                res.known_hits['F6'] = res.known_hits.get('F6', 0) + 1
            else:
                kept.append(f)
        res.failures = kept
        if res.known_hits.get('F6'):
            res.extra.setdefault('known_lines', []).append(
                ('F6', 'minmax-restamp: Minmax normalisation always uses the CURRENT domain; stored normalised inputs are '
                       're-labelled when the variable\'s domain is updated afterwards'))
    return res


ASSUMPTIONS = ['SVD factorisation (numpy.linalg.svd) is not modelled: orthonormality of the projection columns is checked on '
               'every trace', 'Log stages are proved over the reals (Real.exp/Real.log) and checked by the oracle, not executed '
               'in the rational model']
