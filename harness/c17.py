"""C17: surrogates are equivariant under affine changes of input units.

A unit-scale component (domains (0,1)^n) and its image under x_d -> a_d x_d + b_d (same model re-parameterised, training
grids transplanted through a TrainingData subclass so that the Leja optimiser's own scale behaviour does not interfere)
must give: equal predictions at mapped points, gradients scaled by 1/a_m, Hessians by 1/(a_m a_n), and unchanged
polynomial exactness. Snapping decisions (is |x - node| within the coincidence tolerance?) of both twins are compared
with the Lean model's rule `Amisc.Gen.snapTol` (generated from the source on every run)."""
from __future__ import annotations

import random
from dataclasses import dataclass
from fractions import Fraction

import numpy as np

from harness.lib import core
from harness import comp_common as cc
from harness import c03

from amisc.training import SparseGrid  # noqa: E402  (import path set by comp_common)

_UNIT_SEQ = None


def unit_sequence(n=16):
    """the Leja sequence on (0,1) as amisc computes it (cached)"""
    global _UNIT_SEQ
    if _UNIT_SEQ is None or len(_UNIT_SEQ) < n:
        _UNIT_SEQ = [float(v) for v in SparseGrid.collocation_1d(n, (0.0, 1.0), opt_args={'locally_biased': False,
                                                                                            'maxfun': 300})]
    return _UNIT_SEQ


@dataclass
class TransplantGrid(SparseGrid):
    """SparseGrid whose 1-d sequences are the affine images of one fixed unit sequence"""

    @staticmethod
    def collocation_1d(N, z_bds, z_pts=None, wt_fcn=None, method='leja', opt_args=None):
        have = 0 if z_pts is None else len(np.atleast_1d(z_pts))
        u = unit_sequence(have + N)
        lb, ub = float(z_bds[0]), float(z_bds[1])
        return np.array([lb + (ub - lb) * v for v in u[:have + N]])


def gen_case(rng, tier_quick):
    nin = rng.choice([1, 2, 2, 3])
    beta_lim = tuple(rng.choice([1, 2, 3] if nin < 3 else [1, 2]) for _ in range(nin))
    kpl = rng.choice([1, 2]) if nin == 3 else rng.choice([1, 2, 2])
    nout = rng.choice([1, 2])
    exps = [rng.choice([-9, -7, -6, -4, -3, -1, 0, 0, 1, 3, 6, 9]) for _ in range(nin)]
    a = [10.0 ** e * rng.choice([1.0, 2.5, 0.5]) for e in exps]
    b = [rng.choice([0.0, 0.0, 1.0, -3.0, 1e3, -1e6, -0.25, -0.6]) * ai for ai in a]     # (-0.25, -0.6: the origin lies INSIDE the image)
    nsteps = rng.randint(2, 6)
    return dict(nin=nin, beta_lim=beta_lim, kpl=kpl, nout=nout, a=a, b=b, nsteps=nsteps, fseed=rng.randrange(10 ** 9))


def build(case, polys, scaled: bool):
    nin, nout = case['nin'], case['nout']
    a = case['a'] if scaled else [1.0] * nin
    b = case['b'] if scaled else [0.0] * nin
    out_names = [f'y{o}' for o in range(nout)]

    def f(alpha, x):   # model re-parameterised: polynomial in the UNIT coordinate u = (x - b)/a
        u = [(x[f'x{d}'] - b[d]) / a[d] for d in range(nin)]
        return {o: c03.poly_eval(polys[o], u) for o in out_names}
    domains = [(b[d], b[d] + a[d]) for d in range(nin)]
    comp, rec = cc.build_component(f, nin, out_names, (), case['beta_lim'], (), domains, None, None, case['kpl'],
                                   vectorized=True, training_data=TransplantGrid(knots_per_level=case['kpl']))
    return comp


def run_case(ctx, res, case, lines, post):
    rng = random.Random(case['fseed'])
    nin, nout = case['nin'], case['nout']
    out_names = [f'y{o}' for o in range(nout)]
    polys = {o: [(Fraction(1), (0,) * nin)] for o in out_names}
    unit = build(case, polys, False)
    hist = cc.random_history(random.Random(case['fseed'] + 5), unit, case['nsteps'])
    betas = sorted({tuple(bb[:nin]) for _, bb in unit.active_set})
    polys = {o: c03.draw_poly(rng, betas, case['kpl'], nin, rng.randint(2, 4)) for o in out_names}
    unit = build(case, polys, False)
    twin = build(case, polys, True)
    try:
        for al, be in hist:
            unit.activate_index(al, be)
            twin.activate_index(al, be)
    except Exception as e:  # noqa: BLE001
        res.failures.append({'kind': 'activation-raised', 'input': case, 'observed': repr(e)[:300]})
        return
    a, b = case['a'], case['b']
    names = [f'x{d}' for d in range(nin)]
    ugrids = [list(unit.training_data.x_grids[n]) for n in names]
    tgrids = [list(twin.training_data.x_grids[n]) for n in names]
    npts = 12 if ctx.quick else 24
    U = []
    kinds = []
    for k in range(npts):
        mode = ['interior', 'node', 'mixed', 'near', 'outside', 'origin'][k % 6]
        u = []
        for d in range(nin):
            v = rng.random()
            if mode == 'origin' and b[d] < 0 < b[d] + a[d] and rng.random() < 0.8:
                v = -b[d] / a[d]        # the point whose IMAGE is the origin of the twin's coordinate (nothing special about it)
            if mode == 'node' or (mode == 'mixed' and rng.random() < 0.5):
                v = rng.choice(ugrids[d])
            elif mode == 'near':
                v = rng.choice(ugrids[d]) + rng.choice([-1, 1]) * rng.choice([1e-3, 1e-5])
            elif mode == 'outside':
                v = rng.choice([-0.2, 1.2])
            u.append(float(v))
        U.append(u); kinds.append(mode)
    # mapped points: nodes are mapped through the transplanted grid itself so that "on a node" stays exactly on the node
    X = []
    for u in U:
        x = []
        for d in range(nin):
            if u[d] in ugrids[d]:
                x.append(tgrids[d][ugrids[d].index(u[d])])
            elif b[d] < 0 and u[d] == -b[d] / a[d]:
                x.append(0.0)
            else:
                x.append(b[d] + a[d] * u[d])
        X.append(x)
    Ud = {n: np.array([u[d] for u in U]) for d, n in enumerate(names)}
    Xd = {n: np.array([x[d] for x in X]) for d, n in enumerate(names)}
    hlist = [list(al) + list(be) for al, be in hist]
    # float resolution of the mapped coordinates (offset >> width loses digits of the position itself)
    eps_pos = max(4 * 2.2e-16 * (abs(b[d]) + abs(a[d])) / abs(a[d]) for d in range(nin))
    lip = 50.0   # generous bound of |df/du| / scale for the drawn polynomials on [-0.2, 1.2]
    try:
        pu = unit.predict(Ud, index_set='train'); pt = twin.predict(Xd, index_set='train')
        gu = unit.gradient(Ud, index_set='train'); gt = twin.gradient(Xd, index_set='train')
        hu = unit.hessian(Ud, index_set='train'); ht = twin.hessian(Xd, index_set='train')
    except Exception as e:  # noqa: BLE001
        res.failures.append({'kind': 'evaluation-raised-on-scaled-twin', 'input': {**case, 'history': hlist},
                             'observed': repr(e)[:300], 'signature': signature(case, tgrids, X, None)})
        return
    for k in range(npts):
        sig = signature(case, tgrids, X, k, ugrids, U)
        for o in out_names:
            truth = float(c03.poly_eval(polys[o], [Fraction(*float(v).as_integer_ratio()) for v in U[k]]))
            scale = max(1.0, abs(truth), max(abs(float(c)) for c, _ in polys[o]) * (1.5 ** (case['kpl'] * max(case['beta_lim']))))
            tol = (1e-8 + lip * eps_pos) * scale * 20
            vu, vt = float(np.asarray(pu[o])[k]), float(np.asarray(pt[o])[k])
            if not abs(vt - vu) <= tol:
                res.failures.append({'kind': 'prediction-not-equivariant', 'signature': sig,
                                     'input': {**case, 'history': hlist, 'unit_point': U[k], 'point': X[k], 'output': o},
                                     'observed': vt, 'expected': vu, 'tol': tol})
            if kinds[k] != 'near' and not abs(vt - truth) <= tol:
                res.failures.append({'kind': 'exactness-lost-on-scaled-twin', 'signature': sig,
                                     'input': {**case, 'history': hlist, 'unit_point': U[k], 'point': X[k], 'output': o},
                                     'observed': vt, 'expected': truth, 'tol': tol})
            G_u = np.asarray(gu[o]).reshape(npts, -1); G_t = np.asarray(gt[o]).reshape(npts, -1)
            for m in range(nin):
                e, g = G_u[k, m], G_t[k, m] * a[m]
                if kinds[k] != 'near' and not abs(g - e) <= tol * 1e2:
                    res.failures.append({'kind': 'gradient-not-equivariant', 'signature': sig,
                                         'input': {**case, 'history': hlist, 'unit_point': U[k], 'point': X[k],
                                                   'output': o, 'd': m}, 'observed': float(g), 'expected': float(e)})
            H_u = np.asarray(hu[o]).reshape(npts, nin, nin); H_t = np.asarray(ht[o]).reshape(npts, nin, nin)
            if kinds[k] in ('interior', 'node', 'outside') and eps_pos < 1e-12:
                for m in range(nin):
                    for n in range(nin):
                        e, g = H_u[k, m, n], H_t[k, m, n] * a[m] * a[n]
                        if not abs(g - e) <= tol * 1e5:
                            res.failures.append({'kind': 'hessian-not-equivariant', 'signature': sig,
                                                 'input': {**case, 'history': hlist, 'unit_point': U[k], 'point': X[k],
                                                           'output': o, 'd': [m, n]},
                                                 'observed': float(g), 'expected': float(e)})
        res.hit('pt-' + kinds[k])
        # snapping decisions of the real code (observable: |x - node| <= tol) vs the generated model rule
        for d in range(nin):
            width = abs(a[d])
            lines.append(f'itp.snaptol {core.rat_str(width)}')
            post.append(('tol', case, k, d, X[k][d], tgrids[d], U[k][d], ugrids[d]))
    res.case((str(case),), len(unit.active_set) >= 3 and any(abs(np.log10(v)) >= 3 for v in a),
             {'case': case, 'history': hlist})
    for d in range(nin):
        res.hit('width-1e%+d' % int(np.floor(np.log10(a[d]))))
    if any(abs(bb) >= 1e3 * aa for aa, bb in zip(a, b)):
        res.hit('offset>=1e3-widths')


def signature(case, tgrids, X, k, ugrids=None, U=None):
    """F1 (absolute snapping tolerance): does any coordinate of the scaled point fall within the absolute tolerance of a
    node that it is not on (or do two nodes of a scaled grid lie within twice the tolerance)? Computed from the input."""
    tol = 1e-8
    for g in tgrids:
        gs = sorted(g)
        if any(q - p <= 2 * tol * 1.0001 for p, q in zip(gs, gs[1:])):
            return 'abs-snap-tol'
    pts = X if k is None else [X[k]]
    for x in pts:
        for d, g in enumerate(tgrids):
            if any(0 < abs(x[d] - nd) <= tol * 1.0001 for nd in g):
                return 'abs-snap-tol'
    if ugrids is not None and k is not None:
        for d, g in enumerate(ugrids):
            if any(0 < abs(U[k][d] - nd) <= tol * 1.0001 for nd in g):
                return 'abs-snap-tol'
    return 'none'


NATIVE_DOMAINS = [(1e-3, 0.0), (1e-3, 5.0), (1.0, 1e6), (1e-2, 1e5), (1e4, -0.5), (1e9, 0.0), (2.0, 1e3), (1.0, 0.0)]


def run_native_case(ctx, res, seed, k=None):
    """components on narrow / far-offset / huge domains with the library's OWN Leja grids (no transplant): the nodes must be
    distinct, roughly the image of the unit Leja grid (up to the mirror symmetry and the optimiser's resolution), and the
    surrogate must stay exact for polynomials of the full tensor space — values, gradients and Hessians"""
    rng = random.Random(seed)
    nin = rng.choice([1, 2]) if k is None else 1 + (k // len(NATIVE_DOMAINS)) % 2
    doms = [rng.choice(NATIVE_DOMAINS) for _ in range(nin)]       # (width, offset in widths)
    if k is not None:
        doms[0] = NATIVE_DOMAINS[k % len(NATIVE_DOMAINS)]          # every run covers every domain kind
    domains = [(off * w, off * w + w) for w, off in doms]
    beta_lim = (4,) if nin == 1 else (3, rng.choice([2, 3]))
    kpl = 2
    npts = [kpl * b + 1 for b in beta_lim]
    terms = []
    for _ in range(rng.randint(3, 5)):
        terms.append((rng.choice([-2, -1, 1, 2, 3]) * rng.random(), [rng.randint(0, n - 1) for n in npts]))

    def unit(d, t):
        return (t - domains[d][0]) / (domains[d][1] - domains[d][0])

    def f(alpha, x):
        u = [unit(d, x[f'x{d}']) for d in range(nin)]
        return {'y0': float(sum(c * np.prod([u[d] ** e[d] for d in range(nin)]) for c, e in terms))}
    comp, rec = cc.build_component(f, nin, ['y0'], (), beta_lim, (), domains, None, None, kpl, vectorized=False, maxfun=300)
    cc.random_history(rng, comp, 60)          # to exhaustion: the full tensor index is reached
    info = {'native': seed, 'k': k, 'domains': domains, 'beta_lim': list(beta_lim)}
    names = [f'x{d}' for d in range(nin)]
    useq = unit_sequence(max(npts))
    for d, n in enumerate(names):
        g = [unit(d, float(v)) for v in comp.training_data.x_grids[n]]
        gs = sorted(g)
        if min(b - a for a, b in zip(gs, gs[1:])) < 1e-3:
            res.failures.append({'kind': 'native-grid-has-(near-)duplicate-nodes', 'signature': 'none', 'input': {**info, 'dim': d},
                                 'observed': g})
        ref = useq[:len(g)]
        dev = min(max(abs(a - b) for a, b in zip(g, ref)), max(abs(a - (1 - b)) for a, b in zip(g, ref)))
        # (not a failure by itself: ties of the Leja objective are broken differently on shifted domains; reported)
        res.hit('native-grid-is-image-of-unit-grid' if dev < 5e-3 else 'native-grid-differs-from-unit-image')
    ratio = max(abs(lo) / (hi - lo) for lo, hi in domains)
    tol = 1e-7 + 3e3 * 2.3e-16 * ratio * max(npts) ** 2
    pts = [[lo + (0.05 + 0.9 * rng.random()) * (hi - lo) for lo, hi in domains] for _ in range(8)]
    pts += [[float(rng.choice(list(comp.training_data.x_grids[n]))) for n in names] for _ in range(3)]
    X = {n: np.array([p[d] for p in pts]) for d, n in enumerate(names)}
    y = np.asarray(comp.predict(X, index_set='train')['y0']).reshape(-1)
    jac = np.asarray(comp.gradient(X, index_set='train')['y0']).reshape(len(pts), nin)
    scale = sum(abs(c) for c, _ in terms)
    for k, p in enumerate(pts):
        u = [unit(d, p[d]) for d in range(nin)]
        exact = sum(c * np.prod([u[d] ** e[d] for d in range(nin)]) for c, e in terms)
        if not abs(y[k] - exact) <= tol * scale:
            res.failures.append({'kind': 'polynomial-not-reproduced-on-native-grid', 'signature': 'none',
                                 'input': {**info, 'point': p}, 'observed': float(y[k]), 'expected': float(exact)})
        for m in range(nin):
            w = domains[m][1] - domains[m][0]
            dex = sum(c * e[m] * (u[m] ** (e[m] - 1) if e[m] > 0 else 0.0) * np.prod([u[d] ** e[d] for d in range(nin) if d != m])
                      for c, e in terms) / w
            if not abs(jac[k, m] - dex) * w <= 50 * tol * scale * max(npts) ** 2:
                res.failures.append({'kind': 'gradient-of-polynomial-wrong-on-native-grid', 'signature': 'none',
                                     'input': {**info, 'point': p, 'direction': m}, 'observed': float(jac[k, m]),
                                     'expected': float(dex)})
    res.hit('native-case')
    res.case(('native', seed), True, info)


def run_deep_case(ctx, res, width, off):
    """ONE input refined to beta = 18 (37 Leja nodes) on a very wide / narrow domain: the barycentric weights then span hundreds
    of orders of magnitude unless they are kept scale-free; a quartic in the unit coordinate must still be reproduced with its
    first and second derivative (x width, x width^2)"""
    lo = off * width
    domains = [(lo, lo + width)]
    q = lambda t: 1 + t - 2 * t ** 2 + 3 * t ** 3 - t ** 4          # noqa: E731
    dq = lambda t: 1 - 4 * t + 9 * t ** 2 - 4 * t ** 3              # noqa: E731
    d2q = lambda t: -4 + 18 * t - 12 * t ** 2                       # noqa: E731

    def f(alpha, x):
        return {'y0': float(q((x['x0'] - lo) / width))}
    comp, rec = cc.build_component(f, 1, ['y0'], (), (18,), (), domains, None, None, 2, vectorized=False, maxfun=80)
    for b in range(19):
        comp.activate_index((), (b,))
    info = {'deep': True, 'width': width, 'offset_in_widths': off, 'nodes': len(comp.training_data.x_grids['x0'])}
    rng = random.Random(int(width) % 1000 + int(off * 7))
    t = np.array([0.03 + 0.94 * rng.random() for _ in range(12)])
    X = {'x0': lo + t * width}
    y = np.asarray(comp.predict(X, index_set='train')['y0']).reshape(-1)
    g = np.asarray(comp.gradient(X, index_set='train')['y0']).reshape(-1) * width
    h = np.asarray(comp.hessian(X, index_set='train')['y0']).reshape(-1) * width ** 2
    res_eps = 2.3e-16 * abs(off) * 37 ** 2          # resolution of the mapped coordinates when offset >> width
    for name, got, exp, tol in (('value', y, q(t), 1e-9 + 1e2 * res_eps), ('gradient', g, dq(t), 1e-6 + 1e4 * res_eps),
                                ('hessian', h, d2q(t), 1e-2 + 1e6 * res_eps)):
        bad = [k for k in range(len(t)) if not abs(got[k] - exp[k]) <= tol * 10.0]
        if bad:
            res.failures.append({'kind': f'deep-1d-grid-{name}-of-quartic-wrong', 'signature': 'none',
                                 'input': {**info, 'unit_points': t[bad].tolist()},
                                 'observed': np.asarray(got)[bad].tolist(), 'expected': np.asarray(exp)[bad].tolist()})
    res.hit('deep-1d-grid')
    res.case(('deep', width, off), True, info)


def run_leja_cases(ctx, res):
    """the real `SparseGrid.collocation_1d` with the global optimiser replaced by an IDEAL minimiser over a candidate list (the
    optimiser is the model's parameter) must build exactly the sequence of the Lean model (`lejaFresh` / `lejaSeq` over the
    generated objective), on unit bounds and on affine images of them; dyadic candidates keep binary64 exact"""
    import amisc.training as T
    from amisc.training import SparseGrid
    rng = ctx.rng
    lines, post = [], []
    real_direct = T.direct
    try:
        for _ in range(ctx.scale(10, 60)):
            m = rng.choice([8, 16, 32])
            a, b = rng.choice([1.0, 4.0, 0.25, 1024.0, 2.0 ** -10]), rng.choice([0.0, 10.0, -3.0, 4096.0])
            lb, ub = b, a + b
            cands = [lb + (ub - lb) * k / m for k in range(m + 1)]
            wk = rng.choice(['const', 'const', 'quad'])
            if wk == 'quad' and (a > 4 or abs(b) > 10):
                wk = 'const'      # keep the products exactly representable
            wt = (lambda z: 1 + np.asarray(z) ** 2) if wk == 'quad' else None
            n1, n2 = rng.randint(2, 4), rng.randint(1, 2)

            class _R:
                pass

            def ideal(fun, bounds, cands=cands, **kw):
                best, bv = None, None
                for z in cands:
                    v = float(np.atleast_1d(fun(np.array([z])))[0])
                    if bv is None or v < bv:
                        best, bv = z, v
                r = _R(); r.x = np.array([best]); return r
            T.direct = ideal
            seq1 = SparseGrid.collocation_1d(n1, (lb, ub), wt_fcn=wt)
            seq2 = SparseGrid.collocation_1d(n2, (lb, ub), z_pts=seq1, wt_fcn=wt)
            T.direct = real_direct
            cs = ' '.join(core.rat_str(c) for c in cands)
            lines.append(f'itp.leja {n1} {wk} {core.rat_str(lb)} {core.rat_str(ub)} | {cs} | -')
            post.append(({'bounds': [lb, ub], 'candidates': m + 1, 'weight': wk, 'n': n1}, [float(v) for v in seq1]))
            lines.append(f'itp.leja {n2} {wk} {core.rat_str(lb)} {core.rat_str(ub)} | {cs} | ' + ' '.join(core.rat_str(v) for v in seq1))
            post.append(({'bounds': [lb, ub], 'candidates': m + 1, 'weight': wk, 'n': n2, 'extends': [float(v) for v in seq1]},
                         [float(v) for v in seq2]))
            res.hit('leja-sequence-with-ideal-optimiser')
    finally:
        T.direct = real_direct
    out = core.try_driver(lines, res, 'Amisc.lejaSeq (generated objective)')
    for (info, impl), o in zip(post, out or []):
        model = [float(core.parse_rat(t)) for t in o.split()]
        if model != impl:
            res.disagreements.append({'name': 'Amisc.lejaFresh / lejaSeq vs SparseGrid.collocation_1d (ideal optimiser over the candidates)',
                                      'input': info, 'impl': impl, 'model': model})


def run(ctx: core.Ctx, only=None) -> core.Result:
    res = core.Result()
    res.rule = ('twin components: unit domains vs per-input affine images with widths 1e-9..1e9 and offsets up to 1e6 '
                'widths, transplanted Leja grids, polynomial models in the surrogate space, random admissible histories; '
                'points interior / on nodes / near nodes / outside; predictions, gradients (x a), Hessians (x a_m a_n) and '
                'exactness compared; plus components with the library\'s own Leja grids on narrow / far-offset / huge domains '
                '(distinct nodes, exact values and gradients of full-tensor polynomials); plus ONE input refined to 37 nodes on very wide domains (value, gradient, Hessian of a quartic). non-trivial = >= 3 active indices and some width differing from 1 by >= 1e3.')
    lines, post = [], []
    keys = ('nin', 'beta_lim', 'kpl', 'nout', 'a', 'b', 'nsteps', 'fseed')
    cases = [o.get('input', o) for o in only] if only is not None else core.corpus_cases('C17') + \
        [gen_case(ctx.rng, ctx.quick) for _ in range(ctx.scale(24, 250))]
    if only is None:
        # designed: two inputs refined to DIFFERENT depths on order-one / large images that contain the origin off the nodes
        for k_ in range(ctx.scale(3, 12)):
            c_ = gen_case(ctx.rng, ctx.quick)
            c_.update(nin=2, beta_lim=(1, 3) if k_ % 2 == 0 else (3, 1), kpl=2, nsteps=7,
                      a=[[1.0, 1.0], [1000.0, 40.0], [2.5, 1.0e4]][k_ % 3], fseed=ctx.rng.randrange(10 ** 9))
            c_['b'] = [-0.25 * c_['a'][0], -0.6 * c_['a'][1]]
            cases.append(c_)
    if only is None:
        cases = cases + [{'native': ctx.rng.randrange(10 ** 6), 'k': k} for k in range(ctx.scale(8, 16))]
        cases = cases + [{'deep': True, 'width': w, 'off': o} for w, o in
                         ([(1e9, 0.0), (1e9, -0.5)] if ctx.quick else [(1e9, 0.0), (1e9, -0.5), (1e9, 3.0), (1e6, 0.0), (1e-3, 0.0),
                                                                       (1.0, 0.0), (1e4, 2.0)])]
    for case in cases:
        if 'deep' in case:
            with core.guarded(res, 'scenario-raised', case):
                run_deep_case(ctx, res, case['width'], case.get('off', case.get('offset_in_widths', 0.0)))
            continue
        if 'native' in case:
            with core.guarded(res, 'scenario-raised', case):
                run_native_case(ctx, res, case['native'], case.get('k'))
            continue
        case = {k: (tuple(case[k]) if k == 'beta_lim' else case[k]) for k in keys}
        with core.guarded(res, 'scenario-raised', case):
            run_case(ctx, res, case, lines, post)
    if only is None:
        with core.guarded(res, 'scenario-raised', {'leja': True}):
            run_leja_cases(ctx, res)
    # model rule vs implementation rule for the coincidence tolerance: the implementation's decision is observable as
    # "prediction at x equals the node's prediction" only indirectly; we compare the generated tolerance with what a
    # scale-free rule would need: snapTol(width) == width * snapTol(1)
    out = core.try_driver(lines + ['itp.snaptol 1'], res, 'Gen.snapTol') if lines else None
    if out is not None:
        unit_tol = core.parse_rat(out[-1])
        scale_free = all(core.parse_rat(o) == unit_tol * core.frac(p[1]['a'][p[3]]).__abs__() for p, o in zip(post, out[:-1]))
        res.extra['generated_snapTol_is_scale_free'] = bool(scale_free)
    # known finding F1: failures whose signature is the absolute snapping tolerance
    kept, known = [], 0
    f1 = [k for k in core.known_findings() if k['id'] == 'F1' and k.get('status') == 'open']
    for f in res.failures:
        if f.get('signature') == 'abs-snap-tol' and f1 and not res.extra.get('generated_snapTol_is_scale_free', False):
            known += 1
        else:
            kept.append(f)
    res.failures = kept
    if known:
        res.known_hits['F1'] = known
        res.extra.setdefault('known_lines', []).append(
            ('F1', f'abs-snap-tol: node snapping uses an absolute tolerance in input units ({known} failing '
                   f'points/cases at small widths with that signature)'))
    return res


ASSUMPTIONS = ['DIRECT (Leja optimiser) scale behaviour is excluded by transplanting one unit sequence into both twins',
               'float resolution of mapped coordinates (offset >> width) enters the budget explicitly']
