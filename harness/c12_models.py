"""module-level (importable by name, hence YAML-serialisable) models for C12 / C13"""
import numpy as np


def m_a(inputs, model_fidelity=None):
    mf = np.atleast_2d(np.asarray(model_fidelity, dtype=float)) if model_fidelity is not None else np.zeros((1, 0))
    fac = 1.0 + 0.15 * (mf.sum(axis=-1) if mf.shape[-1] > 0 else 0.0)
    n = len(np.atleast_1d(inputs['x0']))
    # the reported cost differs from evaluation to evaluation (it depends on the input): running averages kept by the component
    # must survive save/load exactly for continued training to book the same costs
    cost = np.full(n, 0.37) * (1.0 + 2.5 * (mf.sum(axis=-1) if mf.shape[-1] > 0 else 0.0)) * (1.0 + 0.8 * np.atleast_1d(inputs['x0']))
    return {'ya': np.exp(0.4 * np.atleast_1d(inputs['x0'])) * fac + 0.3 * np.atleast_1d(inputs['x1']) ** 2, 'model_cost': cost}


def m_b(inputs):
    return {'yb': np.sin(np.atleast_1d(inputs['ya'])) + 0.5 * np.atleast_1d(inputs['x1']),
            'model_cost': np.full(len(np.atleast_1d(inputs['ya'])), 2.0 / 3.0)}


def m_c(inputs):
    return {'yc': np.atleast_1d(inputs['ya']) * np.atleast_1d(inputs['x2']) + 1.0 / (2.0 + np.atleast_1d(inputs['yb']) ** 2)}


def m_c_nan(inputs):
    """like m_c, but the model fails (returns NaN) for large x2 — never at the first (centre) evaluation: the failed points
    are imputed, so the saved training data contains imputed values"""
    x2 = np.atleast_1d(inputs['x2'])
    y = np.atleast_1d(inputs['ya']) * x2 + 1.0 / (2.0 + np.atleast_1d(inputs['yb']) ** 2)
    return {'yc': np.where(x2 > 1.9, np.nan, y)}


def m_d(inputs):
    return {'yd': np.atleast_1d(inputs['yb']) - 2.0 * np.atleast_1d(inputs['yc'])}

FIELD_GRID = np.linspace(0, 1, 12)


def m_field(inputs):
    a, b = np.atleast_1d(inputs['x0']), np.atleast_1d(inputs['x1'])
    return {'p': a[..., None] * np.sin(np.pi * FIELD_GRID) + b[..., None] * np.cos(np.pi * FIELD_GRID)}
