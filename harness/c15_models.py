"""module-level (picklable) models for the process-pool runs of C15"""
import time

import numpy as np


def slow_model(inputs, delay_scale=0.0):
    x0, x1 = float(np.atleast_1d(inputs['x0'])[0]), float(np.atleast_1d(inputs['x1'])[0])
    if delay_scale:
        time.sleep(delay_scale * ((x0 * 7919 + x1 * 104729) % 1.0))
    return {'y0': np.exp(0.4 * x0) + x1 ** 2, 'y1': np.sin(x0 * x1)}


def slow_model_vec(inputs, delay_scale=0.0):
    x0, x1 = np.atleast_1d(inputs['x0']), np.atleast_1d(inputs['x1'])
    return {'y0': np.exp(0.4 * x0) + x1 ** 2, 'y1': np.sin(x0 * x1)}


def unpacked_model(x0, x1, delay_scale=0.0):
    if delay_scale:
        time.sleep(delay_scale * ((float(x0) * 7919 + float(x1) * 104729) % 1.0))
    y0 = np.exp(0.4 * x0) + x1 ** 2
    y1 = np.sin(x0 * x1)
    return y0, y1


def failing_model(inputs, delay_scale=0.0):
    x0, x1 = float(np.atleast_1d(inputs['x0'])[0]), float(np.atleast_1d(inputs['x1'])[0])
    if delay_scale:
        time.sleep(delay_scale * ((x0 * 7919 + x1 * 104729) % 1.0))
    if x0 > 0.8:
        raise ValueError('x0 too large')
    return {'y0': np.exp(0.4 * x0) + x1 ** 2, 'y1': np.sin(x0 * x1)}


def chain_m1(inputs, delay_scale=0.0):
    x0, x1 = float(np.atleast_1d(inputs['x0'])[0]), float(np.atleast_1d(inputs['x1'])[0])
    if delay_scale:
        time.sleep(delay_scale * ((x0 * 7919 + x1 * 104729) % 1.0))
    return {'u': np.exp(0.5 * x0) + 0.3 * x1}


def chain_m2(inputs, delay_scale=0.0):
    u, x1 = float(np.atleast_1d(inputs['u'])[0]), float(np.atleast_1d(inputs['x1'])[0])
    if delay_scale:
        time.sleep(delay_scale * ((u * 7919 + x1 * 104729) % 1.0))
    return {'v': np.sin(u) + x1 ** 2}


def mf_model(inputs, model_fidelity=(0,), delay_scale=0.0):
    """multi-fidelity model: the fidelity index changes the result, so a task that sees another sample's fidelity is visible"""
    x0, x1 = float(np.atleast_1d(inputs['x0'])[0]), float(np.atleast_1d(inputs['x1'])[0])
    a = int(model_fidelity[0])
    if delay_scale:
        time.sleep(delay_scale * ((x0 * 7919 + x1 * 104729) % 1.0))
    return {'y0': np.exp(0.4 * x0) + x1 ** 2 + 0.5 ** (a + 1) * np.cos(3 * x0), 'y1': np.sin(x0 * x1) + 0.1 * a}


def mf_failing_model(inputs, model_fidelity=(0,), delay_scale=0.0):
    """multi-fidelity model that raises for x0 > 0.8: the error record of a failed sample must carry THAT sample's fidelity"""
    x0 = float(np.atleast_1d(inputs['x0'])[0])
    if x0 > 0.8:
        raise ValueError(f'x0 too large at fidelity {tuple(int(v) for v in model_fidelity)}')
    return mf_model(inputs, model_fidelity=model_fidelity, delay_scale=delay_scale)


def mf_chain_m1(inputs, model_fidelity=(0,), delay_scale=0.0):
    x0, x1 = float(np.atleast_1d(inputs['x0'])[0]), float(np.atleast_1d(inputs['x1'])[0])
    a = int(model_fidelity[0])
    if delay_scale:
        time.sleep(delay_scale * ((x0 * 7919 + x1 * 104729) % 1.0))
    return {'u': np.exp(0.5 * x0) + 0.3 * x1 + 0.25 ** (a + 1) * np.sin(4 * x0)}


def zero_model(inputs, delay_scale=0.0):
    """vanishes on the coarse grids (centre and end points of both domains): the surrogate stays identically zero and every
    candidate's error indicator is undefined (0/0) — the refinement choice then rests on the scan order of the candidates"""
    x0, x1 = float(np.atleast_1d(inputs['x0'])[0]), float(np.atleast_1d(inputs['x1'])[0])
    if delay_scale:
        time.sleep(delay_scale * ((x0 * 7919 + x1 * 104729) % 1.0))
    return {'u': 8.0 * x0 * (x0 - 0.5) * (x0 - 1.0) * x1 * (x1 * x1 - 1.0) * (1.0 + 0.3 * x0)}
