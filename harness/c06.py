"""C06: feedback loops return a fixed point within tolerance or NaN, never stale data.

Black-box trace acceptance (no source hook): loop members are surrogate-less components with instrumented vectorised
models; every component also receives an exogenous sample-id input, so every model call logs which samples were evaluated
with which coupling inputs. From the log the harness reconstructs, per sample, the sequence of iterates fed to the loop
and the loop's responses; the Lean model `Amisc.fpiRun` (with F := logged responses, mix := logged next iterates) must
reproduce the number of sweeps, the convergence decision and the returned value / NaN of every sample.
Oracle on the real code: a returned (non-NaN) sample satisfies the coupled equations within tol x sensitivity (affine
loops: matches the exact linear solve), a non-converged sample is NaN in EVERY output of the loop and downstream, results
do not depend on the batch and do not change when more iterations are allowed."""
from __future__ import annotations

import random

import numpy as np

from harness.lib import core
from harness.lib.core import rat_str
from harness import comp_common  # noqa: F401  (sets the import path to the tree under test, silences logging)

from amisc import Component, Variable, System  # noqa: E402


def gen_case(rng):
    n = rng.choice([2, 2, 3, 4])
    kind = rng.choice(['affine', 'affine', 'sin'])
    # coupling matrix with unit max row sum, zero diagonal (member i reads the other members' outputs)
    M = [[0.0] * n for _ in range(n)]
    for i in range(n):
        others = [j for j in range(n) if j != i]
        ws = [rng.choice([1, 2, 3]) for _ in others]
        sg = [rng.choice([-1, 1]) for _ in others]
        for j, w, s_ in zip(others, ws, sg):
            M[i][j] = s_ * w / sum(ws)
    b = [rng.choice([0.0, 0.5, -0.25, 1.0]) for _ in range(n)]
    if rng.random() < 0.3:      # coupling values of large magnitude (un-normalised physical quantities): the tolerance is absolute
        b = [rng.choice([300.0, -750.0, 1200.0]) for _ in range(n)]
    mixed = rng.random() < 0.5      # designed to contain both converging and non-converging samples in one batch
    return dict(n=n, kind=kind, M=M, b=b,
                tol=rng.choice([1e-4, 1e-6, 1e-8, 1e-10, 1e-12]),
                max_iter=rng.choice([3, 4, 6, 9]) if mixed else rng.choice([1, 2, 5, 10, 20, 40, 60]),
                mem=rng.choice([1, 1, 2]) if mixed else rng.choice([1, 2, 5, 10]), extra_out=rng.random() < 0.6,
                downstream=rng.random() < 0.6, batch=rng.randint(4, 10) if mixed else rng.randint(1, 10), mixed=mixed,
                seed=rng.randrange(10 ** 9), poison=rng.random() < 0.35,
                # coupling variables declared with a non-identity normalisation (members are evaluated through their models: values
                # cross the loop in model units, whatever form the initial guess had)
                cnorm=rng.choice([None, None, 'linear(0.5, 1)', 'linear(2, -3)']))


class Log:
    def __init__(self):
        self.calls = []   # (component, sids array, {var: array}, outputs {var: array})


def build(case, log):
    n = case['n']
    sid = Variable('sid', domain=(0.0, 100.0))
    rho = Variable('rho', domain=(0.0, 2.0))
    cvars = [Variable(f'c{i}', domain=(-2.0, 2.0), **({'norm': case['cnorm']} if case.get('cnorm') else {})) for i in range(n)]
    evars = [Variable(f'e{i}') for i in range(n)]
    comps = []
    for i in range(n):
        ins = [sid, rho] + [cvars[j] for j in range(n) if j != i]
        outs = [cvars[i]] + ([evars[i]] if case['extra_out'] else [])

        def model(inputs, i=i):
            r = np.atleast_1d(inputs['rho']).astype(float)
            acc = np.zeros_like(r)
            for j in range(n):
                if j != i:
                    cj = np.atleast_1d(inputs[f'c{j}']).astype(float)
                    acc = acc + case['M'][i][j] * (cj if case['kind'] == 'affine' else np.sin(cj))
            bi = case['b'][i]
            if case.get('amp_sid') is not None:
                # ONE sample of the batch lives on a scale 1e5 times larger than the others
                bi = bi * np.where(np.atleast_1d(inputs['sid']) == case['amp_sid'], 1.0e5, 1.0)
            out = {f'c{i}': r * acc + bi}
            if i == 0 and case.get('poison_sid') is not None:
                # the model is undefined (NaN) on one sample of the batch from the very first sweep on
                out['c0'] = np.where(np.atleast_1d(inputs['sid']) == case['poison_sid'], np.nan, out['c0'])
            if case['extra_out']:
                out[f'e{i}'] = 10.0 + out[f'c{i}'] * 2.0
            log.calls.append((f'm{i}', np.atleast_1d(inputs['sid']).copy(),
                              {k: np.atleast_1d(v).copy() for k, v in inputs.items()},
                              {k: np.atleast_1d(v).copy() for k, v in out.items()}))
            return out
        comps.append(Component(model, inputs=ins, outputs=outs, name=f'm{i}', vectorized=True))
    if case['downstream']:
        def dmodel(inputs):
            c0 = np.atleast_1d(inputs['c0'])
            if case['seed'] % 2 == 0:
                # a model that does NOT forward NaN by itself (a regime switch): were it evaluated for a non-converged sample,
                # it would return a finite number
                with np.errstate(invalid='ignore'):
                    out = {'d': np.where(c0 > 0.25, 2.0, -1.0) + np.atleast_1d(inputs['sid']) * 0.0}
            else:
                out = {'d': c0 * 3.0 + np.atleast_1d(inputs['sid']) * 0.0 + 1.0}
            log.calls.append(('down', np.atleast_1d(inputs['sid']).copy(), {k: np.atleast_1d(v).copy() for k, v in inputs.items()}, out))
            return out
        comps.append(Component(dmodel, inputs=[sid, cvars[0]], outputs=[Variable('d')], name='down', vectorized=True))
    return System(*comps, name='loop')


def exact_solution(case, rho):
    """affine loop: solve (I - rho M) c = b"""
    n = case['n']
    A = np.eye(n) - rho * np.array(case['M'])
    return np.linalg.solve(A, np.array(case['b']))


def run_case(ctx, res, case, lines, post):
    rng = random.Random(case['seed'])
    n, N = case['n'], case['batch']
    rhos = [rng.choice([0.0, 0.02, 0.1, 0.97, 1.2, 1.5] if case.get('mixed') else [0.1, 0.3, 0.5, 0.7, 0.9, 0.97, 1.2, 1.5])
            for _ in range(N)]
    x = {'sid': np.arange(N, dtype=float), 'rho': np.array(rhos)}
    log = Log()
    case = dict(case)
    case['poison_sid'] = rng.randrange(N) if case.get('poison') and N >= 2 else None
    psid = case['poison_sid']
    system = build(case, log)
    kw = dict(max_fpi_iter=case['max_iter'], fpi_tol=case['tol'], anderson_mem=case['mem'], normalized_inputs=False)
    if case.get('cnorm'):
        # with normalised coupling variables the loop is evaluated through the models explicitly (`use_model`): everything the
        # caller gets back is then in model units (without `use_model` amisc returns surrogate-form, i.e. normalised, values)
        kw['use_model'] = 'best'
    y = system.predict(dict(x), **kw)
    cnames = [f'c{i}' for i in range(n)]
    info = {k: case[k] for k in case}
    info['rhos'] = rhos
    C = np.stack([np.asarray(y[c], dtype=float).reshape(N) for c in cnames], axis=1)     # (N, n)
    conv = ~np.any(np.isnan(C), axis=1)
    # ---- oracle ----
    if psid is not None:
        res.hit('batch-with-a-NaN-sample')
        if conv[psid]:
            res.failures.append({'kind': 'sample-on-which-the-model-is-NaN-returned-as-converged', 'input': {**info, 'sample': psid},
                                 'observed': C[psid].tolist()})
    for s in range(N):
        if conv[s]:
            c = C[s]
            Fc = np.array([rhos[s] * sum(case['M'][i][j] * (c[j] if case['kind'] == 'affine' else np.sin(c[j]))
                                         for j in range(n) if j != i) + case['b'][i] for i in range(n)])
            L = max(1.0, rhos[s])
            if not np.max(np.abs(Fc - c)) <= (L * case['tol']) * 1.0001 + 1e-13 * max(1.0, float(np.max(np.abs(c)))):
                res.failures.append({'kind': 'returned-sample-is-not-a-fixed-point-within-tolerance',
                                     'input': {**info, 'sample': s}, 'observed': float(np.max(np.abs(Fc - c))),
                                     'expected_bound': L * case['tol']})
            if case['kind'] == 'affine' and rhos[s] < 1:
                ex = exact_solution(case, rhos[s])
                bound = case['tol'] * rhos[s] / (1 - rhos[s]) * 1.01 + 1e-12
                if not np.max(np.abs(ex - c)) <= bound:
                    res.failures.append({'kind': 'affine-loop-differs-from-linear-solve', 'input': {**info, 'sample': s},
                                         'observed': c.tolist(), 'expected': ex.tolist(), 'bound': bound})
            res.hit('sample-converged')
        else:
            res.hit('sample-not-converged')
            # every output of the loop and of everything downstream must be NaN
            for v, arr in y.items():
                a = np.asarray(arr, dtype=float).reshape(N)
                if not np.isnan(a[s]):
                    res.failures.append({'kind': 'non-converged-sample-returned-non-NaN-output',
                                         'signature': 'stale-noncoupling-output' if v.startswith('e') else 'none',
                                         'input': {**info, 'sample': s, 'output': v}, 'observed': float(a[s])})
    # ---- batch independence & more iterations ----
    if N >= 2:
        sub = sorted(rng.sample(range(N), rng.randint(1, N - 1)))
        if psid is not None:   # the healthy samples alone: their result must not depend on the NaN sample being in the batch
            sub = [s_ for s_ in range(N) if s_ != psid]
        log2 = Log()
        y2 = build(case, log2).predict({'sid': x['sid'][sub], 'rho': x['rho'][sub]}, **kw)
        for v in y:
            a = np.asarray(y[v], dtype=float).reshape(N)[sub]
            b = np.asarray(y2[v], dtype=float).reshape(len(sub))
            if not np.allclose(a, b, rtol=1e-12, atol=1e-14, equal_nan=True):
                res.failures.append({'kind': 'sample-result-depends-on-the-batch', 'input': {**info, 'sub_batch': sub, 'output': v},
                                     'observed': b.tolist(), 'expected': a.tolist()})
        res.hit('batch-independence')
    kw3 = dict(kw); kw3['max_fpi_iter'] = case['max_iter'] + rng.choice([1, 5, 30])
    y3 = build(case, Log()).predict(dict(x), **kw3)
    for v in y:
        a = np.asarray(y[v], dtype=float).reshape(N)
        b = np.asarray(y3[v], dtype=float).reshape(N)
        if not np.array_equal(a[conv], b[conv]):
            res.failures.append({'kind': 'converged-sample-changes-with-more-iterations',
                                 'input': {**info, 'more': kw3['max_fpi_iter'], 'output': v},
                                 'observed': b[conv].tolist(), 'expected': a[conv].tolist()})
    res.hit('more-iterations')
    # ---- trace -> Lean model ----
    sweeps = {}   # sample -> list of (prev vector, y vector) in sweep order
    loop_calls = [c for c in log.calls if c[0].startswith('m')]
    # group calls into sweeps: members are called in a fixed order within each sweep
    members = [f'm{i}' for i in range(n)]
    order = []
    for c in loop_calls:
        if c[0] not in order:
            order.append(c[0])
    per_sweep = [loop_calls[k:k + n] for k in range(0, len(loop_calls), n)]
    for sw in per_sweep:
        if len(sw) != n or {c[0] for c in sw} != set(members):
            res.failures.append({'kind': 'sweep-did-not-call-every-loop-member-once', 'input': info}); return
        sids = sw[0][1]
        for c in sw:
            if not np.array_equal(c[1], sids):
                res.failures.append({'kind': 'loop-members-evaluated-on-different-sample-sets', 'input': info}); return
        for pos, sidv in enumerate(sids):
            s = int(sidv)
            if s == psid:
                continue      # NaN iterates of the poisoned sample: not representable in the (rational) model trace
            prev, yv = [None] * n, [None] * n
            for c in sw:
                i = int(c[0][1:])
                yv[i] = float(c[3][f'c{i}'][pos])
                for j in range(n):
                    if j != i:
                        val = float(c[2][f'c{j}'][pos])
                        if prev[j] is not None and prev[j] != val:
                            res.failures.append({'kind': 'members-fed-different-iterates-in-one-sweep (not a Jacobi sweep)',
                                                 'input': {**info, 'sample': s}}); return
                        prev[j] = val
            sweeps.setdefault(s, []).append((prev, yv))
    for s in range(N):
        if s == psid:
            continue      # NaN iterates are not representable in the (rational) model trace
        tr = sweeps.get(s, [])
        if not tr:
            res.failures.append({'kind': 'sample-never-evaluated', 'input': {**info, 'sample': s}}); continue
        if len(tr) >= 2 and tr[1][0] != tr[0][1]:
            res.failures.append({'kind': 'second-sweep-not-fed-first-sweep-outputs', 'input': {**info, 'sample': s},
                                 'observed': tr[1][0], 'expected': tr[0][1]})
        if len(tr) > case['max_iter'] + 1:
            res.failures.append({'kind': 'more-sweeps-than-iteration-limit-allows', 'input': {**info, 'sample': s},
                                 'observed': len(tr), 'expected_at_most': case['max_iter'] + 1})
        # near-tie guard on the convergence decision of the last sweep
        resid = [max(abs(a - b) for a, b in zip(p, yy)) for p, yy in tr]
        if any(abs(r - case['tol']) <= 1e-9 * case['tol'] + 4e-16 * max(1.0, max(abs(v) for v in tr[-1][1])) for r in resid):
            res.hit('near-tie-skipped'); continue
        lines.append(f'fpi.run {rat_str(case["tol"])} {case["max_iter"]} | ' +
                     ' ; '.join(' '.join(rat_str(v) for v in p) for p, _ in tr) + ' | ' +
                     ' ; '.join(' '.join(rat_str(v) for v in yy) for _, yy in tr))
        post.append(('fpi', info, s, len(tr), bool(conv[s]), C[s].tolist()))
    res.case(('fpi', str(case)), (not all(conv)) and any(conv), {'case': case, 'rhos': rhos, 'converged': conv.tolist()})
    if case['extra_out']:
        res.hit('loop-with-non-coupling-outputs')
    if case['downstream']:
        res.hit('loop-with-downstream-component')


def run_first_residual_case(ctx, res, case):
    """regression of fixed finding F16: a loop evaluated through the MODELS (`use_model`) whose coupling variables carry a
    normalisation, designed so that the first sweep's outputs coincide (as numbers) with the NORMALISED initial guess: the first
    residual must compare like with like, and every member of the first sweep must read the initial guess in model units"""
    slope, off, g = case['slope'], case['offset'], case['gain']
    nrm = f'linear({slope}, {off})'
    c0, c1 = Variable('c0', domain=(-2.0, 2.0), norm=nrm), Variable('c1', domain=(-2.0, 2.0), norm=nrm)
    rho = Variable('rho', domain=(0.0, 2.0))
    mid = off                       # normalised image of the domain midpoint 0
    b0, b1 = mid, mid - g * mid     # first sweep (c1 = 0 for m0; c0 = 0 - or, with the defect, `mid` - for m1) returns (mid, mid)
    comps = [Component(lambda inputs: {'c0': g * np.atleast_1d(inputs['c1']) + b0}, inputs=[rho, c1], outputs=[c0], name='m0', vectorized=True),
             Component(lambda inputs: {'c1': g * np.atleast_1d(inputs['c0']) + b1}, inputs=[rho, c0], outputs=[c1], name='m1', vectorized=True)]
    y = System(*comps, name='loop').predict({'rho': np.array([0.5, 1.0])}, max_fpi_iter=200, fpi_tol=1e-10, use_model='best',
                                            normalized_inputs=False)
    sol = np.linalg.solve(np.array([[1.0, -g], [-g, 1.0]]), np.array([b0, b1]))
    for k in range(2):
        got = np.array([float(np.atleast_1d(y['c0'])[k]), float(np.atleast_1d(y['c1'])[k])])
        if np.any(np.isnan(got)):
            continue
        resid = max(abs(g * got[1] + b0 - got[0]), abs(g * got[0] + b1 - got[1]))
        if resid > 1e-8 or np.max(np.abs(got - sol)) > 1e-7:
            res.failures.append({'kind': 'returned-sample-is-not-a-fixed-point-within-tolerance', 'input': case,
                                 'observed': {'returned': got.tolist(), 'residual': resid}, 'expected': sol.tolist()})
    res.hit('first-sweep-coincides-with-normalised-initial-guess')
    res.case(('first_residual', str(case)), True, case)


def run_field_output_loop(ctx, res, seed):
    """a loop member that also returns a FIELD QUANTITY (two fields named differently from the variable) that is not fed back: for
    samples that do not converge EVERY output written by the loop is NaN - the fields too; returned samples satisfy the equations"""
    from amisc.compression import SVD
    rng = random.Random(seed)
    grid = np.linspace(0, 1, 5)
    g = rng.choice([0.4, 0.5, 0.6])

    def model_a(inputs):
        a = np.atleast_1d(inputs['b']) ** 2 + np.atleast_1d(inputs['x'])
        return {'a': a, 'u': a[..., np.newaxis] * grid, 'v': a[..., np.newaxis] * (1 - grid)}

    def model_b(inputs):
        return {'b': g * np.atleast_1d(inputs['a'])}
    x = Variable('x', domain=(0.0, 4.0)); a = Variable('a', domain=(0.0, 2.0)); b = Variable('b', domain=(0.0, 2.0))
    p = Variable('p', compression=SVD(fields=['u', 'v'], coords=grid))
    system = System(Component(model_a, [x, b], [a, p], name='A', vectorized=True),
                    Component(model_b, [a], b, name='B', vectorized=True), name='floop')
    # b = g (b^2 + x) has a real fixed point iff 1 - 4 g^2 x >= 0
    xmax = 1.0 / (4 * g * g)
    xs = np.array([0.1 * xmax, 0.3 * xmax, 2.5 * xmax, 0.5 * xmax, 3.0 * xmax])
    bad = xs > xmax
    tol = 1e-10
    y = system.predict({'x': xs}, use_model='best', max_fpi_iter=rng.choice([40, 80]), fpi_tol=tol, normalized_inputs=False)
    info = {'field_output_loop': seed, 'gain': g, 'x': xs.tolist()}
    for var in ('a', 'b', 'u', 'v'):
        if var not in y:
            res.failures.append({'kind': 'loop-output-missing', 'input': {**info, 'output': var}})
            continue
        arr = np.asarray(y[var], dtype=float).reshape(len(xs), -1)
        for i in np.nonzero(bad)[0]:
            if not np.all(np.isnan(arr[i])):
                res.failures.append({'kind': 'non-converged-sample-not-nan-in-a-loop-output', 'input': {**info, 'sample': int(i), 'output': var},
                                     'observed': arr[i].tolist()})
    for i in np.nonzero(~bad)[0]:
        av, bv = float(np.asarray(y['a'])[i]), float(np.asarray(y['b'])[i])
        if np.isnan(av) or np.isnan(bv):
            res.hit('field-loop-sample-not-converged-within-limit')      # legal: NaN, never a stale value
            continue
        if not (abs(bv ** 2 + xs[i] - av) <= 100 * tol and abs(g * av - bv) <= 100 * tol):
            res.failures.append({'kind': 'returned-sample-is-not-a-fixed-point-within-tolerance', 'input': {**info, 'sample': int(i)},
                                 'observed': [av, bv]})
        for fn_, ref in (('u', av * grid), ('v', av * (1 - grid))):
            if np.max(np.abs(np.asarray(y[fn_], dtype=float)[i] - ref)) > 1e-7:
                res.failures.append({'kind': 'field-output-inconsistent-with-returned-coupling-values', 'input': {**info, 'sample': int(i), 'field': fn_}})
    res.hit('loop-member-with-field-quantity-output')
    res.case(('field_output_loop', seed), True, info)


def run_two_loops(ctx, res, seed):
    """two SEQUENTIAL feedback loops: (a0 <-> a1) feeds (b0 <-> b1) feeds a plain component d. Oracle only: exact 2x2 linear
    solves; a sample that fails in loop A is NaN in A, B and d; one that fails only in loop B keeps its loop-A values and is
    NaN in B and d; sub-batches give the same values"""
    rng = random.Random(seed)
    N = rng.randint(4, 9)
    tol, max_iter, mem = rng.choice([1e-8, 1e-10]), rng.choice([4, 6, 40]), rng.choice([1, 2, 5])
    ra = np.array([rng.choice([0.0, 0.1, 0.6, 0.97, 1.3]) for _ in range(N)])
    rb = np.array([rng.choice([0.0, 0.2, 0.7, 1.4]) for _ in range(N)])
    info = {'two_loops': seed, 'tol': tol, 'max_iter': max_iter, 'mem': mem, 'ra': ra.tolist(), 'rb': rb.tolist()}
    V = lambda n, **k: Variable(n, **k)   # noqa: E731
    sa, sb = V('ra', domain=(0.0, 2.0)), V('rb', domain=(0.0, 2.0))
    a0, a1, b0, b1 = (V(n, domain=(-3.0, 3.0)) for n in ('a0', 'a1', 'b0', 'b1'))

    def build2():
        return System(
            Component(lambda inputs: {'a0': inputs['ra'] * inputs['a1'] + 1.0}, inputs=[sa, a1], outputs=[a0], name='A0', vectorized=True),
            Component(lambda inputs: {'a1': -0.8 * inputs['ra'] * inputs['a0'] + 0.5}, inputs=[sa, a0], outputs=[a1], name='A1', vectorized=True),
            Component(lambda inputs: {'b0': inputs['rb'] * inputs['b1'] + 0.5 * inputs['a0'] - 0.25}, inputs=[sb, b1, a0], outputs=[b0], name='B0', vectorized=True),
            Component(lambda inputs: {'b1': 0.9 * inputs['rb'] * inputs['b0'] + 0.1}, inputs=[sb, b0], outputs=[b1], name='B1', vectorized=True),
            Component(lambda inputs: {'d': inputs['b0'] + 2.0 * inputs['a1']}, inputs=[b0, a1], outputs=[V('d')], name='D', vectorized=True),
            name='twoloops')
    kw = dict(max_fpi_iter=max_iter, fpi_tol=tol, anderson_mem=mem, normalized_inputs=False)
    x = {'ra': ra, 'rb': rb}
    y = {k: np.asarray(v, dtype=float).reshape(N) for k, v in build2().predict(dict(x), **kw).items()}
    for s_ in range(N):
        okA = not (np.isnan(y['a0'][s_]) or np.isnan(y['a1'][s_]))
        okB = not (np.isnan(y['b0'][s_]) or np.isnan(y['b1'][s_]))
        if np.isnan(y['a0'][s_]) != np.isnan(y['a1'][s_]) or np.isnan(y['b0'][s_]) != np.isnan(y['b1'][s_]):
            res.failures.append({'kind': 'loop-outputs-partly-NaN', 'input': {**info, 'sample': s_},
                                 'observed': {k: float(v[s_]) for k, v in y.items()}})
        if not okA and (okB or not np.isnan(y['d'][s_])):
            res.failures.append({'kind': 'non-converged-upstream-loop-did-not-propagate-NaN', 'input': {**info, 'sample': s_},
                                 'observed': {k: float(v[s_]) for k, v in y.items()}})
        if okA and not okB and not np.isnan(y['d'][s_]):
            res.failures.append({'kind': 'non-converged-sample-returned-non-NaN-output', 'signature': 'none',
                                 'input': {**info, 'sample': s_, 'output': 'd'}, 'observed': float(y['d'][s_])})
        if okA:
            A = np.array([[1.0, -ra[s_]], [0.8 * ra[s_], 1.0]])
            ea = np.linalg.solve(A, np.array([1.0, 0.5]))
            La = max(1.0, ra[s_])
            if ra[s_] < 1 and not np.max(np.abs(ea - [y['a0'][s_], y['a1'][s_]])) <= tol * La / (1 - ra[s_]) * 1.01 + 1e-12:
                res.failures.append({'kind': 'affine-loop-differs-from-linear-solve', 'input': {**info, 'sample': s_, 'loop': 'A'},
                                     'observed': [float(y['a0'][s_]), float(y['a1'][s_])], 'expected': ea.tolist()})
            if okB:
                Fb0 = rb[s_] * y['b1'][s_] + 0.5 * y['a0'][s_] - 0.25
                Fb1 = 0.9 * rb[s_] * y['b0'][s_] + 0.1
                if not max(abs(Fb0 - y['b0'][s_]), abs(Fb1 - y['b1'][s_])) <= max(1.0, rb[s_]) * tol * 1.0001 + 1e-13:
                    res.failures.append({'kind': 'returned-sample-is-not-a-fixed-point-within-tolerance',
                                         'input': {**info, 'sample': s_, 'loop': 'B'}})
                if not abs(y['d'][s_] - (y['b0'][s_] + 2.0 * y['a1'][s_])) <= 1e-12 * max(1.0, abs(y['d'][s_])):
                    res.failures.append({'kind': 'downstream-value-not-computed-from-returned-loop-values',
                                         'input': {**info, 'sample': s_}})
        res.hit('two-loops-sample-' + ('ok' if okA and okB else ('B-failed' if okA else 'A-failed')))
    sub = sorted(rng.sample(range(N), rng.randint(1, N - 1)))
    y2 = {k: np.asarray(v, dtype=float).reshape(len(sub)) for k, v in
          build2().predict({'ra': ra[sub], 'rb': rb[sub]}, **kw).items()}
    for k in y:
        if not np.allclose(y[k][sub], y2[k], rtol=1e-12, atol=1e-14, equal_nan=True):
            res.failures.append({'kind': 'sample-result-depends-on-the-batch', 'input': {**info, 'sub_batch': sub, 'output': k},
                                 'observed': y2[k].tolist(), 'expected': y[k][sub].tolist()})
    res.case(('two-loops', seed), True, info)


def run(ctx: core.Ctx, only=None) -> core.Result:
    res = core.Result()
    res.rule = ('feedback loops of 2-4 surrogate-less instrumented components (affine and sin couplings, unit-norm coupling '
                'matrix scaled per sample by a contraction factor 0.1-1.5 so that convergent, slow and divergent samples '
                'coexist), optional non-coupling outputs and a downstream component, tolerances 1e-4..1e-12, iteration limits '
                '1..60, Anderson memory 1..10, batches 1..10; plus two SEQUENTIAL affine loops feeding a plain component (NaN '
                'propagation from the first loop through the second, exact linear solves, batch independence). non-trivial = batch containing both converged and non-converged '
                'samples.')
    lines, post = [], []
    cases = [o.get('input', o) for o in only] if only is not None else core.corpus_cases('C06') + \
        [gen_case(ctx.rng) for _ in range(ctx.scale(40, 600))]
    keys = ('n', 'kind', 'M', 'b', 'tol', 'max_iter', 'mem', 'extra_out', 'downstream', 'batch', 'seed', 'mixed', 'poison', 'cnorm')
    if only is None:
        cases = cases + [{'two_loops': ctx.rng.randrange(10 ** 6)} for _ in range(ctx.scale(6, 60))]
    if only is None:
        cases = cases + [{'first_residual': True, 'slope': sl, 'offset': of, 'gain': 0.5} for sl, of in ((2.0, -3.0), (0.5, 1.0))]
    if only is None:
        cases = cases + [{'field_output_loop': ctx.rng.randrange(10 ** 6)} for _ in range(ctx.scale(2, 8))]
    for case in cases:
        if 'field_output_loop' in case:
            with core.guarded(res, 'scenario-raised', case):
                run_field_output_loop(ctx, res, case['field_output_loop'])
            continue
        if 'first_residual' in case:
            with core.guarded(res, 'scenario-raised', case):
                run_first_residual_case(ctx, res, case)
            continue
        if 'two_loops' in case:
            with core.guarded(res, 'scenario-raised', case):
                run_two_loops(ctx, res, case['two_loops'])
            continue
        case = {k: case.get(k, False) for k in keys}
        case['cnorm'] = case['cnorm'] or None
        if case['cnorm']:
            res.hit('coupling-variables-with-normalisation')
        with core.guarded(res, 'scenario-raised', case):
            run_case(ctx, res, case, lines, post)
    out = core.try_driver(lines, res, 'Amisc.fpiRun')
    for pst, o in zip(post, out or []):
        _, info, s, nsw, conv, cvals = pst
        f = dict(kv.split('=', 1) for kv in o.split(' ', 3))
        m_conv = f['conv'] == 'true'
        m_sw = int(f['sweeps'])
        if m_conv != conv or m_sw != nsw:
            res.disagreements.append({'name': 'Amisc.fpiRun vs System.predict (per-sample FPI control)',
                                      'input': {**info, 'sample': s}, 'impl': {'converged': conv, 'sweeps': nsw},
                                      'model': {'converged': m_conv, 'sweeps': m_sw}})
        elif conv:
            my = [float(core.parse_rat(t)) for t in f['y'].split()]
            if my != cvals:
                res.disagreements.append({'name': 'Amisc.fpiRun returned value vs System.predict',
                                          'input': {**info, 'sample': s}, 'impl': cvals, 'model': my})
    # known finding F2 (if open)
    kf = {k['id'] for k in core.known_findings() if k.get('status') == 'open' and k['property'] == 'C06'}
    if 'F2' in kf:
        kept = []
        for f_ in res.failures:
            if f_.get('signature') == 'stale-noncoupling-output':
                res.known_hits['F2'] = res.known_hits.get('F2', 0) + 1
            else:
                kept.append(f_)
        res.failures = kept
        if res.known_hits.get('F2'):
            res.extra.setdefault('known_lines', []).append(
                ('F2', 'stale-noncoupling-output: outputs of loop members that are not coupling variables are returned '
                       'stale (not NaN) for samples that did not converge'))
    return res


ASSUMPTIONS = ['Anderson mixing (constrained least squares via QR/pinv) is a parameter of the model: only that the next '
               'iterate of a sample is what the log shows is used', 'convergence decisions within 1e-9 relative of the '
               'tolerance are near-ties: counted, not judged']
