"""Shared by C01 / C02 / C18: real `Component`s with arbitrary fidelity boxes, histories of activation requests,
canonical state strings (same format as the Lean driver), brute-force oracles."""
from __future__ import annotations

import copy
import itertools
import logging
import warnings

import numpy as np

from harness.lib import core

core.setup_import_path()
warnings.filterwarnings('ignore')
from amisc import Component, Variable  # noqa: E402
from amisc.component import IndexSet  # noqa: E402

logging.disable(logging.CRITICAL)


def show_idx(i) -> str:
    return ','.join(str(int(v)) for v in i) if len(i) else '-'


def canon_set(s, na) -> str:
    return ';'.join(show_idx(t) for t in sorted(tuple(a) + tuple(b) for a, b in s))


def canon_tree(tree) -> str:
    items = sorted((tuple(a) + tuple(b), v) for a, b, v in tree)
    out = []
    for k, v in items:
        iv = int(round(float(v)))
        if float(v) != iv:
            out.append(f'{show_idx(k)}:{float(v)!r}')
        else:
            out.append(f'{show_idx(k)}:{iv}')
    return ';'.join(out)


def canon_state(comp) -> str:
    na = len(comp.model_fidelity)
    return (f'A={canon_set(comp.active_set, na)}|C={canon_set(comp.candidate_set, na)}'
            f'|T={canon_tree(comp.misc_coeff_train)}|E={canon_tree(comp.misc_coeff_test)}')


def split(idx, na):
    return tuple(int(v) for v in idx[:na]), tuple(int(v) for v in idx[na:])


def make_component(na: int, nd: int, ns: int, limits: tuple, kpl: int = 1, name='c', fail_alpha=None, trip=None, **extra):
    """A real Component with `na` model-, `nd` data- and `ns` surrogate-fidelity dimensions and per-dimension limits.
    The model is transcendental and fidelity dependent so that the interpolants of different indices differ."""
    assert len(limits) == na + nd + ns and nd >= 1
    inputs = [Variable(f'x{i}', domain=(0.0, 1.0)) for i in range(nd)]

    def model(inputs, model_fidelity=None):
        if trip is not None and trip.get('armed'):
            # a vectorised model that crashes ONCE (its exception escapes activate_index; the caller catches it and goes on)
            trip['armed'] = False; trip['fired'] = True
            raise RuntimeError('model crashed in this call')
        s = sum((k + 1) * inputs[f'x{k}'] for k in range(nd))
        mf = np.atleast_2d(np.asarray(model_fidelity, dtype=float)) if na > 0 else None
        fac = 1.0 + 0.25 * (mf.sum(axis=-1) if na > 0 else 0.0)
        return {'y': np.exp(0.3 * s) * fac}

    def failing_model(inputs, model_fidelity=None):
        # every evaluation at the fidelity `fail_alpha` raises (a solver that crashes at its finest setting): the index
        # bookkeeping must not depend on whether evaluations succeed
        if tuple(int(v) for v in np.atleast_1d(model_fidelity)) == tuple(fail_alpha):
            raise RuntimeError('model fails at this fidelity')
        s = sum((k + 1) * float(inputs[f'x{k}']) for k in range(nd))
        return {'y': float(np.exp(0.3 * s) * (1.0 + 0.25 * float(np.sum(np.atleast_1d(model_fidelity)))))}

    from amisc.training import SparseGrid
    comp = Component(model if fail_alpha is None else failing_model, inputs=inputs, outputs=[Variable('y')], name=name,
                     vectorized=fail_alpha is None,
                     model_fidelity=tuple(limits[:na]), data_fidelity=tuple(limits[na:na + nd]),
                     surrogate_fidelity=tuple(limits[na + nd:]),
                     **{'training_data': SparseGrid(knots_per_level=kpl, opt_args={'locally_biased': False, 'maxfun': 60}),
                        **extra})
    return comp


def full_box(limits):
    return list(itertools.product(*[range(m + 1) for m in limits]))


def cube(d):
    return list(itertools.product((0, 1), repeat=d))


def ie_bruteforce(S: set, i: tuple) -> int:
    tot = 0
    for e in cube(len(i)):
        if tuple(a + b for a, b in zip(i, e)) in S:
            tot += (-1) ** sum(e)
    return tot


def margin(limits, A: set) -> set:
    out = set()
    for i in full_box(limits):
        if i in A:
            continue
        ok = True
        for k in range(len(i)):
            if i[k] >= 1:
                b = i[:k] + (i[k] - 1,) + i[k + 1:]
                if b not in A:
                    ok = False
                    break
        if ok:
            out.add(i)
    return out


def py_sets(comp):
    A = {tuple(a) + tuple(b) for a, b in comp.active_set}
    C = {tuple(a) + tuple(b) for a, b in comp.candidate_set}
    T = {tuple(a) + tuple(b): v for a, b, v in comp.misc_coeff_train}
    E = {tuple(a) + tuple(b): v for a, b, v in comp.misc_coeff_test}
    return A, C, T, E


def oracle_c01(comp) -> str | None:
    """property C01 evaluated on the real component state; returns a description of the first failure"""
    A, C, T, E = py_sets(comp)
    for name, S, W in (('train', A, T), ('test', A | C, E)):
        if set(W) != S:
            return f'{name}: weight keys {sorted(set(W) ^ S)} differ from the set in use'
        for i in S:
            exp = ie_bruteforce(S, i)
            if float(W[i]) != float(exp):
                return f'{name}: weight of {i} is {W[i]}, inclusion-exclusion value is {exp}'
        if S and float(sum(W.values())) != 1.0:
            return f'{name}: weights sum to {sum(W.values())}'
    return None


def oracle_c02(comp, limits) -> str | None:
    A, C, _, _ = py_sets(comp)
    if A & C:
        return f'active and candidate sets overlap: {sorted(A & C)}'
    for i in A | C:
        if len(i) != len(limits) or any(a > m for a, m in zip(i, limits)):
            return f'index {i} exceeds the declared maxima {limits}'
    for i in A:
        for j in itertools.product(*[range(v + 1) for v in i]):
            if j not in A:
                return f'active set not downward closed: {j} < {i} is missing'
    if A:
        M = margin(limits, A)
        if C != M:
            return f'candidate set differs from the admissible margin: extra {sorted(C - M)}, missing {sorted(M - C)}'
        full = set(full_box(limits))
        if (len(C) == 0) != (A == full):
            return f'candidates empty={len(C) == 0} but box fully active={A == full}'
    else:
        if C:
            return 'candidates present with an empty active set'
    if not Component.is_downward_closed(comp.active_set):
        return 'Component.is_downward_closed(active_set) is False'
    return None


def gen_box(rng, max_states=120):
    while True:
        na = rng.choice([0, 0, 1, 1, 2])
        nd = rng.choice([1, 1, 2, 2, 3])
        ns = rng.choice([0, 0, 0, 1, 2])
        limits = tuple(rng.choice([0, 1, 1, 2, 2, 3]) for _ in range(na + nd + ns))
        n = 1
        for m in limits:
            n *= (m + 1)
        if 2 <= n <= max_states:
            return na, nd, ns, limits


def gen_request(rng, comp, limits, p_malformed):
    """returns (idx, kind)"""
    A, C, _, _ = py_sets(comp)
    d = len(limits)
    zero = (0,) * d
    if not A:
        if rng.random() < p_malformed:
            cand = [i for i in full_box(limits) if i != zero]
            if cand:
                return rng.choice(cand), 'nonzero-first'
        return zero, 'initial'
    if rng.random() < p_malformed or not C:
        kind = rng.choice(['active', 'noncand', 'outside', 'zero'])
        if kind == 'active':
            return rng.choice(sorted(A)), 'already-active'
        if kind == 'zero':
            return zero, 'zero-again'
        if kind == 'noncand':
            pool = [i for i in full_box(limits) if i not in A and i not in C]
            if pool:
                return rng.choice(pool), 'non-candidate'
        i = list(rng.choice(sorted(A)))
        k = rng.randrange(d)
        i[k] = limits[k] + 1 + rng.randrange(2)
        return tuple(i), 'outside-box'
    return rng.choice(sorted(C)), 'candidate'


def run_history(comp, na, requests, on_state=None):
    """apply requests to the real component; returns list of canonical states (or ('EXC', repr))"""
    states = []
    for r in requests:
        a, b = split(r, na)
        try:
            comp.activate_index(a, b)
            states.append(canon_state(comp))
        except Exception as e:  # noqa: BLE001
            states.append('EXC ' + type(e).__name__ + ': ' + str(e)[:200])
            break
        if on_state is not None:
            on_state(r)
    return states


def linear_extensions(limits):
    """all admissible complete activation orders of the box (every prefix is an admissible history of a
    downward-closed set, and every admissible history of every downward-closed subset is such a prefix)"""
    box = full_box(limits)
    d = len(limits)

    def rec(active: frozenset, order):
        if len(order) == len(box):
            yield list(order)
            return
        for i in box:
            if i in active:
                continue
            ok = all(i[k] == 0 or (i[:k] + (i[k] - 1,) + i[k + 1:]) in active for k in range(d))
            if ok:
                order.append(i)
                yield from rec(active | {i}, order)
                order.pop()
    yield from rec(frozenset(), [])


def shrink_list(items: list, fails) -> list:
    """delta debugging: smallest sublist (order preserved) on which `fails` still returns True"""
    n = 2
    cur = list(items)
    while len(cur) >= 2:
        chunk = max(1, len(cur) // n)
        reduced = False
        for start in range(0, len(cur), chunk):
            cand = cur[:start] + cur[start + chunk:]
            if cand and fails(cand):
                cur = cand
                n = max(n - 1, 2)
                reduced = True
                break
        if not reduced:
            if chunk == 1:
                break
            n = min(len(cur), n * 2)
    return cur
