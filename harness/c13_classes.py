"""Crash-injecting (importable, YAML-serialisable) classes for C13: a SparseGrid and a Lagrange subclass and user models
that raise a BaseException at a chosen event. Control is through the module-level CRASH dict (disarmed after loading)."""
from dataclasses import dataclass

import numpy as np

from amisc.training import SparseGrid
from amisc.interpolator import Lagrange


class Interrupt(BaseException):
    """stands for KeyboardInterrupt / SystemExit / a killed job: not an Exception, so nothing in amisc swallows it"""


CRASH = {'kind': None, 'at': -1, 'count': {}, 'armed': False, 'log': []}


def arm(kind, at):
    CRASH.update(kind=kind, at=at, count={}, armed=True, log=[])


def disarm():
    CRASH.update(kind=None, at=-1, armed=False)


def event(kind, detail=None):
    c = CRASH['count']
    c[kind] = c.get(kind, 0) + 1
    CRASH['log'].append((kind, c[kind], detail))
    if CRASH['armed'] and CRASH['kind'] == kind and c[kind] == CRASH['at']:
        CRASH['armed'] = False
        raise Interrupt(f'{kind} #{c[kind]}')


class _CountingDict(dict):
    def items(self):
        event('td.set.coord')
        return super().items()


@dataclass
class CrashGrid(SparseGrid):
    def refine(self, alpha, beta, input_domains, weight_fcns=None):
        event('td.refine', (tuple(alpha), tuple(beta)))
        return super().refine(alpha, beta, input_domains, weight_fcns)

    def set(self, alpha, beta, coords, yi_dict):
        event('td.set', (tuple(alpha), tuple(beta), len(coords)))
        # interruptions INSIDE the store loop: the real loop calls `yi_dict.items()` once per coordinate
        return super().set(alpha, beta, coords, _CountingDict(yi_dict))

    def impute_missing_data(self, alpha, beta):
        event('td.impute', (tuple(alpha), tuple(beta)))
        return super().impute_missing_data(alpha, beta)

    @staticmethod
    def collocation_1d(N, z_bds, z_pts=None, wt_fcn=None, method='leja', opt_args=None):
        # an interruption while the design points of a refinement are being generated (inside SparseGrid.refine)
        event('td.colloc', int(N))
        return SparseGrid.collocation_1d(N, z_bds, z_pts=z_pts, wt_fcn=wt_fcn, method=method, opt_args=opt_args)


@dataclass
class CrashLagrange(Lagrange):
    def refine(self, beta, training_data, old_state, input_domains):
        event('itp.refine', tuple(beta))
        return super().refine(beta, training_data, old_state, input_domains)


def cm_a(inputs, model_fidelity=None):
    event('model', 'a')
    mf = np.atleast_1d(np.asarray(model_fidelity, dtype=float)) if model_fidelity is not None else np.zeros(0)
    fac = 1.0 + 0.15 * float(mf.sum())
    x0, x1 = float(np.atleast_1d(inputs['x0'])[0]), float(np.atleast_1d(inputs['x1'])[0])
    return {'ya': np.exp(0.4 * x0) * fac + 0.3 * x1 ** 2, 'model_cost': 1e-3 * (0.5 + 1.5 * float(mf.sum()))}


def cm_b(inputs):
    event('model', 'b')
    ya, x1 = float(np.atleast_1d(inputs['ya'])[0]), float(np.atleast_1d(inputs['x1'])[0])
    # the reported cost varies from evaluation to evaluation (as a measured run time does)
    return {'yb': np.sin(ya) + 0.5 * x1, 'model_cost': 2e-3 * (1.0 + 0.3 * abs(x1) + 0.1 * ya)}


def cm_c(inputs):
    # a component WITHOUT surrogate: its model is called inside every system prediction, i.e. also while refine() scans candidates
    event('model.nosurr', 'c')
    yb, x0 = float(np.atleast_1d(inputs['yb'])[0]), float(np.atleast_1d(inputs['x0'])[0])
    return {'yc': yb * yb + x0}


def truth_a(alpha, x0, x1):
    return float(np.exp(0.4 * x0) * (1.0 + 0.15 * sum(alpha)) + 0.3 * x1 ** 2)


def truth_b(ya, x1):
    return float(np.sin(ya) + 0.5 * x1)
