"""C19: monitoring and bookkeeping options never influence what is learned.

* translator facts (regenerated every run): every call made by System.fit other than `self.refine` must be in the effect
  table (read-only on the learning state, no draw from the NumPy stream) and the keyword arguments handed to `refine` must
  not contain monitoring options — Lean theorems `monitoring_frame` / `refine_gets_no_monitor_option` only build then.
* validation of the effect table on the real code: digest of the learning state and of the NumPy random state before and
  after test_set_performance / save_to_file / predict;
* twin runs over the product of monitoring options (test set given or not, save interval, plot interval, root directory
  set or not, logging to stdout/file): history, index sets, stored data, predictions must be identical."""
from __future__ import annotations

import hashlib
import io
import contextlib
import json
import random
import shutil
import tempfile
from pathlib import Path

import numpy as np

from harness.lib import core
from harness import sys_common as sc


def rng_digest():
    st = np.random.get_state()
    return hashlib.sha1(st[1].tobytes() + str(st[2:]).encode()).hexdigest()[:16]


def learned(system, xprobe):
    d = sc.state_digest(system)     # includes the variable domains (coupling bounds are learned state)
    d['_pred'] = {k: np.asarray(v).tolist() for k, v in system.predict(xprobe, index_set='train').items()}
    return json.dumps(d, sort_keys=True, default=str)


def run_case(ctx, res, spec, nconf):
    rng = random.Random(spec['seed'])
    steps = rng.randint(5, 8)
    base_sys = sc.build_system(spec)
    np.random.seed(7)
    xprobe = base_sys.sample_inputs(5)
    # a test set for monitoring (true model outputs at random inputs)
    np.random.seed(11)
    xt = base_sys.sample_inputs(8)
    # … plus the corners of the input domain, where the surrogate's coupling predictions are most extreme
    names = list(xt.keys())
    corners = list(__import__('itertools').product(*[base_sys.inputs()[n].get_domain() for n in names]))[:8]
    xt = {n: np.concatenate([np.atleast_1d(xt[n]), np.array([float(base_sys.inputs()[n].normalize(c[i])) for c in corners])])
          for i, n in enumerate(names)}
    yt = base_sys.predict(xt, use_model='best')
    from amisc.utils import to_model_dataset
    xt_model = to_model_dataset(xt, base_sys.inputs())[0]
    test_set = ({k: np.asarray(v) for k, v in xt_model.items()},
                {k: np.asarray(v) for k, v in yt.items() if k in base_sys.outputs()})

    # a LARGE monitoring test set (6000 samples), and a test set given as inputs only ((xtest, None): no monitoring)
    np.random.seed(13)
    xb = base_sys.sample_inputs(6000)
    yb = base_sys.predict(xb, use_model='best')
    test_big = ({k: np.asarray(v) for k, v in to_model_dataset(xb, base_sys.inputs())[0].items()},
                {k: np.asarray(v) for k, v in yb.items() if k in base_sys.outputs()})
    test_inputs_only = (test_set[0], None)
    # a monitoring test set that covers only SOME of the outputs (one upstream output)
    last_out = sorted(test_set[1])[0]      # the most upstream output: a learner that only looked at it would neglect the rest
    test_subset = (test_set[0], {last_out: test_set[1][last_out]})

    errs_box = []

    def train(opts, max_tol=-np.inf, max_iter=None):
        tmp = None
        root = None
        tmplog = None
        if opts['root']:
            tmp = tempfile.mkdtemp(prefix='amisc_c19_')
            root = tmp
        try:
            system = sc.build_system(spec, root_dir=root)
            if opts['log'] == 'stdout':
                system.set_logger(stdout=True)
            elif opts['log'] == 'file' and root is None:
                tmpf = tempfile.NamedTemporaryFile(prefix='amisc_c19_', suffix='.log', delete=False)
                tmpf.close()
                tmplog = tmpf.name
                system.set_logger(log_file=tmpf.name)
            np.random.seed(spec['seed'] % 2 ** 31)
            buf = io.StringIO()
            undo = watch_monitors(system, xprobe, res, {'spec': spec, 'options': opts}) if opts.get('watch') else (lambda: None)
            with contextlib.redirect_stdout(buf), contextlib.redirect_stderr(buf):
                try:
                        system.fit(max_iter=max_iter or steps, num_refine=30, max_tol=max_tol,
                               test_set=({'subset': test_subset, 'big': test_big, 'inputs-only': test_inputs_only}.get(
                                   opts['test_set'], test_set)) if opts['test_set'] else None,
                               save_interval=opts['save'],
                               plot_interval=opts['plot'], start_test_check=opts.get('start', None))
                finally:
                    undo()
            errs_box[:] = [float(h['added_error']) for h in system.train_history]
            return learned(system, xprobe), rng_digest()
        finally:
            import logging, os
            logging.shutdown()
            if tmp:
                shutil.rmtree(tmp, ignore_errors=True)
            if tmplog and os.path.exists(tmplog):
                os.unlink(tmplog)

    ref_opts = {'test_set': False, 'save': 0, 'plot': 0, 'root': False, 'log': 'none'}
    ref = train(ref_opts)
    allc = [{'test_set': t, 'save': s, 'plot': p, 'root': r, 'log': lg}
            for t in (False, True) for s in (0, 2) for p in (0, 1, 3) for r in (False, True) for lg in ('none', 'stdout', 'file')]
    rng.shuffle(allc)
    must = [{'test_set': True, 'save': 2, 'plot': 1, 'root': True, 'log': 'stdout', 'watch': True},
            {'test_set': True, 'save': 0, 'plot': 0, 'root': False, 'log': 'none', 'start': 1},
            # (a test set that lacks some target outputs is only usable without a root directory: with one, fit tries to
            #  plot the missing outputs' test errors and raises KeyError — outside this property's option product)
            {'test_set': 'subset', 'save': 0, 'plot': 0, 'root': False, 'log': 'none'},
            {'test_set': 'subset', 'save': 0, 'plot': 0, 'root': False, 'log': 'stdout', 'start': 1},
            {'test_set': 'big', 'save': 0, 'plot': 0, 'root': False, 'log': 'none', 'start': 1},
            {'test_set': 'inputs-only', 'save': 0, 'plot': 0, 'root': False, 'log': 'none'}]
    for opts in must + allc[:max(0, nconf - len(must))]:
        got = train(opts)
        if got[0] != ref[0]:
            a, b = json.loads(got[0]), json.loads(ref[0])
            diff = [k for k in a if a[k] != b.get(k)]
            res.failures.append({'kind': 'monitoring-option-changed-what-is-learned', 'input': {'spec': spec, 'options': opts},
                                 'differs_in': diff,
                                 'observed': {'history': a['_history']}, 'expected': {'history': b['_history']}})
        elif got[1] != ref[1]:
            res.failures.append({'kind': 'monitoring-option-consumed-random-numbers', 'input': {'spec': spec, 'options': opts}})
        res.hit('option-combination')
        for k, v in opts.items():
            res.hit(f'{k}={v}')
    # tolerance-terminated training: the iteration at which the error indicator crosses max_tol must not depend on monitoring
    train(ref_opts, max_iter=steps + 5)
    errs = [e for e in errs_box if np.isfinite(e) and e > 0]
    if len(errs) >= 4:
        srt = sorted(errs)
        tol = float(np.sqrt(srt[len(srt) // 2 - 1] * srt[len(srt) // 2]))      # between two recorded indicators: no ties
        ref_t = train(ref_opts, max_tol=tol, max_iter=steps + 5)
        n_ref = len(errs_box)
        for opts in (must[0], {'test_set': True, 'save': 0, 'plot': 0, 'root': True, 'log': 'none', 'start': 1},
                     {'test_set': True, 'save': 2, 'plot': 3, 'root': True, 'log': 'file'}):
            got = train(opts, max_tol=tol, max_iter=steps + 5)
            if got[0] != ref_t[0] or got[1] != ref_t[1]:
                res.failures.append({'kind': 'monitoring-option-changed-when-tolerance-terminated-training-stops',
                                     'input': {'spec': spec, 'options': opts, 'max_tol': tol, 'max_iter': steps + 5},
                                     'observed': {'iterations': len(errs_box)}, 'expected': {'iterations': n_ref}})
            res.hit('tolerance-terminated-combination')
        if n_ref < steps + 5:
            res.hit('tolerance-stopped-before-max_iter')
    res.case(('c19', str(spec)), True, {'spec': spec, 'steps': steps, 'combinations': nconf})
    # effect-table validation on the real code
    system = sc.build_system(spec)
    np.random.seed(3)
    system.fit(max_iter=4, num_refine=20, max_tol=-np.inf)
    for name, call in (('test_set_performance', lambda: system.test_set_performance(*test_set)),
                       ('predict', lambda: system.predict(xprobe)),
                       ('save_to_file', lambda: save_tmp(system))):
        before = (learned(system, xprobe), rng_digest())
        call()
        after = (learned(system, xprobe), rng_digest())
        if before != after:
            res.failures.append({'kind': 'monitoring-callee-is-not-read-only', 'input': {'spec': spec, 'callee': name},
                                 'observed': 'learning state changed' if before[0] != after[0] else 'NumPy stream consumed'})
        res.hit('effect-table-' + name)


def watch_monitors(system, xprobe, res, info):
    """in-situ validation of the effect table: every call that fit() itself makes to a monitoring callee (with the arguments
    fit really passes) must leave the learning state and the NumPy stream unchanged"""
    cls = type(system)
    originals = {}

    def wrap(name):
        orig = getattr(cls, name)
        originals[name] = orig

        def wrapped(self, *a, **k):
            if self is not system:
                return orig(self, *a, **k)
            before = (json.dumps(sc.state_digest(self), sort_keys=True, default=str), rng_digest())
            out = orig(self, *a, **k)
            after = (json.dumps(sc.state_digest(self), sort_keys=True, default=str), rng_digest())
            if before != after:
                res.failures.append({'kind': 'monitoring-callee-is-not-read-only', 'input': {**info, 'callee': name, 'in_situ': True},
                                     'observed': 'learning state changed' if before[0] != after[0] else 'NumPy stream consumed'})
            res.hit('in-situ-' + name)
            return out
        setattr(cls, name, wrapped)
    for name in ('test_set_performance', 'save_to_file', 'plot_slice'):
        if hasattr(cls, name):
            wrap(name)

    def undo():
        for name, orig in originals.items():
            setattr(cls, name, orig)
    return undo


def save_tmp(system):
    d = tempfile.mkdtemp(prefix='amisc_c19s_')
    try:
        system.save_to_file('s.yml', save_dir=d)
    finally:
        shutil.rmtree(d, ignore_errors=True)


def run(ctx: core.Ctx, only=None) -> core.Result:
    res = core.Result()
    res.rule = ('twin training runs of random 2-3-component systems under the same NumPy seed, differing only in monitoring '
                'options (test set, save interval, plot interval, root directory, log destination, start_test_check): learned '
                'state (history without test errors, index sets, weights, costs, stored data, grids, predictions) and final '
                'NumPy stream position must be identical to the run without monitoring; the callees listed in the effect table '
                'are validated to be read-only on the real code. Every case is non-trivial.')
    specs = [o.get('input', o).get('spec', o.get('input', o)) for o in only] if only is not None else \
        [c.get('spec', c) for c in core.corpus_cases('C19')] + \
        [dict(sc.gen_system_spec(ctx.rng, allow_nosurr=False), coupling_domain=[(-1.0, 3.0), (0.9, 1.1), (0.2, 0.6)][(k + 1) % 3])
         for k in range(ctx.scale(2, 6))]
    if only is None and specs:
        for c_ in specs[-1]['comps']:      # one system per run whose models report a cost that differs from call to call
            c_['cost'] = 'percall'
    for spec in specs:
        with core.guarded(res, 'scenario-raised', {'spec': spec}):
            run_case(ctx, res, spec, ctx.scale(6, 40))
    return res


ASSUMPTIONS = ['the effect table (which callees of fit are read-only / draw no random numbers) in harness/translate/'
               'tr_facts.py is trusted and validated dynamically for test_set_performance, predict and save_to_file',
               'matplotlib figure output and log files are not compared (they are the allowed effects)']
