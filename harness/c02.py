"""C02: index sets stay downward closed; candidates are exactly the admissible margin (shares the C01 machinery,
malformed request stream weighted to 50 %)."""
from harness.lib import core
from harness import c01

ASSUMPTIONS = c01.ASSUMPTIONS


def run(ctx: core.Ctx, only=None) -> core.Result:
    res = c01.run_index(ctx, 'C02', 0.5, only)
    if only is None:
        # life-cycle histories (clear() and retrain; a second component started from the live state of the first): the sets of
        # each component stay those a fresh component would have
        with core.guarded(res, 'scenario-raised', {'lifecycle': True}):
            c01.run_lifecycle(ctx, res, ctx.scale(4, 20))
    c01.search(ctx, res, 'C02')
    return res
