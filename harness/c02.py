"""C02: index sets stay downward closed; candidates are exactly the admissible margin (shares the C01 machinery,
malformed request stream weighted to 50 %)."""
from harness.lib import core
from harness import c01

ASSUMPTIONS = c01.ASSUMPTIONS


def run(ctx: core.Ctx, only=None) -> core.Result:
    res = c01.run_index(ctx, 'C02', 0.5, only)
    c01.search(ctx, res, 'C02')
    return res
