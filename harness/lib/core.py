"""Shared machinery of the /verif checks: Lean build/audit, driver pipe, evidence, replays, known findings, verdict.

Run with /venv/bin/python (amisc is an editable install of /repo/src there).
"""
from __future__ import annotations

import fcntl
import hashlib
import json
import os
import random
import re
import subprocess
import sys
import time
import traceback
from fractions import Fraction
from pathlib import Path

VERIF = Path(__file__).resolve().parents[2]
LEAN = VERIF / 'lean'
REPO = Path(os.environ.get('AMISC_REPO', '/repo'))
SRC = Path(os.environ.get('AMISC_SRC', str(REPO / 'src')))
# development-time runs against a patched COPY of the sources (AMISC_SRC: mutants, seeded changes) must never overwrite the committed
# evidence of /repo itself: they write to replays/_evidence_scratch (ignored by git)
EVID = VERIF / 'evidence' if SRC.resolve() == (REPO / 'src').resolve() else VERIF / 'replays' / '_evidence_scratch'
REPLAYS = VERIF / 'replays'
CORPUS = VERIF / 'corpus'
ALLOWED_AXIOMS = {'propext', 'Classical.choice', 'Quot.sound'}
FORBIDDEN = re.compile(r'\bsorry\b|\badmit\b|^\s*axiom\s|native_decide|bv_decide|implemented_by|\bunsafe\s|maxHeartbeats\s+0\b',
                       re.M)

TRUSTED_BASE = [
    'Lean 4.33.0 kernel (thorough tier: also leanchecker on the compiled modules)',
    'axioms allowed: propext, Classical.choice, Quot.sound (audited with #print axioms for every registered theorem)',
    'Mathlib v4.33.0 lemmas (checked by the same kernel)',
    'translators harness/translate/*.py (Python ast -> Lean text)',
    'correspondence harness: generators, canonicalisation, float->rational conversion, error budget',
    'Lean interpreter (lean --run) executing the import-free model definitions',
]


def setup_import_path():
    """Make `import amisc` resolve to the tree under test (default /repo/src)."""
    p = str(SRC)
    if p in sys.path:
        sys.path.remove(p)
    sys.path.insert(0, p)


class Ctx:
    def __init__(self, prop: str, tier: str, seed: int, replay: str | None = None):
        self.prop = prop
        self.tier = tier
        self.seed = seed
        self.replay = replay
        self.rng = random.Random(seed * 1000003 + int(hashlib.sha256(prop.encode()).hexdigest()[:8], 16))
        self.t0 = time.time()
        self.notes: list[str] = []
        self.quick = tier == 'quick'

    # the thorough tier of the fast checks explores several times more cases (wall time stays within minutes)
    THOROUGH_MULT = {'C01': 4, 'C02': 4, 'C03': 2, 'C05': 4, 'C07': 2, 'C08': 4, 'C09': 5, 'C10': 3, 'C14': 4, 'C15': 3,
                     'C16': 4, 'C17': 4, 'C18': 4, 'C12': 2}

    def scale(self, quick: int, thorough: int) -> int:
        return quick if self.quick else thorough * self.THOROUGH_MULT.get(self.prop, 1)


# ----------------------------------------------------------------------------------------------------------------
# Lean side
# ----------------------------------------------------------------------------------------------------------------

class _Lock:
    def __init__(self, name='lake.lock'):
        (LEAN / '.lake').mkdir(exist_ok=True)
        self.path = LEAN / '.lake' / name

    def __enter__(self):
        self.fd = open(self.path, 'w')
        fcntl.flock(self.fd, fcntl.LOCK_EX)
        return self

    def __exit__(self, *a):
        fcntl.flock(self.fd, fcntl.LOCK_UN)
        self.fd.close()


def regenerate(log: list[str]) -> dict:
    """Run all translators; returns {fragment: status}. Translators fail closed (emit opaque constants)."""
    from harness.translate import run_all
    return run_all(SRC / 'amisc', LEAN / 'AmiscModel' / 'Generated', log)


def lake_build(targets: list[str], timeout=3000) -> tuple[bool, str]:
    with _Lock():
        p = subprocess.run(['lake', 'build', *targets], cwd=LEAN, capture_output=True, text=True, timeout=timeout)
    out = p.stdout + p.stderr
    return p.returncode == 0, out


def registry() -> dict:
    return json.loads((LEAN / 'registry.json').read_text())


def strip_comments(src: str) -> str:
    # remove nested block comments and line comments
    out, i, depth = [], 0, 0
    n = len(src)
    while i < n:
        if src.startswith('/-', i):
            depth += 1; i += 2; continue
        if depth > 0 and src.startswith('-/', i):
            depth -= 1; i += 2; continue
        if depth > 0:
            if src[i] == '\n':
                out.append('\n')
            i += 1; continue
        if src.startswith('--', i):
            while i < n and src[i] != '\n':
                i += 1
            continue
        out.append(src[i]); i += 1
    return ''.join(out)


def source_audit() -> list[str]:
    """grep the Lean sources (comments stripped) for forbidden constructs."""
    hits = []
    for f in sorted(LEAN.rglob('*.lean')):
        if '.lake' in f.parts:
            continue
        txt = strip_comments(f.read_text())
        for m in FORBIDDEN.finditer(txt):
            line = txt.count('\n', 0, m.start()) + 1
            hits.append(f'{f.relative_to(LEAN)}:{line}: {m.group(0).strip()}')
    return hits


def axiom_audit(prop: str, only_mods: list[str] | None = None) -> dict:
    """#print axioms for every registered theorem of `prop`. Returns {thm: {'ok':bool,'axioms':[...], 'err':str}}."""
    reg = registry().get(prop, {})
    thms = reg.get('theorems', [])
    mods = only_mods if only_mods is not None else reg.get('modules', [f'AmiscProps.{prop}'])
    res = {t: {'ok': False, 'axioms': None, 'err': 'not checked'} for t in thms}
    if not thms:
        return res
    src = '\n'.join(f'import {m}' for m in mods) + '\n' + '\n'.join(f'#print axioms {t}' for t in thms) + '\n'
    tmp = LEAN / '.lake' / f'Audit_{prop}_{os.getpid()}.lean'
    tmp.write_text(src)
    try:
        p = subprocess.run(['lake', 'env', 'lean', str(tmp)], cwd=LEAN, capture_output=True, text=True, timeout=1800)
    finally:
        try:
            tmp.unlink()
        except OSError:
            pass
    out = p.stdout + p.stderr
    # messages: "'thm' depends on axioms: [a, b]" or "'thm' does not depend on any axioms"; errors: unknown constant
    flat = re.sub(r'\s+', ' ', out)
    for t in thms:
        m = re.search(r"'" + re.escape(t) + r"' depends on axioms: \[([^\]]*)\]", flat)
        if m:
            ax = [a.strip() for a in m.group(1).split(',') if a.strip()]
            bad = [a for a in ax if a not in ALLOWED_AXIOMS]
            res[t] = {'ok': not bad, 'axioms': ax, 'err': ('disallowed axioms: ' + ', '.join(bad)) if bad else ''}
        elif re.search(r"'" + re.escape(t) + r"' does not depend on any axioms", flat):
            res[t] = {'ok': True, 'axioms': [], 'err': ''}
        else:
            res[t] = {'ok': False, 'axioms': None, 'err': 'theorem missing or did not elaborate: ' + out[-400:]}
    return res


def leanchecker(mods: list[str]) -> tuple[bool, str]:
    with _Lock():
        p = subprocess.run(['lake', 'env', 'leanchecker', *mods], cwd=LEAN, capture_output=True, text=True, timeout=3000)
    return p.returncode == 0, (p.stdout + p.stderr)[-2000:]


class DriverError(RuntimeError):
    pass


def try_driver(lines: list[str], res, what: str):
    """run the model driver; if it no longer builds/runs against the regenerated fragments the correspondence is broken
    (recorded as a disagreement, never a harness error) and the caller continues with the Python oracles only"""
    try:
        return run_driver(lines)
    except DriverError as e:
        res.disagreements.append({'name': 'Lean model driver unavailable: ' + what, 'detail': str(e)[-600:]})
        return None


def run_driver(lines: list[str], timeout=1800) -> list[str]:
    """Pipe command lines to the Lean model driver; one output line per input line."""
    if not lines:          # nothing to ask (e.g. the replay of a scenario that has no model commands)
        return []
    inp = '\n'.join(lines) + '\n'
    p = subprocess.run(['lake', 'env', 'lean', '--run', 'Driver.lean'], cwd=LEAN, input=inp, capture_output=True, text=True,
                       timeout=timeout)
    if p.returncode != 0:
        raise DriverError('Lean driver failed: ' + (p.stderr or p.stdout)[-2000:])
    out = p.stdout.split('\n')
    if out and out[-1] == '':
        out.pop()
    if len(out) != len(lines):
        raise DriverError(f'Lean driver returned {len(out)} lines for {len(lines)} commands: ' + p.stderr[-1000:])
    return out


# ----------------------------------------------------------------------------------------------------------------
# numbers
# ----------------------------------------------------------------------------------------------------------------

def frac(x) -> Fraction:
    """exact rational value of a float / numpy scalar / int"""
    if isinstance(x, Fraction):
        return x
    if isinstance(x, int):
        return Fraction(x)
    return Fraction(*float(x).as_integer_ratio())


def rat_str(x) -> str:
    f = frac(x)
    return f'{f.numerator}/{f.denominator}' if f.denominator != 1 else str(f.numerator)


def parse_rat(s: str) -> Fraction | None:
    if s in ('nan', 'none'):
        return None
    if '/' in s:
        a, b = s.split('/')
        return Fraction(int(a), int(b))
    return Fraction(int(s))


# ----------------------------------------------------------------------------------------------------------------
# results, evidence, replay, verdict
# ----------------------------------------------------------------------------------------------------------------

class Result:
    """What a correspondence/oracle run found."""

    def __init__(self):
        self.evaluations = 0
        self.nontrivial: set = set()
        self.rule = ''
        self.samples: list = []
        self.branch_hits: dict[str, int] = {}
        self.failures: list[dict] = []        # property oracle failed on the real code: concrete failing inputs
        self.disagreements: list[dict] = []   # model and implementation differ (not by itself a violation)
        self.known_hits: dict[str, int] = {}  # finding id -> number of failing inputs with that signature
        self.extra: dict = {}
        self.exhaustive = False

    def hit(self, name: str, n: int = 1):
        self.branch_hits[name] = self.branch_hits.get(name, 0) + n

    def case(self, canon, nontrivial: bool, sample=None):
        self.evaluations += 1
        if nontrivial:
            self.nontrivial.add(hashlib.sha1(repr(canon).encode()).hexdigest())
        if sample is not None and len(self.samples) < 3:
            self.samples.append(sample)


def corpus_cases(prop: str) -> list[dict]:
    """minimised past failures / regression replays of fixed findings: run first on every run"""
    d = CORPUS / prop
    if not d.exists():
        return []
    out = []
    for f in sorted(d.glob('*.json')):
        c = json.loads(f.read_text())
        out.append(c.get('input', c))
    return out


class guarded:
    """`with guarded(res, kind, input):` — an exception escaping the real code inside a scenario that runs cleanly on the
    unchanged tree is a concrete failing input (recorded with the traceback tail), never a harness error"""

    def __init__(self, res, kind, inp):
        self.res, self.kind, self.inp = res, kind, inp

    def __enter__(self):
        return self

    def __exit__(self, et, ev, tb):
        if et is None or not issubclass(et, Exception):
            return False
        if issubclass(et, DriverError):
            return False
        self.res.failures.append({'kind': self.kind, 'input': self.inp,
                                  'observed': ''.join(traceback.format_exception(et, ev, tb))[-900:]})
        return True


def known_findings() -> list[dict]:
    p = VERIF / 'known_findings.json'
    if not p.exists():
        return []
    return json.loads(p.read_text()).get('findings', [])


def write_replay(ctx: Ctx, payload: dict) -> str:
    REPLAYS.mkdir(exist_ok=True)
    body = dict(payload)
    body.setdefault('property', ctx.prop)
    body.setdefault('tier', ctx.tier)
    body.setdefault('seed', ctx.seed)
    body['how_to_replay'] = f'./check {ctx.prop} quick --replay <this file>'
    s = json.dumps(body, indent=1, default=str, sort_keys=True)
    h = hashlib.sha1(s.encode()).hexdigest()[:10]
    path = REPLAYS / f'{ctx.prop}-{h}.json'
    path.write_text(s)
    return str(path.relative_to(VERIF))


def write_evidence(ctx: Ctx, res: Result, audit: dict, lean_state: dict, violations: int, assumptions: list[str]):
    # a --replay run re-executes ONE recorded case: it reports its verdict but must not replace the evidence of the full check
    evid_dir = EVID if not ctx.replay else VERIF / 'replays' / '_evidence_scratch'
    evid_dir.mkdir(parents=True, exist_ok=True)
    obligations = len(audit)
    discharged = sum(1 for v in audit.values() if v['ok']) if lean_state.get('build_ok') and not lean_state.get('source_hits') else 0
    cov = {
        'obligations': max(obligations, 1),
        'discharged': discharged,
        'checker_cmd': lean_state.get('checker_cmd', ''),
        'trusted_base': TRUSTED_BASE + lean_state.get('extra_trusted', []),
        'theorems': {k: (v['axioms'] if v['ok'] else v['err'][:200]) for k, v in audit.items()},
        'evaluations': res.evaluations,
        'distinct_nontrivial': len(res.nontrivial),
        'rule': res.rule,
        'samples': res.samples if res.samples else [{'note': 'no correspondence cases ran'}],
        'branch_hits': res.branch_hits,
        'model_vs_impl_disagreements': len(res.disagreements),
        'known_findings_reproduced': res.known_hits,
        'exhaustive': res.exhaustive,
        'generated_fragments': lean_state.get('fragments', {}),
        'leanchecker': lean_state.get('leanchecker'),
    }
    cov.update(res.extra)
    ev = {
        'property_id': ctx.prop, 'tier': ctx.tier, 'seed': ctx.seed, 'level': 'proof',
        'coverage': cov, 'assumptions': assumptions + ctx.notes,
        'wall_s': round(time.time() - ctx.t0, 2), 'violations': violations,
    }
    tmp = evid_dir / f'{ctx.prop}.json.tmp'
    tmp.write_text(json.dumps(ev, indent=1, default=str))
    os.replace(tmp, evid_dir / f'{ctx.prop}.json')


def prepare_lean(ctx: Ctx) -> tuple[dict, dict]:
    """regenerate + build + audit. Returns (lean_state, audit)."""
    log: list[str] = []
    st: dict = {}
    try:
        st['fragments'] = regenerate(log)
    except Exception as e:  # translator crash = fail closed
        st['fragments'] = {'error': repr(e)}
        log.append(traceback.format_exc())
    reg = registry().get(ctx.prop, {})
    mods = reg.get('modules', [f'AmiscProps.{ctx.prop}'])
    ok, out = lake_build(mods + ['AmiscModel'])
    st['build_ok'] = ok
    st['build_log'] = out[-3000:] if not ok else ''
    st['checker_cmd'] = f'cd lean && lake build {" ".join(mods)} && lake env lean <#print axioms of registry.json[{ctx.prop}]>'
    st['source_hits'] = source_audit()
    if ok:
        audit = axiom_audit(ctx.prop)
    else:
        # some module no longer builds: the theorems of the modules that still do (e.g. the reference-model part) stay discharged,
        # so that the replay names exactly the obligations that no longer check
        good = [m for m in mods if len(mods) > 1 and lake_build([m])[0]]
        audit = axiom_audit(ctx.prop, good) if good else {}
        for t in reg.get('theorems', []):
            if t not in audit or not audit[t]['ok']:
                audit[t] = {'ok': False, 'axioms': None, 'err': 'build failed (module of this theorem no longer compiles)'}
    if ok and not ctx.quick:
        lok, lout = leanchecker(mods)
        st['leanchecker'] = 'ok' if lok else lout
        st['checker_cmd'] += f' && lake env leanchecker {" ".join(mods)}'
        if not lok:
            st['build_ok'] = False
            st['build_log'] = 'leanchecker: ' + lout
    st['log'] = log
    return st, audit


def broken_obligations(st: dict, audit: dict) -> list[str]:
    bad = []
    if not st.get('build_ok'):
        bad.append('lake build failed: ' + st.get('build_log', '')[-600:])
    for h in st.get('source_hits', []):
        bad.append('forbidden construct ' + h)
    for t, v in audit.items():
        if not v['ok']:
            bad.append(f'theorem {t}: {v["err"][:300]}')
    return bad


def finish(ctx: Ctx, res: Result, st: dict, audit: dict, assumptions: list[str]) -> int:
    """Decide the verdict, print VIOLATION / KNOWN-FINDING lines, write evidence. Returns the exit code."""
    violations = 0
    lines = []
    # 1. concrete failing inputs found on the real code (not matching a known finding)
    seen = set()
    for f in res.failures:
        key = f.get('kind', '') + '|' + json.dumps(f.get('input', ''), default=str, sort_keys=True)[:2000]
        if key in seen:
            continue
        seen.add(key)
        if violations >= 5:
            break
        path = write_replay(ctx, f)
        lines.append(f'VIOLATION property={ctx.prop} replay={path}')
        violations += 1
    # 2. broken proof obligation or correspondence without a concrete failing input
    broken = broken_obligations(st, audit)
    if violations == 0 and (broken or res.disagreements):
        payload = {'broken': {'obligations': broken,
                              'correspondence': res.disagreements[:5]},
                   'note': 'a proof obligation or the model/implementation correspondence no longer checks; the '
                           'failing-input search over the model and the implementation found no input on which the '
                           'property fails'}
        path = write_replay(ctx, payload)
        lines.append(f'VIOLATION property={ctx.prop} replay={path} no-failing-input-found')
        violations += 1
    for fid, what in res.extra.get('known_lines', []):
        print(f'KNOWN-FINDING: property={ctx.prop} {fid} {what}')
    for ln in lines:
        print(ln)
    write_evidence(ctx, res, audit, st, violations, assumptions)
    print(f'[{ctx.prop} {ctx.tier}] obligations={len(audit)} discharged={sum(1 for v in audit.values() if v["ok"])} '
          f'cases={res.evaluations} nontrivial={len(res.nontrivial)} disagreements={len(res.disagreements)} '
          f'failures={len(res.failures)} wall={time.time() - ctx.t0:.1f}s')
    return 1 if violations else 0
