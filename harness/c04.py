"""C04: trained systems reproduce coupled polynomial systems exactly as bounds move.

Generated polynomial systems (feed-forward chains, fans/diamonds, affine feedback loops; every component model is a
polynomial resolvable by its declared fidelities) are trained to exhaustion with each bound option (fixed / update_bounds /
estimate_bounds from a test set), several initial coupling-domain guesses (exact, too wide, too narrow, offset) and
normalisations of the coupling variables (none, linear, minmax); System.predict is compared with the exact composition /
linear solve.  The barycentric-weight sequence under changing capacities is compared with the Lean model
(`Amisc.wtsExtend` with a capacity per refinement call)."""
from __future__ import annotations

import random

import numpy as np

from harness.lib import core
from harness.lib.core import rat_str
from harness import comp_common as cc   # noqa: F401

from amisc import Component, Variable, System  # noqa: E402
from amisc.training import SparseGrid  # noqa: E402

SG = dict(opt_args={'locally_biased': False, 'maxfun': 60})


def gen_case(rng):
    topo = rng.choice(['chain2', 'chain3', 'diamond', 'loop2', 'chain2', 'loop2'])
    return dict(topo=topo, seed=rng.randrange(10 ** 6),
                coef=[rng.choice([-2, -1, 1, 2, 3]) * rng.choice([0.5, 1.0]) for _ in range(12)],
                bounds=rng.choice(['fixed', 'update', 'update', 'estimate']),
                guess=rng.choice(['exact', 'wide', 'narrow', 'narrower', 'offset']),
                norm=rng.choice([None, None, 'linear(0.5, 1)', 'minmax', 'zscore', 'linear(1, 300)']))


def xdom(case):
    """domain of the two exogenous inputs: symmetric about 0 for the topology with an interaction term"""
    return (-1.0, 1.0) if case['topo'] == 'chain2z' else (0.0, 1.0)


def xsample(case, rs, n):
    lo, hi = xdom(case)
    return lo + (hi - lo) * rs.rand(n)


def true_ranges(case):
    """ranges of the coupling variables over x in [0,1]^2 (by sampling the true system)"""
    f = system_fn(case)
    lo_, hi_ = xdom(case)
    xs = lo_ + (hi_ - lo_) * np.random.RandomState(1).rand(4000, 2)
    out = np.array([f(x0, x1) for x0, x1 in xs])
    return out.min(axis=0), out.max(axis=0)


def system_fn(case):
    """exact coupled solution: returns the tuple of all component outputs for inputs (x0, x1)"""
    c, topo = case['coef'], case['topo']
    if topo == 'chain2':
        def f(x0, x1):
            y1 = c[0] * x0 + c[1] * x1 ** 2 + 1.0
            y2 = c[2] * y1 ** 2 - y1 + c[3] * x1
            return (y1, y2)
    elif topo == 'chain2p':      # a coupling variable in absolute units far from zero (a pressure of 101325 +- a fraction), NOT normalised
        def f(x0, x1):
            y1 = 101325.0 + 0.1 * (c[0] * x0 + c[1] * x1 ** 2)
            d = y1 - 101325.0
            y2 = c[2] * d ** 2 - d + c[3] * x1
            return (y1, y2)
    elif topo == 'chain2z':      # an INTERACTION term on domains symmetric about 0: candidates whose indicator is exactly 0 occur
        def f(x0, x1):
            y1 = x0 * x1
            y2 = y1 + 2.0 * x1 ** 2 + 3.0
            return (y1, y2)
    elif topo == 'chain2a':      # anisotropic: degree 4 in the coupling variable (listed FIRST by the consumer), degree 1 in x1
        def f(x0, x1):
            y1 = c[0] * x0 + c[1] * x1 ** 2 + 1.0
            y2 = 0.02 * y1 ** 4 - y1 + c[3] * x1
            return (y1, y2)
    elif topo == 'loop2s':       # affine loop with a STRONG coupling (loop gain -1.8): plain iteration diverges, the accelerated one solves it
        def f(x0, x1):
            A = np.array([[1.0, -1.2], [1.5, 1.0]])
            rhs = np.array([c[0] * x0 + 1.0, c[1] * x1])
            a, b = np.linalg.solve(A, rhs)
            return (a, b, a + 2 * b)
    elif topo == 'chain3':
        def f(x0, x1):
            y1 = c[0] * x0 ** 2 + c[1] * x1 + 0.5
            y2 = c[2] * y1 * x1 + y1 ** 2
            y3 = c[3] * y2 - c[4] * y2 ** 2 * 0.1 + x0
            return (y1, y2, y3)
    elif topo == 'diamond':
        def f(x0, x1):
            y1 = c[0] * x0 + c[1] * x1 + 1.0
            y2 = c[2] * y1 ** 2 + x0
            y3 = c[3] * y1 * x1 - 1.0
            y4 = y2 + c[4] * y3 + 0.1 * y2 * y3
            return (y1, y2, y3, y4)
    else:  # loop2 (affine): a = 0.4 b + c0 x0 + 1 ; b = -0.3 a + c1 x1 ; out = a + 2 b
        def f(x0, x1):
            A = np.array([[1.0, -0.4], [0.3, 1.0]])
            rhs = np.array([c[0] * x0 + 1.0, c[1] * x1])
            a, b = np.linalg.solve(A, rhs)
            return (a, b, a + 2 * b)
    return f


def build(case):
    c, topo = case['coef'], case['topo']
    lo, hi = true_ranges(case)
    x0, x1 = Variable('x0', domain=xdom(case)), Variable('x1', domain=xdom(case))

    def guess(k):
        a, b = float(lo[k]), float(hi[k])
        w = max(b - a, 1e-3)
        g = case['guess']
        if g == 'exact':
            return (a, b)
        if g == 'wide':
            return (a - w, b + w)
        if g == 'narrow':
            m = (a + b) / 2; return (m - w / 4, m + w / 4)
        if g == 'narrower':
            m = (a + b) / 2; return (m - w / 20, m + w / 20)
        return (a + 0.6 * w, b + 0.6 * w)   # offset

    def cv(name, k):
        if case['norm'] == 'zscore':
            # z-score of a coupling variable declared with a Normal distribution (mean / deviation fixed by the declaration)
            # (mean / deviation describe the TRUE range — they also weight the Leja nodes; only the domain guess is off. A
            #  deviation taken from a far too narrow guess clusters all nodes in a fraction of the range that is then queried,
            #  and extrapolation amplifies rounding beyond the 1e-7 budget: corrected false alarm of a thorough run.)
            g = guess(k)
            a_, b_ = float(lo[k]), float(hi[k])
            return Variable(name, domain=g, distribution=f'N({(a_ + b_) / 2}, {max(b_ - a_, 1e-3) / 6})', norm='zscore')
        return Variable(name, domain=guess(k), norm=case['norm'])
    sg = lambda: SparseGrid(**SG)   # noqa: E731
    if topo == 'chain2':
        y1, y2 = cv('y1', 0), Variable('y2')
        comps = [Component(lambda inputs: {'y1': c[0] * inputs['x0'] + c[1] * inputs['x1'] ** 2 + 1.0}, inputs=[x0, x1],
                           outputs=[y1], name='c1', vectorized=True, data_fidelity=(2, 2), training_data=sg()),
                 Component(lambda inputs: {'y2': c[2] * inputs['y1'] ** 2 - inputs['y1'] + c[3] * inputs['x1']},
                           inputs=[y1, x1], outputs=[y2], name='c2', vectorized=True, data_fidelity=(2, 2), training_data=sg())]
        cnames = ['y1']
    elif topo == 'chain2p':
        y1, y2 = cv('y1', 0), Variable('y2')
        comps = [Component(lambda inputs: {'y1': 101325.0 + 0.1 * (c[0] * inputs['x0'] + c[1] * inputs['x1'] ** 2)}, inputs=[x0, x1],
                           outputs=[y1], name='c1', vectorized=True, data_fidelity=(2, 2), training_data=sg()),
                 Component(lambda inputs: {'y2': c[2] * (inputs['y1'] - 101325.0) ** 2 - (inputs['y1'] - 101325.0) + c[3] * inputs['x1']},
                           inputs=[y1, x1], outputs=[y2], name='c2', vectorized=True, data_fidelity=(2, 2), training_data=sg())]
        cnames = ['y1']
    elif topo == 'chain2z':
        y1, y2 = cv('y1', 0), Variable('y2')
        comps = [Component(lambda inputs: {'y1': inputs['x0'] * inputs['x1']}, inputs=[x0, x1],
                           outputs=[y1], name='c1', vectorized=True, data_fidelity=(2, 2), training_data=sg()),
                 Component(lambda inputs: {'y2': inputs['y1'] + 2.0 * inputs['x1'] ** 2 + 3.0},
                           inputs=[y1, x1], outputs=[y2], name='c2', vectorized=True, data_fidelity=(2, 2), training_data=sg())]
        cnames = ['y1']
    elif topo == 'chain2a':
        y1, y2 = cv('y1', 0), Variable('y2')
        comps = [Component(lambda inputs: {'y1': c[0] * inputs['x0'] + c[1] * inputs['x1'] ** 2 + 1.0}, inputs=[x0, x1],
                           outputs=[y1], name='c1', vectorized=True, data_fidelity=(2, 2), training_data=sg()),
                 Component(lambda inputs: {'y2': 0.02 * inputs['y1'] ** 4 - inputs['y1'] + c[3] * inputs['x1']},
                           inputs=[y1, x1], outputs=[y2], name='c2', vectorized=True, data_fidelity=(2, 1), training_data=sg())]
        cnames = ['y1']
    elif topo == 'loop2s':
        a, b, out = cv('a', 0), cv('b', 1), Variable('out')
        comps = [Component(lambda inputs: {'a': 1.2 * inputs['b'] + c[0] * inputs['x0'] + 1.0}, inputs=[b, x0], outputs=[a],
                           name='ca', vectorized=True, data_fidelity=(2, 2), training_data=sg()),
                 Component(lambda inputs: {'b': -1.5 * inputs['a'] + c[1] * inputs['x1']}, inputs=[a, x1], outputs=[b],
                           name='cb', vectorized=True, data_fidelity=(2, 2), training_data=sg()),
                 Component(lambda inputs: {'out': inputs['a'] + 2 * inputs['b']}, inputs=[a, b], outputs=[out], name='co',
                           vectorized=True)]
        cnames = ['a', 'b']
    elif topo == 'chain3':
        y1, y2, y3 = cv('y1', 0), cv('y2', 1), Variable('y3')
        comps = [Component(lambda inputs: {'y1': c[0] * inputs['x0'] ** 2 + c[1] * inputs['x1'] + 0.5}, inputs=[x0, x1],
                           outputs=[y1], name='c1', vectorized=True, data_fidelity=(2, 2), training_data=sg()),
                 Component(lambda inputs: {'y2': c[2] * inputs['y1'] * inputs['x1'] + inputs['y1'] ** 2}, inputs=[y1, x1],
                           outputs=[y2], name='c2', vectorized=True, data_fidelity=(2, 2), training_data=sg()),
                 Component(lambda inputs: {'y3': c[3] * inputs['y2'] - c[4] * inputs['y2'] ** 2 * 0.1 + inputs['x0']},
                           inputs=[y2, x0], outputs=[y3], name='c3', vectorized=True, data_fidelity=(2, 2), training_data=sg())]
        cnames = ['y1', 'y2']
    elif topo == 'diamond':
        y1, y2, y3, y4 = cv('y1', 0), cv('y2', 1), cv('y3', 2), Variable('y4')
        comps = [Component(lambda inputs: {'y1': c[0] * inputs['x0'] + c[1] * inputs['x1'] + 1.0}, inputs=[x0, x1],
                           outputs=[y1], name='c1', vectorized=True, data_fidelity=(2, 2), training_data=sg()),
                 Component(lambda inputs: {'y2': c[2] * inputs['y1'] ** 2 + inputs['x0']}, inputs=[y1, x0], outputs=[y2],
                           name='c2', vectorized=True, data_fidelity=(2, 2), training_data=sg()),
                 Component(lambda inputs: {'y3': c[3] * inputs['y1'] * inputs['x1'] - 1.0}, inputs=[y1, x1], outputs=[y3],
                           name='c3', vectorized=True, data_fidelity=(2, 2), training_data=sg()),
                 Component(lambda inputs: {'y4': inputs['y2'] + c[4] * inputs['y3'] + 0.1 * inputs['y2'] * inputs['y3']},
                           inputs=[y2, y3], outputs=[y4], name='c4', vectorized=True, data_fidelity=(2, 2), training_data=sg())]
        cnames = ['y1', 'y2', 'y3']
    else:
        a, b, out = cv('a', 0), cv('b', 1), Variable('out')
        comps = [Component(lambda inputs: {'a': 0.4 * inputs['b'] + c[0] * inputs['x0'] + 1.0}, inputs=[b, x0], outputs=[a],
                           name='ca', vectorized=True, data_fidelity=(2, 2), training_data=sg()),
                 Component(lambda inputs: {'b': -0.3 * inputs['a'] + c[1] * inputs['x1']}, inputs=[a, x1], outputs=[b],
                           name='cb', vectorized=True, data_fidelity=(2, 2), training_data=sg()),
                 Component(lambda inputs: {'out': inputs['a'] + 2 * inputs['b']}, inputs=[a, b], outputs=[out], name='co',
                           vectorized=True)]
        cnames = ['a', 'b']
    return System(*comps, name='poly'), cnames


def run_case(ctx, res, case, lines, post):
    system, cnames = build(case)
    f = system_fn(case)
    out_names = [str(v) for c in system.components for v in c.outputs]
    np.random.seed(case['seed'])
    kw = dict(max_iter=400, max_tol=-np.inf, num_refine=60)
    dom0 = {n: tuple(map(float, system.outputs()[n].get_domain())) for n in cnames}
    if case['bounds'] == 'fixed':
        kw.update(update_bounds=False)
    elif case['bounds'] == 'update':
        kw.update(update_bounds=True)
    else:
        if case['bounds'] == 'estimate-late':
            # the bounds are estimated (here: TIGHTENED, the guess being too wide) only after part of the training is done
            system.fit(max_iter=3 + case['seed'] % 4, max_tol=-np.inf, num_refine=60, update_bounds=False)
        rs = np.random.RandomState(case['seed'])
        xt = {'x0': xsample(case, rs, 50), 'x1': xsample(case, rs, 50)}
        vals = np.array([f(a, b) for a, b in zip(xt['x0'], xt['x1'])])
        yt = {n: vals[:, i] for i, n in enumerate(out_names)}
        kw.update(estimate_bounds=True, update_bounds=False, test_set=(xt, yt))
    weight_log = []   # (component, variable, capacity, new nodes) per interpolator refinement, for the Lean weight model
    system.fit(**kw)
    full = all(len(c.candidate_set) == 0 and len(c.active_set) > 0 for c in system.components if c.has_surrogate)
    info = dict(case)
    if not full:
        res.failures.append({'kind': 'training-to-exhaustion-left-candidates', 'signature': 'none', 'input': info,
                             'observed': {c.name: [len(c.active_set), len(c.candidate_set)] for c in system.components}})
        return
    dom1 = {n: tuple(map(float, system.outputs()[n].get_domain())) for n in cnames}
    moved = [n for n in cnames if dom1[n] != dom0[n]]
    rs = np.random.RandomState(case['seed'] + 1)
    X = {'x0': xsample(case, rs, 12), 'x1': xsample(case, rs, 12)}
    y = system.predict(dict(X), normalized_inputs=False) if case['norm'] is None else None
    # predict returns normalised outputs: convert to model units
    from amisc.utils import to_model_dataset, to_surrogate_dataset
    xs = to_surrogate_dataset(dict(X), system.inputs())[0]
    ys = system.predict(xs)
    ym = to_model_dataset(ys, system.outputs())[0]
    truth = np.array([f(a, b) for a, b in zip(X['x0'], X['x1'])])
    # signature of the known findings, computed from the input/trace (never from the error)
    sig = 'none'
    if moved and case['norm'] == 'minmax':
        sig = 'minmax-restamp'
    for i, n in enumerate(out_names):
        got = np.asarray(ym[n], dtype=float)
        scale = max(1.0, float(np.max(np.abs(truth[:, i]))))
        err = float(np.max(np.abs(got - truth[:, i]))) if not np.any(np.isnan(got)) else float('nan')
        if not (err <= 1e-7 * scale):
            res.failures.append({'kind': 'trained-system-does-not-reproduce-the-coupled-polynomial-system', 'signature': sig,
                                 'input': {**info, 'output': n, 'domains_before': dom0, 'domains_after': dom1},
                                 'observed': err, 'scale': scale})
    res.hit('topo-' + case['topo']); res.hit('bounds-' + case['bounds']); res.hit('guess-' + case['guess'])
    res.hit('norm-' + str(case['norm']))
    if moved:
        res.hit('coupling-domain-moved')
    # weight consistency of every interpolator state (proportional to the true barycentric weights?)
    for c in system.components:
        if not c.has_surrogate:
            continue
        for a, b, st in c.misc_states:
            for var, g in st.x_grids.items():
                g = np.asarray(g, dtype=float); w = np.asarray(st.weights[var], dtype=float)
                if len(g) < 2:
                    continue
                ref = np.array([1.0 / np.prod([g[j] - g[i] for i in range(len(g)) if i != j]) for j in range(len(g))])
                ratio = w / ref
                if not np.allclose(ratio, ratio[0], rtol=1e-8):
                    res.failures.append({'kind': 'interpolator-weights-not-proportional-to-barycentric-weights',
                                         'signature': 'capacity-mix' if moved else 'none',
                                         'input': {**info, 'component': c.name, 'index': [list(a), list(b)], 'variable': var,
                                                   'domains_before': dom0, 'domains_after': dom1},
                                         'observed': (ratio / ratio[0]).tolist()})
                    break
    res.case(('c04', str(case)), bool(moved), {'case': case, 'domains_before': dom0, 'domains_after': dom1,
                                               'steps': len(system.train_history)})


def run(ctx: core.Ctx, only=None) -> core.Result:
    res = core.Result()
    res.rule = ('polynomial systems (2- and 3-component chains, a 4-component diamond, an affine 2-component feedback loop with '
                'a downstream component), trained to exhaustion with bound options fixed/update_bounds/estimate_bounds (at the start, or late: tightening a too wide guess after part of the training) x initial '
                'coupling-domain guesses exact/too wide/too narrow (x0.5, x0.1)/offset x coupling normalisation none/linear (also with a large offset)/'
                'minmax/zscore; System.predict vs the exact composition / linear solve at random inputs (1e-7 relative), and every '
                'interpolator state\'s weights vs true barycentric weights. non-trivial = a coupling domain moved during '
                'training.')
    lines, post = [], []
    cases = [o.get('input', o) for o in only] if only is not None else core.corpus_cases('C04') + \
        [gen_case(ctx.rng) for _ in range(ctx.scale(12, 150))]
    if only is None:
        # designed: z-score / far-offset coupling normalisations whose bounds MOVE during training
        for k in range(ctx.scale(3, 12)):
            c_ = gen_case(ctx.rng)
            c_.update(norm=['zscore', 'zscore', 'linear(1, 300)'][k % 3], bounds='update', guess=['narrow', 'offset', 'narrower'][k % 3],
                      topo=['chain2', 'chain3', 'diamond', 'loop2'][k % 4])
            cases.append(c_)
        for k in range(ctx.scale(2, 8)):      # an anisotropic consumer that lists the coupling variable first; a strongly coupled loop
            c_ = gen_case(ctx.rng)
            c_.update(norm=[None, 'linear(0.5, 1)'][k % 2], bounds=['update', 'fixed'][k % 2], guess=['exact', 'wide'][k % 2],
                      topo=['chain2a', 'loop2s'][k % 2])
            cases.append(c_)
        for k in range(ctx.scale(2, 4)):      # interaction term on symmetric domains (exactly-zero indicators during training)
            c_ = gen_case(ctx.rng)
            c_.update(norm=None, bounds=['update', 'fixed'][k % 2], guess=['exact', 'wide'][k % 2], topo='chain2z')
            cases.append(c_)
        for k in range(ctx.scale(2, 6)):      # un-normalised coupling variable of magnitude 1e5 and range < 1
            c_ = gen_case(ctx.rng)
            c_.update(norm=None, bounds=['update', 'estimate', 'fixed'][k % 3], guess=['exact', 'narrow', 'wide'][k % 3], topo='chain2p')
            cases.append(c_)
        for k in range(ctx.scale(2, 8)):      # feedback loops whose fixed coupling bounds do NOT contain the coupled solution
            c_ = gen_case(ctx.rng)
            c_.update(norm=[None, 'linear(0.5, 1)'][k % 2], bounds='fixed', guess=['narrower', 'offset'][k % 2], topo='loop2')
            cases.append(c_)
        for k in range(ctx.scale(2, 8)):
            c_ = gen_case(ctx.rng)
            c_.update(norm=[None, 'linear(0.5, 1)'][k % 2], bounds='estimate-late', guess='wide', topo=['chain2', 'chain3', 'diamond', 'loop2'][k % 4])
            cases.append(c_)
    keys = ('topo', 'seed', 'coef', 'bounds', 'guess', 'norm')
    for case in cases:
        case = {k: case[k] for k in keys}
        with core.guarded(res, 'scenario-raised', case):
            run_case(ctx, res, case, lines, post)
    # Lean: weights under a sequence of refinements with DIFFERENT capacities are proportional to the barycentric weights
    # only when all capacities agree (model of Lagrange.refine); checked on synthetic node sequences
    rng = ctx.rng
    for _ in range(ctx.scale(6, 40)):
        nodes = rng.sample([0.0, 1.0, 0.5, 0.25, 0.75, 0.125, 0.875], rng.randint(3, 5))
        k = rng.randint(1, len(nodes) - 1)
        c1, c2 = rng.choice([0.25, 0.5, 1.0]), rng.choice([0.25, 0.5, 1.0])
        lines.append(f'itp.refine {rat_str(c1)} | - | - | ' + ' '.join(rat_str(v) for v in nodes[:k]))
        post.append(('w1', nodes, k, c1, c2))
    out = core.try_driver(lines, res, 'Amisc.refine1')
    lines2, post2 = [], []
    for pst, o in zip(post, out or []):
        _, nodes, k, c1, c2 = pst
        g, w = [s_.strip() for s_ in o.split('|')]
        lines2.append(f'itp.refine {rat_str(c2)} | {g} | {w} | ' + ' '.join(rat_str(v) for v in nodes))
        post2.append((nodes, k, c1, c2))
    out2 = core.try_driver(lines2, res, 'Amisc.refine1') if lines2 else []
    for (nodes, k, c1, c2), o in zip(post2, out2 or []):
        w = [float(core.parse_rat(t)) for t in o.split('|')[1].split()]
        # the real Lagrange.refine on the same sequence
        from amisc.interpolator import Lagrange
        L = Lagrange()
        s1 = L.refine((), ({'x': np.array(nodes[:k])}, {}), None, {'x': (0.0, 4.0 * c1)})
        s2 = L.refine((), ({'x': np.array(nodes)}, {}), s1, {'x': (0.0, 4.0 * c2)})
        impl = np.asarray(s2.weights['x'], dtype=float)
        if not np.allclose(impl, w, rtol=1e-10, atol=0):
            res.disagreements.append({'name': 'Amisc.refine1 (capacity per call) vs Lagrange.refine',
                                      'input': {'nodes': nodes, 'first': k, 'capacities': [c1, c2]},
                                      'impl': impl.tolist(), 'model': w})
        res.hit('weight-sequence-compared')
    # known findings
    open_ids = {k['id']: k for k in core.known_findings() if k.get('status') == 'open' and k['property'] == 'C04'}
    kept = []
    for f_ in res.failures:
        sg_ = f_.get('signature')
        fid = {'minmax-restamp': 'F6', 'capacity-mix': 'F7'}.get(sg_)
        if fid and fid in open_ids:
            res.known_hits[fid] = res.known_hits.get(fid, 0) + 1
        else:
            kept.append(f_)
    res.failures = kept
    for fid, n in res.known_hits.items():
        res.extra.setdefault('known_lines', []).append((fid, open_ids[fid]['what'][:200] + f' ({n} failing configurations)'))
    return res


ASSUMPTIONS = ['Anderson/least-squares solver internals only enter through the FPI tolerance (1e-10) of System.predict',
               'the exact coupled solution is computed in binary64 (closed-form composition / 2x2 linear solve); tolerance 1e-7']
