"""C18: replaying the training history reproduces every intermediate surrogate.

Snapshots (index sets, both weight trees, live predictions in both modes) are taken after every real refinement step;
afterwards `System.simulate_fit()` is stepped and every yielded structure is compared with the snapshot of that iteration,
with the Lean replay (`Amisc.simStep`, theorem: replay = live), and predictions made with the replayed structures
(`index_set=…, misc_coeff=…`) are compared with the stored live predictions."""
from __future__ import annotations

import copy
import random

import numpy as np

from harness.lib import core
from harness import sys_common as sc
from harness import index_common as ic


def canon_replayed(comp, active, cand, ctrain, ctest):
    na = len(comp.model_fidelity)
    return (f'A={ic.canon_set(active, na)}|C={ic.canon_set(cand, na)}|T={ic.canon_tree(ctrain)}|E={ic.canon_tree(ctest)}')


def run_case(ctx, res, spec, lines, post):
    rng = random.Random(spec['seed'])
    narrow = 'targets' not in spec and bool(spec.get('narrow', rng.random() < 0.45))
    if narrow:      # a rough (too narrow) initial guess of every coupling domain, widened by training as it goes
        spec = dict(spec); spec['coupling_domain'] = rng.choice([(0.3, 0.5), (0.9, 1.0), (-0.2, 0.1)])
    if 'c04_case' in spec:
        # a FEEDBACK loop of two surrogate components (affine coupling) with a downstream component
        from harness import c04
        system = c04.build(spec['c04_case'])[0]
        res.hit('system-with-feedback-loop')
    else:
        wrap = None
        if spec.get('crashy'):
            # a (vectorised) model that crashes ONCE in the middle of training: the exception escapes refine(), the caller retries
            import inspect
            cnt, crash_at = [0], rng.randint(4, 9)
            armed = [False]          # only model calls made from inside refine() count (not the harness's own predictions)
            spec = dict(spec); spec['_armed'] = armed

            def wrap(cname, model):
                def guard():
                    if not armed[0]:
                        return
                    cnt[0] += 1
                    if cnt[0] == crash_at:
                        raise RuntimeError('solver crashed')
                if 'model_fidelity' in inspect.signature(model).parameters:
                    def m(inputs, model_fidelity=None):
                        guard(); return model(inputs, model_fidelity=model_fidelity)
                else:
                    def m(inputs):
                        guard(); return model(inputs)
                return m
        system = sc.build_system(spec, listing=rng.sample(range(len(spec['comps'])), len(spec['comps'])), model_wrap=wrap)
    np.random.seed(spec['seed'] % 2 ** 31)
    update_bounds = narrow or rng.random() < 0.3
    nsteps = rng.randint(6, 12 if ctx.quick else 20)
    np.random.seed(spec['seed'] % 2 ** 31 + 5)
    xtest = system.sample_inputs(12)
    snaps = []
    if spec.get('cleared', rng.random() < 0.3):
        # life-cycle: an earlier training run on the same object, then clear(): the replay is about the NEW history only
        for _ in range(rng.randint(2, 4)):
            try:
                r0 = system.refine(num_refine=30, update_bounds=False, targets=spec.get('targets'))
            except RuntimeError as e:
                if 'solver crashed' not in str(e):
                    raise
                continue
            if r0['component'] is None:
                break
            system.train_history.append(r0)
        system.clear()
        res.hit('earlier-history-cleared')
    via_fit = rng.random() < 0.4 and not spec.get('crashy')
         # the history is recorded by fit() itself, one step per call, some calls out of time budget
    for step in range(nsteps):
        if via_fit:
            n0 = len(system.train_history)
            n_act0 = sum(len(c.active_set) for c in system.components if c.has_surrogate)
            kwf = dict(max_iter=1, max_tol=-np.inf, num_refine=30, update_bounds=update_bounds, targets=spec.get('targets'))
            if rng.random() < 0.35:
                kwf['runtime_hr'] = 0.0
                res.hit('fit-step-ended-by-time-budget')
            system.fit(**kwf)
            if sum(len(c.active_set) for c in system.components if c.has_surrogate) == n_act0:
                break
            if len(system.train_history) != n0 + 1:
                res.failures.append({'kind': 'activation-made-by-fit-not-recorded-in-history',
                                     'input': {'spec': spec, 'step': step, 'fit_kwargs': {k_: str(v_) for k_, v_ in kwf.items()}},
                                     'observed': len(system.train_history) - n0, 'expected': 1})
        else:
            try:
                if spec.get('_armed'):
                    spec['_armed'][0] = True
                try:
                    r = system.refine(num_refine=30, update_bounds=update_bounds, targets=spec.get('targets'))
                finally:
                    if spec.get('_armed'):
                        spec['_armed'][0] = False
            except RuntimeError as e:
                if 'solver crashed' not in str(e):
                    raise
                res.hit('model-crash-escaped-refine-and-step-was-retried')
                continue
            if r['component'] is None:
                break
            system.train_history.append(r)
        snap = {c.name: ic.canon_state(c) for c in system.components if c.has_surrogate}
        ready = all(len(c.active_set) > 0 for c in system.components if c.has_surrogate)
        # also before every component is initialised: the live system then returns NaN for the affected outputs, and so
        # must a prediction with the replayed (still empty) structures
        try:
            pred = {m: {k: np.asarray(v).copy() for k, v in system.predict(xtest, index_set=m).items()}
                    for m in ('train', 'test')}
            if not ready:
                res.hit('snapshot-before-all-components-initialised')
        except Exception:  # noqa: BLE001
            if ready:
                raise
            # the LIVE system cannot predict yet (e.g. a vectorised surrogate-less component called with zero valid
            # samples): nothing to compare a replayed prediction with at this iteration
            pred = None
            res.hit('live-predict-raised-before-all-components-initialised')
        snaps.append((snap, pred))
    surr = [c for c in system.components if c.has_surrogate]
    info = {'spec': spec, 'update_bounds': update_bounds, 'steps': len(snaps), 'via_fit': via_fit}
    # Lean: per component the recorded history replayed against the final live set
    scripts = {}
    for c in surr:
        hist = [tuple(h['alpha']) + tuple(h['beta']) for h in system.train_history if h['component'] == c.name]
        box = tuple(c.model_fidelity) + tuple(c.max_beta)
        setup = ['idx.box ' + ic.show_idx(box)] + ['idx.act ' + ic.show_idx(h) for h in hist] + ['idx.simreset']
        scripts[c.name] = (setup, [])
    # simulate_fit vs snapshots
    k = -1
    per_comp_step = {c.name: 0 for c in surr}
    for k, (tr, act, cand, mct, mcte) in enumerate(system.simulate_fit()):
        if k >= len(snaps):
            res.failures.append({'kind': 'replay-yields-more-iterations-than-history', 'input': info})
            break
        snap, pred = snaps[k]
        for c in surr:
            got = canon_replayed(c, act[c.name], cand[c.name], mct[c.name], mcte[c.name])
            if got != snap[c.name]:
                res.failures.append({'kind': 'replayed-structures-differ-from-live-snapshot',
                                     'input': {**info, 'iteration': k + 1, 'component': c.name},
                                     'observed': got, 'expected': snap[c.name]})
        cname = tr['component']
        comp = system[cname]
        h = tuple(tr['alpha']) + tuple(tr['beta'])
        scripts[cname][1].append(('idx.sim ' + ic.show_idx(h), ('sim', info, k + 1, cname, snap[cname])))
        if pred is not None:
            for mode, iset, coeff in (('train', {n: copy.deepcopy(act[n]) for n in act},
                                       {n: copy.deepcopy(mct[n]) for n in mct}),
                                      ('test', {n: act[n].union(cand[n]) for n in act},
                                       {n: copy.deepcopy(mcte[n]) for n in mcte})):
                try:
                    y = system.predict(xtest, index_set=iset, misc_coeff=coeff)
                except Exception as e:  # noqa: BLE001
                    res.failures.append({'kind': 'predict-with-replayed-structures-raised',
                                         'input': {**info, 'iteration': k + 1, 'mode': mode}, 'observed': repr(e)[:300]})
                    continue
                for v, arr in pred[mode].items():
                    tol = 1e-9
                    if tol is not None and not np.allclose(np.asarray(y[v]), arr, rtol=tol, atol=1e-12, equal_nan=True):
                        res.failures.append({'kind': 'prediction-with-replayed-structures-differs-from-live',
                                             'input': {**info, 'iteration': k + 1, 'mode': mode, 'output': v},
                                             'observed': np.asarray(y[v]).tolist(), 'expected': arr.tolist()})
            res.hit('replayed-prediction-checked' if not update_bounds else 'replayed-prediction-checked(bounds-moved)')
        res.hit('iteration-compared')
    if k + 1 != len(snaps):
        res.failures.append({'kind': 'replay-length-differs', 'input': info, 'observed': k + 1, 'expected': len(snaps)})
    # last replayed state == live state
    for c in surr:
        if snaps and snaps[-1][0][c.name] != ic.canon_state(c):
            res.failures.append({'kind': 'last-snapshot-differs-from-live', 'input': {**info, 'component': c.name}})
    res.case(('c18', str(spec)), len(snaps) >= 6, {'spec': spec, 'iterations': len(snaps), 'update_bounds': update_bounds,
                                                    'history': [(h['component'], list(h['alpha']), list(h['beta']))
                                                                for h in system.train_history]})
    for cname, (setup, sims) in scripts.items():
        lines.extend(setup); post.extend([None] * len(setup))
        for ln, pst in sims:
            lines.append(ln); post.append(pst)
    if narrow:
        res.hit('narrow-initial-coupling-domains-widened-by-training')
    if any(c['na'] for c in spec.get('comps', [])):
        res.hit('with-model-fidelity')
    if any(c['nosurr'] for c in spec.get('comps', [])):
        res.hit('with-surrogate-less-component')
    if any(np.isnan(h['added_error']) for h in system.train_history[len(surr):]):
        res.hit('non-initial-step-with-undefined-indicator')


def zeroed(spec, k):
    spec['narrow'] = (k % 2 == 0)
    spec['cleared'] = (k % 3 == 2)
    spec['crashy'] = (k % 4 == 1)
    """every third system: the last surrogate component's model vanishes on its coarse grids and training targets only its
    output, so that ordinary (non-initial) refinement steps are recorded with an undefined (NaN) error indicator"""
    if k % 3 != 1:
        return spec
    last = [c for c in spec['comps'] if not c['nosurr']][-1]
    last['kind'] = 'zero'
    last['beta'] = [2 for _ in last['beta']]
    spec['targets'] = [last['out']]
    return spec


def run_failing_replay(ctx, res, seed):
    """a model that is undefined (raises) near both ends of one input: every evaluation requested by the first refinement in that
    direction fails. The bookkeeping must not depend on the outcomes (C14), so replaying the history still regenerates the live sets
    and weights of every iteration"""
    from amisc import Component, System, Variable
    rng = random.Random(seed)
    eps = rng.choice([0.02, 0.05])

    def model(inputs):
        x1, x2 = float(inputs['x1']), float(inputs['x2'])
        if x1 < eps or x1 > 1 - eps:
            raise ValueError('model is not defined this close to the ends of the x1 range')
        return {'y': np.sin(3 * x1) * (1 + x2 ** 2) + x2}
    system = System(Component(model, [Variable('x1', domain=(0, 1)), Variable('x2', domain=(0, 1))], [Variable('y')],
                              name='m', data_fidelity=(2, 2)), name='failrep')
    system.set_logger(stdout=False)
    comp = system['m']
    live = []
    for it in range(rng.randint(5, 8)):
        np.random.seed(seed % 1000 + it)
        n0 = len(system.train_history)
        try:
            system.fit(max_iter=1, max_tol=-1.0, num_refine=30)
        except Exception as e:  # noqa: BLE001  (training with failing evaluations is C14's subject)
            break
        if len(system.train_history) == n0:
            break
        live.append(canon_replayed(comp, comp.active_set, comp.candidate_set, comp.misc_coeff_train, comp.misc_coeff_test))
    info = {'failing_replay': seed, 'undefined_within': eps, 'iterations': len(live)}
    for k, (tr, act, cand, mct, mcte) in enumerate(system.simulate_fit()):
        if k >= len(live):
            break
        rep = canon_replayed(comp, act['m'], cand['m'], mct['m'], mcte['m'])
        if rep != live[k]:
            res.failures.append({'kind': 'replayed-structures-differ-from-live-snapshot (model with failing evaluations)',
                                 'input': {**info, 'iteration': k}, 'observed': rep, 'expected': live[k]})
            break
    res.hit('replay-with-failing-evaluations')
    res.case(('failing_replay', seed), len(live) >= 4, info)


def run(ctx: core.Ctx, only=None) -> core.Result:
    res = core.Result()
    res.rule = ('random training histories over 2-3-component feed-forward systems (with/without model fidelities, with '
                'surrogate-less components, random listing order); every iteration: simulate_fit() structures vs live '
                'snapshots vs the Lean replay; predictions with replayed structures vs stored live predictions (also with narrow '
                'initial coupling-domain guesses widened by update_bounds); 40 % of the histories are recorded by fit() itself, one '
                'step per call, some calls ended by the time budget. non-trivial = >= 6 iterations.')
    lines, post = [], []
    if only is not None:
        for o_ in [o for o in only if 'failing_replay' in o.get('input', o)]:
            run_failing_replay(ctx, res, o_.get('input', o_)['failing_replay'])
        only = [o for o in only if 'failing_replay' not in o.get('input', o)]
    specs = [o.get('input', o).get('spec', o.get('input', o)) for o in only] if only is not None else \
        [c.get('spec', c) for c in core.corpus_cases('C18')] + [zeroed(sc.gen_system_spec(ctx.rng), k) for k in range(ctx.scale(10, 60))]
    if only is None:
        for k_ in range(ctx.scale(2, 8)):
            specs.append({'seed': ctx.rng.randrange(10 ** 9), 'narrow': False, 'cleared': False,
                          'c04_case': {'topo': ['loop2', 'loop2s'][k_ % 2], 'seed': ctx.rng.randrange(10 ** 6),
                                       'coef': [ctx.rng.choice([-2, -1, 1, 2, 3]) * ctx.rng.choice([0.5, 1.0]) for _ in range(12)],
                                       'bounds': 'fixed', 'guess': 'wide', 'norm': None}})
    for spec in specs:
        with core.guarded(res, 'scenario-raised', {'spec': spec}):
            sub_lines, sub_post = [], []
            run_case(ctx, res, spec, sub_lines, sub_post)
            lines.extend(sub_lines); post.extend(sub_post)
    if only is None:
        for _ in range(ctx.scale(2, 6)):
            sd = ctx.rng.randrange(10 ** 6)
            with core.guarded(res, 'scenario-raised', {'failing_replay': sd}):
                run_failing_replay(ctx, res, sd)
    out = core.try_driver(lines, res, 'Amisc.simStep')
    for pst, o in zip(post, out or []):
        if pst is None:
            continue
        _, info, it, cname, snap = pst
        if o != snap:
            res.disagreements.append({'name': 'Amisc.simStep replay vs live snapshot',
                                      'input': {**info, 'iteration': it, 'component': cname}, 'impl': snap, 'model': o})
    return res


ASSUMPTIONS = ['predictions with replayed structures are compared with the live ones also when coupling bounds moved during '
               'training (coupling variables without minmax normalisation; minmax re-labelling is finding F6 of C04/C16)']
