"""C05: Component.predict == Σ c_(α,β) · (tensor Lagrange interpolant of the model at fidelity α on the grid of β).

The Lean driver rebuilds every term from (x_grids, FRESH model calls) only — it never sees amisc's stored data or
weights — and mirrors the node-snapping rule; the Python oracle evaluates the property statement with the classical
Lagrange formula in exact rationals."""
from __future__ import annotations

import math

import random

import numpy as np

from harness.lib import core
from harness.lib.core import frac, rat_str
from harness import comp_common as cc

TOLCMD = None


def make_f(rng, nin, nout, kind):
    cs = [rng.uniform(0.2, 0.8) for _ in range(nin)]
    ws = [rng.uniform(0.5, 2.0) for _ in range(nin)]

    def f(alpha, x):
        xs = [x[f'x{i}'] for i in range(nin)]
        a = sum((k + 1) * v for k, v in enumerate(alpha))
        s = sum(w * v for w, v in zip(ws, xs))
        out = {}
        for o in range(nout):
            if kind == 'abs':
                v = sum(abs(v - c) for v, c in zip(xs, cs)) * (1 + 0.3 * a) + 0.1 * o * s
            elif kind == 'step':
                v = sum(1.0 if v > c else 0.0 for v, c in zip(xs, cs)) + 0.25 * a + math.sin(s + o)
            elif kind == 'exp':
                v = math.exp(0.5 * s) * (1 + 0.2 * a) + o * math.cos(s)
            else:  # rational
                v = (1 + 0.1 * a) / (1.5 + s + 0.3 * o)
            out[f'y{o}'] = v
        return out
    return f


def gen_case(rng):
    nin = rng.choice([1, 1, 2, 2, 3])
    nalpha = rng.choice([0, 0, 1, 2])
    alpha_lim = tuple(rng.choice([1, 2]) for _ in range(nalpha))
    beta_lim = tuple(rng.choice([1, 2, 2, 3] if nin < 3 else [1, 2]) for _ in range(nin))
    kpl = rng.choice([1, 2, 2]) if nin < 3 else rng.choice([1, 2])
    nout = rng.choice([1, 1, 2])
    kind = rng.choice(['abs', 'step', 'exp', 'rational'])
    domains = []
    for _ in range(nin):
        lo = rng.choice([0.0, -1.0, 2.5, -3.0])
        w = rng.choice([1.0, 2.0, 0.5, 4.0])
        domains.append((lo, lo + w))
    norms_in = [rng.choice([None, None, 'linear(0.5, 1)', 'minmax']) for _ in range(nin)]
    norms_out = [rng.choice([None, None, 'linear(2, -1)']) for _ in range(nout)]
    nsteps = rng.randint(2, 7)
    # surrogate-fidelity (interpolator) entries of beta: indices that differ only there share grid, data and interpolant
    surr_lim = tuple(rng.choice([1, 2]) for _ in range(rng.choice([0, 0, 1])))
    return dict(nin=nin, alpha_lim=alpha_lim, beta_lim=beta_lim, surr_lim=surr_lim, kpl=kpl, nout=nout, kind=kind,
                domains=domains, norms_in=norms_in, norms_out=norms_out, nsteps=nsteps + len(surr_lim) * 2,
                fseed=rng.randrange(10 ** 9))


def designed_cases(rng):
    """index sets in which several indices with non-zero weight share model fidelity and data grid and differ only in the
    surrogate-fidelity (interpolator) entry of beta — scripted, so that every run has them"""
    base = dict(nin=1, alpha_lim=(1,), beta_lim=(2,), surr_lim=(2,), kpl=2, nout=2, kind='exp', domains=[(-1.0, 1.0)],
                norms_in=[None], norms_out=[None, 'linear(2, -1)'], nsteps=0)
    b0 = dict(base, alpha_lim=())
    return [dict(base, fseed=rng.randrange(10 ** 9), script=[[0, 0, 0], [0, 0, 1], [0, 1, 0]]),
            dict(b0, fseed=rng.randrange(10 ** 9), script=[[0, 0], [0, 1], [1, 0]]),
            dict(b0, fseed=rng.randrange(10 ** 9), script=[[0, 0], [1, 0], [0, 1]]),
            dict(b0, fseed=rng.randrange(10 ** 9), script=[[0, 0], [0, 1], [0, 2], [1, 0], [1, 1]]),
            dict(b0, fseed=rng.randrange(10 ** 9), script=[[0, 0], [0, 1], [1, 0], [2, 0], [0, 2]]),
            dict(base, nin=2, beta_lim=(1, 2), domains=[(0.0, 1.0), (2.0, 4.0)], norms_in=[None, 'minmax'],
                 fseed=rng.randrange(10 ** 9),
                 script=[[0, 0, 0, 0], [0, 0, 0, 1], [0, 0, 1, 0], [0, 0, 0, 2], [1, 0, 0, 0]])]


def points_for(rng, comp, npts):
    """test points in the surrogate's (normalised) input space: interior, on nodes, near nodes, outside"""
    doms = comp.inputs.get_domains()
    names = list(doms.keys())
    grids = [list(comp.training_data.x_grids[n]) for n in names]
    pts, kinds = [], []
    for k in range(npts):
        mode = ['interior', 'node', 'mixed', 'near-inside-tol', 'near-outside-tol', 'outside', 'special'][k % 7]
        x = []
        for d, n in enumerate(names):
            lb, ub = map(float, doms[n])
            w = ub - lb
            u = lb + rng.random() * w
            if mode == 'node' or (mode == 'mixed' and rng.random() < 0.5):
                u = rng.choice(grids[d])
            elif mode == 'near-inside-tol':
                u = rng.choice(grids[d]) + rng.choice([-1, 1]) * 3e-9
            elif mode == 'near-outside-tol':
                u = rng.choice(grids[d]) + rng.choice([-1, 1]) * rng.choice([3e-7, 1e-5]) * w
            elif mode == 'outside':
                u = lb - 0.2 * w if rng.random() < 0.5 else ub + 0.2 * w
            elif mode == 'special' and rng.random() < 0.7:
                # values that are special for array code rather than for the mathematics: exactly 0.0 (padding value),
                # a node value of ANOTHER dimension, a domain end point, 1.0
                other = [g for dd in range(len(names)) if dd != d for g in grids[dd]]
                # (only within half a width of the domain: far outside, the barycentric form is numerically meaningless)
                pool = [v for v in [0.0, 0.0, lb, ub, 1.0] + other if lb - 0.5 * w <= v <= ub + 0.5 * w]
                if pool:
                    u = rng.choice(pool)
            x.append(float(u))
        pts.append(x)
        kinds.append(mode)
    return names, pts, kinds


def run_case(ctx, res, case, lines, post):
    import random
    rng = random.Random(case['fseed'])
    grown_before = res.branch_hits.get('input-domain-grown-between-refinements', 0) if hasattr(res, 'branch_hits') else 0
    f_real = make_f(random.Random(case['fseed'] + 1), case['nin'], case['nout'], case['kind'])
    cur = {'f': f_real}

    def f(alpha, x):
        return cur['f'](alpha, x)
    out_names = [f'y{o}' for o in range(case['nout'])]
    comp, rec = cc.build_component(f, case['nin'], out_names, case['alpha_lim'], case['beta_lim'],
                                   tuple(case.get('surr_lim') or ()), case['domains'], case['norms_in'], case['norms_out'],
                                   case['kpl'], vectorized=rng.random() < 0.5)
    try:
        if case.get('script'):
            nal = len(case['alpha_lim'])
            hist = [(tuple(i[:nal]), tuple(i[nal:])) for i in case['script']]
            for a, b in hist:
                comp.activate_index(a, b)
        else:
            lrng = random.Random(case['fseed'] + 11)
            if lrng.random() < 0.3:
                # life-cycle: trained on ANOTHER model first, then cleared — nothing of it may survive
                cur['f'] = make_f(random.Random(case['fseed'] + 2), case['nin'], case['nout'], 'exp')
                cc.random_history(random.Random(case['fseed'] + 3), comp, max(2, case['nsteps'] - 1))
                comp.clear(); rec.calls.clear()
                cur['f'] = f_real
                res.hit('trained-on-another-model-then-cleared')
            moving = lrng.random() < 0.3
            ivars = list(comp.inputs)

            def between(k_):
                # an input domain GROWS between two refinements (as coupling bounds do during fit): every term must stay the
                # interpolant of its own data on its own (old and new) knots
                if moving and k_ % 2 == 1:
                    d_ = lrng.randrange(len(ivars))
                    if case['norms_in'][d_] != 'minmax':
                        lb_, ub_ = ivars[d_].get_domain()
                        w_ = ub_ - lb_
                        ivars[d_].update_domain((lb_ - lrng.choice([0.0, 0.3]) * w_, ub_ + lrng.choice([0.2, 0.5]) * w_))
                        res.hit('input-domain-grown-between-refinements')
            hist = cc.random_history(rng, comp, case['nsteps'], between=between)
    except Exception as e:  # noqa: BLE001
        res.failures.append({'kind': 'activation-raised', 'input': case, 'observed': repr(e)[:300]})
        return
    na = len(case['alpha_lim'])
    nd = case['nin']
    names, pts, kinds = points_for(rng, comp, 14 if ctx.quick else 28)
    in_vars = [comp.inputs[n] for n in names]
    out_vars = [comp.outputs[o] for o in out_names]

    def fresh_rows(alpha, grids):
        rows = []
        for p in cc.product_points(grids):
            xphys = {n: cc.scalar(v.denormalize(np.atleast_1d(np.float64(c)))) for n, v, c in zip(names, in_vars, p)}
            y = f(tuple(alpha), xphys)
            rows.append([cc.scalar(ov.normalize(np.atleast_1d(np.float64(y[o])))) for o, ov in zip(out_names, out_vars)])
        return rows

    for mode in ('train', 'test'):
        iset = set(comp.active_set) if mode == 'train' else set(comp.active_set) | set(comp.candidate_set)
        W = cc.ie_weights({tuple(a) + tuple(b) for a, b in iset})
        lines.append('itp.reset'); post.append(None)
        terms = {}
        for (a, b) in sorted(iset):
            w = W[tuple(a) + tuple(b)]
            if w == 0:
                continue
            grids = cc.grids_for(comp, b)
            rows = fresh_rows(a, grids)
            key = cc.idx_key(a, b)
            terms[key] = (a, b, grids, rows, w)
            lines.append(f'itp.autostate {key} | ' + cc.mat_str(grids)); post.append(None)
            lines.append(f'itp.data {key} | ' + cc.mat_str(rows)); post.append(None)
            lines.append(f'itp.coef {key} {w}'); post.append(None)
        X = {n: np.array([p[d] for p in pts]) for d, n in enumerate(names)}
        try:
            got = comp.predict(X, index_set=mode)
        except Exception as e:  # noqa: BLE001
            res.failures.append({'kind': 'predict-raised', 'input': {**case, 'mode': mode}, 'observed': repr(e)[:300]})
            continue
        for k, p in enumerate(pts):
            xs = ' '.join(rat_str(v) for v in p)
            lines.append(f'itp.misc TOL | {xs}')
            post.append(('val', case, mode, kinds[k], p, [float(got[o][k]) for o in out_names], hist))
            lines.append(f'itp.miscabs TOL ' + ' '.join('0' for _ in p) + f' | {xs}')
            post.append(('abs',))
            res.hit('pt-' + kinds[k])
        # oracle (property statement, exact rationals, classical Lagrange formula) on node / far-off-node points
        for k, p in enumerate(pts):
            if kinds[k] not in ('interior', 'node') or k >= 8:
                continue
            xq = [frac(v) for v in p]
            tot = [0] * len(out_names)
            scale = [0.0] * len(out_names)
            for key, (a, b, grids, rows, w) in terms.items():
                gq = [[frac(v) for v in g] for g in grids]
                for o in range(len(out_names)):
                    v = cc.tensor_interp_exact(gq, [frac(r[o]) for r in rows], xq)
                    tot[o] += w * v
                    scale[o] += abs(w) * max(abs(float(v)), max(abs(r[o]) for r in rows))
            for o, on in enumerate(out_names):
                g = float(got[on][k])
                if not (abs(g - float(tot[o])) <= 1e-8 * scale[o] + 1e-11):
                    res.failures.append({'kind': 'prediction-differs-from-MISC-formula',
                                         'input': {**case, 'mode': mode, 'point': p, 'output': on,
                                                   'history': [list(a) + list(b) for a, b in hist]},
                                         'observed': g, 'expected': float(tot[o])})
            res.hit('oracle-points')
    # each term passes through its training data; stored data are true model outputs
    for (a, b) in sorted(comp.active_set | comp.candidate_set):
        xt, yt = comp.training_data.get(a, b[:nd], y_vars=out_names, skip_nan=True)
        st = comp.misc_states.get((a, b))
        pr = comp.interpolator.predict(xt, st, (xt, yt))
        for o in out_names:
            if not np.allclose(pr[o], yt[o], rtol=1e-9, atol=1e-11):
                res.failures.append({'kind': 'term-does-not-pass-through-training-data',
                                     'input': {**case, 'index': [list(a), list(b)]},
                                     'observed': np.asarray(pr[o]).tolist(), 'expected': np.asarray(yt[o]).tolist()})
        grids = cc.grids_for(comp, b)
        rows = fresh_rows(a, grids)
        for o_i, o in enumerate(out_names):
            exp = np.array([r[o_i] for r in rows])
            if not np.allclose(np.asarray(yt[o]), exp, rtol=1e-12, atol=1e-13):
                res.failures.append({'kind': 'stored-data-not-model-output-in-grid-order',
                                     'input': {**case, 'index': [list(a), list(b)], 'output': o},
                                     'observed': np.asarray(yt[o]).tolist(), 'expected': exp.tolist()})
        res.hit('terms-checked')
    # a single-fidelity surrogate passes through every training point it uses (nested grids + combination weights)
    if na == 0:
        for mode in ('train', 'test'):
            iset = set(comp.active_set) if mode == 'train' else set(comp.active_set) | set(comp.candidate_set)
            for (a, b) in sorted(iset):
                xt, yt = comp.training_data.get(a, b[:nd], y_vars=out_names, skip_nan=True)
                pr = comp.predict({k: np.asarray(v) for k, v in xt.items()}, index_set=mode)
                for o, ov in zip(out_names, out_vars):
                    exp = np.asarray(yt[o])        # Component.predict returns the outputs in normalised form, like the store
                    if not np.allclose(np.asarray(pr[o]), exp, rtol=1e-8, atol=1e-9 * max(1.0, float(np.max(np.abs(exp))))):
                        res.failures.append({'kind': 'single-fidelity-surrogate-misses-a-training-point',
                                             'input': {**case, 'mode': mode, 'index': [list(a), list(b)], 'output': o,
                                                       'history': [list(x) + list(y) for x, y in hist]},
                                             'observed': np.asarray(pr[o]).tolist(), 'expected': exp.tolist()})
            res.hit('passes-through-training-points-' + mode)
    # the surrogate is linear in the model's outputs: surrogate(2 f - 3 g) = 2 surrogate(f) - 3 surrogate(g) for the same
    # activation history (outputs without normalisation, so that the statement is about the surrogate itself)
    # (not for histories in which an input domain was moved in between: the twins below replay the history on the ORIGINAL domains,
    #  their grids would differ from the component's and the three surrogates would not be comparable — a false alarm of seed 0
    #  on the unchanged tree, corrected)
    grew = bool(res.branch_hits.get('input-domain-grown-between-refinements', 0) > grown_before) if hasattr(res, 'branch_hits') else False
    if case['fseed'] % 3 == 0 and all(nm is None for nm in case['norms_out']) and not grew:
        g = make_f(random.Random(case['fseed'] + 11), case['nin'], case['nout'], 'rational')

        def h(alpha, x):
            yf, yg = f(alpha, x), g(alpha, x)
            return {o: 2.0 * yf[o] - 3.0 * yg[o] for o in yf}
        twins = []
        for fn in (g, h):
            c2, _ = cc.build_component(fn, case['nin'], out_names, case['alpha_lim'], case['beta_lim'],
                                       tuple(case.get('surr_lim') or ()), case['domains'], case['norms_in'], case['norms_out'],
                                       case['kpl'], vectorized=True)
            for a, b in hist:
                c2.activate_index(a, b)
            twins.append(c2)
        X = {n: np.array([p[d] for p in pts]) for d, n in enumerate(names)}
        for mode in ('train', 'test'):
            yf, yg, yh = (c.predict(X, index_set=mode) for c in (comp, twins[0], twins[1]))
            for o in out_names:
                lhs, rhs = np.asarray(yh[o]), 2.0 * np.asarray(yf[o]) - 3.0 * np.asarray(yg[o])
                sc = np.abs(np.asarray(yf[o])) + np.abs(np.asarray(yg[o])) + 1.0
                ok = np.isfinite(lhs) & np.isfinite(rhs)
                if not np.all(np.abs(lhs - rhs)[ok] <= 1e-8 * sc[ok] * 10):
                    res.failures.append({'kind': 'surrogate-not-linear-in-the-model-outputs',
                                         'input': {**case, 'mode': mode, 'output': o,
                                                   'history': [list(x) + list(y) for x, y in hist]},
                                         'observed': lhs.tolist(), 'expected': rhs.tolist()})
        res.hit('linearity-in-model-outputs')
    res.case((str(case),), len(comp.active_set) >= 3,
             {'case': {k: case[k] for k in ('nin', 'alpha_lim', 'beta_lim', 'kpl', 'nout', 'kind', 'domains',
                                            'norms_in', 'norms_out')},
              'history': [list(a) + list(b) for a, b in hist], 'model_calls': len(rec.calls)})


def run(ctx: core.Ctx, only=None) -> core.Result:
    res = core.Result()
    res.rule = ('real Components over non-polynomial deterministic models (abs/step/exp/rational, fidelity dependent), '
                '1-3 inputs, 0-2 model-fidelity dims, random domains and input/output normalisations, random admissible '
                'histories; points on nodes / within the snapping tolerance / just outside it / interior / outside the '
                'domain; both modes. Lean model terms are rebuilt from x_grids and FRESH model calls only. non-trivial = '
                'active set of >= 3 indices; distinct by full case description.')
    lines, post = [], []
    cases = [o.get('input', o) for o in only] if only is not None else core.corpus_cases(ctx.prop) + designed_cases(ctx.rng) + \
        [gen_case(ctx.rng) for _ in range(ctx.scale(24, 200))]
    for case in cases:
        case = {k: (tuple(v) if k in ('alpha_lim', 'beta_lim') else v) for k, v in case.items()
                if k in ('nin', 'alpha_lim', 'beta_lim', 'kpl', 'nout', 'kind', 'domains', 'norms_in', 'norms_out',
                         'nsteps', 'fseed', 'surr_lim', 'script')}
        with core.guarded(res, 'scenario-raised', case):
            run_case(ctx, res, case, lines, post)
    t = core.try_driver(['itp.snaptol 1'], res, 'Gen.snapTol')
    if t is None:
        return res
    tol_out = t[0]
    lines = [ln.replace(' TOL ', f' {tol_out} ') for ln in lines]
    out = core.try_driver(lines, res, 'Amisc.predictT') or []
    pending = None
    for pst, o in zip(post, out):
        if pst is None:
            if o != 'ok':
                raise RuntimeError('driver: ' + o)
            continue
        if pst[0] == 'val':
            pending = (pst, o)
        elif pst[0] == 'abs':
            (_, case, mode, kind, p, got, hist), val = pending
            exp = [float(core.parse_rat(t)) for t in val.split()]
            sc = [float(core.parse_rat(t)) for t in o.split()]
            for e, g, s_ in zip(exp, got, sc):
                if not (abs(e - g) <= 1e-9 * s_ + 1e-12):
                    res.disagreements.append({'name': 'Amisc.predictT/miscSum vs Component.predict',
                                              'input': {**case, 'mode': mode, 'point_kind': kind, 'point': p,
                                                        'history': [list(a) + list(b) for a, b in hist]},
                                              'impl': g, 'model': e, 'scale': s_})
                    if kind != 'near-inside-tol':
                        # away from the coincidence band the model value IS the property's right-hand side (theorem
                        # C05.term_is_tensor_lagrange_interpolant: each model term is the unique tensor-product interpolant of
                        # the stored data, summed with the inclusion-exclusion weights): the point is a failing input
                        res.failures.append({'kind': 'surrogate-value-differs-from-the-weighted-sum-of-interpolants',
                                             'signature': 'none',
                                             'input': {**case, 'mode': mode, 'point_kind': kind, 'point': p,
                                                       'history': [list(a) + list(b) for a, b in hist]},
                                             'observed': g, 'expected': e, 'scale': s_})
    return res


ASSUMPTIONS = ['scipy.optimize.direct (Leja nodes) is not modelled: only that the nodes are distinct is used',
               'binary64 rounding: |impl - exact| <= 1e-9 * (Σ|c|Σ|ΠL||y|) + 1e-12']
