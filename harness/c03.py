"""C03: component surrogates are exact on their sparse polynomial space.

Real Components (1-4 inputs, random domains / normalisations, ignored model-fidelity dims, several outputs) are trained
along random admissible histories on polynomial models drawn from the sparse polynomial space of the reached index set.
Compared:  Component.predict (train & test mode)  vs  the polynomial itself (oracle, exact rationals, any point inside
or outside the domain), vs the Lean model rebuilt from grids + fresh model calls; and, on the Lean side only, the
exact identity  miscPredict(exact data, tol = 0) == polynomial  (an instance check of the exactness theorem)."""
from __future__ import annotations

import random
from fractions import Fraction

import numpy as np

from harness.lib import core
from harness.lib.core import frac, rat_str
from harness import comp_common as cc
from harness import c05


def gen_case(rng, narrow=False):
    nin = rng.choice([1, 2, 2, 3, 3, 4]) if not narrow else rng.choice([1, 2, 2])
    nalpha = rng.choice([0, 0, 1, 2])
    alpha_lim = tuple(rng.choice([1, 2]) for _ in range(nalpha))
    if nin <= 2:
        beta_lim = tuple(rng.choice([1, 2, 3]) for _ in range(nin))
        kpl = rng.choice([1, 2, 3])
    elif nin == 3:
        beta_lim = tuple(rng.choice([1, 2]) for _ in range(nin))
        kpl = rng.choice([1, 2])
    else:
        beta_lim = tuple(rng.choice([1, 1, 2]) for _ in range(nin))
        kpl = 1
    nout = rng.choice([1, 2, 3])
    domains = []
    for _ in range(nin):
        lo = rng.choice([0.0, -1.0, 2.5, -30.0, 100.0])
        w = rng.choice([1.0, 2.0, 0.5, 8.0, 1e-2])
        domains.append((lo, lo + w))
    norms_in = [rng.choice([None, None, 'linear(0.5, 1)', 'minmax']) for _ in range(nin)]
    if narrow:      # at least one un-normalised input on a narrow band far from the origin in every run
        for d_ in range(nin):
            domains[d_] = rng.choice([(2450.0, 2450.02), (-1.0e4, -1.0e4 + 0.05), (3.0e5, 3.0e5 + 2.0)])
            norms_in[d_] = None
    norms_out = [rng.choice([None, None, 'linear(2, -1)']) for _ in range(nout)]
    nsteps = rng.randint(2, 8 if nin <= 2 else 5)
    surr_lim = tuple(rng.choice([1, 2]) for _ in range(rng.choice([0, 0, 0, 1])))
    return dict(nin=nin, alpha_lim=alpha_lim, beta_lim=beta_lim, kpl=kpl, nout=nout, domains=domains, surr_lim=surr_lim,
                norms_in=norms_in, norms_out=norms_out, nsteps=nsteps + 2 * len(surr_lim), fseed=rng.randrange(10 ** 9))


def draw_poly(rng, betas, kpl, nin, nterms):
    """monomials dominated (in every input) by kpl * beta of ONE index of the set"""
    terms = []
    for _ in range(nterms):
        b = rng.choice(betas)
        ks = tuple(rng.randint(0, kpl * b[d]) for d in range(nin))
        c = Fraction(rng.randint(-8, 8), rng.choice([1, 2, 4]))
        if c != 0:
            terms.append((c, ks))
    return terms or [(Fraction(1), (0,) * nin)]


def poly_eval(terms, z):
    tot = Fraction(0) if isinstance(z[0], Fraction) else 0.0
    for c, ks in terms:
        p = c if isinstance(z[0], Fraction) else float(c)
        for zd, k in zip(z, ks):
            p = p * zd ** k
        tot = tot + p
    return tot


def poly_str(terms):
    return ' ; '.join(rat_str(c) + ' ' + ' '.join(map(str, ks)) for c, ks in terms)


def run_case(ctx, res, case, lines, post):
    rng = random.Random(case['fseed'])
    nin, nout = case['nin'], case['nout']
    out_names = [f'y{o}' for o in range(nout)]
    holder = {}

    def f(alpha, x):   # the model: a polynomial in the NORMALISED inputs; ignores alpha
        z = [cc.scalar(v.normalize(np.atleast_1d(np.float64(x[n])))) for n, v in zip(holder['names'], holder['in_vars'])]
        return {o: cc.scalar(ov.denormalize(np.atleast_1d(np.float64(poly_eval(holder['polys'][o], z)))))
                for o, ov in zip(out_names, holder['out_vars'])}

    comp, rec = cc.build_component(f, nin, out_names, case['alpha_lim'], case['beta_lim'], tuple(case.get('surr_lim') or ()),
                                   case['domains'], case['norms_in'], case['norms_out'], case['kpl'],
                                   vectorized=rng.random() < 0.5)
    holder['names'] = [v.name for v in comp.inputs]
    holder['in_vars'] = list(comp.inputs)
    holder['out_vars'] = [comp.outputs[o] for o in out_names]
    # the polynomial must be fixed before training; it has to lie in the space of the FINAL set, which depends on the
    # history -> choose the history first on a twin with a dummy polynomial (histories do not depend on data)
    holder['polys'] = {o: [(Fraction(1), (0,) * nin)] for o in out_names}
    na = len(case['alpha_lim'])
    hist_rng = random.Random(case['fseed'] + 5)
    hist = cc.random_history(hist_rng, comp, case['nsteps'])
    active_betas = sorted({tuple(b[:nin]) for _, b in comp.active_set})
    holder['polys'] = {o: draw_poly(rng, active_betas, case['kpl'], nin, rng.randint(2, 5)) for o in out_names}
    # retrain from scratch with the real polynomial along the same history
    comp, rec = cc.build_component(f, nin, out_names, case['alpha_lim'], case['beta_lim'], tuple(case.get('surr_lim') or ()),
                                   case['domains'], case['norms_in'], case['norms_out'], case['kpl'],
                                   vectorized=rng.random() < 0.5)
    holder['in_vars'] = list(comp.inputs)
    holder['out_vars'] = [comp.outputs[o] for o in out_names]
    if rng.random() < 0.3:
        # life-cycle: the component was first trained on ANOTHER model along another history and then cleared — nothing of
        # that may survive into the surrogate of the real polynomial
        real = holder['polys']
        holder['polys'] = {o: [(Fraction(7, 2), (0,) * nin), (Fraction(-3), tuple(1 if d == 0 else 0 for d in range(nin)))]
                           for o in out_names}
        cc.random_history(random.Random(case['fseed'] + 9), comp, max(2, case['nsteps'] - 1))
        comp.clear()
        rec.calls.clear()
        holder['polys'] = real
        res.hit('trained-on-another-model-then-cleared')
    try:
        for a, b in hist:
            comp.activate_index(a, b)
    except Exception as e:  # noqa: BLE001
        res.failures.append({'kind': 'activation-raised', 'input': case, 'observed': repr(e)[:300]})
        return
    names, pts, kinds = c05.points_for(rng, comp, 14 if ctx.quick else 28)
    in_vars, out_vars = holder['in_vars'], holder['out_vars']
    allg = [list(comp.training_data.x_grids[n]) for n in names]
    for k, p in enumerate(pts):   # a coordinate strictly inside the snapping band (not on the node)?
        if any(0 < abs(p[d] - g) <= 4e-8 for d in range(nin) for g in allg[d]):
            kinds[k] = 'near-inside-tol'
    for o in out_names:
        lines.append(f'poly.set {o} | ' + poly_str(holder['polys'][o])); post.append(None)

    def fresh_rows(alpha, grids, exact=False):
        rows = []
        for p in cc.product_points(grids):
            if exact:
                rows.append([poly_eval(holder['polys'][o], [frac(c) for c in p]) for o in out_names])
            else:
                xphys = {n: cc.scalar(v.denormalize(np.atleast_1d(np.float64(c)))) for n, v, c in zip(names, in_vars, p)}
                y = f(tuple(alpha), xphys)
                rows.append([cc.scalar(ov.normalize(np.atleast_1d(np.float64(y[o])))) for o, ov in zip(out_names, out_vars)])
        return rows

    for mode in ('train', 'test'):
        # in test mode the polynomial is (a fortiori) in the space of active ∪ candidate
        iset = set(comp.active_set) if mode == 'train' else set(comp.active_set) | set(comp.candidate_set)
        W = cc.ie_weights({tuple(a) + tuple(b) for a, b in iset})
        X = {n: np.array([p[d] for p in pts]) for d, n in enumerate(names)}
        try:
            got = comp.predict(X, index_set=mode)
        except Exception as e:  # noqa: BLE001
            res.failures.append({'kind': 'predict-raised', 'input': {**case, 'mode': mode}, 'observed': repr(e)[:300]})
            continue
        # the per-index interpolants evaluated through an executor whose tasks complete in REVERSE order of submission: each
        # interpolant must still meet ITS OWN combination weight
        if mode == 'train' and len(iset) >= 2:
            from harness.c15 import ScheduledExecutor
            try:
                got_ex = comp.predict(X, index_set=mode, executor=ScheduledExecutor(lambda n_: list(reversed(range(n_)))))
                for o in out_names:
                    a_, b_ = np.asarray(got[o], dtype=float), np.asarray(got_ex[o], dtype=float)
                    sc_ = max(1.0, float(np.nanmax(np.abs(a_)))) if np.any(np.isfinite(a_)) else 1.0
                    if not np.allclose(a_, b_, rtol=0, atol=1e-11 * sc_, equal_nan=True):
                        res.failures.append({'kind': 'surrogate-value-depends-on-the-completion-order-of-executor-tasks',
                                             'input': {**case, 'mode': mode, 'history': [list(a) + list(b) for a, b in hist]},
                                             'observed': b_.tolist(), 'expected': a_.tolist()})
                res.hit('predict-through-reverse-completing-executor')
            except Exception as e:  # noqa: BLE001
                res.failures.append({'kind': 'predict-raised', 'input': {**case, 'mode': mode, 'executor': 'reverse completion'},
                                     'observed': repr(e)[:300]})
        # the same points handed over in other array types (an integer sweep / single precision for the FIRST input, whose
        # values are chosen exactly representable): the surrogate is a function of the point, not of the array's dtype
        if nin >= 2 and mode == 'test':
            doms = comp.inputs.get_domains()
            lb0, ub0 = map(float, doms[names[0]])
            ints = [v for v in range(int(np.ceil(lb0 - 2)), int(np.floor(ub0 + 2)) + 1)][:6]
            if ints:
                rest = [pts[k % len(pts)] for k in range(len(ints))]
                for dt in (np.int64, np.float32):
                    Xd = {n: np.array([r[d] for r in rest]) for d, n in enumerate(names)}
                    X64 = dict(Xd); X64[names[0]] = np.array(ints, dtype=np.float64)
                    Xd[names[0]] = np.array(ints, dtype=dt)
                    try:
                        ya, yb = comp.predict(X64, index_set=mode), comp.predict(Xd, index_set=mode)
                    except Exception as e:  # noqa: BLE001
                        res.failures.append({'kind': 'predict-raised', 'input': {**case, 'mode': mode, 'dtype': str(dt)},
                                             'observed': repr(e)[:300]})
                        continue
                    for o in out_names:
                        a_, b_ = np.asarray(ya[o], dtype=float), np.asarray(yb[o], dtype=float)
                        sc_ = max(1.0, float(np.max(np.abs(a_)))) if np.all(np.isfinite(a_)) else 1.0
                        if not np.allclose(a_, b_, rtol=0, atol=1e-11 * sc_, equal_nan=True):
                            res.failures.append({'kind': 'surrogate-value-depends-on-the-dtype-of-the-input-arrays',
                                                 'input': {**case, 'mode': mode, 'dtype': np.dtype(dt).name, 'first_input': ints,
                                                           'other_coordinates': rest, 'history': [list(a) + list(b) for a, b in hist]},
                                                 'observed': b_.tolist(), 'expected': a_.tolist()})
                    res.hit('dtype-' + np.dtype(dt).name)
        for exact in (False, True):
            lines.append('itp.reset'); post.append(None)
            for (a, b) in sorted(iset):
                w = W[tuple(a) + tuple(b)]
                if w == 0:
                    continue
                grids = cc.grids_for(comp, b)
                rows = fresh_rows(a, grids, exact)
                key = cc.idx_key(a, b)
                lines.append(f'itp.autostate {key} | ' + cc.mat_str(grids)); post.append(None)
                lines.append(f'itp.data {key} | ' + cc.mat_str(rows)); post.append(None)
                lines.append(f'itp.coef {key} {w}'); post.append(None)
            for k, p in enumerate(pts):
                xs = ' '.join(rat_str(v) for v in p)
                if exact:
                    if k % 4 == 0:
                        lines.append(f'itp.misc 0 | {xs}')
                        post.append(('exact', case, mode, p, [poly_eval(holder['polys'][o], [frac(v) for v in p])
                                                               for o in out_names]))
                        res.hit('exact-identity-checks')
                else:
                    lines.append(f'itp.misc TOL | {xs}')
                    post.append(('val', case, mode, kinds[k], p, [float(got[o][k]) for o in out_names], hist,
                                 [float(poly_eval(holder['polys'][o], [frac(v) for v in p])) for o in out_names]))
                    lines.append('itp.miscabs TOL ' + ' '.join('0' for _ in p) + f' | {xs}')
                    post.append(('abs',))
                    res.hit('pt-' + kinds[k])
    res.case((str(case),), len(comp.active_set) >= 3,
             {'case': {k: case[k] for k in ('nin', 'alpha_lim', 'beta_lim', 'kpl', 'nout', 'domains', 'norms_in',
                                            'norms_out')},
              'history': [list(a) + list(b) for a, b in hist],
              'polynomials': {o: poly_str(t) for o, t in holder['polys'].items()}})
    if case['alpha_lim']:
        res.hit('ignored-model-fidelity-dims')


def fallback_oracle(ctx, res, post):
    """the Lean driver is unavailable: judge the implementation against the polynomial itself with a heuristic scale"""
    for pst in post:
        if pst is not None and pst[0] == 'val':
            _, case, mode, kind, p, got, hist, truth = pst
            for g, t in zip(got, truth):
                if kind in ('interior', 'node', 'mixed') and not abs(g - t) <= 1e-6 * max(1.0, abs(t)):
                    res.failures.append({'kind': 'surrogate-not-exact-on-polynomial-space',
                                         'input': {**case, 'mode': mode, 'point_kind': kind, 'point': p,
                                                   'history': [list(a) + list(b) for a, b in hist]},
                                         'observed': g, 'expected': t})
    return res


def run(ctx: core.Ctx, only=None) -> core.Result:
    res = core.Result()
    res.rule = ('real Components, 1-4 inputs, random domains (location/width), linear/minmax normalisation, 0-2 ignored '
                'model-fidelity dims, 1-3 outputs, knots_per_level 1-3, random admissible histories; polynomial models '
                'whose monomials are each dominated by knots_per_level x beta of one active index; points interior, on '
                'nodes, around the snapping tolerance, outside the domain; train and test mode. non-trivial = >= 3 active '
                'indices.')
    lines, post = [], []
    keys = ('nin', 'alpha_lim', 'beta_lim', 'kpl', 'nout', 'domains', 'norms_in', 'norms_out', 'nsteps', 'fseed', 'surr_lim')
    cases = [o.get('input', o) for o in only] if only is not None else core.corpus_cases(ctx.prop) + [gen_case(ctx.rng) for _ in range(ctx.scale(17, 230))] + [gen_case(ctx.rng, narrow=True) for _ in range(ctx.scale(3, 20))]
    for case in cases:
        case = {k: (tuple(case[k]) if k in ('alpha_lim', 'beta_lim') else case.get(k)) for k in keys}
        with core.guarded(res, 'scenario-raised', case):
            run_case(ctx, res, case, lines, post)
    t = core.try_driver(['itp.snaptol 1'], res, 'Gen.snapTol')
    if t is None:
        return fallback_oracle(ctx, res, post)
    tol_out = t[0]
    tol = float(core.parse_rat(tol_out))
    lines = [ln.replace(' TOL ', f' {tol_out} ') for ln in lines]
    out = core.try_driver(lines, res, 'Amisc.predictT/gradT/hessT')
    if out is None:
        return fallback_oracle(ctx, res, post)
    pending = None
    for pst, o in zip(post, out):
        if pst is None:
            if o != 'ok':
                raise RuntimeError('driver: ' + o)
            continue
        if pst[0] == 'exact':
            _, case, mode, p, exp = pst
            got = [core.parse_rat(t) for t in o.split()]
            if got != exp:
                res.disagreements.append({'name': 'misc_exact instance (Lean model, exact data, tol=0) vs polynomial',
                                          'input': {**case, 'mode': mode, 'point': p},
                                          'model': [str(g) for g in got], 'expected': [str(e) for e in exp]})
        elif pst[0] == 'val':
            pending = (pst, o)
        elif pst[0] == 'abs':
            (_, case, mode, kind, p, got, hist, truth), val = pending
            exp = [float(core.parse_rat(t)) for t in val.split()]
            sc = [float(core.parse_rat(t)) for t in o.split()]
            for e, g, s_, t in zip(exp, got, sc, truth):
                if not (abs(e - g) <= 1e-9 * s_ + 1e-12):
                    res.disagreements.append({'name': 'Amisc.predictT/miscSum vs Component.predict',
                                              'input': {**case, 'mode': mode, 'point_kind': kind, 'point': p},
                                              'impl': g, 'model': e, 'scale': s_})
                # property oracle: surrogate == polynomial. Points strictly inside the snapping band are moved by at
                # most tol per coordinate; they are judged against the model only.
                if kind != 'near-inside-tol' and not (abs(t - g) <= 1e-8 * s_ + 1e-11):
                    res.failures.append({'kind': 'surrogate-not-exact-on-polynomial-space',
                                         'input': {**case, 'mode': mode, 'point_kind': kind, 'point': p,
                                                   'history': [list(a) + list(b) for a, b in hist]},
                                         'observed': g, 'expected': t, 'scale': s_})
    return res


ASSUMPTIONS = c05.ASSUMPTIONS + ['points strictly within the snapping tolerance of a node (but not on it) are compared '
                                 'with the model (which mirrors the snapping), not with the polynomial']
