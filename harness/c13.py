"""C13: interrupted training saves a consistent state that resumes to the same result.

Crash enumeration on the real code: a BaseException is raised at the k-th model evaluation / training-data refine / store /
impute call / interpolator update of a reference training run (every k in the thorough tier, a spread in the quick tier).
fit() runs under a root directory so that `_save_on_error` writes `<name>_error.yml`; that file is loaded (the crash classes
are then disarmed), checked (index-set and weight invariants, every stored value is a true model output), training is resumed
with the NumPy stream restored to the start of the interrupted iteration, and the result is compared with the uninterrupted
twin."""
from __future__ import annotations

import glob
import os
import json
import random
import shutil
import tempfile
from pathlib import Path

import numpy as np

from harness.lib import core
from harness import comp_common as cc   # noqa: F401 (import path)
from harness import index_common as ic
from harness import c12
from harness import c13_classes as K

from amisc import Component, Variable, System  # noqa: E402


def build(spec, root=None):
    x0, x1 = Variable('x0', domain=(0.0, 1.0)), Variable('x1', domain=(-1.0, 1.0))
    ya = Variable('ya', domain=(0.8, 2.2)); yb = Variable('yb')
    mk = lambda: K.CrashGrid(opt_args={'locally_biased': False, 'maxfun': 60})   # noqa: E731
    ca = Component(K.cm_a, inputs=[x0, x1], outputs=[ya], name='ca', model_fidelity=(1,) * spec['na'],
                   data_fidelity=tuple(spec['beta_a']), training_data=mk(), interpolator=K.CrashLagrange())
    comps = [ca]
    if spec['two']:
        comps.append(Component(K.cm_b, inputs=[ya, x1], outputs=[yb], name='cb', data_fidelity=(1, 1), training_data=mk(),
                               interpolator=K.CrashLagrange()))
        if spec.get('three'):
            comps.append(Component(K.cm_c, inputs=[yb, x0], outputs=[Variable('yc')], name='cc'))
    return System(*comps, name='crash', root_dir=root)


def gen_spec(rng):
    two = rng.random() < 0.6
    return {'na': rng.choice([0, 1]), 'beta_a': [rng.choice([1, 2]), 1], 'two': two, 'three': two and rng.random() < 0.6,
            'steps': rng.randint(4, 6), 'seed': rng.randrange(10 ** 6), 'continued': rng.random() < 0.5}


def truthful(system, res, info):
    """every stored value is a true model output"""
    for c in system.components:
        if not c.has_surrogate:
            continue
        td = c.training_data
        names = list(td.x_grids.keys())
        for al, m in td.yi_map.items():
            for coord, d in m.items():
                x = [td.x_grids[n][j] for n, j in zip(names, coord)]
                if c.name == 'ca':
                    exp = K.truth_a(tuple(al), x[0], x[1]); got = d.get('ya')
                else:
                    exp = K.truth_b(x[0], x[1]); got = d.get('yb')
                if got is None or abs(got - exp) > 1e-12 * max(1.0, abs(exp)):
                    res.failures.append({'kind': 'saved-state-holds-a-value-that-is-not-a-model-output', 'signature': 'none',
                                         'input': {**info, 'component': c.name, 'alpha': list(al), 'coord': list(coord)},
                                         'observed': got, 'expected': exp})


def run_case(ctx, res, spec, only_point=None):
    steps = spec['steps']
    # ---- uninterrupted twin, driven step by step to record the stream position before every iteration ----
    K.arm(None, -1)   # count events, never crash
    K.CRASH['armed'] = False
    twin = build(spec)
    np.random.seed(spec['seed'])
    rng_before = []
    counts_before = []          # event counters at the start of every step (to address events WITHIN a chosen step)
    for _ in range(steps):
        rng_before.append(np.random.get_state())
        counts_before.append(dict(K.CRASH['count']))
        r = twin.refine(num_refine=20, update_bounds=False)
        if r['component'] is None:
            break
        twin.train_history.append(r)
    rng_before.append(np.random.get_state())
    total_events = dict(K.CRASH['count'])
    twin_state = c12.deep_state(twin)
    nsteps_done = len(twin.train_history)
    rnd = random.Random(spec['seed'])
    points = []
    # steps that are the FIRST activation of a component: the state in the middle of such a step (some indices of the batch
    # stored, nothing active yet) is the most fragile one
    first_steps, seen = [], set()
    for i, h in enumerate(twin.train_history):
        if h['component'] not in seen:
            seen.add(h['component']); first_steps.append(i)
    for kind, n in total_events.items():
        if not ctx.quick:
            ks = range(1, n + 1)
        else:
            inside = [counts_before[i].get(kind, 0) + j for i in first_steps if i < len(counts_before) for j in (1, 2, 3)]
            ks = sorted({k for k in [1, 2, n] + inside + rnd.sample(range(1, n + 1), min(2, n)) if 1 <= k <= n})
        points.extend((kind, k) for k in ks)
    if only_point is not None:      # replay of ONE crash point
        points = [tuple(only_point)]
    k0 = 2 if spec.get('continued') and nsteps_done >= 4 else 0
    if k0:
        points = [(kind, at) for kind, at in points if at > counts_before[k0].get(kind, 0)]
        res.hit('interrupted-call-continues-an-existing-history')
    for kind, at in points:
        info = {'spec': spec, 'crash_kind': kind, 'crash_at': at, 'continued_from': k0}
        root = tempfile.mkdtemp(prefix='amisc_c13_')
        try:
            system = build(spec, root=root)
            np.random.seed(spec['seed'])
            crashed = False
            try:
                if k0:
                    # the interrupted call CONTINUES an existing history (an earlier fit() call on the same object went through)
                    K.arm(None, -1); K.CRASH['armed'] = False
                    system.fit(max_iter=k0, num_refine=20, update_bounds=False, max_tol=-np.inf)
                    K.arm(kind, at - counts_before[k0].get(kind, 0))
                    system.fit(max_iter=nsteps_done - k0, num_refine=20, update_bounds=False, max_tol=-np.inf)
                else:
                    K.arm(kind, at)
                    system.fit(max_iter=nsteps_done, num_refine=20, update_bounds=False, max_tol=-np.inf)
            except K.Interrupt:
                crashed = True
            finally:
                K.disarm()
            if not crashed:
                res.failures.append({'kind': 'injected-interruption-did-not-propagate', 'signature': 'none', 'input': info})
                continue
            log = list(K.CRASH['log'])
            files = glob.glob(os.path.join(system.root_dir, 'surrogates', '*_error.yml'))
            if not files:
                res.failures.append({'kind': 'no-error-file-saved-on-interruption', 'signature': 'none', 'input': info})
                continue
            try:
                loaded = System.load_from_file(files[0])
            except Exception as e:  # noqa: BLE001
                res.failures.append({'kind': 'saved-error-file-does-not-load', 'signature': 'none', 'input': info,
                                     'observed': repr(e)[:300]})
                continue
            res.hit('crash-' + kind)
            # 1. invariants of the saved state
            for c in loaded.components:
                if not c.has_surrogate:
                    continue
                limits = tuple(c.model_fidelity) + tuple(c.max_beta)
                for msg in (ic.oracle_c01(c), ic.oracle_c02(c, limits)):
                    if msg:
                        res.failures.append({'kind': 'saved-state-violates-index-or-weight-invariant', 'signature': 'none',
                                             'input': {**info, 'component': c.name}, 'observed': msg})
            # 2. truthful data
            truthful(loaded, res, info)
            # 3. resume from the start of the interrupted iteration
            k = len(loaded.train_history)
            # was part of the interrupted activation's data already stored? (F5b signature)
            stored_before_crash = kind in ('td.impute', 'itp.refine') or \
                (kind == 'td.set' and crash_not_first_set(log)) or (kind == 'td.set.coord' and crash_after_some_coord(log))
            sig = 'resume-cost-undercount' if stored_before_crash else 'none'
            np.random.set_state(rng_before[k])
            try:
                loaded.fit(max_iter=nsteps_done - k, num_refine=20, update_bounds=False, max_tol=-np.inf)
            except Exception as e:  # noqa: BLE001
                res.failures.append({'kind': 'resumed-training-raised', 'signature': 'none', 'input': info,
                                     'observed': repr(e)[:300]})
                continue
            got = c12.deep_state(loaded)
            # sets, weights, grids, stored data must be those of the uninterrupted run
            core_diff = None
            for cname in twin_state['components']:
                if cname not in got['components']:
                    continue
                a, b = got['components'][cname], twin_state['components'][cname]
                for key in ('state', 'x_grids', 'yi_map', 'betas'):
                    if key in a and a[key] != b[key]:
                        core_diff = f'{cname}.{key}'
                        break
            hist_choices = [(h['component'], h['alpha'], h['beta']) for h in got['history']]
            twin_choices = [(h['component'], h['alpha'], h['beta']) for h in twin_state['history']]
            if hist_choices != twin_choices:
                # different refinement choices are never explained by the cost undercount F5b here: the models report costs so
                # small that the work of every candidate is floored at 1 (max(1, cost)), i.e. choices do not depend on costs
                res.failures.append({'kind': 'resumed-training-makes-different-refinement-choices', 'signature': 'none',
                                     'input': info, 'observed': {'choices': hist_choices}, 'expected': {'choices': twin_choices}})
                continue
            if core_diff:
                # same choices but different sets / weights / grids / stored data: never explained by cost accounting
                res.failures.append({'kind': 'resumed-training-reaches-different-sets-or-data', 'signature': 'none',
                                     'input': info, 'observed': core_diff})
                continue
            full = c12.first_diff(got, twin_state, ftol=1e-9)
            if full:
                cost_only = any(t in full for t in ('misc_costs', 'num_evals', 'added_cost', 'added_error', 'model_costs'))
                sig2 = sig
                if sig == 'none' and cost_only and kind in ('td.set', 'td.set.coord', 'td.impute', 'itp.refine') and '.components.cb.' in full:
                    # F17 signature: the interruption came AFTER the model call of the activation had returned (its costs are already in
                    # the running average that is saved), nothing of its data was stored, so the same evaluations are made and averaged
                    # again on resume; `cb` is the component whose model reports a cost that varies from evaluation to evaluation
                    sig2 = 'interrupted-call-averaged-twice'
                res.failures.append({'kind': 'resumed-training-differs-in-history-or-cost-accounting',
                                     'signature': sig2 if cost_only else 'none', 'input': info, 'observed': full})
            res.hit('resumed')
        finally:
            K.disarm()
            shutil.rmtree(root, ignore_errors=True)
    res.case(('c13', str(spec)), True, {'spec': spec, 'crash_points': len(points), 'events': total_events})


def crash_after_some_coord(log):
    """crash inside the store loop after at least one coordinate of the current batch has been stored"""
    idx = len(log) - 2
    while idx >= 0 and log[idx][0] != 'model':
        if log[idx][0] == 'td.set.coord':
            return True
        idx -= 1
    return False


def crash_not_first_set(log):
    """crash inside a `set` call that is not the first `set` of the current activation batch: an earlier index of the batch
    has already stored its data"""
    # events since the last td.refine block began
    idx = len(log) - 1
    sets = 0
    while idx >= 0 and log[idx][0] != 'model':
        if log[idx][0] == 'td.set':
            sets += 1
        idx -= 1
    return sets >= 2


def run(ctx: core.Ctx, only=None) -> core.Result:
    res = core.Result()
    res.rule = ('1-3-component training runs (serial models, optional model fidelity, optionally a surrogate-less last component whose model runs inside every system prediction of the candidate scan); crash points: the k-th model evaluation, '
                'training-data refine, store, impute call and interpolator update — every k (thorough) or first/last/3 random '
                '(quick); for each: error file exists and loads, saved state satisfies the index/weight invariants and holds only '
                'true model outputs, resumed training (stream restored) reaches the uninterrupted twin. Every case is '
                'non-trivial.')
    if only is not None:
        specs = [o.get('input', o).get('spec', o.get('input', o)) for o in only]
    else:
        gen = [gen_spec(ctx.rng) for _ in range(ctx.scale(2, 4))]      # thorough: every crash point of 4 systems (~15 min)
        gen[-1].update(two=True, three=True)     # every run has a system with a surrogate-less component
        gen[0]['continued'] = True               # … and one whose interrupted call continues an existing history
        if len(gen) > 1:
            gen[-1]['continued'] = False
        specs = [c.get('spec', c) for c in core.corpus_cases('C13')] + gen      # corpus: single crash points (see `pts`)
    pts = {}
    for o in (only if only is not None else core.corpus_cases('C13')):
        i_ = o.get('input', o)
        if 'crash_kind' in i_ and 'crash_at' in i_:
            pts[json.dumps(i_.get('spec'), sort_keys=True)] = (i_['crash_kind'], i_['crash_at'])
    for spec in specs:
        with core.guarded(res, 'scenario-raised', {'spec': spec}):
            run_case(ctx, res, spec, pts.get(json.dumps(spec, sort_keys=True)))
    kf = {k['id'] for k in core.known_findings() if k.get('status') == 'open' and k['property'] == 'C13'}
    if 'F5b' in kf:
        kept = []
        for f in res.failures:
            if f.get('signature') == 'resume-cost-undercount' and f['kind'] in (
                    'resumed-training-differs-in-history-or-cost-accounting',
                    'resumed-training-makes-different-refinement-choices'):
                res.known_hits['F5b'] = res.known_hits.get('F5b', 0) + 1
            else:
                kept.append(f)
        res.failures = kept
        if res.known_hits.get('F5b'):
            res.extra.setdefault('known_lines', []).append(
                ('F5b', 'resume-cost-undercount: when part of an activation\'s data was stored before the interruption, the '
                        'resumed activation books only the remaining points as cost (evaluation counts, added cost and later '
                        'error indicators differ from the uninterrupted run)'))
    if 'F17' in kf:
        kept = []
        for f in res.failures:
            if f.get('signature') == 'interrupted-call-averaged-twice' and f['kind'] == 'resumed-training-differs-in-history-or-cost-accounting':
                res.known_hits['F17'] = res.known_hits.get('F17', 0) + 1
            else:
                kept.append(f)
        res.failures = kept
        if res.known_hits.get('F17'):
            res.extra.setdefault('known_lines', []).append(
                ('F17', 'interrupted-call-averaged-twice: an interruption after the model call of an activation has returned leaves its '
                        'reported costs in the saved running average although none of its data was stored; on resume the same evaluations '
                        'are made and averaged again - with a cost that varies between evaluations the cost accounts differ from the '
                        'uninterrupted run'))
    return res


ASSUMPTIONS = ['the interruption is modelled as a BaseException raised at a call boundary of the model / training data / '
               'interpolator (not inside NumPy or the filesystem)', 'pickle/PyYAML/filesystem exercised, not modelled']
