"""C12: save/load preserves a system exactly and training can resume from it.

After EVERY iteration of random training runs the live system is saved, the YAML document is parsed with a plain loader
(the real `Doc`: which keys are written), the system is loaded (from another working directory, and after the save directory
has been moved as a unit), and compared with the live one: deep field-by-field state (variables with all attributes, index
sets, all four trees incl. interpolator states, training data incl. imputed / error maps, per-fidelity model costs, history),
predictions in both modes, and the continuation of fit() from both objects under the same seed. The key set of the real
document is compared with the Lean field-map model (`Amisc.serializeKeys`)."""
from __future__ import annotations

import json
import os
import random
import shutil
import tempfile
from pathlib import Path

import numpy as np
import yaml

from harness.lib import core
from harness import sys_common as sc
from harness import index_common as ic

from amisc import Component, Variable, System  # noqa: E402
from amisc.training import SparseGrid  # noqa: E402
from amisc.compression import SVD  # noqa: E402
from harness import c12_models as MM  # noqa: E402


def gen_spec(rng):
    return {'seed': rng.randrange(10 ** 9), 'na': rng.choice([0, 1, 1]), 'ncomp': rng.choice([2, 3, 4]),
            'beta_a': [rng.choice([1, 2]), rng.choice([1, 2])], 'norm_ya': rng.choice([None, 'linear(0.5, 1)', 'minmax']),
            'listing': rng.random() < 0.5, 'norm_x1': rng.choice([None, 'minmax', 'zscore']), 'dist_yb': rng.random() < 0.7,
            'nan_c': rng.random() < 0.5}


def build_named_system(spec):
    """chain/diamond of components whose models are importable by name (so that the YAML file can be loaded)"""
    # variables with every kind of attribute: a distribution whose implied domain differs from the explicit one (x1: the 3-sigma
    # range of N(0, 0.5) would be (-1.5, 1.5)), nominal / units / description, a coupling variable with a distribution (yb)
    x0 = Variable('x0', domain=(0.0, 1.0), distribution='U(0, 1)', nominal=0.25, units='m', description='first input')
    x1 = Variable('x1', domain=(-1.0, 1.0), distribution='N(0, 0.5)', norm=spec.get('norm_x1'))
    x2 = Variable('x2', domain=(0.0, 2.0), tex='$x_2$', category='calibration')
    ya = Variable('ya', domain=(1.1, 1.4), norm=spec['norm_ya'])
    yb = Variable('yb', domain=(0.2, 0.6), distribution='N(0.4, 0.05)' if spec.get('dist_yb', True) else None)
    yc = Variable('yc', domain=(0.0, 6.0)); yd = Variable('yd')
    sg = lambda: SparseGrid(**{'opt_args': {'locally_biased': False, 'maxfun': 60}})   # noqa: E731
    comps = [Component(MM.m_a, inputs=[x0, x1], outputs=[ya], name='ca', vectorized=True, model_fidelity=(1,) * spec['na'],
                       data_fidelity=tuple(spec['beta_a']), training_data=sg()),
             Component(MM.m_b, inputs=[ya, x1], outputs=[yb], name='cb', vectorized=True, data_fidelity=(2, 1), training_data=sg())]
    if spec['ncomp'] >= 3:
        comps.append(Component(MM.m_c_nan if spec.get('nan_c') else MM.m_c, inputs=[ya, x2, yb], outputs=[yc], name='cc',
                               vectorized=True, data_fidelity=(1, 1, 1),
                               training_data=sg()))
    if spec['ncomp'] >= 4:
        comps.append(Component(MM.m_d, inputs=[yb, yc], outputs=[yd], name='cd', vectorized=True))   # no surrogate
    if spec['listing']:
        comps = list(reversed(comps))
    return System(*comps, name='persist')


def var_state(v):
    d = {}
    for k, val in v.__dict__.items():
        if k.startswith('_'):
            continue
        if k == 'norm':
            d[k] = None if val is None else [str(t) for t in val]
        elif k == 'distribution':
            d[k] = None if val is None else str(val)
        elif k == 'domain':
            d[k] = None if val is None else ([tuple(map(float, x)) for x in val] if isinstance(val, list) else tuple(map(float, val)))
        elif k == 'compression':
            if val is None:
                d[k] = None
            else:
                d[k] = {'fields': list(val.fields), 'rank': getattr(val, 'rank', None),
                        'P': np.asarray(val.projection_matrix).round(12).tolist() if getattr(val, 'projection_matrix', None) is not None else None}
        else:
            d[k] = val
    return d


def deep_state(system):
    out = {'name': system.name, 'components': {}, 'history': []}
    for h in system.train_history:
        e = dict(h)
        e['alpha'], e['beta'] = tuple(e['alpha']), tuple(e['beta'])
        e['added_error'] = repr(float(e['added_error']))
        if e.get('test_error') is not None:
            e['test_error'] = {k: repr(float(v)) for k, v in e['test_error'].items()}
        out['history'].append(e)
    for c in system.components:
        cs = {'inputs': {v.name: var_state(v) for v in c.inputs}, 'outputs': {v.name: var_state(v) for v in c.outputs},
              'model_fidelity': tuple(c.model_fidelity), 'data_fidelity': tuple(c.data_fidelity),
              'surrogate_fidelity': tuple(c.surrogate_fidelity), 'vectorized': c.vectorized,
              'call_unpacked': c.call_unpacked, 'ret_unpacked': c.ret_unpacked,
              'model_kwargs': dict(c.model_kwargs.data)}
        if c.has_surrogate:
            td = c.training_data
            cs.update({
                'state': ic.canon_state(c),
                'misc_costs': sorted((tuple(a) + tuple(b), float(v)) for a, b, v in c.misc_costs),
                'model_costs': sorted((tuple(k), float(v)) for k, v in c.model_costs.items()),
                'misc_states': sorted((tuple(a) + tuple(b), {k: np.asarray(v).tolist() for k, v in s.weights.items()},
                                       {k: np.asarray(v).tolist() for k, v in s.x_grids.items()}) for a, b, s in c.misc_states),
                'interpolator': str(c.interpolator),
                'td_config': (td.collocation_rule, td.knots_per_level, td.expand_latent_method, dict(td.opt_args)),
                'betas': sorted(tuple(b) for b in td.betas), 'latent_size': dict(td.latent_size),
                'x_grids': {k: [float(x) for x in v] for k, v in td.x_grids.items()},
                'yi_map': sorted((tuple(a), tuple(k), tuple(sorted((kk, repr(vv)) for kk, vv in d.items())))
                                 for a, m in td.yi_map.items() for k, d in m.items()),
                'yi_nan_map': sorted((tuple(a), tuple(k), tuple(sorted((kk, repr(vv)) for kk, vv in d.items())))
                                     for a, m in td.yi_nan_map.items() for k, d in m.items()),
                'error_map': sorted((tuple(a), tuple(k)) for a, m in td.error_map.items() for k in m),
            })
        out['components'][c.name] = cs
    return out


def first_diff(a, b, path='', ftol=0.0):
    if type(a) != type(b):
        return f'{path}: type {type(a).__name__} vs {type(b).__name__}'
    if isinstance(a, dict):
        for k in sorted(set(a) | set(b), key=str):
            if k not in a or k not in b:
                return f'{path}.{k}: present only on one side'
            d = first_diff(a[k], b[k], f'{path}.{k}', ftol)
            if d:
                return d
        return None
    if isinstance(a, (list, tuple)):
        if len(a) != len(b):
            return f'{path}: length {len(a)} vs {len(b)}'
        for i, (x, y) in enumerate(zip(a, b)):
            d = first_diff(x, y, f'{path}[{i}]', ftol)
            if d:
                return d
        return None
    if isinstance(a, float):
        ok = a == b or (np.isnan(a) and np.isnan(b)) or (ftol > 0 and abs(a - b) <= ftol * max(abs(a), abs(b), 1e-300))
        return None if ok else f'{path}: {a!r} vs {b!r}'
    if ftol > 0 and isinstance(a, str) and path.endswith('added_error'):
        fa, fb = float(a), float(b)
        ok = fa == fb or (np.isnan(fa) and np.isnan(fb)) or abs(fa - fb) <= ftol * max(abs(fa), abs(fb), 1e-300)
        return None if ok else f'{path}: {a} vs {b}'
    return None if a == b else f'{path}: {a!r} vs {b!r}'


class PlainLoader(yaml.SafeLoader):
    pass


def _any_tag(loader, suffix, node):
    if isinstance(node, yaml.MappingNode):
        return loader.construct_mapping(node, deep=True)
    if isinstance(node, yaml.SequenceNode):
        return loader.construct_sequence(node, deep=True)
    return loader.construct_scalar(node)


PlainLoader.add_multi_constructor('!', _any_tag)
PlainLoader.add_multi_constructor('tag:', _any_tag)


def doc_keys(path):
    with open(path) as fd:
        doc = yaml.load(fd, Loader=PlainLoader)
    comps = doc.get('components', [])
    return {c['name']: sorted(c.keys()) for c in comps}, sorted(doc.keys())


def build_field_system(seed):
    """a component with a compressed (field-quantity) OUTPUT whose latent domain is estimated from the compression data,
    feeding a second component"""
    rs = np.random.RandomState(seed % 2 ** 31)
    grid = MM.FIELD_GRID
    coef = rs.rand(30, 2)
    data = coef[:, [0]] * np.sin(np.pi * grid)[None, :] + coef[:, [1]] * np.cos(np.pi * grid)[None, :]
    svd = SVD(rank=2, data_matrix=data.T, coords=grid, fields=['p'])
    p = Variable('p', compression=svd)
    x0, x1 = Variable('x0', domain=(0.0, 1.0)), Variable('x1', domain=(0.0, 1.0))
    c1 = Component(MM.m_field, inputs=[x0, x1], outputs=[p], name='f1', vectorized=True, data_fidelity=(1, 1),
                   training_data=SparseGrid(**sc.SGK))
    return System(c1, name='fieldsys')


def run_case(ctx, res, spec, lines, post, field=False):
    rng = random.Random(spec['seed'] if not field else spec)
    if field:
        system = build_field_system(spec)
        mk = lambda: build_field_system(spec)   # noqa: E731
        info = {'field_system_seed': spec}
        seed = spec
    else:
        system = build_named_system(spec)
        info = {'spec': spec}
        seed = spec['seed']
    steps = rng.randint(4, 7)
    np.random.seed(seed % 2 ** 31)
    base = Path(tempfile.mkdtemp(prefix='amisc_c12_'))
    snapshots = []
    other_cwd = Path(tempfile.mkdtemp(prefix='amisc_c12cwd_'))
    old_cwd = os.getcwd()
    try:
        np.random.seed(5)
        xprobe = system.sample_inputs(5)
        np.random.seed(seed % 2 ** 31)
        for it in range(steps):
            r = system.refine(num_refine=25, update_bounds=not field and rng.random() < 0.7)
            if r['component'] is None:
                break
            system.train_history.append(r)
            # all checkpoints of a run go into ONE directory under different file names (as a user keeping several snapshots
            # would): an earlier checkpoint must stay intact when later ones are written next to it
            d = base / 'ckpt'
            d.mkdir(exist_ok=True)
            fname = f's_it{it}.yml'
            system.save_to_file(fname, save_dir=d)
            comp_keys, top_keys = doc_keys(d / fname)
            live = deep_state(system)
            snapshots.append((fname, live))
            # load from another working directory, and after moving the save directory as a unit
            moved = base / f'moved{it}'
            shutil.copytree(d, moved)
            for where, path in (('in-place', d / fname), ('moved', moved / fname)):
                if where == 'moved':
                    shutil.move(str(d), str(base / 'ckpt_hidden'))
                os.chdir(other_cwd)
                try:
                    loaded = System.load_from_file(path)
                except Exception as e:  # noqa: BLE001
                    res.failures.append({'kind': 'load-from-file-raised', 'signature': numpy_repr_sig(path),
                                         'input': {**info, 'iteration': it + 1, 'where': where},
                                         'observed': repr(e)[:400]})
                    os.chdir(old_cwd)
                    continue
                finally:
                    os.chdir(old_cwd)
                got = deep_state(loaded)
                diff = first_diff(live, got)
                if diff:
                    res.failures.append({'kind': 'loaded-state-differs-from-live-state',
                                         'input': {**info, 'iteration': it + 1, 'where': where}, 'observed': diff})
                ready = all(len(c.active_set) > 0 for c in system.components if c.has_surrogate)
                if ready:
                    for mode in ('train', 'test'):
                        a = system.predict(xprobe, index_set=mode); b = loaded.predict(xprobe, index_set=mode)
                        for k in a:
                            if k not in b or not np.allclose(np.asarray(a[k]), np.asarray(b[k]), rtol=1e-12, atol=1e-14, equal_nan=True):
                                res.failures.append({'kind': 'loaded-system-predicts-differently',
                                                     'input': {**info, 'iteration': it + 1, 'where': where, 'mode': mode, 'output': k}})
                res.hit('save-load-' + where)
            shutil.move(str(base / 'ckpt_hidden'), str(d))
            # a snapshot saved under the SAME file name at every iteration, each in its own directory; the latest one is moved
            # and loaded while the working directory is the directory of the OLDEST one (same payload file names, stale content)
            d2 = base / f'snap{it}'
            d2.mkdir()
            system.save_to_file('snap.yml', save_dir=d2)
            if it >= 1:
                moved2 = base / f'snapmoved{it}'
                shutil.move(str(d2), str(moved2))
                os.chdir(base / 'snap0')
                try:
                    loaded2 = System.load_from_file(moved2 / 'snap.yml')
                    diff2 = first_diff(live, deep_state(loaded2))
                    if diff2:
                        res.failures.append({'kind': 'loaded-state-mixes-in-a-stale-payload-from-the-working-directory',
                                             'input': {**info, 'iteration': it + 1}, 'observed': diff2})
                except Exception as e:  # noqa: BLE001
                    res.failures.append({'kind': 'load-from-file-raised', 'signature': 'none',
                                         'input': {**info, 'iteration': it + 1, 'where': 'moved, stale same-named save in cwd'},
                                         'observed': repr(e)[:400]})
                finally:
                    os.chdir(old_cwd)
                res.hit('save-load-moved-with-stale-namesake-in-cwd')
            # document keys vs the field-map model
            for c in system.components:
                lines.append('ps.keys ' + ' '.join(f'{k}={v}' for k, v in comp_flags(c).items()))
                post.append(('keys', {**info, 'iteration': it + 1, 'component': c.name}, comp_keys.get(c.name)))
            # resume: continue training from the live and from the loaded object under the same seed
            if it == steps - 2 and not field:
                loaded = System.load_from_file(moved / fname)
                twin_live = System.load_from_file(moved / fname)   # independent copy standing for "no save/load"
                st = np.random.get_state()
                cont = []
                for obj in (system, loaded):
                    np.random.set_state(st)
                    import copy
                    o = obj if obj is loaded else twin_live
                    o.fit(max_iter=2, num_refine=25, max_tol=-np.inf, update_bounds=False)
                    cont.append(deep_state(o))
                np.random.set_state(st)
                dfirst = first_diff(cont[0], cont[1], ftol=1e-10)
                if dfirst:
                    res.failures.append({'kind': 'resumed-training-differs', 'input': {**info, 'iteration': it + 1},
                                         'observed': dfirst})
                # and the live object itself continues identically
                np.random.set_state(st)
                system.fit(max_iter=2, num_refine=25, max_tol=-np.inf, update_bounds=False)
                dlive = first_diff(deep_state(system), cont[1], ftol=1e-10)
                if dlive:
                    res.failures.append({'kind': 'resumed-training-differs-from-uninterrupted', 'input': {**info, 'iteration': it + 1},
                                         'observed': dlive})
                res.hit('resume-compared')
                break
        # earlier checkpoints, read again after all the later ones were written into the same directory
        for fname, snap in snapshots[:-1]:
            try:
                old = System.load_from_file(base / 'ckpt' / fname)
            except Exception as e:  # noqa: BLE001
                res.failures.append({'kind': 'load-from-file-raised', 'signature': 'none',
                                     'input': {**info, 'checkpoint': fname, 'where': 'earlier checkpoint, same directory'},
                                     'observed': repr(e)[:400]})
                continue
            diff = first_diff(snap, deep_state(old))
            if diff:
                res.failures.append({'kind': 'earlier-checkpoint-changed-by-a-later-save-in-the-same-directory',
                                     'input': {**info, 'checkpoint': fname}, 'observed': diff})
            res.hit('earlier-checkpoint-reloaded')
    finally:
        os.chdir(old_cwd)
        shutil.rmtree(base, ignore_errors=True)
        shutil.rmtree(other_cwd, ignore_errors=True)
    res.case(('c12', str(spec)), True, {**info, 'iterations': steps})


def numpy_repr_sig(path):
    try:
        txt = Path(path).read_text()
    except Exception:  # noqa: BLE001
        return 'none'
    return 'numpy-scalar-domain-repr' if 'np.float64(' in txt else 'none'


def comp_flags(c):
    """the emptiness flags that decide which keys Component.serialize writes"""
    return {
        'surr': int(c.has_surrogate), 'mf': int(len(c.model_fidelity) > 0), 'df': int(len(c.data_fidelity) > 0),
        'sf': int(len(c.surrogate_fidelity) > 0), 'act': int(len(c.active_set) > 0), 'cand': int(len(c.candidate_set) > 0),
        'costs': int(len(c.misc_costs) > 0), 'ctrain': int(len(c.misc_coeff_train) > 0),
        'ctest': int(len(c.misc_coeff_test) > 0), 'states': int(len(c.misc_states) > 0), 'mcost': int(len(c.model_costs) > 0),
        'cu': int(c.call_unpacked is not None), 'ru': int(c.ret_unpacked is not None), 'name': int(c.name is not None),
    }


def run(ctx: core.Ctx, only=None) -> core.Result:
    res = core.Result()
    res.rule = ('random 2-3-component training runs (multi-fidelity, surrogate-less components, moving coupling bounds) and a '
                'system with a compressed field-quantity output: after every iteration save -> parse the YAML keys -> load from '
                'another cwd -> load after moving the directory -> deep state comparison, predictions in both modes; continue '
                'fit() from live and loaded objects under the same seed. Every case is non-trivial.')
    lines, post = [], []
    if only is not None:
        items = [o.get('input', o) for o in only]
    else:
        gens = [gen_spec(ctx.rng) for _ in range(ctx.scale(3, 25))]
        gens[0].update(nan_c=True, ncomp=max(3, gens[0]['ncomp']), na=1)   # every run saves imputed (NaN-replacing) training values
        #                                                                      and a multi-fidelity component with per-fidelity costs
        if len(gens) > 1:
            gens[1].update(nan_c=False)
        items = core.corpus_cases('C12') + [{'spec': g} for g in gens] + \
            [{'field_system_seed': ctx.rng.randrange(10 ** 6)} for _ in range(ctx.scale(1, 5))]
    for it in items:
        with core.guarded(res, 'scenario-raised', it):
            if 'field_system_seed' in it:
                run_case(ctx, res, it['field_system_seed'], lines, post, field=True)
            else:
                run_case(ctx, res, it['spec'], lines, post)
    out = core.try_driver(lines, res, 'Amisc.serializeKeys')
    for pst, o in zip(post, out or []):
        _, info, keys = pst
        model = sorted(o.split())
        if keys is None or model != sorted(keys):
            res.disagreements.append({'name': 'Amisc.serializeKeys vs keys written by Component.serialize',
                                      'input': info, 'impl': keys, 'model': model})
    kf = {k['id'] for k in core.known_findings() if k.get('status') == 'open' and k['property'] == 'C12'}
    if 'F12' in kf:
        kept = []
        for f in res.failures:
            if f.get('signature') == 'numpy-scalar-domain-repr':
                res.known_hits['F12'] = res.known_hits.get('F12', 0) + 1
            else:
                kept.append(f)
        res.failures = kept
        if res.known_hits.get('F12'):
            res.extra.setdefault('known_lines', []).append(('F12', 'numpy-scalar-domain-repr: latent domains holding NumPy scalars are '
                                                                   'written as np.float64(...) strings that cannot be read back'))
    return res


ASSUMPTIONS = ['pickle, base64, PyYAML and the filesystem are exercised, not modelled; interpolator states and training data '
               'are opaque payloads in the Lean field map', 'the model callables are compared by identity of the function name only']
