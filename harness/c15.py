"""C15: serial, vectorised and parallel execution agree under every schedule.

A schedule-controlling `concurrent.futures.Executor` subclass collects the submitted tasks and, once submissions go quiet,
runs them in a CHOSEN order on a helper thread (all permutations for small batches, random orders for larger ones);
real ThreadPoolExecutor / ProcessPoolExecutor runs with per-task delays are added. Compared with `executor=None`:
call_model datasets (bitwise, including the positions of recorded errors; packed / unpacked signatures; vectorised), and
fit() history, stored data and predictions."""
from __future__ import annotations

import itertools
import json
import random
import threading
from concurrent.futures import Executor, Future, ThreadPoolExecutor, ProcessPoolExecutor

import numpy as np

from harness.lib import core
from harness import comp_common as cc   # noqa: F401  (import path)
from harness import sys_common as sc
from harness import c15_models as M

from amisc import Component, Variable, System  # noqa: E402
from amisc.training import SparseGrid  # noqa: E402


class ScheduledExecutor(Executor):
    """runs each quiescent batch of submissions in the order given by `order_fn(n) -> permutation`"""

    def __init__(self, order_fn, quiet=0.02):
        self.order_fn, self.quiet = order_fn, quiet
        self.pending, self.lock, self.timer = [], threading.Lock(), None
        self.batches = []

    def submit(self, fn, /, *args, **kwargs):
        f = Future()
        with self.lock:
            self.pending.append((f, fn, args, kwargs))
            if self.timer is not None:
                self.timer.cancel()
            self.timer = threading.Timer(self.quiet, self._flush)
            self.timer.daemon = True
            self.timer.start()
        return f

    def _flush(self):
        with self.lock:
            batch, self.pending = self.pending, []
        order = list(self.order_fn(len(batch)))
        self.batches.append(order)
        for i in order:
            f, fn, args, kwargs = batch[i]
            try:
                f.set_result(fn(*args, **kwargs))
            except BaseException as e:  # noqa: BLE001
                f.set_exception(e)


def ds_equal(a, b):
    if set(a) != set(b):
        return False
    for k in a:
        if k == 'errors':
            if sorted(a[k]) != sorted(b[k]):
                return False
            continue
        x, y = np.asarray(a[k]), np.asarray(b[k])
        if x.dtype == object or y.dtype == object:
            continue
        if x.shape != y.shape or not np.array_equal(x, y, equal_nan=True):
            return False
    return True


def make_comp(model, unpacked=False, vectorized=False, mf=False):
    x0, x1 = Variable('x0', domain=(0.0, 1.0)), Variable('x1', domain=(-1.0, 1.0))
    kw = dict(call_unpacked=True, ret_unpacked=True) if unpacked else {}
    if mf:
        kw['model_fidelity'] = (2,)
    return Component(model, inputs=[x0, x1], outputs=[Variable('y0'), Variable('y1')], name='c', vectorized=vectorized, **kw)


def run_call_model(ctx, res, seed):
    rng = random.Random(seed)
    N = rng.choice([3, 4, 5, 9])
    x = {'x0': np.array([rng.random() for _ in range(N)]), 'x1': np.array([rng.uniform(-1, 1) for _ in range(N)])}
    info = {'seed': seed, 'batch': N}
    for mname, model in (('packed', M.slow_model), ('failing', M.failing_model)):
        comp = make_comp(model)
        ref = comp.call_model(dict(x))
        perms = list(itertools.permutations(range(N))) if N <= 4 else [tuple(rng.sample(range(N), N)) for _ in range(12)]
        for perm in perms:
            ex = ScheduledExecutor(lambda n, perm=perm: perm if n == len(perm) else list(range(n)))
            got = comp.call_model(dict(x), executor=ex)
            if not ds_equal(ref, got):
                res.failures.append({'kind': 'executor-result-differs-from-serial', 'input': {**info, 'model': mname, 'completion_order': list(perm)},
                                     'observed': {k: np.asarray(v).tolist() for k, v in got.items() if k != 'errors'},
                                     'expected': {k: np.asarray(v).tolist() for k, v in ref.items() if k != 'errors'},
                                     'errors': [sorted(got.get('errors', {})), sorted(ref.get('errors', {}))]})
            res.hit('schedule-permutation')
        # real pools with delays
        for workers in (1, 3, 8):
            with ThreadPoolExecutor(max_workers=workers) as ex:
                got = comp.call_model(dict(x), executor=ex, delay_scale=0.01)
            if not ds_equal(ref, got):
                res.failures.append({'kind': 'thread-pool-result-differs-from-serial', 'input': {**info, 'model': mname, 'workers': workers}})
            res.hit('thread-pool')
        # a LARGE batch on small pools (many samples per worker: any grouping of samples into shared tasks shows here)
        NL = 26
        xl = {'x0': np.array([rng.random() for _ in range(NL)]), 'x1': np.array([rng.uniform(-1, 1) for _ in range(NL)])}
        xl['x0'][3], xl['x0'][17] = 0.9, 0.95       # the failing model raises on these two samples
        refl = comp.call_model(dict(xl))
        for workers in (1, 2):
            with ThreadPoolExecutor(max_workers=workers) as ex:
                gotl = comp.call_model(dict(xl), executor=ex, delay_scale=0.0)
            if not ds_equal(refl, gotl):
                res.failures.append({'kind': 'thread-pool-result-differs-from-serial',
                                     'input': {**info, 'model': mname, 'workers': workers, 'batch': NL},
                                     'errors': [sorted(gotl.get('errors', {})), sorted(refl.get('errors', {}))]})
            res.hit('thread-pool-large-batch')
        if mname == 'packed':
            with ProcessPoolExecutor(max_workers=3) as ex:
                got = comp.call_model(dict(x), executor=ex, delay_scale=0.005)
            if not ds_equal(ref, got):
                res.failures.append({'kind': 'process-pool-result-differs-from-serial', 'input': {**info, 'model': mname}})
            res.hit('process-pool')
    # mixed model fidelities inside one batch (as every activation of a multi-fidelity component submits): each task must see
    # ITS OWN fidelity whatever the start / completion order, also when it starts after all submissions were made
    alphas = [(rng.randrange(3),) for _ in range(N)]
    if len(set(alphas)) == 1:
        alphas[-1] = ((alphas[0][0] + 1) % 3,)
    comp = make_comp(M.mf_model, mf=True)
    ref = comp.call_model(dict(x), model_fidelity=list(alphas))
    single = [comp.call_model({k: v[i:i + 1] for k, v in x.items()}, model_fidelity=alphas[i]) for i in range(N)]
    for k in ('y0', 'y1'):
        if not np.array_equal(np.asarray(ref[k]), np.concatenate([np.atleast_1d(s_[k]) for s_ in single])):
            res.failures.append({'kind': 'batched-mixed-fidelity-differs-from-one-at-a-time', 'input': {**info, 'alphas': alphas}})
    orders = [tuple(range(N)), tuple(reversed(range(N)))] + [tuple(rng.sample(range(N), N)) for _ in range(4)]
    for perm in orders:
        ex = ScheduledExecutor(lambda n, perm=perm: perm if n == len(perm) else list(range(n)))
        got = comp.call_model(dict(x), model_fidelity=list(alphas), executor=ex)
        if not ds_equal(ref, got):
            res.failures.append({'kind': 'executor-result-differs-from-serial', 'input': {**info, 'model': 'mixed-fidelity', 'alphas': alphas,
                                                                                         'completion_order': list(perm)},
                                 'observed': {k: np.asarray(v).tolist() for k, v in got.items() if k != 'errors'},
                                 'expected': {k: np.asarray(v).tolist() for k, v in ref.items() if k != 'errors'}})
        res.hit('mixed-fidelity-schedule')
    for mk in (lambda: ThreadPoolExecutor(max_workers=2), lambda: ProcessPoolExecutor(max_workers=2)):
        with mk() as ex:
            got = comp.call_model(dict(x), model_fidelity=list(alphas), executor=ex, delay_scale=0.005)
        if not ds_equal(ref, got):
            res.failures.append({'kind': 'pool-result-differs-from-serial', 'input': {**info, 'model': 'mixed-fidelity', 'alphas': alphas,
                                                                                     'pool': type(ex).__name__}})
        res.hit('mixed-fidelity-pool')
    # failed samples inside a mixed-fidelity batch: the error RECORD (inputs, model fidelity of the failed sample) must be the
    # serial one under every schedule — the record is what is stored against the failed point (C14) and used to re-run it
    compf = make_comp(M.mf_failing_model, mf=True)
    xf = {k: v.copy() for k, v in x.items()}
    bad = sorted(rng.sample(range(N - 1), min(2, N - 1)))          # never the last sample
    for i in bad:
        xf['x0'][i] = 0.85 + 0.1 * rng.random()
    for i in range(N):
        if i not in bad:
            xf['x0'][i] = min(xf['x0'][i], 0.7)
    alph = list(alphas)
    for i in bad:
        if alph[i] == alph[N - 1]:
            alph[i] = ((alph[i][0] + 1) % 3,)

    def records(ds):
        return {int(i): (tuple(sorted((k, float(np.atleast_1d(v)[0])) for k, v in r['inputs'].items())),
                         tuple(int(t) for t in np.atleast_1d(r['model_kwargs'].get('model_fidelity', ()))))
                for i, r in ds.get('errors', {}).items()}
    reff = compf.call_model(dict(xf), model_fidelity=list(alph))
    if sorted(records(reff)) != bad or any(records(reff)[i][1] != tuple(alph[i]) for i in bad):
        res.failures.append({'kind': 'serial-error-record-does-not-name-the-failed-sample', 'input': {**info, 'alphas': alph, 'failing': bad},
                             'observed': {str(k): list(v[1]) for k, v in records(reff).items()}})
    for perm in orders[:3]:
        ex = ScheduledExecutor(lambda n, perm=perm: perm if n == len(perm) else list(range(n)))
        gotf = compf.call_model(dict(xf), model_fidelity=list(alph), executor=ex)
        if not ds_equal(reff, gotf) or records(gotf) != records(reff):
            res.failures.append({'kind': 'executor-error-records-differ-from-serial',
                                 'input': {**info, 'model': 'mixed-fidelity-failing', 'alphas': alph, 'failing': bad, 'completion_order': list(perm)},
                                 'observed': {str(k): list(v[1]) for k, v in records(gotf).items()},
                                 'expected': {str(k): list(v[1]) for k, v in records(reff).items()}})
        res.hit('mixed-fidelity-error-records')
    with ThreadPoolExecutor(max_workers=2) as ex:
        gotf = compf.call_model(dict(xf), model_fidelity=list(alph), executor=ex, delay_scale=0.002)
    if not ds_equal(reff, gotf) or records(gotf) != records(reff):
        res.failures.append({'kind': 'pool-error-records-differ-from-serial',
                             'input': {**info, 'model': 'mixed-fidelity-failing', 'alphas': alph, 'failing': bad, 'pool': 'ThreadPoolExecutor'},
                             'observed': {str(k): list(v[1]) for k, v in records(gotf).items()},
                             'expected': {str(k): list(v[1]) for k, v in records(reff).items()}})
    # three execution paths / two signatures agree
    ref = make_comp(M.slow_model).call_model(dict(x))
    vec = make_comp(M.slow_model_vec, vectorized=True).call_model(dict(x))
    unp = make_comp(M.unpacked_model, unpacked=True).call_model(dict(x))
    ex = ScheduledExecutor(lambda n: list(reversed(range(n))))
    unp_ex = make_comp(M.unpacked_model, unpacked=True).call_model(dict(x), executor=ex)
    # the caller's dict in another key order: positional (unpacked) models must still receive Component.inputs order
    xr = {k: x[k] for k in reversed(list(x))}
    unp_r = make_comp(M.unpacked_model, unpacked=True).call_model(dict(xr))
    ex2 = ScheduledExecutor(lambda n: list(range(n)))
    unp_ex_r = make_comp(M.unpacked_model, unpacked=True).call_model(dict(xr), executor=ex2)
    for name, got in (('vectorised', vec), ('unpacked', unp), ('unpacked+executor', unp_ex), ('unpacked, keys reversed', unp_r),
                      ('unpacked+executor, keys reversed', unp_ex_r)):
        ok = all(np.allclose(np.asarray(ref[k], dtype=float), np.asarray(got[k], dtype=float), rtol=1e-15, atol=0) for k in ('y0', 'y1'))
        if not ok:
            res.failures.append({'kind': 'execution-paths-disagree', 'input': {**info, 'path': name}})
    res.hit('three-paths')
    res.case(('call', seed), True, {'call_model_seed': seed, 'batch': N})


def train(spec_seed, executor, steps, delay=0.0, direct=False):
    x0, x1 = Variable('x0', domain=(0.0, 1.0)), Variable('x1', domain=(-1.0, 1.0))
    u, v = Variable('u', domain=(0.5, 2.5)), Variable('v')
    sgk = dict(opt_args={'locally_biased': False, 'maxfun': 60})
    if spec_seed % 3 == 2:   # ties: one component whose candidates all have an undefined indicator
        c1 = Component(M.zero_model, inputs=[x0, x1], outputs=[u], name='c1', data_fidelity=(2, 2),
                       training_data=SparseGrid(**sgk), delay_scale=delay)
        system = System(c1, name='par')
        np.random.seed(spec_seed % 2 ** 31)
        system.fit(max_iter=steps, num_refine=25, max_tol=-np.inf, executor=executor)
        np.random.seed(5)
        xs = system.sample_inputs(6)
        pred = system.predict(xs, executor=executor)
        d = sc.state_digest(system)
        d['_pred'] = {k: np.asarray(val).tolist() for k, val in pred.items()}
        return json.dumps(d, sort_keys=True, default=str)
    if spec_seed % 2:   # multi-fidelity first component: activation batches mix fidelities
        c1 = Component(M.mf_chain_m1, inputs=[x0, x1], outputs=[u], name='c1', model_fidelity=(2,), data_fidelity=(2, 2),
                       training_data=SparseGrid(**sgk), delay_scale=delay)
    else:
        c1 = Component(M.chain_m1, inputs=[x0, x1], outputs=[u], name='c1', data_fidelity=(2, 2), training_data=SparseGrid(**sgk),
                       delay_scale=delay)
    c2 = Component(M.chain_m2, inputs=[u, x1], outputs=[v], name='c2', data_fidelity=(2, 2), training_data=SparseGrid(**sgk),
                   delay_scale=delay)
    system = System(c1, c2, name='par')
    np.random.seed(spec_seed % 2 ** 31)
    if direct:
        # refine() called directly, several times in a row, WITHOUT recording the steps in the history (the length of the history
        # is then the same at every call although the surrogate changes)
        for _ in range(steps):
            system.refine(num_refine=25, executor=executor)
    else:
        system.fit(max_iter=steps, num_refine=25, max_tol=-np.inf, executor=executor)
    np.random.seed(5)
    xs = system.sample_inputs(6)
    pred = system.predict(xs, executor=executor)
    d = sc.state_digest(system)
    d['_pred'] = {k: np.asarray(val).tolist() for k, val in pred.items()}
    return json.dumps(d, sort_keys=True, default=str)


def run_fit(ctx, res, seed):
    rng = random.Random(seed)
    steps = rng.randint(5, 7)
    ref = train(seed, None, steps)
    configs = [('scheduled-reversed', lambda: ScheduledExecutor(lambda n: list(reversed(range(n))))),
               ('scheduled-random', lambda: ScheduledExecutor(lambda n: rng.sample(range(n), n))),
               ('threads-4', lambda: ThreadPoolExecutor(max_workers=4))]
    # truly overlapping threads: many workers and a tiny interpreter switch interval, so that tasks of one batch interleave at
    # the byte-code level (shared mutable state touched by concurrent tasks shows up here, not with serialised schedules)
    configs += [('threads-8-interleaved-a', lambda: ThreadPoolExecutor(max_workers=8)),
                ('threads-8-interleaved-b', lambda: ThreadPoolExecutor(max_workers=8))]
    if not ctx.quick:
        configs.append(('processes-3', lambda: ProcessPoolExecutor(max_workers=3)))
    for name, mk in configs:
        ex = mk()
        import sys as _sys
        old_switch = _sys.getswitchinterval()
        try:
            if 'interleaved' in name:
                _sys.setswitchinterval(1e-6)
            got = train(seed, ex, steps, delay=0.0 if 'interleaved' in name else (0.002 if 'threads' in name or 'process' in name else 0.0))
        finally:
            _sys.setswitchinterval(old_switch)
            if hasattr(ex, 'shutdown'):
                ex.shutdown(wait=True)
        if got != ref:
            a, b = json.loads(got), json.loads(ref)
            res.failures.append({'kind': 'training-with-executor-differs-from-serial', 'input': {'seed': seed, 'executor': name, 'steps': steps},
                                 'differs_in': [k for k in a if a[k] != b.get(k)],
                                 'observed': a['_history'], 'expected': b['_history']})
        res.hit('fit-' + name)
    # direct refine() calls through a pool vs serially
    ref_d = train(seed, None, steps, direct=True)
    for name, mk in (('threads-4-direct-refine', lambda: ThreadPoolExecutor(max_workers=4)),):
        ex = mk()
        try:
            got_d = train(seed, ex, steps, delay=0.001, direct=True)
        except Exception as e:  # noqa: BLE001
            got_d = None
            res.failures.append({'kind': 'direct-refine-with-executor-raised', 'input': {'seed': seed, 'executor': name, 'steps': steps},
                                 'observed': repr(e)[:300]})
        finally:
            ex.shutdown(wait=True)
        if got_d is not None and got_d != ref_d:
            a, b = json.loads(got_d), json.loads(ref_d)
            res.failures.append({'kind': 'direct-refine-with-executor-differs-from-serial', 'input': {'seed': seed, 'executor': name, 'steps': steps},
                                 'differs_in': [k for k in a if a[k] != b.get(k)]})
        res.hit('fit-' + name)
    res.case(('fit', seed), True, {'fit_seed': seed, 'steps': steps, 'executors': [c[0] for c in configs]})


def run(ctx: core.Ctx, only=None) -> core.Result:
    res = core.Result()
    res.rule = ('call_model on batches of 3-9 samples: ALL completion permutations (batch <= 4) or 12 random ones through a '
                'schedule-controlling Executor, thread pools with 1/3/8 workers and per-task delays, a process pool; models '
                'that raise for some inputs (error positions compared); batches mixing model fidelities; packed/unpacked/vectorised paths '
                '(also with the caller\'s dict in another key order); a system whose candidates all tie (undefined indicators); fit()+predict() of a '
                '2-component chain with scheduled (reversed, random) executors and a thread pool (process pool in the thorough '
                'tier) vs executor=None: learned state and predictions identical. Every case is non-trivial.')
    items = [o.get('input', o) for o in only] if only is not None else core.corpus_cases('C15') + \
        [{'call_model_seed': ctx.rng.randrange(10 ** 6)} for _ in range(ctx.scale(3, 20))] + \
        [{'fit_seed': 6 * ctx.rng.randrange(10 ** 5) + [0, 1, 2][k % 3]} for k in range(ctx.scale(3, 6))]
    for it in items:
        with core.guarded(res, 'scenario-raised', it):
            if 'call_model_seed' in it or 'batch' in it:
                run_call_model(ctx, res, it.get('call_model_seed', it.get('seed', 0)))
            else:
                run_fit(ctx, res, it.get('fit_seed', it.get('seed', 0)))
    return res


ASSUMPTIONS = ['CPython threads, pickling and OS scheduling are exercised, not modelled: the model has no shared-memory '
               'interleavings (tasks are pure functions of their arguments)']
