"""C14: failed evaluations are contained: recorded, imputed, never corrupting other data.

Fault enumeration on the real code with a SCRIPTED activation sequence (so the activations are equal by construction): every
single failing evaluation position, random multi-failure subsets, raise vs NaN (all outputs / one output), serial /
vectorised (NaN only) / executor execution, 1-2 outputs. Compared with the failure-free twin: error_map keys == exactly the
failed (fidelity, coordinate) pairs (raise mode), NaN pattern of the stored data, all other stored outputs identical, imputed
entries only where a value is missing, index sets / weights identical, predictions finite. The error re-basing of every
activation batch is compared with the Lean model `Amisc.rebaseErrors`."""
from __future__ import annotations

import itertools
import math
import random
from concurrent.futures import ThreadPoolExecutor

import numpy as np

from harness.lib import core
from harness import comp_common as cc
from harness import index_common as ic
from harness import c05


def gen_case(rng):
    nin = rng.choice([1, 2, 2])
    na = rng.choice([0, 1])
    return dict(nin=nin, alpha_lim=(1,) * na, beta_lim=tuple(rng.choice([1, 2]) for _ in range(nin)), kpl=rng.choice([1, 2]),
                nout=rng.choice([1, 2, 2]), nsteps=rng.randint(3, 5), fseed=rng.randrange(10 ** 9),
                mode=rng.choice(['serial', 'serial', 'executor', 'vectorized']))


def script_history(case):
    """the activation sequence of the failure-free twin (a function of the index algebra only)"""
    f = c05.make_f(random.Random(case['fseed'] + 1), case['nin'], case['nout'], 'exp')
    outs = [f'y{o}' for o in range(case['nout'])]
    comp, rec = cc.build_component(f, case['nin'], outs, case['alpha_lim'], case['beta_lim'], (), None, None, None, case['kpl'],
                                   vectorized=case['mode'] == 'vectorized')
    hist = cc.random_history(random.Random(case['fseed'] + 5), comp, case['nsteps'])
    return hist, comp, rec, f, outs


def run_twin(case, hist, f, outs, fail_fn, executor=None):
    comp, rec = cc.build_component(f, case['nin'], outs, case['alpha_lim'], case['beta_lim'], (), None, None, None, case['kpl'],
                                   vectorized=case['mode'] == 'vectorized', fail=fail_fn)
    err = None
    done = 0
    for a, b in hist:
        try:
            comp.activate_index(a, b, executor=executor)
            done += 1
        except Exception as e:  # noqa: BLE001
            err = (done, repr(e)[:300])
            break
    return comp, rec, err


def stored(comp):
    td = comp.training_data
    return {(tuple(a), tuple(c)): dict(d) for a, m in td.yi_map.items() for c, d in m.items()}


def run_case(ctx, res, case, lines, post):
    rng = random.Random(case['fseed'])
    hist, clean, clean_rec, f, outs = script_history(case)
    ncalls = len(clean_rec.calls)
    clean_store = stored(clean)
    names = [f'x{d}' for d in range(case['nin'])]
    clean_keys_in_order = []
    xg = {n: list(clean.training_data.x_grids[n]) for n in names}
    for (al, x, y) in clean_rec.calls:
        coord = tuple(int(np.argmin([abs(x[d] - g) for g in xg[n]])) for d, n in enumerate(names))
        clean_keys_in_order.append((tuple(al), coord))
    first_of_alpha = {}
    for k, key in enumerate(clean_keys_in_order):
        first_of_alpha.setdefault(key[0], k)
    # fault plans: every single position (quick: a spread of positions), plus random subsets
    singles = list(range(ncalls)) if not ctx.quick else sorted(set([0, 1, ncalls - 1] + rng.sample(range(ncalls), min(5, ncalls))))
    plans = [([k], m) for k in singles for m in (['raise', 'nan', 'nan1'] if case['mode'] != 'vectorized' else ['nan', 'nan1'])]
    for _ in range(3 if ctx.quick else 10):
        sub = sorted(rng.sample(range(ncalls), rng.randint(2, min(4, ncalls))))
        plans.append((sub, rng.choice(['raise', 'nan', 'nan1']) if case['mode'] != 'vectorized' else rng.choice(['nan', 'nan1'])))
    for positions, fmode in plans:
        pset = set(positions)

        def fail_fn(k, alpha, x, pset=pset, fmode=fmode):
            if k in pset:
                return 'raise' if fmode == 'raise' else ('nan' if fmode == 'nan' or len(outs) == 1 else ('nan', [outs[0]]))
            return None
        ex = ThreadPoolExecutor(max_workers=3) if case['mode'] == 'executor' else None
        try:
            comp, rec, err = run_twin(case, hist, f, outs, fail_fn, ex)
        finally:
            if ex:
                ex.shutdown(wait=True)
        info = {**case, 'failed_call_positions': positions, 'failure_mode': fmode,
                'failed_keys': [[list(clean_keys_in_order[k][0]), list(clean_keys_in_order[k][1])] for k in positions]}
        # F4 signature: the failing evaluation is the only (first) evaluation of its model fidelity so far
        sig = 'unimputable-first-of-alpha' if any(first_of_alpha[clean_keys_in_order[k][0]] == k for k in positions) else 'none'
        res.hit('plan-' + fmode + '-' + case['mode'])
        if err is not None:
            res.failures.append({'kind': 'training-did-not-complete-after-failed-evaluation', 'signature': sig, 'input': info,
                                 'observed': {'activations_done': err[0], 'error': err[1]}})
            continue
        failed_keys = {clean_keys_in_order[k] for k in positions}
        # 1. failures recorded against exactly the failed (alpha, coord)
        emap = {(tuple(a), tuple(c)) for a, m in comp.training_data.error_map.items() for c in m}
        if fmode == 'raise' and emap != failed_keys:
            res.failures.append({'kind': 'error-records-not-aligned-with-failed-inputs', 'signature': 'none', 'input': info,
                                 'observed': sorted(map(str, emap)), 'expected': sorted(map(str, failed_keys))})
        # 1b. the record itself names the fidelity (and the input point) that failed: it is what a user re-runs
        if fmode == 'raise':
            for a, m in comp.training_data.error_map.items():
                for c, recd in m.items():
                    mk = recd.get('model_kwargs', {}) if isinstance(recd, dict) else {}
                    if 'model_fidelity' in mk and tuple(int(v) for v in np.atleast_1d(mk['model_fidelity'])) != tuple(a):
                        res.failures.append({'kind': 'error-record-names-another-fidelity-than-the-one-that-failed', 'signature': 'none',
                                             'input': info, 'observed': {'stored_under': list(a), 'coord': list(c),
                                                                         'record_model_fidelity': [int(v) for v in np.atleast_1d(mk['model_fidelity'])]}})
            res.hit('error-record-contents')
        if fmode != 'raise' and emap:
            res.failures.append({'kind': 'error-record-without-an-exception', 'signature': 'none', 'input': info,
                                 'observed': sorted(map(str, emap))})
        # 2. all other stored outputs identical to the failure-free twin; failed ones NaN (only the failed output in nan1 mode)
        st = stored(comp)
        if set(st) != set(clean_store):
            res.failures.append({'kind': 'stored-keys-differ-from-failure-free-run', 'signature': 'none', 'input': info})
        for key, d in clean_store.items():
            if key not in st:
                continue
            for o in outs:
                got, exp = st[key].get(o), d[o]
                must_nan = key in failed_keys and (fmode != 'nan1' or o == outs[0] or len(outs) == 1)
                if must_nan:
                    if not (isinstance(got, float) and math.isnan(got)):
                        res.failures.append({'kind': 'failed-evaluation-left-a-value', 'signature': 'none',
                                             'input': {**info, 'key': str(key), 'output': o}, 'observed': got})
                elif got != exp:
                    res.failures.append({'kind': 'other-stored-output-changed-by-a-failure', 'signature': 'none',
                                         'input': {**info, 'key': str(key), 'output': o}, 'observed': got, 'expected': exp})
        # 3. imputed entries only where a value is missing
        nan_keys = {(tuple(a), tuple(c)) for a, m in comp.training_data.yi_nan_map.items() for c in m}
        if not nan_keys <= failed_keys:
            res.failures.append({'kind': 'imputed-entry-for-a-point-that-did-not-fail', 'signature': 'none', 'input': info,
                                 'observed': sorted(map(str, nan_keys - failed_keys))})
        for (a, b) in comp.active_set | comp.candidate_set:
            xt, yt = comp.training_data.get(a, b[:case['nin']], skip_nan=True, y_vars=outs)
            _, yc = clean.training_data.get(a, b[:case['nin']], skip_nan=True, y_vars=outs)
            coords = list(comp.training_data._expand_grid_coords(b[:case['nin']]))
            kept = [c for c in coords if not ((tuple(a), tuple(c)) in failed_keys and (tuple(a), tuple(c)) not in nan_keys)]
            # rows of non-failed coordinates must be the stored values
            if outs[0] in yt and len(np.atleast_1d(yt[outs[0]])) == len(kept):
                for r, c in enumerate(kept):
                    for o in outs:
                        sv = st.get((tuple(a), tuple(c)), {}).get(o)
                        if isinstance(sv, float) and not math.isnan(sv) and float(np.atleast_1d(yt[o])[r]) != sv:
                            # a value that EXISTS (also another output at a failed point) must be returned untouched
                            res.failures.append({'kind': 'get-returns-a-substituted-value-where-data-exists',
                                                 'signature': 'none',
                                                 'input': {**info, 'index': [list(a), list(b)], 'coord': list(c), 'output': o},
                                                 'observed': float(np.atleast_1d(yt[o])[r]), 'expected': sv})
        # 4. index sets and weights identical
        if ic.canon_state(comp) != ic.canon_state(clean):
            res.failures.append({'kind': 'index-sets-or-weights-depend-on-evaluation-outcomes', 'signature': 'none',
                                 'input': info, 'observed': ic.canon_state(comp), 'expected': ic.canon_state(clean)})
        # 5. predictions finite
        x = {n: np.array([rng.random() for _ in range(4)]) for n in names}
        for mode in ('train', 'test'):
            try:
                y = comp.predict(x, index_set=mode)
                bad = [o for o in outs if not np.all(np.isfinite(np.asarray(y[o], dtype=float)))]
                if bad:
                    res.failures.append({'kind': 'prediction-not-finite-after-failed-evaluation', 'signature': sig,
                                         'input': {**info, 'mode': mode}, 'observed': bad})
            except Exception as e:  # noqa: BLE001
                res.failures.append({'kind': 'prediction-raised-after-failed-evaluation', 'signature': sig,
                                     'input': {**info, 'mode': mode}, 'observed': repr(e)[:300]})
        # 6. imputed values are used ONLY where a value is missing: a single-fidelity surrogate still passes through every stored
        #    TRUE value (all data of the failure-free twin at the points that did not fail), in both modes — a shifted or dropped
        #    row in any index's data shows here
        if len(case['alpha_lim']) == 0 and sig != 'unimputable-first-of-alpha':
            good = [(key, d) for key, d in clean_store.items() if key not in failed_keys]
            xg_ = {n: list(comp.training_data.x_grids[n]) for n in names}
            Xg = {n: np.array([xg_[n][key[1][d_]] for key, _ in good]) for d_, n in enumerate(names)}
            for mode in ('train', 'test'):
                iset = set(comp.active_set) if mode == 'train' else set(comp.active_set) | set(comp.candidate_set)
                # only the points of the index set in use
                used = set()
                for (a_, b_) in iset:
                    used |= set(itertools.product(*[range(len(g_)) for g_ in [xg_[n][:case['kpl'] * b_[d_] + 1] for d_, n in enumerate(names)]]))
                try:
                    yp = comp.predict(Xg, index_set=mode)
                except Exception:  # noqa: BLE001  (reported above)
                    continue
                for r, (key, d) in enumerate(good):
                    if key[1] not in used:
                        continue
                    for o in outs:
                        got_, exp_ = float(np.asarray(yp[o]).reshape(-1)[r]), float(d[o])
                        if not abs(got_ - exp_) <= 1e-7 * max(1.0, abs(exp_)):
                            res.failures.append({'kind': 'surrogate-misses-a-true-training-value-after-a-failed-evaluation', 'signature': 'none',
                                                 'input': {**info, 'mode': mode, 'coord': list(key[1]), 'output': o},
                                                 'observed': got_, 'expected': exp_})
            res.hit('pass-through-of-true-values-after-failures')
    # Lean: re-basing of global error positions to per-index local positions for one synthetic batch of this case
    sizes = [rng.randint(0, 4) for _ in range(rng.randint(2, 5))]
    tot = sum(sizes)
    if tot:
        errs = sorted(rng.sample(range(tot), rng.randint(1, min(3, tot))))
        lines.append('sg.rebase ' + ' '.join(map(str, errs)) + ' | ' + ' '.join(map(str, sizes)))
        exp, start = [], 0
        for n in sizes:
            exp.append([e - start for e in errs if start <= e < start + n]); start += n
        post.append(('rebase', {'errors': errs, 'sizes': sizes}, exp))
    res.case(('c14', str(case)), True, {'case': case, 'model_calls': ncalls, 'fault_plans': len(plans)})


def run_special_outputs_case(ctx, res):
    """a model that also reports `model_cost`: one failure in a call that has successes (the failed point is stored with
    model_cost = NaN) and a later call in which EVERY evaluation fails (stored without that key)"""
    from amisc import Component, Variable
    from amisc.training import SparseGrid
    for fail_at in ({3, 5, 6}, {4, 5, 6}, {3}, {5, 6}):
        n = [0]
        per_call = []

        def model(inputs, model_fidelity=(0,), fail_at=fail_at):
            n[0] += 1
            if n[0] in fail_at:
                raise RuntimeError(f'injected failure at call {n[0]}')
            return {'y': float(inputs['x']) ** 2 + 1.0 + 0.1 * model_fidelity[0], 'model_cost': 2.5 + model_fidelity[0]}
        comp = Component(model, inputs=[Variable('x', domain=(0, 1))], outputs=[Variable('y')], model_fidelity=(1,),
                         data_fidelity=(3,), training_data=SparseGrid(opt_args={'locally_biased': False, 'maxfun': 60}))
        hist = [((0,), (0,)), ((0,), (1,)), ((1,), (0,)), ((0,), (2,)), ((1,), (1,)), ((0,), (3,)), ((1,), (2,))]
        info = {'special_outputs': True, 'failed_call_numbers': sorted(fail_at), 'history': [list(a) + list(b) for a, b in hist]}
        err = None
        for a, b in hist:
            before = n[0]
            try:
                comp.activate_index(a, b)
            except Exception as e:  # noqa: BLE001
                err = repr(e)[:300]
                break
            per_call.append(set(range(before + 1, n[0] + 1)))
        per_call.append(set(range(sum(len(c) for c in per_call) + 1, n[0] + 1)))
        all_failed_call = any(c and c <= fail_at for c in per_call)
        mixed_failure = any((c & fail_at) and not (c <= fail_at) for c in per_call)
        sig = 'all-failed-call-lacks-special-outputs' if (all_failed_call and mixed_failure) else 'none'
        if err is not None:
            res.failures.append({'kind': 'training-did-not-complete-after-failed-evaluation', 'signature': sig, 'input': info,
                                 'observed': err})
        else:
            # a failed evaluation must not corrupt the cost accounts of the evaluations that succeeded
            bad_costs = [('model_costs', list(k), float(v)) for k, v in comp.model_costs.items() if not np.isfinite(v)] + \
                        [('misc_costs', list(a) + list(b), float(v)) for a, b, v in comp.misc_costs if not np.isfinite(v)]
            if bad_costs:
                res.failures.append({'kind': 'cost-accounts-not-finite-after-failed-evaluation', 'signature': sig, 'input': info,
                                     'observed': bad_costs[:6]})
            try:
                y = comp.predict({'x': np.array([0.3, 0.77])})['y']
                if not np.all(np.isfinite(y)):
                    res.failures.append({'kind': 'prediction-not-finite-after-failed-evaluation', 'signature': sig,
                                         'input': info, 'observed': np.asarray(y).tolist()})
            except Exception as e:  # noqa: BLE001
                res.failures.append({'kind': 'prediction-raised-after-failed-evaluation', 'signature': sig, 'input': info,
                                     'observed': repr(e)[:300]})
        res.hit('special-outputs-plan')
    res.case(('c14-special-outputs',), True, {'special_outputs': True})


def run(ctx: core.Ctx, only=None) -> core.Result:
    res = core.Result()
    res.rule = ('scripted activation sequences on components with 1-2 inputs, 0-1 model-fidelity dims, 1-2 outputs; fault '
                'plans: every single failing call position (thorough) or a spread of positions incl. first/last (quick), random '
                'multi-failure subsets; failure modes raise / NaN in all outputs / NaN in one output; serial, vectorised (NaN '
                'only) and executor execution; each plan compared with the failure-free twin. Every case is non-trivial.')
    lines, post = [], []
    cases = [o.get('input', o) for o in only] if only is not None else core.corpus_cases('C14') + \
        [gen_case(ctx.rng) for _ in range(ctx.scale(5, 30))]
    keys = ('nin', 'alpha_lim', 'beta_lim', 'kpl', 'nout', 'nsteps', 'fseed', 'mode')
    if only is None:
        # a fixed share of every run: a multi-fidelity component trained through an executor (batches mixing fidelities)
        gen = [c for c in cases if 'fseed' in c][-ctx.scale(5, 30):]
        if gen:
            gen[0]['mode'], gen[0]['alpha_lim'] = 'executor', (1,)
    if only is None or any(c.get('special_outputs') for c in cases):
        with core.guarded(res, 'scenario-raised', {'special_outputs': True}):
            run_special_outputs_case(ctx, res)
    for case in cases:
        if case.get('special_outputs'):
            continue
        case = {k: (tuple(case[k]) if k.endswith('_lim') else case[k]) for k in keys}
        with core.guarded(res, 'scenario-raised', case):
            run_case(ctx, res, case, lines, post)
    out = core.try_driver(lines, res, 'Amisc.rebaseErrors')
    for pst, o in zip(post, out or []):
        _, info, exp = pst
        model = [[int(t) for t in part.split()] for part in o.split('|')] if o.strip() != '' else []
        model = [m for m in ([[int(t) for t in part.split()] for part in o.split('|')])]
        if model != exp:
            res.disagreements.append({'name': 'Amisc.rebaseErrors vs slice arithmetic of activate_index', 'input': info,
                                      'impl': exp, 'model': model})
    # known finding F4
    kf = {k['id'] for k in core.known_findings() if k.get('status') == 'open' and k['property'] == 'C14'}
    if 'F4' in kf:
        kept = []
        for f_ in res.failures:
            if f_.get('signature') == 'unimputable-first-of-alpha':
                res.known_hits['F4'] = res.known_hits.get('F4', 0) + 1
            else:
                kept.append(f_)
        res.failures = kept
        if res.known_hits.get('F4'):
            res.extra.setdefault('known_lines', []).append(
                ('F4', 'unimputable-first-of-alpha: a failed evaluation that is the first (only) evaluation of its model '
                       'fidelity cannot be imputed: training crashes (KeyError) or predictions raise / are not finite'))
    if 'F14' in kf:
        kept = []
        for f_ in res.failures:
            if f_.get('signature') == 'all-failed-call-lacks-special-outputs':
                res.known_hits['F14'] = res.known_hits.get('F14', 0) + 1
            else:
                kept.append(f_)
        res.failures = kept
        if res.known_hits.get('F14'):
            res.extra.setdefault('known_lines', []).append(
                ('F14', 'all-failed-call-lacks-special-outputs: for a model that also returns special outputs (model_cost), a '
                        'model call in which every evaluation failed stores records without those keys; together with a failed '
                        'evaluation stored WITH them (NaN) the imputation step raises KeyError and training stops'))
    return res


ASSUMPTIONS = ['a VECTORISED model that raises gives no per-input information and aborts the whole batch: vectorised runs use '
               'NaN failures only', 'the ridge-regression imputation value itself is an oracle number (only WHERE it is used is '
               'modelled)']
