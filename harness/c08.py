"""C08: each refinement step activates the best candidate; training stops when it must.

Before every real `System.refine` the harness saves the NumPy random state, recomputes (through the public API only)
the step's samples, the current prediction and every candidate's look-ahead prediction, builds the table
(component, index, δ = largest relative change over the requested outputs, cost), restores the random state and calls
the real `refine`. The Lean model `Amisc.choose` (theorem: it is an arg-max of δ/max(1,cost), NaN never chosen) must pick
what `refine` picked (exact ties / near-ties: the real choice must be one of the model's near-maximisers).
Termination is checked by driving `fit` with every termination cause and comparing the number of recorded entries with
the Lean `fitLoop`."""
from __future__ import annotations

import random

import numpy as np

from harness.lib import core
from harness.lib.core import rat_str
from harness import sys_common as sc
from harness import index_common as ic

from amisc.utils import relative_error, _combine_latent_arrays  # noqa: E402


def recompute_table(system, targets, num_refine):
    """the δ table of one refinement step, recomputed through System.sample_inputs / System.predict only"""
    x = system.sample_inputs(num_refine)
    y_curr = system.predict(x, index_set='train', targets=targets)
    _combine_latent_arrays(y_curr)
    table = []
    for comp in system.components:
        if not comp.has_surrogate:
            continue
        for alpha, beta in list(comp.candidate_set):
            y_c = system.predict(x, targets=targets, index_set={comp.name: {(alpha, beta)}}, incremental={comp.name: True})
            _combine_latent_arrays(y_c)
            errs = [relative_error(y_c[v], y_curr[v]) for v in y_c if v in targets]
            with np.errstate(all='ignore'):
                import warnings
                with warnings.catch_warnings():
                    warnings.simplefilter('ignore')
                    delta = float(np.nanmax([np.nanmax(e) for e in errs])) if errs else float('nan')
            table.append((comp.name, tuple(alpha) + tuple(beta), delta, float(comp.get_cost(alpha, beta))))
    return table


def fmt_table(table):
    toks = []
    for cname, idx, delta, cost in table:
        d = 'nan' if np.isnan(delta) else rat_str(delta)
        toks.append(f'{cname}:{ic.show_idx(idx)}:{d}:{rat_str(cost)}')
    return 'ref.choose ' + ' '.join(toks)


def run_training_case(ctx, res, spec, lines, post):
    rng = random.Random(spec['seed'])
    recs = {}
    system = sc.build_system(spec, listing=rng.sample(range(len(spec['comps'])), len(spec['comps'])), recorders=recs)
    cost_kind = {c['name']: c['cost'] for c in spec['comps']}
    outs = [c['out'] for c in spec['comps']]
    targets = rng.choice([None, [outs[-1]], [outs[0]], rng.sample(outs, rng.randint(1, len(outs)))])
    tg = targets or list(system.outputs().keys())
    nsteps = 10 if ctx.quick else 18
    num_refine = 40
    np.random.seed(spec['seed'] % 2 ** 31)
    update_bounds = rng.random() < 0.5
    boxes = {c['name']: tuple([1] * c['na'] + list(c['beta'])) for c in spec['comps'] if not c['nosurr']}
    for step in range(nsteps):
        uninit = [c.name for c in system.components if c.has_surrogate and len(c.active_set) == 0]
        table = None
        if not uninit:
            st = np.random.get_state()
            table = recompute_table(system, tg, num_refine)
            np.random.set_state(st)
        before = {c.name: len(c.active_set) for c in system.components}
        known = {c.name: set(c.active_set) | set(c.candidate_set) for c in system.components if c.has_surrogate}
        ncalls = {n: len(rc.calls) for n, rc in recs.items()}
        r = system.refine(targets=targets, num_refine=num_refine, update_bounds=update_bounds)
        after = {c.name: len(c.active_set) for c in system.components}
        info = {'spec': spec, 'targets': targets, 'step': step, 'update_bounds': update_bounds}
        # the cost booked for the indices created by this step = the cost the model reported for the evaluations it made for
        # them (the divisor of later indicators is therefore the true cost of the candidate)
        for c in system.components:
            if c.has_surrogate and cost_kind[c.name] != 'none':
                new = (set(c.active_set) | set(c.candidate_set)) - known[c.name]
                booked = sum(float(c.get_cost(a, b)) for a, b in new)
                fn = sc.cost_of(cost_kind[c.name])
                true = sum(fn(al, k) for k, (al, x, y) in enumerate(recs[c.name].calls) if k >= ncalls[c.name])
                if abs(booked - true) > 1e-9 * max(1.0, true):
                    res.failures.append({'kind': 'cost-booked-for-new-candidates-differs-from-cost-reported-by-the-model',
                                         'input': {**info, 'component': c.name, 'new_indices': [list(a) + list(b) for a, b in sorted(new)]},
                                         'observed': booked, 'expected': true})
                if new:
                    res.hit('cost-conservation-checked')
        if uninit:
            # initialisation branch: the first uninitialised component in listing order, zero index
            if r['component'] != uninit[0] or sum(r['alpha']) + sum(r['beta']) != 0:
                res.failures.append({'kind': 'uninitialised-component-not-initialised-first', 'input': info,
                                     'observed': (r['component'], r['alpha'], r['beta']), 'expected': uninit[0]})
            res.hit('init-step')
        else:
            chosen = None if r['component'] is None else (r['component'], tuple(r['alpha']) + tuple(r['beta']))
            lines.append(fmt_table(table)); post.append(('choose', info, table, chosen))
            res.hit('scan-step')
            if any(np.isnan(t[2]) for t in table):
                res.hit('nan-indicator-present')
            if any(t[3] < 1 for t in table):
                res.hit('cost-below-floor')
        # exactly one activation (or none when no candidate chosen)
        grown = sum(after[k] - before[k] for k in after)
        if grown != (0 if r['component'] is None else 1):
            res.failures.append({'kind': 'step-did-not-activate-exactly-one-index', 'input': info, 'observed': grown})
        # never beyond the declared maxima
        for c in system.components:
            if c.has_surrogate:
                for a, b in c.active_set | c.candidate_set:
                    if any(v > m for v, m in zip(tuple(a) + tuple(b), boxes[c.name])):
                        res.failures.append({'kind': 'index-beyond-maximum-fidelity', 'input': info,
                                             'observed': [list(a), list(b)]})
        if r['component'] is None:
            break
    res.case(('train', str(spec)), True, {'spec': spec, 'targets': targets, 'update_bounds': update_bounds})


def run_field_case(ctx, res, seed, lines, post):
    """a component whose requested output is a FIELD QUANTITY compressed to two latent coefficients of very different magnitude:
    the indicator is the relative change of the whole output (all latent coefficients together), so a candidate that only moves the
    tiny coefficient must not beat the one that moves the output"""
    from amisc import Component, System, Variable
    from amisc.compression import SVD
    rng = random.Random(seed)
    npts = 20
    grid = np.linspace(0, 1, npts)
    u0 = np.ones(npts) / np.sqrt(npts)
    u1 = np.cos(np.pi * (np.arange(npts) + 0.5) / npts); u1 -= (u1 @ u0) * u0; u1 /= np.linalg.norm(u1)
    big, small, shift = rng.choice([50.0, 100.0, 400.0]), rng.choice([0.01, 0.02, 0.05]), rng.choice([0.3, 0.45, 0.6])

    def field_model(inputs):
        x1, x2 = np.asarray(inputs['x1'], dtype=float), np.asarray(inputs['x2'], dtype=float)
        return {'f': (big + 0.1 * big * x1 ** 3)[..., np.newaxis] * u0 + (small * (x2 - shift))[..., np.newaxis] * u1}
    f = Variable('f', compression=SVD(rank=2, coords=grid))
    f.compression.compute_map(data_matrix=np.column_stack([big * u0, 1.0 * u1]), rank=2)
    comp = Component(field_model, [Variable('x1', distribution='U(0, 1)'), Variable('x2', distribution='U(0, 1)')], [f],
                     data_fidelity=(2, 2), name='field', vectorized=True)
    system = System(comp, name='c08_field')
    system.set_logger(stdout=False)
    np.random.seed(seed % 2 ** 31)
    info0 = {'field_case': seed, 'amplitudes': [big, small], 'shift': shift}
    for step in range(5):
        uninit = len(comp.active_set) == 0
        table = None
        if not uninit:
            st = np.random.get_state()
            table = recompute_table(system, ['f'], 60)
            np.random.set_state(st)
        r = system.refine(targets=['f'], num_refine=60)
        if r['component'] is None:
            break
        if not uninit:
            chosen = (r['component'], tuple(r['alpha']) + tuple(r['beta']))
            lines.append(fmt_table(table)); post.append(('choose', {**info0, 'step': step}, table, chosen))
            res.hit('scan-step-field-quantity-target')
    res.case(('field', seed), True, info0)


def run_termination_case(ctx, res, spec, lines, post):
    """fit() with each termination cause; entries recorded vs the Lean fitLoop on the observed error sequence"""
    rng = random.Random(spec['seed'] + 17)
    causes = ['max_iter', 'exhaust', 'tol', 'time']
    import shutil, tempfile
    for cause in causes:
        # the termination tests are the same when progress is saved to a root directory every few iterations
        root = tempfile.mkdtemp(prefix='amisc_c08_') if cause in ('max_iter', 'tol') and rng.random() < 0.6 else None
        try:
            _termination_cause(ctx, res, spec, lines, post, rng, cause, root)
        finally:
            if root:
                import logging
                logging.shutdown()
                shutil.rmtree(root, ignore_errors=True)
    res.case(('term', str(spec)), True, {'spec': spec, 'causes': causes})


def _termination_cause(ctx, res, spec, lines, post, rng, cause, root):
    if True:
        system = sc.build_system(spec, root_dir=root)
        np.random.seed(spec['seed'] % 2 ** 31)
        k = rng.randint(3, 7)
        kw = dict(num_refine=30)
        if root:
            kw.update(save_interval=rng.choice([2, 3]), plot_interval=0)
            res.hit('termination-with-root-dir-and-save-interval')
        if cause in ('exhaust', 'max_iter') and rng.random() < 0.6:
            kw['targets'] = [spec['comps'][0]['out']]   # candidates of downstream components then have indicator exactly 0
        if cause == 'max_iter':
            kw.update(max_iter=k, max_tol=-np.inf)
        elif cause == 'exhaust':
            kw.update(max_iter=400, max_tol=-np.inf)
        elif cause == 'tol':
            kw.update(max_iter=60, max_tol=0.05)
        else:
            kw.update(max_iter=60, max_tol=-np.inf, runtime_hr=0.0)
        system.fit(**kw)
        hist = list(system.train_history)
        errs = [h['added_error'] for h in hist]
        n_act = sum(len(c.active_set) for c in system.components if c.has_surrogate)
        info = {'spec': spec, 'cause': cause, 'fit_kwargs': {a: (str(b) if isinstance(b, float) and np.isinf(b) else b)
                                                              for a, b in kw.items()}}
        if len(hist) != n_act:
            res.failures.append({'kind': 'history-entries-differ-from-activations', 'input': info,
                                 'observed': len(hist), 'expected': n_act})
        full = all(len(c.active_set) == int(np.prod([m + 1 for m in tuple(c.model_fidelity) + tuple(c.max_beta)]))
                   and len(c.candidate_set) == 0 for c in system.components if c.has_surrogate)
        if cause == 'max_iter' and len(hist) != k and not full:
            res.failures.append({'kind': 'fit-did-not-perform-requested-steps', 'input': info, 'signature': nan_sig(system),
                                 'observed': len(hist), 'expected': k})
        if cause == 'exhaust' and not full:
            res.failures.append({'kind': 'exhaustion-left-box-incomplete', 'input': info, 'signature': nan_sig(system),
                                 'observed': {c.name: [len(c.active_set), len(c.candidate_set)] for c in system.components}})
        if cause == 'time' and len(hist) != 1:
            res.failures.append({'kind': 'time-limit-not-honoured', 'input': info, 'observed': len(hist)})
        if cause == 'tol':
            below = [i for i, e in enumerate(errs) if not np.isnan(e) and e < 0.05]
            if (below and below[0] != len(errs) - 1) or (not below and len(hist) < 60 and not full):
                res.failures.append({'kind': 'tolerance-stop-wrong', 'input': info, 'signature': nan_sig(system),
                                     'observed': errs})
        # the model loop on the observed outcome stream
        toks = ['a:nan' if np.isnan(e) else 'a:' + rat_str(e) for e in errs]
        if cause in ('exhaust',) or (full and cause != 'time'):
            toks.append('n')
        mi = kw['max_iter']
        tol = 'nan' if False else (rat_str(kw['max_tol']) if np.isfinite(kw['max_tol']) else '-1000000')
        lines.append(f'ref.fit {mi} {tol} 0 {1 if cause == "time" else 0} | ' + ' '.join(toks))
        post.append(('fit', info, len(hist)))
        res.hit('termination-' + cause)
        if cause in ('max_iter', 'time') and not full:
            # training is continued by further fit() calls (as after loading a checkpoint): every call performs exactly the
            # number of steps requested of IT, whatever the length of the history it starts from
            for call in (2, 3):
                n0 = len(system.train_history)
                k2 = rng.randint(1, 4)
                kw2 = dict(kw); kw2.update(max_iter=k2, max_tol=-np.inf); kw2.pop('runtime_hr', None)
                system.fit(**kw2)
                hist2 = list(system.train_history)
                full2 = all(len(c.active_set) == int(np.prod([m + 1 for m in tuple(c.model_fidelity) + tuple(c.max_beta)]))
                            and len(c.candidate_set) == 0 for c in system.components if c.has_surrogate)
                info2 = {**info, 'call': call, 'history_before_call': n0, 'max_iter_of_call': k2}
                if len(hist2) - n0 != k2 and not full2:
                    res.failures.append({'kind': 'continued-fit-did-not-perform-requested-steps', 'input': info2,
                                         'signature': nan_sig(system), 'observed': len(hist2) - n0, 'expected': k2})
                n_act2 = sum(len(c.active_set) for c in system.components if c.has_surrogate)
                if len(hist2) != n_act2:
                    res.failures.append({'kind': 'history-entries-differ-from-activations', 'input': info2,
                                         'observed': len(hist2), 'expected': n_act2})
                toks2 = ['a:nan' if np.isnan(h['added_error']) else 'a:' + rat_str(h['added_error']) for h in hist2[n0:]]
                if full2:
                    toks2.append('n')
                lines.append(f'ref.fitcall {k2} -1000000 {n0} | ' + ' '.join(toks2))
                post.append(('fit', info2, len(hist2)))
                res.hit('continued-fit-call')
                if full2:
                    break


def run_zero_surrogate_case(ctx, res):
    """the current surrogate of the only target is identically zero after initialisation (y = x0 + x1 - 1 on (0,1)^2: the
    single initial node is a root) -> every candidate's relative error is undefined (NaN)"""
    from amisc import Component, Variable, System
    from amisc.training import SparseGrid

    def model(inputs):
        return {'y': inputs['x0'] + inputs['x1'] - 1.0}
    comp = Component(model, inputs=[Variable('x0', domain=(0.0, 1.0)), Variable('x1', domain=(0.0, 1.0))],
                     outputs=[Variable('y')], name='c', vectorized=True, data_fidelity=(1, 1),
                     training_data=SparseGrid(**sc.SGK))
    system = System(comp, name='zero')
    np.random.seed(3)
    system.fit(max_iter=3, num_refine=20, max_tol=-np.inf)
    n = len(system.train_history)
    if n != 3:
        res.failures.append({'kind': 'fit-did-not-perform-requested-steps', 'signature': 'nan-indicator-stall',
                             'input': {'zero_surrogate': True, 'model': 'y = x0 + x1 - 1 on (0,1)^2', 'max_iter': 3},
                             'observed': {'steps': n, 'candidates_left': len(comp.candidate_set)}, 'expected': 3})
    res.hit('all-indicators-nan')
    res.case(('zero-surrogate',), True, {'model': 'y = x0 + x1 - 1', 'steps': n})


def nan_sig(system):
    """F9 signature: training stalled while candidates remain and every candidate's indicator is NaN"""
    return 'nan-indicator-stall'


def run(ctx: core.Ctx, only=None) -> core.Result:
    res = core.Result()
    res.rule = ('random feed-forward systems (2-3 components, optional model fidelity and surrogate-less components, cost '
                'profiles none/per-alpha/<1/>>1, random listing order, random target subsets, update_bounds on/off): every '
                'refinement step of a training run is recomputed through the public API and compared with the Lean arg-max; '
                'fit() is driven with each termination cause (max_iter, exhaustion, tolerance, time) and compared with the '
                'Lean fitLoop. Every case is non-trivial (>= 1 scan step).')
    lines, post = [], []
    if only is not None:
        specs = [o.get('input', o).get('spec', o.get('input', o)) for o in only if 'zero_surrogate' not in str(o) and 'field_case' not in str(o)]
    else:
        specs = [c.get('spec', c) for c in core.corpus_cases('C08')] + \
            [sc.gen_system_spec(ctx.rng) for _ in range(ctx.scale(7, 40))]
        for k_, sp_ in enumerate(specs):
            if k_ % 2 == 1:      # very expensive models: all indicators are tiny numbers, their ORDER still decides
                for c_ in sp_['comps']:
                    c_['cost'] = 'huge'
    for i, spec in enumerate(specs):
        with core.guarded(res, 'scenario-raised', {'spec': spec}):
            run_training_case(ctx, res, spec, lines, post)
        if i < ctx.scale(2, 10):
            with core.guarded(res, 'scenario-raised', {'spec': spec, 'part': 'termination'}):
                run_termination_case(ctx, res, spec, lines, post)
    if only is None:
        for _ in range(ctx.scale(2, 8)):
            sd = ctx.rng.randrange(10 ** 6)
            with core.guarded(res, 'scenario-raised', {'field_case': sd}):
                run_field_case(ctx, res, sd, lines, post)
    else:
        for o in only:
            if 'field_case' in o.get('input', o):
                run_field_case(ctx, res, o.get('input', o)['field_case'], lines, post)
    if only is None or any('zero_surrogate' in str(o) for o in only):
        with core.guarded(res, 'scenario-raised', {'zero_surrogate': True}):
            run_zero_surrogate_case(ctx, res)
    out = core.try_driver(lines, res, 'Amisc.choose / fitLoop')
    near = 0
    for pst, o in zip(post, out or []):
        if pst[0] == 'choose':
            _, info, table, chosen = pst
            model = None if o == 'none' else (o.split(':')[0], tuple(int(t) for t in o.split(':')[1].split(',')))
            if model != chosen:
                # near-tie? indicators within 1e-9 relative of the maximum are all acceptable
                ind = {(t[0], t[1]): (t[2] / max(1.0, t[3])) for t in table if not np.isnan(t[2])}
                if chosen in ind and model in ind and abs(ind[chosen] - ind[model]) <= 1e-9 * abs(ind[model]):
                    near += 1
                    continue
                f = {'kind': 'refine-did-not-activate-the-best-candidate', 'input': info,
                     'observed': chosen, 'expected': model,
                     'table': [(t[0], list(t[1]), t[2], t[3]) for t in table]}
                if chosen is None and model is None:
                    continue
                res.failures.append(f)
        else:
            _, info, n = pst
            if int(o) != n:
                res.disagreements.append({'name': 'Amisc.fitLoop vs System.fit (number of recorded entries)', 'input': info,
                                          'impl': n, 'model': int(o)})
    res.extra['near_ties'] = near
    # known finding F9 (if still open)
    kf = {k['id'] for k in core.known_findings() if k.get('status') == 'open' and k['property'] == 'C08'}
    return res


ASSUMPTIONS = ['δ table recomputed through System.predict(index_set=…, incremental=…) under the restored NumPy state',
               'near-ties (relative gap <= 1e-9 between the top indicators) are accepted either way and counted']
