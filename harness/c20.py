"""C20: seeded training is reproducible across processes and hash randomisation.

* translator facts (regenerated every run): the iteration sources of System.inputs / coupling_variables / the loop member
  list / the loop coupling list are classified as insertion-ordered or set-valued; the Lean theorem
  `all_order_sources_are_ordered` only builds when all are ordered, and `samples_independent_of_hash_permutation` then gives
  independence of the resolution of any set order.
* correspondence: identical scripts in subprocesses under PYTHONHASHSEED in {0..N, random}; input order, sample digests,
  history digests and prediction digests must all agree (feed-forward system with 5 exogenous inputs, and a system with a
  feedback loop)."""
from __future__ import annotations

import json
import os
import random
import subprocess
import sys
from concurrent.futures import ThreadPoolExecutor

from harness.lib import core

WORKER = os.path.join(os.path.dirname(os.path.abspath(__file__)), 'c20_worker.py')


def run_worker(spec, hashseed):
    env = dict(os.environ, PYTHONHASHSEED=str(hashseed), MPLBACKEND='Agg')
    p = subprocess.run(['/venv/bin/python', '-W', 'ignore', WORKER, json.dumps(spec)], env=env, capture_output=True, text=True,
                       timeout=1800)
    if p.returncode != 0:
        return {'error': (p.stderr or p.stdout)[-500:]}
    return json.loads(p.stdout.strip().splitlines()[-1])


def gen_spec(rng, kind):
    if kind in ('conflict', 'nansib'):
        names = [rng.choice(['alpha', 'beta', 'gam', 'delta']) + str(i) for i in range(2)]
        cn = rng.sample(['solver', 'thermo', 'plume', 'cathode', 'grid', 'aero', 'wing', 'c1', 'zz'], 4)
        return {'kind': kind, 'exo': names, 'comp_names': cn, 'w': [round(rng.uniform(0.3, 0.9), 3) for _ in range(2)],
                'nan_pos': rng.randrange(3), 'np_seed': rng.randrange(10 ** 6), 'steps': rng.randint(5, 8)}
    if kind in ('twin', 'zero'):
        names = [rng.choice(['alpha', 'beta', 'gam', 'delta']) + str(i) for i in range(2)]
        cn = rng.sample(['solver', 'thermo', 'plume', 'cathode', 'grid', 'aero', 'wing', 'c1', 'zz'], rng.randint(3, 4))
        return {'kind': kind, 'exo': names, 'comp_names': cn, 'w': [round(rng.uniform(0.3, 0.9), 3) for _ in range(2)],
                'np_seed': rng.randrange(10 ** 6), 'steps': rng.randint(5, 7)}
    n = rng.randint(5, 6) if kind == 'ff' else rng.randint(3, 4)
    names = [rng.choice(['alpha', 'beta', 'gam', 'delta', 'eps', 'zeta', 'eta', 'theta', 'q', 'rr']) + str(i) for i in range(n)]
    return {'kind': kind, 'exo': names, 'w': [round(rng.uniform(0.3, 1.7), 3) for _ in names],
            'np_seed': rng.randrange(10 ** 6), 'steps': rng.randint(6, 9)}


def run(ctx: core.Ctx, only=None) -> core.Result:
    res = core.Result()
    res.rule = ('identical training scripts run in subprocesses under PYTHONHASHSEED 0..N and "random": systems with 4-6 '
                'exogenous inputs (feed-forward), with a two-variable feedback loop, and with 3-4 components whose candidates have '
                'exactly equal (twin models) or undefined (identically-zero surrogate) error indicators, with one variable name '
                'declared differently by several components, and with a NaN-producing sibling branch; compared: order of System.inputs() and '
                'coupling_variables(), digest of the drawn samples, of the training history and of predictions. A case is '
                'non-trivial when >= 4 hash seeds were compared; distinct by system spec.')
    nseeds = ctx.scale(6, 40)
    specs = [o.get('input', o).get('spec', o.get('input', o)) for o in only] if only is not None else \
        [c.get('spec', c) for c in core.corpus_cases('C20')] + \
        [gen_spec(ctx.rng, k) for k in (['ff', 'loop', 'twin', 'zero', 'conflict', 'nansib'] * ctx.scale(1, 3))]
    seeds = list(range(nseeds)) + ['random']
    for spec in specs:
        with ThreadPoolExecutor(max_workers=14) as ex:
            outs = list(ex.map(lambda hs: run_worker(spec, hs), seeds))
        ref = None
        for hs, o in zip(seeds, outs):
            if 'error' in o:
                res.failures.append({'kind': 'training-script-raised', 'input': {'spec': spec, 'PYTHONHASHSEED': hs},
                                     'observed': o['error']})
                continue
            if ref is None:
                ref = (hs, o)
                continue
            diff = [k for k in ('inputs', 'coupling', 'samples', 'history', 'pred') if o[k] != ref[1][k]]
            if diff:
                res.failures.append({'kind': 'run-differs-between-hash-seeds',
                                     'input': {'spec': spec, 'PYTHONHASHSEED': [ref[0], hs]},
                                     'differs_in': diff,
                                     'observed': {k: o[k] for k in diff}, 'expected': {k: ref[1][k] for k in diff},
                                     'choices': [o['choices'], ref[1]['choices']]})
        res.hit('system-' + spec['kind'])
        res.hit('hash-seeds-compared', len(seeds))
        res.case(('c20', json.dumps(spec, sort_keys=True)), len(seeds) >= 4,
                 {'spec': spec, 'hash_seeds': [str(s) for s in seeds], 'input_order': ref[1]['inputs'] if ref else None,
                  'history_digest': ref[1]['history'] if ref else None})
    return res


ASSUMPTIONS = ['CPython string hashing is exercised, not modelled; tuples of ints (IndexSet elements) hash deterministically',
               'the order-source classifier of harness/translate/tr_facts.py is trusted (fail closed: unknown -> not ordered)']
