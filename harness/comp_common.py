"""Builders for real amisc Components around pure recorded model functions; Lean-driver encoders for interpolation
states; exact-rational reference interpolation (oracle)."""
from __future__ import annotations

import itertools
import logging
import warnings
from fractions import Fraction

import numpy as np

from harness.lib import core
from harness.lib.core import frac, rat_str

core.setup_import_path()
warnings.filterwarnings('ignore')
from amisc import Component, Variable  # noqa: E402
from amisc.training import SparseGrid  # noqa: E402
from amisc.interpolator import Lagrange  # noqa: E402

logging.disable(logging.CRITICAL)

SNAP_ATOL = 1e-8   # documentation only: the model side uses the generated Amisc.Gen.snapTol


def scalar(a) -> float:
    return float(np.ravel(np.asarray(a, dtype=float))[0])


class Recorder:
    """wraps a pure function f(alpha, xdict)->ydict as an amisc model and logs every evaluation"""

    def __init__(self, f, in_names, out_names, na, vectorized=True, cost=None, fail=None):
        self.f, self.in_names, self.out_names, self.na = f, in_names, out_names, na
        self.calls = []   # (alpha tuple, x tuple (model units), y dict)
        self.vectorized = vectorized
        self.cost = cost
        self.fail = fail  # callable(call_index, alpha, x) -> None | 'raise' | 'nan'

    def _one(self, alpha, xd):
        k = len(self.calls)
        x = tuple(float(xd[n]) for n in self.in_names)
        mode = self.fail(k, alpha, x) if self.fail else None
        if mode == 'raise':
            self.calls.append((alpha, x, 'raise'))
            raise RuntimeError(f'injected failure at call {k}')
        y = self.f(alpha, {n: float(xd[n]) for n in self.in_names})
        y = {o: float(y[o]) for o in self.out_names}
        if mode == 'nan':
            y = {o: float('nan') for o in self.out_names}
        elif isinstance(mode, tuple) and mode[0] == 'nan':
            for o in mode[1]:
                y[o] = float('nan')
        self.calls.append((alpha, x, y))
        return y

    def model(self):
        rec = self
        if self.vectorized:
            def model(inputs, model_fidelity=None):
                arrs = {n: np.atleast_1d(np.asarray(inputs[n], dtype=float)) for n in rec.in_names}
                N = len(next(iter(arrs.values())))
                mf = np.atleast_2d(np.asarray(model_fidelity)).reshape((N, -1)) if model_fidelity is not None else None
                outs = {o: np.empty(N) for o in rec.out_names}
                costs = np.empty(N)
                for i in range(N):
                    alpha = tuple(int(v) for v in mf[i]) if (mf is not None and rec.na > 0) else ()
                    y = rec._one(alpha, {n: arrs[n][i] for n in rec.in_names})
                    for o in rec.out_names:
                        outs[o][i] = y[o]
                    costs[i] = rec.cost(alpha, len(rec.calls) - 1) if rec.cost else 1.0
                if rec.cost:
                    outs['model_cost'] = costs
                return outs
        elif self.na == 0 and getattr(self, 'no_fidelity_arg', False):
            # a single-fidelity model whose signature does not mention `model_fidelity` at all
            def model(inputs):
                y = dict(rec._one((), {n: inputs[n] for n in rec.in_names}))
                if rec.cost:
                    y['model_cost'] = rec.cost((), len(rec.calls) - 1)
                return y
        else:
            def model(inputs, model_fidelity=None):
                alpha = tuple(int(v) for v in model_fidelity) if (model_fidelity is not None and rec.na > 0) else ()
                y = dict(rec._one(alpha, {n: inputs[n] for n in rec.in_names}))
                if rec.cost:
                    y['model_cost'] = rec.cost(alpha, len(rec.calls) - 1)
                return y
        return model


def build_component(f, nin, out_names, alpha_lim=(), beta_lim=None, surr_lim=(), domains=None, norms_in=None,
                    norms_out=None, kpl=2, vectorized=True, name='comp', cost=None, fail=None, maxfun=80,
                    training_data=None, interpolator=None):
    in_names = [f'x{i}' for i in range(nin)]
    domains = domains or [(0.0, 1.0)] * nin
    norms_in = norms_in or [None] * nin
    norms_out = norms_out or [None] * len(out_names)
    inputs = [Variable(n, domain=tuple(map(float, d)), norm=nm) for n, d, nm in zip(in_names, domains, norms_in)]
    outputs = [Variable(o, norm=nm) for o, nm in zip(out_names, norms_out)]
    rec = Recorder(f, in_names, out_names, len(alpha_lim), vectorized, cost, fail)
    beta_lim = tuple(beta_lim if beta_lim is not None else (2,) * nin)
    td = training_data if training_data is not None else SparseGrid(
        knots_per_level=kpl, opt_args={'locally_biased': False, 'maxfun': maxfun})
    comp = Component(rec.model(), inputs=inputs, outputs=outputs, name=name, vectorized=vectorized,
                     model_fidelity=tuple(alpha_lim), data_fidelity=beta_lim, surrogate_fidelity=tuple(surr_lim),
                     training_data=td, interpolator=interpolator if interpolator is not None else Lagrange())
    return comp, rec


def random_history(rng, comp, nsteps, between=None):
    """activate a random admissible history (candidates chosen uniformly); returns the list of (alpha, beta);
    `between(step)` is called after every activation (e.g. to move an input domain)"""
    na = len(comp.model_fidelity)
    zero = ((0,) * na, (0,) * len(comp.max_beta))
    hist = []
    comp.activate_index(*zero)
    hist.append(zero)
    for k_ in range(nsteps):
        if between is not None:
            between(k_)
        cands = sorted(comp.candidate_set)
        if not cands:
            break
        c = rng.choice(cands)
        comp.activate_index(*c)
        hist.append(c)
    return hist


# ------------------------------------------------------------------------------------------------------------------
# driver encoding
# ------------------------------------------------------------------------------------------------------------------

def idx_key(alpha, beta) -> str:
    return 'a' + '.'.join(map(str, alpha)) + 'b' + '.'.join(map(str, beta))


def mat_str(rows) -> str:
    return ' ; '.join(' '.join(rat_str(v) for v in r) for r in rows)


def grids_for(comp, beta):
    """the 1-d node lists of index beta: prefixes of the sparse grid's 1-d sequences (data-fidelity part only)"""
    nd = len(comp.data_fidelity)
    td = comp.training_data
    sizes = td.beta_to_knots(tuple(beta[:nd]))
    return [list(td.x_grids[v][:s]) for v, s in zip(td.x_grids.keys(), sizes)]


def product_points(grids):
    return list(itertools.product(*grids))


# ------------------------------------------------------------------------------------------------------------------
# exact rational reference (classical Lagrange form, independent of the barycentric implementation)
# ------------------------------------------------------------------------------------------------------------------

def lagrange_basis_exact(grid: list[Fraction], x: Fraction, j: int) -> Fraction:
    num = den = Fraction(1)
    for k, xk in enumerate(grid):
        if k != j:
            num *= (x - xk)
            den *= (grid[j] - xk)
    return num / den


def tensor_interp_exact(grids: list[list[Fraction]], rows: list[Fraction], x: list[Fraction]) -> Fraction:
    tot = Fraction(0)
    bases = [[lagrange_basis_exact(g, xd, j) for j in range(len(g))] for g, xd in zip(grids, x)]
    for r, j in enumerate(itertools.product(*[range(len(g)) for g in grids])):
        p = Fraction(1)
        for d, jd in enumerate(j):
            p *= bases[d][jd]
            if p == 0:
                break
        if p != 0:
            tot += p * rows[r]
    return tot


def ie_weights(index_set: set) -> dict:
    """inclusion-exclusion weights of a set of concatenated indices"""
    out = {}
    for i in index_set:
        tot = 0
        for e in itertools.product((0, 1), repeat=len(i)):
            if tuple(a + b for a, b in zip(i, e)) in index_set:
                tot += (-1) ** sum(e)
        out[i] = tot
    return out
