"""C10: prediction is pointwise — batching, shape and ordering never change a sample.

Real Component.predict / call_model / gradient / hessian and System.predict (with and without a feedback loop) are
evaluated on: the same samples alone, inside different batches, permuted, with shuffled key order, and in array shapes
(), (1,), (n,), (1,1), (m,n), (a,1,c), broadcast mixtures. Output SHAPES are compared with the Lean shape model
(`Amisc.loopShape`, `Amisc.outShape`); VALUES are compared sample by sample with the single-sample evaluation."""
from __future__ import annotations

import random

import numpy as np

from harness.lib import core
from harness import comp_common as cc
from harness import c05, sys_common as sc

from amisc import Component, Variable, System  # noqa: E402
from amisc.training import SparseGrid  # noqa: E402

SHAPES = [(), (1,), (5,), (1, 1), (3, 4), (2, 1, 3), (1, 4, 1), (6, 1)]


def shape_str(s):
    return '()' if len(s) == 0 else ' '.join(map(str, s))


def close(a, b):
    a, b = np.asarray(a, dtype=float), np.asarray(b, dtype=float)
    return a.shape == b.shape and np.allclose(a, b, rtol=1e-12, atol=1e-13, equal_nan=True)


def make_component(rng, seed):
    nin = rng.choice([1, 2, 3])
    f = c05.make_f(random.Random(seed), nin, 2, rng.choice(['exp', 'rational']))
    comp, rec = cc.build_component(f, nin, ['y0', 'y1'], (), tuple(rng.choice([1, 2]) for _ in range(nin)), (),
                                   [(0.0, 1.0)] * nin, None, None, 2, vectorized=rng.random() < 0.5)
    cc.random_history(random.Random(seed + 3), comp, rng.randint(2, 5))
    return comp, nin


def eval_fn(comp, which):
    if which == 'predict':
        return lambda x: comp.predict(x, index_set='test')
    if which == 'model':
        return lambda x: {k: v for k, v in comp.call_model(x).items() if k in ('y0', 'y1')}
    if which == 'gradient':
        return lambda x: comp.gradient(x, index_set='test')
    return lambda x: comp.hessian(x, index_set='test')


def run_component(ctx, res, seed, lines, post):
    rng = random.Random(seed)
    comp, nin = make_component(rng, seed)
    names = [f'x{d}' for d in range(nin)]
    N = 12
    base = {n: np.array([rng.random() for _ in range(N)]) for n in names}
    # put a few samples exactly on grid nodes (special-case branches are decided per batch in the code)
    for n in names:
        g = comp.training_data.x_grids[n]
        for k in range(0, N, 4):
            base[n][k] = g[rng.randrange(len(g))]
    info = {'seed': seed, 'nin': nin}
    # 0. call_model with the inputs given as a plain array / nested list: the LAST axis is the variable axis (order of
    #    Component.inputs) whatever the sizes of the leading (sample) axes — also when a leading axis has length nin
    dict_out = comp.call_model(dict(base))
    for lead in ((nin,), (nin + 1,), (nin, 2), (2, nin), (nin, nin), (nin, 1, 2)):
        n_el = int(np.prod(lead))
        idx = [rng.randrange(N) for _ in range(n_el)]
        arr = np.stack([base[n][idx].reshape(lead) for n in names], axis=-1)        # (*lead, nin)
        for as_list in (False, True):
            try:
                out = comp.call_model(arr.tolist() if as_list else arr)
            except Exception as e:  # noqa: BLE001
                res.failures.append({'kind': 'model: raised-on-array-input', 'input': {**info, 'lead_shape': list(lead)},
                                     'observed': repr(e)[:200]})
                continue
            for k in ('y0', 'y1'):
                if k not in out:
                    continue
                got, exp = np.asarray(out[k]), np.asarray(dict_out[k])[idx]
                if got.shape[:len(lead)] != tuple(lead) or not close(got.reshape(n_el, -1), exp.reshape(n_el, -1)):
                    res.failures.append({'kind': 'model: array-input-differs-from-dict-input',
                                         'input': {**info, 'lead_shape': list(lead), 'as_list': as_list, 'output': k},
                                         'observed': {'shape': list(got.shape)}, 'expected': {'shape': list(lead)}})
        res.hit('array-input-lead-' + 'x'.join(map(str, lead)))
    # 0b. LARGE batches (sizes that are not round numbers): every sample of a big batch equals the same sample in small batches
    for which in ('predict', 'gradient'):
        fn = eval_fn(comp, which)
        for nbig in (1001, 2003):
            big = {n: np.array([rng.random() for _ in range(nbig)]) for n in names}
            out_big = fn(dict(big))
            tail = list(range(nbig - 7, nbig)) + rng.sample(range(nbig - 7), 7)
            out_small = fn({n: big[n][tail] for n in names})
            for k in out_big:
                if not close(np.asarray(out_big[k])[tail], np.asarray(out_small[k])):
                    res.failures.append({'kind': f'{which}: sample-in-large-batch-differs-from-sample-in-small-batch',
                                         'input': {**info, 'batch': nbig, 'output': k},
                                         'observed': np.asarray(out_big[k])[tail][:7].tolist(),
                                         'expected': np.asarray(out_small[k])[:7].tolist()})
        res.hit(which + '-large-batch')
    for which in ('predict', 'model', 'gradient', 'hessian'):
        fn = eval_fn(comp, which)
        full = fn(dict(base))
        extra = {k: np.asarray(v).shape[1:] for k, v in full.items()}   # per-sample output shape
        # 1. every sample alone
        for i in range(N):
            one = fn({n: np.array([base[n][i]]) for n in names})
            for k in full:
                if not close(np.asarray(one[k]).reshape(extra[k]), np.asarray(full[k])[i]):
                    res.failures.append({'kind': f'{which}: sample-alone-differs-from-sample-in-batch',
                                         'input': {**info, 'sample': i, 'x': [float(base[n][i]) for n in names], 'output': k},
                                         'observed': np.asarray(one[k]).tolist(), 'expected': np.asarray(full[k])[i].tolist()})
        res.hit(which + '-alone')
        # 2. permutation + sub-batches + key order
        perm = list(range(N)); rng.shuffle(perm)
        keys = list(names); rng.shuffle(keys)
        pr = fn({n: base[n][perm] for n in keys})
        for k in full:
            if not close(pr[k], np.asarray(full[k])[perm]):
                res.failures.append({'kind': f'{which}: permuting-samples-or-keys-changes-results',
                                     'input': {**info, 'perm': perm, 'key_order': keys, 'output': k}})
        sub = sorted(rng.sample(range(N), 5))
        sb = fn({n: base[n][sub] for n in names})
        for k in full:
            if not close(sb[k], np.asarray(full[k])[sub]):
                res.failures.append({'kind': f'{which}: sub-batch-changes-results', 'input': {**info, 'sub': sub, 'output': k}})
        res.hit(which + '-permute-subbatch')
        # 3. array shapes
        for shp in SHAPES:
            n_el = int(np.prod(shp)) if len(shp) else 1
            idx = [rng.randrange(N) for _ in range(n_el)]
            x = {n: (np.float64(base[n][idx[0]]) if len(shp) == 0 else base[n][idx].reshape(shp)) for n in names}
            try:
                out = fn(dict(x))
            except Exception as e:  # noqa: BLE001
                res.failures.append({'kind': f'{which}: raised-on-shape', 'input': {**info, 'shape': list(shp)},
                                     'observed': repr(e)[:200]})
                continue
            for k in full:
                o = np.asarray(out[k])
                lines.append('shp.loop ' + ' | '.join(shape_str(shp) for _ in names)); post.append(('loop',))
                lines.append('SHP_OUT ' + shape_str(extra[k])); post.append(('out', which, info, list(shp), k, list(o.shape)))
                exp = np.asarray(full[k])[idx]
                if not close(o.reshape((n_el,) + tuple(extra[k])), exp):
                    res.failures.append({'kind': f'{which}: values-change-with-array-shape',
                                         'input': {**info, 'shape': list(shp), 'output': k}})
            res.hit(f'shape-{shape_str(shp)}')
        # 4. broadcast mixtures (first input carries the batch; the others are scalars / one-element arrays)
        if nin >= 2:
            for other in ((), (1,)):
                idx = [rng.randrange(N) for _ in range(4)]
                j = rng.randrange(N)
                x = {names[0]: base[names[0]][idx]}
                for n in names[1:]:
                    x[n] = np.float64(base[n][j]) if other == () else np.array([base[n][j]])
                out = fn(dict(x))
                ref = fn({names[0]: base[names[0]][idx], **{n: np.full(4, base[n][j]) for n in names[1:]}})
                for k in full:
                    if not close(out[k], ref[k]):
                        res.failures.append({'kind': f'{which}: scalar-broadcast-differs-from-explicit-batch',
                                             'input': {**info, 'other_shape': list(other), 'output': k}})
                lines.append('shp.loop ' + ' | '.join([shape_str((4,))] + [shape_str(other)] * (nin - 1))); post.append(('loop',))
                k0 = next(iter(full))
                lines.append('SHP_OUT ' + shape_str(extra[k0]))
                post.append(('out', which, info, ['mix', list(other)], k0, list(np.asarray(out[k0]).shape)))
            res.hit('broadcast-mixture')
        # 5. equal-rank arrays that broadcast axis by axis (a size-1 axis anywhere, not only leading)
        if nin >= 2:
            for sh_a, sh_b in (((3, 1), (3, 4)), ((3, 1), (1, 4)), ((1, 4), (3, 4)), ((2, 1, 3), (2, 2, 3)), ((2, 2, 1), (1, 2, 3))):
                target = tuple(max(p, q) for p, q in zip(sh_a, sh_b))
                x = {}
                for d, n in enumerate(names):
                    shp = sh_a if d == 0 else (sh_b if d == 1 else target)
                    x[n] = base[n][[rng.randrange(N) for _ in range(int(np.prod(shp)))]].reshape(shp)
                try:
                    out = fn(dict(x))
                except Exception as e:  # noqa: BLE001
                    res.failures.append({'kind': f'{which}: raised-on-broadcastable-shapes',
                                         'input': {**info, 'shapes': [list(sh_a), list(sh_b)]}, 'observed': repr(e)[:200]})
                    continue
                xb = {n: np.broadcast_to(x[n], target).reshape(-1) for n in names}
                ref = fn(dict(xb))
                for k in full:
                    o = np.asarray(out[k])
                    if tuple(o.shape[:len(target)]) != target or not close(o.reshape(np.asarray(ref[k]).shape), ref[k]):
                        res.failures.append({'kind': f'{which}: axis-by-axis-broadcast-differs-from-explicit-batch',
                                             'input': {**info, 'shapes': [list(sh_a), list(sh_b)], 'output': k},
                                             'observed_shape': list(o.shape), 'expected_leading_shape': list(target)})
                lines.append('shp.loop ' + ' | '.join(shape_str(sh_a if d == 0 else (sh_b if d == 1 else target))
                                                        for d in range(nin))); post.append(('loop',))
                k0 = next(iter(full))
                lines.append('SHP_OUT ' + shape_str(extra[k0]))
                post.append(('out', which, info, ['bcast', list(sh_a), list(sh_b)], k0, list(np.asarray(out[k0]).shape)))
            res.hit('equal-rank-broadcast')
    res.case(('comp', seed), True, {'component_seed': seed, 'inputs': nin, 'shapes': [list(s) for s in SHAPES]})


def run_system(ctx, res, seed, loop: bool):
    rng = random.Random(seed)
    if loop:
        from harness import c06
        case = c06.gen_case(rng)
        case['kind'] = 'sin'   # nonlinear: samples need different numbers of sweeps
        case['mem'] = 2
        if seed % 2 == 0:
            # one sample whose coupling values are orders of magnitude larger than those of its batch companions
            case['b'] = [bb if bb != 0 else 0.5 for bb in case['b']]
            case['amp_sid'] = 0
            res.hit('loop-batch-mixing-magnitudes')
        system = c06.build(case, c06.Log())
        N = 9
        x = {'sid': np.arange(N, dtype=float), 'rho': np.array([rng.choice([0.2, 0.5, 0.8, 1.3]) for _ in range(N)])}
        if case.get('amp_sid') is not None:
            x['rho'][0] = 0.8        # the large sample converges slowly: it is still iterating while the others finish
        kw = dict(max_fpi_iter=80, fpi_tol=1e-9, anderson_mem=case['mem'], normalized_inputs=False)
        mk = lambda: c06.build(case, c06.Log())   # noqa: E731
    else:
        spec = sc.gen_system_spec(rng, allow_alpha=False)
        system = sc.build_system(spec)
        np.random.seed(seed % 2 ** 31)
        system.fit(max_iter=6, num_refine=30, max_tol=-np.inf, update_bounds=False)
        N = 9
        x = system.sample_inputs(N)
        kw = {}
        mk = lambda: system   # noqa: E731
    names = list(x.keys())
    full = mk().predict(dict(x), **kw)
    info = {'seed': seed, 'feedback_loop': loop}
    for i in range(N):
        one = mk().predict({n: x[n][i:i + 1] for n in names}, **kw)
        for k in full:
            if not close(np.asarray(one[k]).reshape(-1), np.asarray(full[k]).reshape(N, -1)[i]):
                res.failures.append({'kind': 'system: sample-alone-differs-from-sample-in-batch',
                                     'input': {**info, 'sample': i, 'output': k},
                                     'observed': np.asarray(one[k]).tolist(), 'expected': np.asarray(full[k])[i].tolist()})
    perm = list(range(N)); rng.shuffle(perm)
    keys = list(names); rng.shuffle(keys)
    pr = mk().predict({n: x[n][perm] for n in keys}, **kw)
    for k in full:
        if not close(pr[k], np.asarray(full[k])[perm]):
            res.failures.append({'kind': 'system: permuting-samples-or-keys-changes-results', 'input': {**info, 'output': k}})
    for shp in ((3, 3), (1, 9), (9, 1)):
        out = mk().predict({n: x[n].reshape(shp) for n in names}, **kw)
        for k in full:
            o = np.asarray(out[k])
            if tuple(o.shape[:len(shp)]) != shp or not close(o.reshape(np.asarray(full[k]).shape), full[k]):
                res.failures.append({'kind': 'system: shape-not-preserved-or-values-changed',
                                     'input': {**info, 'shape': list(shp), 'output': k}, 'observed': list(o.shape)})
    res.hit('system-' + ('loop' if loop else 'feedforward'))
    res.case(('sys', seed, loop), True, {'system_seed': seed, 'feedback_loop': loop})


def run_nan_chain(ctx, res, seed):
    """a sample that is NaN upstream must not change the other samples of the batch"""
    rng = random.Random(seed)

    def m1(inputs):
        with np.errstate(all='ignore'):
            return {'y1': np.log(np.atleast_1d(inputs['x']).astype(float)) + inputs['w']}

    def m2(inputs):
        return {'y2': np.atleast_1d(inputs['y1']) ** 2 + 1.0, 'z2': np.atleast_1d(inputs['y1']) * inputs['w']}

    def m3(inputs):
        return {'y3': np.atleast_1d(inputs['y2']) - np.atleast_1d(inputs['z2'])}
    x, w = Variable('x', domain=(-1.0, 2.0)), Variable('w', domain=(0.0, 1.0))
    comps = [Component(m1, inputs=[x, w], outputs=[Variable('y1')], name='m1', vectorized=True),
             Component(m2, inputs=[Variable('y1'), w], outputs=[Variable('y2'), Variable('z2')], name='m2', vectorized=True),
             Component(m3, inputs=[Variable('y2'), Variable('z2')], outputs=[Variable('y3')], name='m3', vectorized=True)]
    system = System(*comps, name='nanchain')
    N = 6
    for bad_pos in (0, 2, N - 1):
        xs = np.array([rng.uniform(0.2, 2.0) for _ in range(N)]); xs[bad_pos] = -0.5   # log(-0.5) = NaN
        ws = np.array([rng.random() for _ in range(N)])
        full = system.predict({'x': xs, 'w': ws}, normalized_inputs=False)
        for i in range(N):
            one = system.predict({'x': xs[i:i + 1], 'w': ws[i:i + 1]}, normalized_inputs=False)
            for k in full:
                if not close(np.asarray(one[k]).reshape(-1), np.asarray(full[k]).reshape(N, -1)[i]):
                    res.failures.append({'kind': 'system: sample-alone-differs-from-sample-in-batch (batch contains a NaN sample)',
                                         'input': {'seed': seed, 'nan_position': bad_pos, 'sample': i, 'output': k},
                                         'observed': np.asarray(one[k]).tolist(), 'expected': np.asarray(full[k])[i].tolist()})
    res.hit('system-batch-with-nan-sample')
    res.case(('nanchain', seed), True, {'nan_chain_seed': seed})


def run_field_inputs(ctx, res, seed):
    """`call_model` on a component with a FIELD-QUANTITY input next to scalar inputs (serial, vectorised and executor paths): batches
    in which several samples share their scalar values and differ only in the field; every sample must get the value it gets alone,
    and permuting the samples must permute the results"""
    from amisc.compression import SVD
    from concurrent.futures import ThreadPoolExecutor
    rng = random.Random(seed)
    npts = 6
    grid = np.linspace(0, 1, npts)
    rs = np.random.RandomState(seed % 2 ** 31)
    # the field quantity's components are named differently from the variable (`u`, `v` of `p`): inputs travel under the field names
    fld = Variable('p', compression=SVD(rank=2, coords=grid, fields=['u', 'v'], data_matrix={'u': rs.rand(12, npts), 'v': rs.rand(12, npts)}))
    a, b = Variable('a', domain=(0.0, 1.0)), Variable('b', domain=(-1.0, 1.0))

    def serial_model(inputs, p_coords=None):
        pf = np.asarray(inputs['u'], dtype=float) + 0.5 * np.asarray(inputs['v'], dtype=float)
        return {'y0': float(inputs['a']) + 2.0 * float(inputs['b']) + float(np.sum(pf * np.arange(1, npts + 1))), 'y1': float(np.max(pf)) - float(inputs['a'])}

    def vec_model(inputs, p_coords=None):
        pf = np.atleast_2d(np.asarray(inputs['u'], dtype=float)) + 0.5 * np.atleast_2d(np.asarray(inputs['v'], dtype=float))
        return {'y0': np.atleast_1d(inputs['a']) + 2.0 * np.atleast_1d(inputs['b']) + pf @ np.arange(1, npts + 1), 'y1': pf.max(axis=-1) - np.atleast_1d(inputs['a'])}
    N = 9
    scal = [(rng.random(), rng.uniform(-1, 1)) for _ in range(3)]
    xa = np.array([scal[i // 3][0] for i in range(N)]); xb = np.array([scal[i // 3][1] for i in range(N)])    # samples 3k..3k+2 share scalars
    xu, xv = rs.rand(N, npts), rs.rand(N, npts)
    info = {'field_inputs': seed}
    for label, model, vect in (('serial', serial_model, False), ('vectorised', vec_model, True)):
        comp = Component(model, inputs=[a, b, fld], outputs=[Variable('y0'), Variable('y1')], name='cf', vectorized=vect)
        x = {'a': xa, 'b': xb, 'u': xu, 'v': xv}
        runs = [('plain', lambda d: comp.call_model(d))]
        if not vect:
            runs.append(('thread-pool', lambda d: _with_pool(comp, d)))
        for rname, call in runs:
            full = call({k: v.copy() for k, v in x.items()})
            for i in range(N):
                one = comp.call_model({'a': xa[i:i + 1], 'b': xb[i:i + 1], 'u': xu[i:i + 1], 'v': xv[i:i + 1]})
                for o in ('y0', 'y1'):
                    if not close(np.asarray(one[o]).reshape(-1), np.asarray(full[o]).reshape(N, -1)[i]):
                        res.failures.append({'kind': 'call_model: sample-alone-differs-from-sample-in-batch (field-quantity input, shared scalars)',
                                             'input': {**info, 'path': label + '/' + rname, 'sample': i, 'output': o},
                                             'observed': np.asarray(full[o]).reshape(N, -1)[i].tolist(), 'expected': np.asarray(one[o]).reshape(-1).tolist()})
            perm = list(range(N)); rng.shuffle(perm)
            pm = call({'a': xa[perm], 'b': xb[perm], 'u': xu[perm], 'v': xv[perm]})
            for o in ('y0', 'y1'):
                if not close(np.asarray(pm[o]).reshape(N, -1), np.asarray(full[o]).reshape(N, -1)[perm]):
                    res.failures.append({'kind': 'call_model: permuting-samples-does-not-permute-results (field-quantity input)',
                                         'input': {**info, 'path': label + '/' + rname, 'permutation': perm, 'output': o}})
            res.hit('call_model-field-input-' + label + '-' + rname)
    res.case(('field_inputs', seed), True, info)


def _with_pool(comp, d):
    from concurrent.futures import ThreadPoolExecutor
    with ThreadPoolExecutor(max_workers=3) as ex:
        return comp.call_model(d, executor=ex)


def run(ctx: core.Ctx, only=None) -> core.Result:
    res = core.Result()
    res.rule = ('components (1-3 inputs, 2 outputs, serial/vectorised models, random histories, samples on and off grid '
                'nodes): predict / call_model / gradient / hessian on single samples, permuted batches, sub-batches, shuffled '
                'key order, 8 array shapes and scalar-broadcast mixtures; trained feed-forward systems and FPI loops likewise. '
                'Every case is non-trivial.')
    lines, post = [], []
    items = [o.get('input', o) for o in only] if only is not None else core.corpus_cases('C10') + \
        [{'seed': ctx.rng.randrange(10 ** 6), 'what': 'comp'} for _ in range(ctx.scale(4, 40))] + \
        [{'seed': 2 * ctx.rng.randrange(10 ** 6) + (k_ % 2), 'what': w} for k_, w in enumerate(['ff', 'loop', 'loop', 'nanchain', 'fields'] * ctx.scale(1, 6))]
    for it in items:
        with core.guarded(res, 'scenario-raised', it):
            if 'field_inputs' in it:
                run_field_inputs(ctx, res, it['field_inputs'])
            elif it.get('what', 'comp') == 'comp':
                run_component(ctx, res, it['seed'], lines, post)
            elif it['what'] == 'nanchain':
                run_nan_chain(ctx, res, it['seed'])
            elif it['what'] == 'fields' or 'field_inputs' in it:
                run_field_inputs(ctx, res, it.get('field_inputs', it['seed']))
            else:
                run_system(ctx, res, it['seed'], it['what'] == 'loop')
    # shape model: loop shape first, then the output shape for that loop shape
    script = []
    for ln in lines:
        script.append(ln if not ln.startswith('SHP_OUT') else None)
    first = core.try_driver([ln for ln in lines if ln.startswith('shp.loop')], res, 'Amisc.loopShape')
    if first is not None:
        loops = iter(first)
        outs_cmd, metas = [], []
        cur = None
        for ln, pst in zip(lines, post):
            if ln.startswith('shp.loop'):
                cur = next(loops)
            else:
                outs_cmd.append(f'shp.out {cur} | {ln.split(" ", 1)[1]}'); metas.append(pst)
        second = core.try_driver(outs_cmd, res, 'Amisc.outShape') or []
        for pst, o in zip(metas, second):
            _, which, info, shp, k, got = pst
            model = [] if o == '()' else [int(t) for t in o.split()]
            if model != got:
                res.disagreements.append({'name': 'Amisc.loopShape/outShape vs format_inputs/format_outputs',
                                          'input': {**info, 'function': which, 'input_shape': shp, 'output': k},
                                          'impl': got, 'model': model})
    return res


ASSUMPTIONS = ['a true 0-d scalar mixed with rank >= 2 arrays is rejected by amisc (leading-dimension semantics): not generated',
               'values compared to 1e-12 relative (vectorised NumPy is element-wise; LAPACK calls in the FPI path are batched '
               'per matrix)']
