"""Entry point: python -m harness.run <Cxx> <quick|thorough> [--replay file]"""
import importlib
import json
import os
import sys
import traceback

sys.path.insert(0, os.path.dirname(os.path.dirname(os.path.abspath(__file__))))
from harness.lib import core  # noqa: E402


def main(argv):
    if len(argv) < 2:
        print('usage: check <Cxx> <quick|thorough> [--replay file]')
        return 2
    prop, tier = argv[0], argv[1]
    replay = argv[argv.index('--replay') + 1] if '--replay' in argv else None
    seed = int(os.environ.get('VERIF_SEED', '0') or 0)
    tier = os.environ.get('VERIF_TIER', tier) if tier not in ('quick', 'thorough') else tier
    ctx = core.Ctx(prop, tier, seed, replay)
    try:
        mod = importlib.import_module(f'harness.{prop.lower()}')
        st, audit = core.prepare_lean(ctx)
        only = None
        if replay:
            only = [json.loads(open(replay).read())]
        res = mod.run(ctx, only) if only is not None else mod.run(ctx)
        # known findings (replays of recorded defects): modules may implement known(ctx, res)
        if hasattr(mod, 'known'):
            mod.known(ctx, res)
        return core.finish(ctx, res, st, audit, getattr(mod, 'ASSUMPTIONS', []))
    except Exception:  # harness error: never a VIOLATION line
        traceback.print_exc()
        print(f'[{prop} {tier}] harness error (exit 2)')
        return 2


if __name__ == '__main__':
    sys.exit(main(sys.argv[1:]))
