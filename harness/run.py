"""Entry point: python -m harness.run <Cxx> <quick|thorough> [--replay file]"""
import importlib
import json
import os
import sys
import traceback

sys.path.insert(0, os.path.dirname(os.path.dirname(os.path.abspath(__file__))))
from harness.lib import core  # noqa: E402


def main(argv):
    if len(argv) < 2:
        print('usage: check <Cxx> <quick|thorough> [--replay file]')
        return 2
    prop, tier = argv[0], argv[1]
    replay = argv[argv.index('--replay') + 1] if '--replay' in argv else None
    seed = int(os.environ.get('VERIF_SEED', '0') or 0)
    tier = os.environ.get('VERIF_TIER', tier) if tier not in ('quick', 'thorough') else tier
    ctx = core.Ctx(prop, tier, seed, replay)
    try:
        mod = importlib.import_module(f'harness.{prop.lower()}')
        st, audit = core.prepare_lean(ctx)
        only = None
        if replay:
            rec = json.loads(open(replay).read())
            # a replay file either holds ONE failing case (`input`) or names the theorem / correspondence that no longer checks
            # (`broken`, written with `no-failing-input-found`): the latter is replayed by running the whole check again
            if 'input' in rec:
                only = [rec]
        if only is not None:
            try:
                res = mod.run(ctx, only)
                unrecognised = any(f.get('kind') == 'scenario-raised' and 'KeyError' in str(f.get('observed', '')) for f in res.failures)
            except (KeyError, TypeError, IndexError):
                unrecognised = True
            if unrecognised:
                # a case of a scenario family without a targeted replay (life-cycle histories, …): re-run the full tier under the
                # seed the replay was recorded with — the generators are deterministic in (seed, property), so the case recurs
                ctx = core.Ctx(prop, rec.get('tier', tier), int(rec.get('seed', seed)), replay)
                res = mod.run(ctx)
        else:
            res = mod.run(ctx)
        # known findings (replays of recorded defects): modules may implement known(ctx, res)
        if hasattr(mod, 'known'):
            mod.known(ctx, res)
        return core.finish(ctx, res, st, audit, getattr(mod, 'ASSUMPTIONS', []))
    except Exception:  # harness error: never a VIOLATION line
        traceback.print_exc()
        print(f'[{prop} {tier}] harness error (exit 2)')
        return 2


if __name__ == '__main__':
    sys.exit(main(sys.argv[1:]))
