"""Python ast expression -> Lean term (arithmetic fragment only). Anything else raises (callers fail closed)."""
import ast
from fractions import Fraction


class Untranslatable(Exception):
    pass


def num_to_lean(v) -> str:
    if isinstance(v, bool):
        raise Untranslatable('bool constant')
    if isinstance(v, int):
        return f'({v})' if v < 0 else str(v)
    if isinstance(v, float):
        f = Fraction(repr(v))  # decimal literal as written, e.g. 1e-8 -> 1/100000000
        return f'(({f.numerator} : K) / ({f.denominator} : K))' if f.denominator != 1 else f'({f.numerator} : K)'
    raise Untranslatable(f'constant {v!r}')


def to_lean(e: ast.AST, names: set[str], funs: dict[str, str]) -> str:
    if isinstance(e, ast.BinOp):
        op = {ast.Add: '+', ast.Sub: '-', ast.Mult: '*', ast.Div: '/'}.get(type(e.op))
        if op is None:
            raise Untranslatable(f'operator {type(e.op).__name__}')
        return f'({to_lean(e.left, names, funs)} {op} {to_lean(e.right, names, funs)})'
    if isinstance(e, ast.UnaryOp) and isinstance(e.op, ast.USub):
        return f'(-{to_lean(e.operand, names, funs)})'
    if isinstance(e, ast.Name):
        if e.id not in names:
            raise Untranslatable(f'free name {e.id}')
        return e.id
    if isinstance(e, ast.Constant):
        return num_to_lean(e.value)
    if isinstance(e, ast.Call):
        fn = ast.unparse(e.func)
        if fn in funs and len(e.args) == 1 and not e.keywords:
            return f'({funs[fn]} {to_lean(e.args[0], names, funs)})'
        raise Untranslatable(f'call {fn}')
    raise Untranslatable(type(e).__name__)
