"""Translators: regenerate lean/AmiscModel/Generated/*.lean from the current amisc source (fail closed)."""
from pathlib import Path


def run_all(src_dir: Path, out_dir: Path, log: list) -> dict:
    out_dir.mkdir(parents=True, exist_ok=True)
    status = {}
    from . import tr_consts, tr_transforms, tr_facts, tr_logic
    for mod in (tr_consts, tr_transforms, tr_facts, tr_logic):
        name = mod.__name__.split('.')[-1]
        try:
            text, st = mod.translate(src_dir)
        except Exception as e:  # fail closed: opaque fragment, dependent theorems stop building
            text, st = mod.fail_closed(repr(e)), {'error': repr(e)}
            log.append(f'{name}: {e!r}')
        target = out_dir / mod.TARGET
        if not target.exists() or target.read_text() != text:
            target.write_text(text)
        status[name] = st
    return status
