"""C11: reported gradients / Hessians are the exact derivatives of the prediction.

(a) correspondence: Component.gradient / hessian vs the Lean model (`gradT` / `hessT`, rebuilt from grids and fresh model
    calls, same node special cases) on non-polynomial and polynomial models;
(b) oracle: for polynomial models in the surrogate's space the reported derivatives must equal the analytic derivatives
    (computed exactly by the Lean driver: `poly.grad`, `poly.hess`), at points on nodes, partly on nodes, and interior."""
from __future__ import annotations

import random

import numpy as np

from harness.lib import core
from harness.lib.core import frac, rat_str
from harness import comp_common as cc
from harness import c03, c05


def gen_case(rng):
    case = c03.gen_case(rng)
    while case['nin'] > 3:
        case = c03.gen_case(rng)
    case['poly'] = rng.random() < 0.6
    case['kind'] = rng.choice(['exp', 'rational', 'abs'])
    return case


def designed_cases(rng):
    """anisotropic 3-input index sets (the LAST input stays at a lower level than the others, and the other way round) with
    scripted histories: sub-grids whose dimensions have different numbers of nodes, evaluated at partially-on-node points"""
    base = dict(nin=3, alpha_lim=(), nout=1, domains=[(0.0, 1.0), (-1.0, 1.0), (2.0, 2.5)], norms_in=[None, None, None],
                norms_out=[None], nsteps=0, kind='exp')
    return [dict(base, beta_lim=(2, 2, 1), kpl=2, fseed=rng.randrange(10 ** 9), poly=True,
                 script=[[0, 0, 0], [1, 0, 0], [0, 1, 0], [1, 1, 0], [2, 0, 0], [2, 1, 0]]),
            dict(base, beta_lim=(1, 2, 2), kpl=2, fseed=rng.randrange(10 ** 9), poly=False,
                 script=[[0, 0, 0], [0, 0, 1], [0, 1, 0], [0, 1, 1], [0, 0, 2], [0, 1, 2], [1, 0, 0]])]


def run_case(ctx, res, case, lines, post):
    rng = random.Random(case['fseed'])
    nin, nout = case['nin'], case['nout']
    out_names = [f'y{o}' for o in range(nout)]
    holder = {}
    if case['poly']:
        def f(alpha, x):
            z = [cc.scalar(v.normalize(np.atleast_1d(np.float64(x[n])))) for n, v in zip(holder['names'], holder['in_vars'])]
            return {o: cc.scalar(ov.denormalize(np.atleast_1d(np.float64(c03.poly_eval(holder['polys'][o], z)))))
                    for o, ov in zip(out_names, holder['out_vars'])}
    else:
        f = c05.make_f(random.Random(case['fseed'] + 1), nin, nout, case['kind'])

    def build():
        comp, rec = cc.build_component(f, nin, out_names, case['alpha_lim'], case['beta_lim'], (), case['domains'],
                                       case['norms_in'], case['norms_out'], case['kpl'], vectorized=True)
        holder['names'] = [v.name for v in comp.inputs]
        holder['in_vars'] = list(comp.inputs)
        holder['out_vars'] = [comp.outputs[o] for o in out_names]
        return comp
    from fractions import Fraction
    holder['polys'] = {o: [(Fraction(1), (0,) * nin)] for o in out_names}
    comp = build()
    if case.get('script'):
        hist = [(tuple(i[:len(case['alpha_lim'])]), tuple(i[len(case['alpha_lim']):])) for i in case['script']]
        for a, b in hist:
            comp.activate_index(a, b)
    else:
        hist = cc.random_history(random.Random(case['fseed'] + 5), comp, case['nsteps'])
    if case['poly']:
        betas = sorted({tuple(b[:nin]) for _, b in comp.active_set})
        real_polys = {o: c03.draw_poly(rng, betas, case['kpl'], nin, rng.randint(2, 5)) for o in out_names}
        if rng.random() < 0.5:
            # life-cycle: the SAME component object, queried for derivatives while it was trained on another model, is cleared and
            # retrained: derivatives must be those of the new surrogate
            probe = {n: np.array([float(np.mean(list(map(float, d))))]) for n, d in comp.inputs.get_domains().items()}
            try:
                comp.gradient(probe, index_set='train'); comp.hessian(probe, index_set='test')
            except Exception:  # noqa: BLE001
                pass
            comp.clear()
            holder['polys'] = real_polys
            res.hit('derivatives-queried-then-cleared-and-retrained')
        else:
            holder['polys'] = real_polys
            comp = build()
        for a, b in hist:
            comp.activate_index(a, b)
    names, pts, kinds = c05.points_for(rng, comp, 14 if ctx.quick else 28)
    if case.get('script'):
        # designed anisotropic cases: every proper subset of coordinates on a node, the others interior
        import itertools as _it
        doms_ = comp.inputs.get_domains()
        for r in range(1, nin):
            for S in _it.combinations(range(nin), r):
                for _ in range(2):
                    x = []
                    for d, n in enumerate(names):
                        lb, ub = map(float, doms_[n])
                        x.append(float(rng.choice(list(comp.training_data.x_grids[n]))) if d in S
                                 else lb + (0.13 + 0.7 * rng.random()) * (ub - lb))
                    pts.append(x); kinds.append('partial-node')
    in_vars, out_vars = holder['in_vars'], holder['out_vars']
    allg = [list(comp.training_data.x_grids[n]) for n in names]
    widths = [float(d[1]) - float(d[0]) for d in comp.inputs.get_domains().values()]
    band = []
    delta = []   # per point and dimension: smallest non-zero distance to a node (cancellation scale of the formulas)
    for k, p in enumerate(pts):
        delta.append([min([abs(p[d] - g) for g in allg[d] if abs(p[d] - g) > 4e-8] + [widths[d]]) for d in range(nin)])
        # Hessian instability band (observation O1): some coordinate close to, but not on, a node
        rel = min((abs(p[d] - g) / widths[d] for d in range(nin) for g in allg[d] if abs(p[d] - g) > 0), default=1.0)
        absd = min((abs(p[d] - g) for d in range(nin) for g in allg[d] if abs(p[d] - g) > 0), default=1.0)
        band.append('snap' if absd <= 4e-8 else ('unstable' if rel < 2e-3 else 'ok'))
    if case['poly']:
        for o in out_names:
            lines.append(f'poly.set {o} | ' + c03.poly_str(holder['polys'][o])); post.append(None)

    def fresh_rows(alpha, grids):
        rows = []
        for p in cc.product_points(grids):
            xphys = {n: cc.scalar(v.denormalize(np.atleast_1d(np.float64(c)))) for n, v, c in zip(names, in_vars, p)}
            y = f(tuple(alpha), xphys)
            rows.append([cc.scalar(ov.normalize(np.atleast_1d(np.float64(y[o])))) for o, ov in zip(out_names, out_vars)])
        return rows

    def stored_rows(alpha, beta, grids):
        """the data the surrogate was actually built from (C11 is about the derivative of the surrogate AS IT IS; whether the
        stored data are the model's values is C05/C09's question) — falls back to fresh model calls when the store cannot be
        read in tensor-node order"""
        try:
            _, yi = comp.training_data.get(tuple(alpha), tuple(beta)[:len(comp.data_fidelity)], y_vars=list(out_names))
            cols = [np.asarray(yi[o], dtype=float).reshape(-1) for o in out_names]
            n = len(list(cc.product_points(grids)))
            if all(len(c) == n for c in cols) and not any(np.isnan(c).any() for c in cols):
                return [[float(c[r]) for c in cols] for r in range(n)]
        except Exception:  # noqa: BLE001
            pass
        return fresh_rows(alpha, grids)

    def band_of(k):
        return band[k]

    def ymax_guess(arr):
        return max(1.0, float(np.max(np.abs(arr))))

    mode = rng.choice(['train', 'test'])
    iset = set(comp.active_set) if mode == 'train' else set(comp.active_set) | set(comp.candidate_set)
    W = cc.ie_weights({tuple(a) + tuple(b) for a, b in iset})
    X = {n: np.array([p[d] for p in pts]) for d, n in enumerate(names)}
    try:
        jac = comp.gradient(X, index_set=mode)
        hes = comp.hessian(X, index_set=mode)
        # the same points in a dict whose keys come in ANOTHER order than the component's inputs: same derivatives
        if nin >= 2:
            Xr = dict(reversed(list(X.items())))
            jr, hr = comp.gradient(Xr, index_set=mode), comp.hessian(Xr, index_set=mode)
            for o in out_names:
                for nm, a_, b_ in (('gradient', jac[o], jr[o]), ('hessian', hes[o], hr[o])):
                    a_, b_ = np.asarray(a_, dtype=float), np.asarray(b_, dtype=float)
                    if a_.shape != b_.shape or not np.allclose(a_, b_, rtol=1e-9, atol=1e-9 * ymax_guess(a_), equal_nan=True):
                        res.failures.append({'kind': nm + '-depends-on-the-key-order-of-the-input-dict',
                                             'input': {**case, 'mode': mode, 'output': o, 'key_order': list(Xr),
                                                       'history': [list(a) + list(b) for a, b in hist]}})
            res.hit('reversed-input-key-order')
        # the same derivatives through an executor (the per-index terms are computed by tasks that finish in any order and are
        # paired with their weights afterwards): a thread pool and an executor that completes the tasks in reverse order
        if len(iset) >= 2:
            from concurrent.futures import ThreadPoolExecutor
            from harness.c15 import ScheduledExecutor
            for exname, mk in (('thread-pool-4', lambda: ThreadPoolExecutor(max_workers=4)),
                               ('reverse-completion', lambda: ScheduledExecutor(lambda n: list(reversed(range(n)))))):
                ex = mk()
                try:
                    je, he = comp.gradient(X, index_set=mode, executor=ex), comp.hessian(X, index_set=mode, executor=ex)
                finally:
                    ex.shutdown()
                for o in out_names:
                    for nm, a_, b_ in (('gradient', jac[o], je[o]), ('hessian', hes[o], he[o])):
                        a_, b_ = np.asarray(a_, dtype=float), np.asarray(b_, dtype=float)
                        if a_.shape != b_.shape or not np.allclose(a_, b_, rtol=1e-9, atol=1e-9 * ymax_guess(a_), equal_nan=True):
                            res.failures.append({'kind': nm + '-through-an-executor-differs-from-serial',
                                                 'input': {**case, 'mode': mode, 'output': o, 'executor': exname,
                                                           'history': [list(a) + list(b) for a, b in hist]},
                                                 'observed': a_.reshape(-1)[:6].tolist(), 'expected': b_.reshape(-1)[:6].tolist()})
            res.hit('derivatives-through-executors')
        # the same points one at a time: node special cases are decided per batch in the code, so a batch that contains
        # node points can mask errors at the others (and vice versa)
        jac1 = {o: [] for o in out_names}
        hes1 = {o: [] for o in out_names}
        for k in range(len(pts)):
            Xk = {n: np.array([pts[k][d]]) for d, n in enumerate(names)}
            jk = comp.gradient(Xk, index_set=mode)
            hk = comp.hessian(Xk, index_set=mode)
            for o in out_names:
                jac1[o].append(np.asarray(jk[o]).reshape(-1))
                hes1[o].append(np.asarray(hk[o]).reshape(nin, nin))
        for o in out_names:
            J = np.asarray(jac[o]).reshape(len(pts), -1)
            H = np.asarray(hes[o]).reshape(len(pts), nin, nin)
            for k in range(len(pts)):
                okj = np.allclose(J[k], jac1[o][k], rtol=1e-7, atol=1e-9 * ymax_guess(J[k]))
                okh = band_of(k) == 'unstable' or np.allclose(H[k], hes1[o][k], rtol=1e-5, atol=1e-7 * ymax_guess(H[k]))
                if not (okj and okh):
                    res.failures.append({'kind': 'derivative-of-a-point-depends-on-the-batch',
                                         'input': {**case, 'mode': mode, 'point': pts[k], 'output': o,
                                                   'history': [list(a) + list(b) for a, b in hist]},
                                         'observed': {'in_batch': [J[k].tolist(), H[k].tolist()],
                                                      'alone': [jac1[o][k].tolist(), hes1[o][k].tolist()]}})
        # judge the single-point evaluations against the model / analytic derivatives below
        jac = {o: np.stack(jac1[o]) for o in out_names}
        hes = {o: np.stack(hes1[o]) for o in out_names}
    except Exception as e:  # noqa: BLE001
        res.failures.append({'kind': 'gradient-raised', 'input': {**case, 'mode': mode}, 'observed': repr(e)[:300]})
        return
    lines.append('itp.reset'); post.append(None)
    for (a, b) in sorted(iset):
        w = W[tuple(a) + tuple(b)]
        if w == 0:
            continue
        grids = cc.grids_for(comp, b)
        key = cc.idx_key(a, b)
        lines.append(f'itp.autostate {key} | ' + cc.mat_str(grids)); post.append(None)
        lines.append(f'itp.data {key} | ' + cc.mat_str(stored_rows(a, b, grids))); post.append(None)
        lines.append(f'itp.coef {key} {w}'); post.append(None)
    hlist = [list(a) + list(b) for a, b in hist]
    ymax = max([1e-300] + [abs(v) for (a, b) in iset for r in fresh_rows(a, cc.grids_for(comp, b)) for v in r])
    for k, p in enumerate(pts):
        xs = ' '.join(rat_str(v) for v in p)
        for m in range(nin):
            got = [float(np.asarray(jac[o]).reshape(len(pts), -1)[k, m]) for o in out_names]
            kinds_m = ' '.join('1' if d == m else '0' for d in range(nin))
            lines.append(f'itp.miscgrad TOLG {m} | {xs}'); post.append(('g', case, mode, kinds[k], band[k], p, (m,), got, hlist, ymax / delta[k][m]))
            lines.append(f'itp.miscabs TOLG {kinds_m} | {xs}'); post.append(('abs',))
            if case['poly']:
                for oi, o in enumerate(out_names):
                    lines.append(f'poly.grad {o} {m} | {xs}'); post.append(('truth', oi))
            post.append(('end',)); lines.append('itp.snaptol 1')
            for n in range(m, nin):
                H = [np.asarray(hes[o]) for o in out_names]
                got = [float(h[k, m, n]) for h in H]
                kinds_mn = ' '.join(('2' if d == m else '0') if m == n else ('1' if d in (m, n) else '0') for d in range(nin))
                lines.append(f'itp.mischess TOLH {m} {n} | {xs}')
                post.append(('h', case, mode, kinds[k], band[k], p, (m, n), got, hlist, ymax / (delta[k][m] * delta[k][n])))
                lines.append(f'itp.miscabs TOLH {kinds_mn} | {xs}'); post.append(('abs',))
                if case['poly']:
                    for oi, o in enumerate(out_names):
                        lines.append(f'poly.hess {o} {m} {n} | {xs}'); post.append(('truth', oi))
                post.append(('end',)); lines.append('itp.snaptol 1')
                # symmetry of the reported Hessian
                for h in H:
                    if not (h[k, m, n] == h[k, n, m] or abs(h[k, m, n] - h[k, n, m]) <= 1e-9 * (1 + abs(h[k, m, n]))):
                        res.failures.append({'kind': 'hessian-not-symmetric', 'input': {**case, 'point': p},
                                             'observed': [float(h[k, m, n]), float(h[k, n, m])]})
        res.hit('pt-' + kinds[k] + '-' + band[k])
    res.case((str(case),), len(comp.active_set) >= 3,
             {'case': {k: v for k, v in case.items() if k != 'fseed'}, 'history': hlist, 'mode': mode})


def fallback_oracle(ctx, res, post):
    """the Lean driver (which also supplies the exact analytic derivatives) is unavailable: nothing further to judge"""
    return res


def run(ctx: core.Ctx, only=None) -> core.Result:
    res = core.Result()
    res.rule = ('real Components (1-3 inputs, multi-output, random domains/normalisations, random admissible histories) on '
                'polynomial models in the surrogate space (oracle: analytic derivatives, exact) and non-polynomial models '
                '(correspondence with the Lean gradT/hessT); points with all / some / no coordinates on nodes, inside the '
                'snapping band, near nodes, interior, outside the domain; every first and second partial derivative. '
                'Hessian values at points closer than 2e-3 widths to a node (but off it) are numerically unstable in '
                'binary64 (observation O1) and are counted, not judged.')
    lines, post = [], []
    keys = ('nin', 'alpha_lim', 'beta_lim', 'kpl', 'nout', 'domains', 'norms_in', 'norms_out', 'nsteps', 'fseed', 'poly',
            'kind', 'script')
    cases = [o.get('input', o) for o in only] if only is not None else core.corpus_cases(ctx.prop) + designed_cases(ctx.rng) + \
        [gen_case(ctx.rng) for _ in range(ctx.scale(14, 150))]
    for case in cases:
        case = {k: (tuple(case[k]) if k in ('alpha_lim', 'beta_lim') else case.get(k)) for k in keys}
        with core.guarded(res, 'scenario-raised', case):
            run_case(ctx, res, case, lines, post)
    t = core.try_driver(['itp.snaptol 1', 'itp.snaptol 1 gradient', 'itp.snaptol 1 hessian'], res, 'Gen.snapTol*')
    if t is None:
        return fallback_oracle(ctx, res, post)
    lines = [ln.replace(' TOLG ', f' {t[1]} ').replace(' TOLH ', f' {t[2]} ').replace(' TOL ', f' {t[0]} ') for ln in lines]
    out = core.try_driver(lines, res, 'Amisc.predictT/gradT/hessT')
    if out is None:
        return fallback_oracle(ctx, res, post)
    cur = None
    unstable = 0
    for pst, o in zip(post, out):
        if pst is None:
            continue
        tag = pst[0]
        if tag in ('g', 'h'):
            cur = {'meta': pst, 'model': [float(core.parse_rat(t)) for t in o.split()], 'truth': {}}
        elif tag == 'abs':
            cur['scale'] = [float(core.parse_rat(t)) for t in o.split()]
        elif tag == 'truth':
            cur['truth'][pst[1]] = float(core.parse_rat(o))
        elif tag == 'end':
            kind, case, mode, pk, bnd, p, which, got, hlist, cancel = cur['meta']
            for oi, (g, e, s_) in enumerate(zip(got, cur['model'], cur['scale'])):
                if kind == 'h' and bnd == 'unstable':
                    unstable += 1
                    continue
                rt = 1e-8 if kind == 'g' else 1e-6
                if bnd == 'unstable':
                    rt = 1e-5
                if not (abs(g - e) <= rt * s_ + 1e-11 * cancel + 1e-10):
                    res.disagreements.append({'name': f'Amisc.{"gradT" if kind == "g" else "hessT"} vs Component.'
                                                      f'{"gradient" if kind == "g" else "hessian"}',
                                              'input': {**case, 'mode': mode, 'point_kind': pk, 'band': bnd, 'point': p,
                                                        'd': list(which), 'output': oi, 'history': hlist},
                                              'impl': g, 'model': e, 'scale': s_})
                    if bnd not in ('snap', 'unstable'):
                        # away from the coincidence band the model value IS the derivative of the interpolant the surrogate
                        # predicts with (theorems C11.jacobian_hessian_are_derivatives / hessian_cross_is_derivative about
                        # gradT / hessT, C05 for the prediction): the point is a failing input of the property
                        res.failures.append({'kind': ('gradient' if kind == 'g' else 'hessian') +
                                                     '-differs-from-the-derivative-of-the-predicted-interpolant',
                                             'signature': 'none',
                                             'input': {**case, 'mode': mode, 'point_kind': pk, 'band': bnd, 'point': p,
                                                       'd': list(which), 'output': oi, 'history': hlist},
                                             'observed': g, 'expected': e, 'scale': s_})
                if oi in cur['truth'] and bnd != 'snap':
                    t = cur['truth'][oi]
                    if not (abs(g - t) <= 10 * rt * s_ + 1e-10 * cancel + 1e-9):
                        res.failures.append({'kind': ('gradient' if kind == 'g' else 'hessian') +
                                                     '-differs-from-analytic-derivative',
                                             'input': {**case, 'mode': mode, 'point_kind': pk, 'band': bnd, 'point': p,
                                                       'd': list(which), 'output': oi, 'history': hlist},
                                             'observed': g, 'expected': t, 'scale': s_})
    res.extra['excluded_bands'] = {'hessian_values_in_unstable_band_not_judged': unstable}
    return res


ASSUMPTIONS = c05.ASSUMPTIONS + ['Hessian entries at points within 2e-3 domain widths of a node (off the node) are not '
                                 'judged: the mathematically correct off-node formula loses ~u/dist^2 in binary64 (O1)']
