"""Worker for C20 (run in a subprocess with a given PYTHONHASHSEED): builds the system described by a JSON spec, trains
with a fixed NumPy seed and prints digests of the input order, the training history and predictions."""
import hashlib
import json
import os
import sys
import warnings

warnings.filterwarnings('ignore')
sys.path.insert(0, os.path.dirname(os.path.dirname(os.path.abspath(__file__))))
from harness.lib import core  # noqa: E402

core.setup_import_path()
import logging  # noqa: E402

import numpy as np  # noqa: E402

logging.disable(logging.CRITICAL)
from amisc import Component, Variable, System  # noqa: E402
from amisc.training import SparseGrid  # noqa: E402


def build(spec):
    sgk = dict(opt_args={'locally_biased': False, 'maxfun': 60})
    names = spec['exo']
    # (exogenous inputs carry different categories: nothing learned may depend on the order of a SET of them)
    xs = {n: Variable(n, domain=(0.0, 1.0), category=['calibration', 'design', 'operating', None][i_ % 4]) for i_, n in enumerate(names)}
    if spec['kind'] == 'ff':
        y1 = Variable('y1', domain=(0.0, 6.0)); y2 = Variable('y2')
        w = spec['w']

        def f1(inputs):
            return {'y1': sum(wi * inputs[n] ** (1 + (i % 2)) for i, (wi, n) in enumerate(zip(w, names))) + np.sin(3 * inputs[names[0]])}

        def f2(inputs):
            return {'y2': np.cos(0.7 * inputs['y1']) + 0.3 * inputs[names[-1]]}
        c1 = Component(f1, inputs=[xs[n] for n in names], outputs=[y1], name='c1', vectorized=True,
                       data_fidelity=(2,) * len(names), training_data=SparseGrid(**sgk))
        c2 = Component(f2, inputs=[y1, xs[names[-1]]], outputs=[y2], name='c2', vectorized=True,
                       data_fidelity=(2, 2), training_data=SparseGrid(**sgk))
        return System(c1, c2, name='s')
    if spec['kind'] == 'conflict':
        # the same variable NAME declared by several components with different, equally detailed definitions: which one
        # the system keeps must be decided by the listing, not by string hashing
        w = spec['w']
        comps = []
        for k, cname in enumerate(spec['comp_names']):
            xa = Variable(names[0], domain=(0.0, 1.0 + k))          # another domain in every component
            xb = Variable(names[1], domain=(0.0, 1.0))

            def f(inputs, _k=k):
                return {f'y{_k}': np.exp(w[0] * inputs[names[0]]) + (1 + _k) * w[1] * inputs[names[1]] ** 2}
            comps.append(Component(f, inputs=[xa, xb], outputs=[Variable(f'y{k}')], name=cname, vectorized=True,
                                   data_fidelity=(2, 2), training_data=SparseGrid(**sgk)))
        return System(*comps, name='s')
    if spec['kind'] == 'nansib':
        # a producer with several consumers, one of which (no surrogate) is undefined on part of the domain: the order in which
        # sibling branches are evaluated must not depend on string hashing
        w = spec['w']
        y0 = Variable('y0', domain=(0.0, 2.5))
        prod = Component(lambda inputs: {'y0': 2.0 * inputs[names[0]] + 0.3 * inputs[names[1]]}, inputs=[xs[names[0]], xs[names[1]]],
                         outputs=[y0], name=spec['comp_names'][0], vectorized=True, data_fidelity=(2, 1),
                         training_data=SparseGrid(**sgk))
        comps = [prod]
        for k, cname in enumerate(spec['comp_names'][1:]):
            if k == spec['nan_pos']:
                with_nan = Component(lambda inputs: {f'z{k}': np.log(inputs['y0'] - 1.0)}, inputs=[y0], outputs=[Variable(f'z{k}')],
                                     name=cname, vectorized=True)
                comps.append(with_nan)
            else:
                def f(inputs, _k=k):
                    return {f'z{_k}': np.sin((1 + _k) * w[0] * inputs['y0']) + w[1] * inputs[names[1]]}
                comps.append(Component(f, inputs=[y0, xs[names[1]]], outputs=[Variable(f'z{k}')], name=cname, vectorized=True,
                                       data_fidelity=(2, 1), training_data=SparseGrid(**sgk)))
        return System(*comps, name='s')
    if spec['kind'] in ('twin', 'zero'):
        # ties: several components with EXACTLY equal (twin: same model, same inputs) or undefined (zero: the surrogate is
        # identically zero until a mixed index is activated, every indicator is 0/0) error indicators — the choice then rests
        # on the scan order of the candidates alone
        w = spec['w']
        a, b = names[0], names[1]

        def g(inputs):
            u, v = 2 * inputs[a] - 1, 2 * inputs[b] - 1          # centred coordinates: nodes of levels 0/1 lie on the axes
            if spec['kind'] == 'zero':
                return u * v * (1 + w[0] * u + w[1] * v ** 2)
            return np.exp(w[0] * u) * (1 + w[1] * v) + np.sin(2 * u * v)
        comps = []
        for k, cname in enumerate(spec['comp_names']):
            def f(inputs, _k=k):
                return {f'y{_k}': g(inputs)}
            comps.append(Component(f, inputs=[xs[a], xs[b]], outputs=[Variable(f'y{k}')], name=cname, vectorized=True,
                                   data_fidelity=(2, 2), training_data=SparseGrid(**sgk)))
        return System(*comps, name='s')
    # feedback loop: a <-> b (two coupling variables), plus several exogenous inputs
    a = Variable('a', domain=(-2.0, 3.0)); b = Variable('b', domain=(-2.0, 3.0)); out = Variable('out')
    w = spec['w']

    def fa(inputs):
        return {'a': 0.4 * np.sin(inputs['b']) + sum(wi * inputs[n] for wi, n in zip(w, names[:-1]))}

    def fb(inputs):
        return {'b': 0.3 * inputs['a'] + 0.5 * inputs[names[-1]] ** 2}

    def fo(inputs):
        return {'out': inputs['a'] * inputs['b'] + inputs[names[0]]}
    ca = Component(fa, inputs=[xs[n] for n in names[:-1]] + [b], outputs=[a], name='ca', vectorized=True,
                   data_fidelity=(1,) * len(names), training_data=SparseGrid(**sgk))
    cb = Component(fb, inputs=[a, xs[names[-1]]], outputs=[b], name='cb', vectorized=True,
                   data_fidelity=(2, 2), training_data=SparseGrid(**sgk))
    co = Component(fo, inputs=[a, b, xs[names[0]]], outputs=[out], name='co', vectorized=True)
    return System(ca, cb, co, name='s')


def main():
    spec = json.loads(sys.argv[1])
    system = build(spec)
    np.random.seed(spec['np_seed'])
    system.fit(max_iter=spec['steps'], num_refine=40, max_tol=-np.inf)
    np.random.seed(spec['np_seed'] + 1)
    x = system.sample_inputs(6)
    y = system.predict(x)
    h = hashlib.sha256()
    for r in system.train_history:
        h.update(repr((r['component'], tuple(r['alpha']), tuple(r['beta']), r['num_evals'], float(r['added_cost']),
                       repr(float(r['added_error'])))).encode())
    hp = hashlib.sha256()
    for k in sorted(y):
        hp.update(np.ascontiguousarray(np.asarray(y[k], dtype=float)).tobytes())
    hx = hashlib.sha256()
    for k in sorted(x):
        hx.update(np.ascontiguousarray(np.asarray(x[k], dtype=float)).tobytes())
    print(json.dumps({'inputs': [str(v) for v in system.inputs()], 'coupling': [str(v) for v in system.coupling_variables()],
                      'history': h.hexdigest()[:20], 'pred': hp.hexdigest()[:20], 'samples': hx.hexdigest()[:20],
                      'choices': [(r['component'], list(r['alpha']), list(r['beta'])) for r in system.train_history]}))


if __name__ == '__main__':
    main()
