"""C01 / C02 correspondence + oracle: real Component index bookkeeping vs the Lean model `Amisc.activate`."""
from __future__ import annotations

import itertools

import numpy as np

from harness.lib import core
from harness import index_common as ic


def _value_checks(comp, na, nd, rng, look_weights: dict | None, cands, res, hist, failures):
    """Component.predict in train / test / incremental mode must be the weighted sum of the per-index interpolants with
    the weights of the state (train/test) resp. the model's look-ahead weights (incremental)."""
    x = {f'x{k}': np.array([rng.random() for _ in range(3)]) for k in range(nd)}

    def term(a, b):
        st = comp.misc_states.get((a, b))
        td = comp.training_data.get(a, b[:nd], skip_nan=True, y_vars=['y'])
        return comp.interpolator.predict(x, st, td)['y']

    def combo(weights: dict):
        tot = np.zeros(3)
        for idx, w in weights.items():
            if w != 0:
                a, b = ic.split(idx, na)
                tot = tot + w * term(a, b)
        return tot

    A, C, T, E = ic.py_sets(comp)
    for mode, W in (('train', T), ('test', E)):
        got = comp.predict(x, index_set=mode)['y']
        exp = combo(W)
        if not np.allclose(got, exp, rtol=1e-9, atol=1e-12):
            failures.append({'kind': f'predict-{mode}-not-weighted-sum', 'history': hist, 'got': got.tolist(),
                             'expected': exp.tolist()})
        res.hit('value-' + mode)
    return x, combo


def run_index(ctx: core.Ctx, prop: str, p_malformed: float, only: list | None = None) -> core.Result:
    res = core.Result()
    res.rule = ('real amisc.Component over random fidelity boxes (0-2 model, 1-3 data, 0-2 surrogate dimensions, limits '
                '0-3); each history is a random request sequence (admissible candidates mixed with malformed requests: '
                'already active, non-candidate, outside the box, zero index again); after every request the full state '
                '(active, candidate, train weights, test weights) is compared with the Lean model, the property oracle '
                '(brute-force inclusion-exclusion / margin) is evaluated on the real state, and predict() in '
                'train/test/incremental mode is compared with the weighted sum of per-index interpolants using the '
                'model weights. non-trivial = history whose final active set has >= 3 indices; distinct = by '
                '(box, request list).')
    rng = ctx.rng
    n_hist = ctx.scale(30, 300)
    cases = []   # (box meta, requests, states, lookups)
    lines = []
    expect = []  # (case idx, step idx or ('look', c), python string)
    seen_sets: dict = {}
    oracle = ic.oracle_c01 if prop == 'C01' else None

    def one_history(meta, requests_fn, tag):
        na, nd, ns, limits = meta
        # some components use a model that always fails at the finest model fidelity (only where a coarser one exists)
        fail_alpha = tuple(limits[:na]) if (tag == 'random' and na >= 1 and limits[0] >= 1 and rng.random() < 0.3) else None
        comp = ic.make_component(na, nd, ns, limits, fail_alpha=fail_alpha)
        probe = {f'x{k}': np.array([0.21, 0.68]) for k in range(nd)}
        hist = []
        lines.append('idx.box ' + ic.show_idx(limits))
        expect.append((len(cases), 'box', 'ok'))
        step = 0
        for r, kind in requests_fn(comp):
            hist.append(list(r))
            a, b = ic.split(r, na)
            before = ic.canon_state(comp)
            try:
                comp.activate_index(a, b)
            except Exception as e:  # noqa: BLE001
                res.failures.append({'kind': 'activation-raised', 'input': {'box': meta, 'requests': hist, 'failing_fidelity': fail_alpha},
                                     'observed': type(e).__name__ + ': ' + str(e)[:300]})
                break
            after = ic.canon_state(comp)
            res.hit('req-' + kind)
            lines.append('idx.act ' + ic.show_idx(r))
            expect.append((len(cases), step, after))
            # read-only calls between activations (also with the component's OWN set objects as arguments) must leave the
            # index sets and both weight trees untouched
            if comp.active_set and step % 2 == 0:
                calls = [('predict(test)', lambda: comp.predict(probe, index_set='test')),
                         ('predict(index_set=active_set)', lambda: comp.predict(probe, index_set=comp.active_set)),
                         ('gradient', lambda: comp.gradient(probe, index_set='train'))]
                if comp.candidate_set:
                    calls.append(('predict(index_set=candidate_set, incremental=True)',
                                  lambda: comp.predict(probe, index_set=comp.candidate_set, incremental=True)))
                    # the look-ahead of ONE candidate (as System.refine does for each of them); the candidate is usually activated
                    # only several activations later
                    one_c = sorted(comp.candidate_set)[rng.randrange(len(comp.candidate_set))]
                    calls.append(('predict(index_set={candidate}, incremental=True)',
                                  lambda one_c=one_c: comp.predict(probe, index_set={one_c}, incremental=True)))
                for cname, call in calls:
                    try:
                        call()
                    except Exception:  # noqa: BLE001   (values are not the subject here; failing models may make predict raise)
                        pass
                    now = ic.canon_state(comp)
                    if now != after:
                        res.failures.append({'kind': 'read-only-call-changed-the-index-state',
                                             'input': {'box': meta, 'requests': list(hist), 'call': cname,
                                                       'failing_fidelity': fail_alpha},
                                             'observed': now, 'expected': after})
                        break
                res.hit('read-only-calls')
            # property oracles on the real state
            msg = ic.oracle_c01(comp) if prop == 'C01' else ic.oracle_c02(comp, limits)
            if msg:
                res.failures.append({'kind': 'oracle', 'input': {'box': meta, 'requests': list(hist), 'failing_fidelity': fail_alpha},
                                     'observed': msg})
            if prop == 'C02' and kind in ('already-active', 'non-candidate', 'outside-box', 'zero-again', 'nonzero-first'):
                if before != after:
                    res.failures.append({'kind': 'rejected-request-changed-state',
                                         'input': {'box': meta, 'requests': list(hist)},
                                         'observed': after, 'expected': before})
            if prop == 'C01':
                A, C, T, E = ic.py_sets(comp)
                key = (meta, frozenset(A))
                sig = (ic.canon_tree(comp.misc_coeff_train), ic.canon_set(comp.candidate_set, na),
                       ic.canon_tree(comp.misc_coeff_test))
                if key in seen_sets and seen_sets[key][0] != sig:
                    res.failures.append({'kind': 'order-dependent-weights',
                                         'input': {'box': meta, 'requests': list(hist), 'other': seen_sets[key][1]},
                                         'observed': sig, 'expected': seen_sets[key][0]})
                seen_sets.setdefault(key, (sig, list(hist)))
            step += 1
        # look-ahead + value-level checks on the final state
        A, C, T, E = ic.py_sets(comp)
        if fail_alpha is not None:
            res.hit('component-with-failing-fidelity')
        if prop == 'C01' and A and fail_alpha is None:
            try:
                x, combo = _value_checks(comp, na, nd, rng, None, C, res, hist, res.failures)
            except Exception as e:  # noqa: BLE001
                res.failures.append({'kind': 'prediction-raised-on-the-reached-state', 'input': {'box': meta, 'requests': list(hist)},
                                     'observed': type(e).__name__ + ': ' + str(e)[:300]})
                C = set()
            for c in sorted(C)[:3]:
                lines.append('idx.look ' + ic.show_idx(c))
                ca, cb = ic.split(c, na)
                got = comp.predict(x, index_set={(ca, cb)}, incremental=True)['y']
                expect.append((len(cases), ('look', c, comp, combo, got, list(hist)), None))
                res.hit('lookahead')
        cases.append((meta, hist))
        res.case((meta, tuple(map(tuple, hist))), len(A) >= 3,
                 {'box': {'model_fid': limits[:na], 'data_fid': limits[na:na + nd], 'surr_fid': limits[na + nd:]},
                  'requests': hist, 'final_state': ic.canon_state(comp)} )
        if na + ns > 0:
            res.hit('box-with-model-or-surrogate-dims')
        if 0 in limits:
            res.hit('box-with-zero-limit')

    # corpus first (minimised past failures), or only the replayed input
    import json
    corpus = only if only is not None else [json.loads(f.read_text()) for f in
                                            (sorted((core.CORPUS / prop).glob('*.json'))
                                             if (core.CORPUS / prop).exists() else [])]
    for c in corpus:
        c = c.get('input', c)
        meta = tuple(c['box'][:3]) + (tuple(c['box'][3]),)
        one_history(meta, lambda comp, c=c: [(tuple(r), 'corpus') for r in c['requests']], 'corpus')
    if only is not None:
        n_hist = 0

    def random_requests(meta):
        limits = meta[3]
        nbox = 1
        for m in limits:
            nbox *= m + 1
        nreq = rng.randint(3, min(40, 2 * nbox + 4))

        def gen(comp):
            for _ in range(nreq):
                yield ic.gen_request(rng, comp, limits, p_malformed)
        return gen

    for _ in range(n_hist):
        meta = ic.gen_box(rng, max_states=60 if ctx.quick else 150)
        one_history(meta, random_requests(meta), 'random')

    if not ctx.quick and only is None:
        # exhaustive: all complete admissible orders of small boxes, every split into model/data/surrogate dimensions
        res.exhaustive = True
        for limits in [(1, 1), (2, 1), (2, 2), (1, 1, 1)]:
            d = len(limits)
            splits = [(na, nd, d - na - nd) for na in range(d) for nd in range(1, d - na + 1)]
            exts = list(ic.linear_extensions(limits))
            for (na, nd, ns) in splits:
                for order in exts:
                    meta = (na, nd, ns, limits)
                    one_history(meta, lambda comp, order=order: [(r, 'candidate') for r in order], 'exhaustive')
            res.extra.setdefault('exhaustive_boxes', {})[str(limits)] = {'linear_extensions': len(exts),
                                                                          'splits': len(splits)}

    # Lean side
    out = core.try_driver(lines, res, 'Amisc.activate')
    for (ci, what, pystr), lean in zip(expect, out or []):
        meta, hist = cases[ci] if ci < len(cases) else (None, None)
        if isinstance(what, tuple) and what[0] == 'look':
            _, c, comp, combo, got, h = what
            W = {}
            for item in (lean.split(';') if lean else []):
                k, v = item.split(':')
                W[tuple(int(t) for t in k.split(','))] = int(v)
            try:
                exp = combo(W)
            except Exception as e:  # noqa: BLE001  (the model names an index the component has no interpolant for: the two have
                #                                      diverged, e.g. because a generated fragment failed closed — a disagreement)
                res.disagreements.append({'name': 'Amisc.lookahead names indices the component does not hold',
                                          'input': {'box': meta, 'requests': h, 'candidate': list(c)}, 'model': lean, 'impl': repr(e)[:200]})
                continue
            if not np.allclose(got, exp, rtol=1e-9, atol=1e-12):
                # is the model's look-ahead weight the IE value? (theorem) -> the implementation's incremental
                # prediction differs from the prediction of the explicitly activated set
                res.failures.append({'kind': 'incremental-prediction-differs-from-IE-weights',
                                     'input': {'box': meta, 'requests': h, 'candidate': list(c)},
                                     'observed': np.asarray(got).tolist(), 'expected': np.asarray(exp).tolist()})
            continue
        if pystr != lean:
            res.disagreements.append({'name': 'Amisc.activate vs Component.activate_index',
                                      'input': {'box': meta, 'requests': hist, 'step': what},
                                      'impl': pystr, 'model': lean})
    return res


def search(ctx: core.Ctx, res: core.Result, prop: str):
    """failing-input search when the correspondence or a proof obligation is broken: oracle sweep on fresh histories,
    then shrink every failing history."""
    if not res.failures and (res.disagreements):
        # replay the disagreeing histories with the oracle on every prefix (already done in run), then a fresh sweep
        extra = run_index(core.Ctx(prop, 'quick', ctx.seed + 7919), prop, 0.3)
        res.failures.extend(extra.failures)
        res.evaluations += extra.evaluations
    # shrink
    shrunk = []
    for f in res.failures[:3]:
        inp = f.get('input', {})
        if 'requests' not in inp or f['kind'] not in ('oracle', 'rejected-request-changed-state'):
            shrunk.append(f)
            continue
        meta = inp['box']
        na, nd, ns, limits = meta

        def fails(reqs):
            comp = ic.make_component(na, nd, ns, tuple(limits))
            for r in reqs:
                a, b = ic.split(r, na)
                before = ic.canon_state(comp)
                try:
                    comp.activate_index(a, b)
                except Exception:  # noqa: BLE001
                    return False
                msg = ic.oracle_c01(comp) if prop == 'C01' else ic.oracle_c02(comp, tuple(limits))
                if msg:
                    return True
            return False
        small = ic.shrink_list([tuple(r) for r in inp['requests']], fails)
        g = dict(f)
        g['input'] = {'box': meta, 'requests': [list(r) for r in small]}
        g['shrunk_from'] = len(inp['requests'])
        shrunk.append(g)
    res.failures = shrunk + res.failures[3:]


ASSUMPTIONS = [
    'requests are well typed (one entry per fidelity dimension); Python would accept an all-zero index of the wrong '
    'length as the first request, the model rejects it as bad-op and the generators never produce it',
    'IndexSet / MiscTree container behaviour is covered by the state comparison, not modelled separately',
]


def run_lifecycle(ctx: core.Ctx, res: core.Result, n: int):
    """histories that go through the component's life-cycle operations: (A) activate, clear(), activate again — the weights
    after the reset are those of the NEW sets alone, exactly as on a fresh component; (B) a second component is started from the
    live state of the first (sets, trees, states handed to the constructor) and refined further — each component's weights
    remain the inclusion-exclusion values of its OWN sets"""
    import copy
    rng = ctx.rng

    def walk(comp, k, hist):
        for _ in range(k):
            cands = sorted(comp.candidate_set) if comp.active_set else [((0,) * len(comp.model_fidelity), (0,) * len(comp.max_beta))]
            if not cands:
                break
            a, b = rng.choice(cands)
            comp.activate_index(a, b)
            hist.append(list(a) + list(b))
            yield

    for _ in range(n):
        meta = ic.gen_box(rng, max_states=40)
        na, nd, ns, limits = meta
        # (A) clear and retrain
        comp, hist1, hist2 = ic.make_component(na, nd, ns, limits), [], []
        for _ in walk(comp, rng.randint(2, 6), hist1):
            pass
        comp.clear()
        info = {'box': meta, 'history_before_clear': hist1}
        A, C, T, E = ic.py_sets(comp)
        if A or C or T or E:
            res.failures.append({'kind': 'state-not-empty-after-clear', 'input': info, 'observed': ic.canon_state(comp)})
        fresh = ic.make_component(na, nd, ns, limits)
        for _ in walk(comp, rng.randint(2, 7), hist2):
            a, b = ic.split(tuple(hist2[-1]), na)
            fresh.activate_index(a, b)
            msg = ic.oracle_c01(comp)
            if msg or ic.canon_state(comp) != ic.canon_state(fresh):
                res.failures.append({'kind': 'weights-after-clear-depend-on-the-history-before-it',
                                     'input': {**info, 'history_after_clear': list(hist2)},
                                     'observed': msg or ic.canon_state(comp), 'expected': ic.canon_state(fresh)})
                break
        res.hit('clear-then-retrain')
        # (B) hand-over of the live state to a second component
        base, histb, histt = ic.make_component(na, nd, ns, limits, name='base'), [], []
        for _ in walk(base, rng.randint(2, 6), histb):
            pass
        twin = ic.make_component(na, nd, ns, limits, name='twin', active_set=base.active_set, candidate_set=base.candidate_set,
                                 misc_states=base.misc_states, misc_costs=base.misc_costs,
                                 misc_coeff_train=base.misc_coeff_train, misc_coeff_test=base.misc_coeff_test,
                                 model_costs=base.model_costs, training_data=copy.deepcopy(base.training_data))
        frozen = ic.canon_state(base)
        info = {'box': meta, 'history_of_base': histb}
        if ic.canon_state(twin) != frozen:
            res.failures.append({'kind': 'handed-over-state-differs', 'input': info, 'observed': ic.canon_state(twin), 'expected': frozen})
        for _ in walk(twin, rng.randint(1, 5), histt):
            m1, m2 = ic.oracle_c01(twin), ic.oracle_c01(base)
            if m1 or m2 or ic.canon_state(base) != frozen:
                res.failures.append({'kind': 'components-started-from-one-state-share-their-weights',
                                     'input': {**info, 'history_of_twin': list(histt)},
                                     'observed': {'twin': m1, 'base': m2 or ic.canon_state(base)}, 'expected': {'base': frozen}})
                break
        res.hit('state-handed-to-a-second-component')
        # (C) the declared maxima are re-declared after the first activation (at a point where nothing has been cut off by the
        # limits yet): the bookkeeping follows the maxima declared NOW
        comp3 = ic.make_component(na, nd, ns, limits)
        comp3.activate_index((0,) * na, (0,) * (nd + ns))
        old_df = list(limits[na:na + nd])
        new_df = [(m + 1 if rng.random() < 0.5 else (m - 1 if m >= 2 else m)) if m >= 1 else m for m in old_df]   # a zero limit HAS cut off a neighbour
        if new_df != old_df:
            comp3.data_fidelity = tuple(new_df)
            lim3 = tuple(limits[:na]) + tuple(new_df) + tuple(limits[na + nd:])
            hist3 = []
            for _ in walk(comp3, 200, hist3):
                msg = ic.oracle_c02(comp3, lim3) or ic.oracle_c01(comp3)
                if msg:
                    res.failures.append({'kind': 'bookkeeping-does-not-follow-the-re-declared-maxima',
                                         'input': {'box': meta, 'data_fidelity_after_first_activation': new_df, 'history': list(hist3)},
                                         'observed': msg})
                    break
            else:
                A3, C3, _, _ = ic.py_sets(comp3)
                if A3 != set(ic.full_box(lim3)):
                    res.failures.append({'kind': 'exhaustion-does-not-fill-the-re-declared-box',
                                         'input': {'box': meta, 'data_fidelity_after_first_activation': new_df, 'history': list(hist3)},
                                         'observed': {'active': len(A3), 'box': len(ic.full_box(lim3))}})
            res.hit('maxima-re-declared-after-first-activation')
        # (D) an exception ESCAPES an activation (a vectorised model that crashes once; the caller catches it and goes on): the
        # failed request leaves sets and weights exactly as they were (Lean: C13.crash_preserves_index_state), repeating the request
        # succeeds, and from then on the component is step by step the fault-free twin
        trip = {'armed': False}
        compd, twind, histd = ic.make_component(na, nd, ns, limits, trip=trip), ic.make_component(na, nd, ns, limits), []
        for _ in walk(compd, rng.randint(1, 4), histd):
            twind.activate_index(*ic.split(tuple(histd[-1]), na))
        candsd = sorted(compd.candidate_set)
        if candsd:
            rq = rng.choice(candsd)
            before = ic.canon_state(compd)
            trip['armed'] = True
            try:
                compd.activate_index(*rq)
            except RuntimeError:
                pass
            fired, trip['armed'] = trip.pop('fired', False), False
            infod = {'box': meta, 'history': list(histd), 'request_during_which_the_model_crashed_once': list(rq[0]) + list(rq[1])}
            if fired:
                if ic.canon_state(compd) != before:
                    res.failures.append({'kind': 'failed-request-changed-sets-or-weights', 'input': infod,
                                         'observed': ic.canon_state(compd), 'expected': before})
                else:
                    compd.activate_index(*rq); twind.activate_index(*rq)
                    histd.append(list(rq[0]) + list(rq[1]))
                    okd = True
                    for first in itertools.chain(['first'], walk(compd, rng.randint(1, 4), histd)):
                        if first != 'first':
                            twind.activate_index(*ic.split(tuple(histd[-1]), na))
                        msg = ic.oracle_c01(compd) or ic.oracle_c02(compd, limits)
                        if msg or ic.canon_state(compd) != ic.canon_state(twind):
                            res.failures.append({'kind': 'state-after-a-caught-model-crash-differs-from-fault-free-twin',
                                                 'input': {**infod, 'history_after': list(histd)},
                                                 'observed': msg or ic.canon_state(compd), 'expected': ic.canon_state(twind)})
                            okd = False
                            break
                res.hit('exception-escaping-an-activation')
        res.case(('lifecycle', meta, tuple(map(tuple, hist1 + hist2 + histb + histt))), True,
                 {'box': meta, 'clear': [hist1, hist2], 'hand_over': [histb, histt]})


def run(ctx: core.Ctx, only=None) -> core.Result:
    res = run_index(ctx, 'C01', 0.2, only)
    if only is None:
        with core.guarded(res, 'scenario-raised', {'lifecycle': True}):
            run_lifecycle(ctx, res, ctx.scale(6, 30))
    search(ctx, res, 'C01')
    return res
