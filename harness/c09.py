"""C09: no point is evaluated twice; stored data and cost accounts are truthful.

An instrumented user model logs every call (alpha, x, domain in force).  Compared / checked:
  * per activation, the multiset of evaluated (alpha, grid coordinate) vs the Lean model `Amisc.activateBatch`;
  * oracle on the real code: no (alpha, x) evaluated twice over the whole history; every evaluated x inside the domain in
    force; every stored pair equals a FRESH model call at the decoded grid point (normalised units); 1-d grids only ever
    grow by appending (chosen points never move, coarser grids are prefixes of finer ones);
  * System.get_allocation() vs the evaluations actually made and the costs the model actually reported."""
from __future__ import annotations

import itertools
import random

import numpy as np

from harness.lib import core
from harness import comp_common as cc
from harness import c05

from amisc import System  # noqa: E402


def gen_case(rng):
    nin = rng.choice([1, 2, 2, 3])
    nalpha = rng.choice([0, 1, 1, 2])
    alpha_lim = tuple(rng.choice([1, 2]) for _ in range(nalpha))
    beta_lim = tuple(rng.choice([1, 2, 2, 3] if nin < 3 else [1, 2]) for _ in range(nin))
    nsurr = rng.choice([0, 0, 1, 1, 2])
    surr_lim = tuple(rng.choice([1, 2]) for _ in range(nsurr))
    kpl = rng.choice([1, 2, 2, 3]) if nin < 3 else rng.choice([1, 2])
    domains = [(lo, lo + w) for lo, w in ((rng.choice([0.0, -1.0, 2.5]), rng.choice([1.0, 2.0, 0.5])) for _ in range(nin))]
    norms_in = [rng.choice([None, None, 'linear(0.5, 1)', 'minmax']) for _ in range(nin)]
    return dict(nin=nin, alpha_lim=alpha_lim, beta_lim=beta_lim, surr_lim=surr_lim, kpl=kpl, domains=domains,
                norms_in=norms_in, nsteps=rng.randint(3, 9), fseed=rng.randrange(10 ** 9),
                vectorized=rng.random() < 0.5, cost=rng.choice(['none', 'const', 'alpha', 'nondyadic']),
                failing=rng.random() < 0.3, shrink=rng.random() < 0.4)


def cost_fn(kind):
    if kind == 'none':
        return None
    if kind == 'const':
        return lambda alpha, k: 2.5
    if kind == 'alpha':
        return lambda alpha, k: 0.5 + 2.0 * sum((i + 1) * a for i, a in enumerate(alpha))
    if kind == 'nondyadic':    # depends on the fidelity only, but is not exactly representable: running means drift by an ulp
        return lambda alpha, k: 0.9 + 1.4 * sum(alpha)
    if kind == 'varying':
        return lambda alpha, k: 1.0 + (k % 5) * 0.75 + sum(alpha)
    raise ValueError(kind)


def fmt_pair(a, b):
    return f'{",".join(map(str, a)) or "-"}:{",".join(map(str, b)) or "-"}'


def run_component_case(ctx, res, case, lines, post):
    rng = random.Random(case['fseed'])
    nin = case['nin']
    f = c05.make_f(random.Random(case['fseed'] + 1), nin, 1, 'exp')
    # optionally a model that RAISES at a few evaluations (never at one of the first two of a fidelity: finding F4 of C14): a
    # failed evaluation is recorded, stays NaN and must not be requested again either
    ok_per_alpha, nfail = {}, [0]
    frng = random.Random(case['fseed'] + 7)

    def fail(k, alpha, x):
        if case.get('failing') and ok_per_alpha.get(alpha, 0) >= 2 and nfail[0] < 3 and frng.random() < 0.2:
            nfail[0] += 1
            return 'raise'
        ok_per_alpha[alpha] = ok_per_alpha.get(alpha, 0) + 1
        return None
    vectorized = case['vectorized'] and not case.get('failing')    # a vectorised model that raises aborts the whole batch
    comp, rec = cc.build_component(f, nin, ['y0'], case['alpha_lim'], case['beta_lim'], case['surr_lim'],
                                   case['domains'], case['norms_in'], None, case['kpl'],
                                   vectorized=vectorized, fail=fail,
                                   # a failing model reports no cost here (known finding F14 of C14 is about that combination)
                                   cost=None if case.get('failing') else cost_fn(case['cost']))
    na, nd = len(case['alpha_lim']), nin
    names = [v.name for v in comp.inputs]
    in_vars = list(comp.inputs)
    lines.append(f'sg.init {case["kpl"]}'); post.append(None)
    hist = []
    grids_prev = {}
    seen_calls = {}
    zero = ((0,) * na, (0,) * (nd + len(case['surr_lim'])))
    nxt = zero
    tightened = set()
    for step in range(case['nsteps'] + 1):
        a, b = nxt
        # the batch of indices as activate_index builds it
        nb = comp._neighbors(a, b, forward=True)
        batch = list(itertools.chain([(a, b)] if (a, b) not in comp.candidate_set else [], nb))
        ncalls0 = len(rec.calls)
        try:
            comp.activate_index(a, b)
        except Exception as e:  # noqa: BLE001
            res.failures.append({'kind': 'activation-raised', 'input': {**case, 'history': hist + [list(a) + list(b)]},
                                 'observed': repr(e)[:300]})
            return
        hist.append(list(a) + list(b))
        xg = {n: list(comp.training_data.x_grids[n]) for n in names}
        # (4) grids only grow by appending
        for n in names:
            old = grids_prev.get(n, [])
            if xg[n][:len(old)] != old:
                res.failures.append({'kind': 'grid-points-moved', 'input': {**case, 'history': list(hist)},
                                     'observed': xg[n], 'expected_prefix': old})
        # (2b) every knot chosen in this activation lies inside the domain in force now
        for n, v in zip(names, in_vars):
            lb, ub = v.get_domain()
            for z in xg[n][len(grids_prev.get(n, [])):]:
                xp = cc.scalar(v.denormalize(np.atleast_1d(np.float64(z))))
                if not (lb - 1e-9 * max(1.0, abs(lb)) <= xp <= ub + 1e-9 * max(1.0, abs(ub))):
                    res.failures.append({'kind': 'new-knot-outside-domain-in-force', 'input': {**case, 'history': list(hist)},
                                         'observed': {'input': n, 'knot': xp, 'domain': [lb, ub]}})
        grids_prev = xg
        # decode calls of this activation to (alpha, coord)
        evals = []
        for (al, x, y) in rec.calls[ncalls0:]:
            coord = []
            for d, (n, v) in enumerate(zip(names, in_vars)):
                z = cc.scalar(v.normalize(np.atleast_1d(np.float64(x[d]))))
                j = int(np.argmin([abs(z - g) for g in xg[n]]))
                if abs(z - xg[n][j]) > 1e-9 * max(1.0, abs(z)):
                    res.failures.append({'kind': 'evaluated-point-not-on-grid', 'input': {**case, 'history': list(hist)},
                                         'observed': x})
                coord.append(j)
            key = (tuple(al), tuple(coord))
            evals.append(key)
            # (1) never twice
            if key in seen_calls:
                res.failures.append({'kind': 'model-evaluated-twice', 'signature': dup_signature(case, key),
                                     'input': {**case, 'history': list(hist)},
                                     'observed': {'alpha': list(key[0]), 'coord': list(key[1]), 'x': list(x),
                                                  'first_at_activation': seen_calls[key], 'again_at_activation': step}})
            seen_calls.setdefault(key, step)
            # (2) inside the domain in force
            for d, v in enumerate(in_vars):
                if d in tightened:
                    continue    # knots chosen before the tightening never move (checked above): only (2b) applies to them
                lb, ub = v.get_domain()
                if not (lb - 1e-12 * abs(lb) - 1e-300 <= x[d] <= ub + 1e-12 * abs(ub) + 1e-300):
                    res.failures.append({'kind': 'evaluated-outside-domain', 'input': {**case, 'history': list(hist)},
                                         'observed': {'x': list(x), 'domain': [lb, ub]}})
        lines.append('sg.batch ' + ' '.join(fmt_pair(ai, bi[:nd]) for ai, bi in batch))
        got = ';'.join(f'{",".join(map(str, k[0])) or "-"}:{",".join(map(str, k[1]))}' for k in sorted(evals))
        post.append(('batch', case, list(hist), got, [len(xg[n]) for n in names]))
        # cost accounts of this activation vs the model's bookkeeping (`bookCall`): the model takes the number of new points per index
        # from ITS OWN design of the batch, and the costs the real model reported in this call grouped by fidelity
        reps = {}
        if rec.cost is not None:
            for k in range(ncalls0, len(rec.calls)):
                reps.setdefault(tuple(rec.calls[k][0]), []).append(rec.cost(tuple(rec.calls[k][0]), k))
        lines.append('sg.cost ' + ' '.join(f'{",".join(map(str, al)) or "-"}=' + ','.join(core.rat_str(c) for c in cs)
                                           for al, cs in reps.items()))
        post.append(('cost', case, list(hist), [float(comp.misc_costs[ai, bi]) for ai, bi in batch],
                     [None if comp.model_costs.get(ai) is None else float(comp.model_costs.get(ai)) for ai, bi in batch]))
        res.hit('cost-accounts-vs-model')
        res.hit('activation')
        if len(rec.calls) == ncalls0:
            res.hit('activation-without-new-evaluations')
        cands = sorted(comp.candidate_set)
        if not cands:
            break
        nxt = rng.choice(cands)
        # the domain of an input may be TIGHTENED between activations (Variable.update_domain(override=True), as fit() does with
        # estimated bounds): later knots must lie inside the domain then in force. Only inputs whose normalisation does not
        # depend on the domain (none / linear) are tightened, so that the stored normalised knots keep their meaning.
        if case.get('shrink') and step >= 1 and rng.random() < 0.5:
            d = rng.randrange(nin)
            if case['norms_in'][d] != 'minmax':
                lb, ub = in_vars[d].get_domain()
                w = ub - lb
                in_vars[d].update_domain((lb + rng.choice([0.15, 0.3]) * w, ub - rng.choice([0.1, 0.25]) * w), override=True)
                tightened.add(d)
                res.hit('domain-tightened-between-activations')
    # (3) every stored pair is the model's output at the decoded grid point (normalised units)
    td = comp.training_data
    for al, cmap in td.yi_map.items():
        for coord, ydict in cmap.items():
            z = [td.x_grids[n][c] for n, c in zip(names, coord)]
            xphys = {n: cc.scalar(v.denormalize(np.atleast_1d(np.float64(zz)))) for n, v, zz in zip(names, in_vars, z)}
            exp = f(tuple(al), xphys)['y0']
            if case.get('failing') and np.isnan(ydict['y0']) and coord in td.error_map.get(al, {}):
                res.hit('failed-evaluation-stays-nan')
                continue
            if not abs(ydict['y0'] - exp) <= 1e-12 * max(1.0, abs(exp)):
                res.failures.append({'kind': 'stored-value-is-not-the-model-output',
                                     'input': {**case, 'history': list(hist)},
                                     'observed': {'alpha': list(al), 'coord': list(coord), 'stored': ydict['y0'],
                                                  'model': exp}})
    if set(seen_calls) != {(tuple(al), tuple(c)) for al, cm in td.yi_map.items() for c in cm}:
        res.failures.append({'kind': 'stored-keys-differ-from-evaluated-keys', 'input': {**case, 'history': list(hist)}})
    res.case((str(case),), len(hist) >= 4, {'case': case, 'history': hist, 'model_calls': len(rec.calls)})
    if case['surr_lim']:
        res.hit('surrogate-fidelity-dims')
    if case['alpha_lim']:
        res.hit('model-fidelity-dims')


def dup_signature(case, key):
    """F11 signature (kept for the regression replay of the fixed finding): repeated call at the origin coordinate of a
    component with a surrogate-fidelity dimension"""
    return 'zero-beta-rerequest' if (case.get('surr_lim') and all(c == 0 for c in key[1])) else 'none'


def run_system_case(ctx, res, seed, cost_kind, lines=None, post=None):
    """adaptive training of a 2-component chain; get_allocation vs ground truth"""
    rng = random.Random(seed)
    na1 = 1 if cost_kind in ('alpha', 'varying', 'nondyadic') else rng.choice([0, 1])   # per-fidelity costs need model fidelities
    f1 = lambda alpha, x: {'y1': np.exp(0.4 * x['x0']) * (1 + 0.2 * sum(alpha)) + 0.3 * x['x1']}   # noqa: E731
    f2 = lambda alpha, x: {'y2': np.sin(x['y1']) + 0.5 * x['x1'] ** 2}   # noqa: E731
    from amisc import Component, Variable
    from amisc.training import SparseGrid
    x0, x1 = Variable('x0', domain=(0.0, 1.0)), Variable('x1', domain=(-1.0, 1.0))
    y1, y2 = Variable('y1', domain=(0.5, 2.5)), Variable('y2')
    r1 = cc.Recorder(f1, ['x0', 'x1'], ['y1'], na1, True, cost_fn(cost_kind))
    r2 = cc.Recorder(f2, ['y1', 'x1'], ['y2'], 0, False, cost_fn(cost_kind))
    r2.no_fidelity_arg = (seed % 2 == 0) or cost_kind == 'const'    # single-fidelity model without a `model_fidelity` parameter
    sgk = dict(opt_args={'locally_biased': False, 'maxfun': 60})
    c1 = Component(r1.model(), inputs=[x0, x1], outputs=[y1], name='c1', vectorized=True,
                   model_fidelity=(1,) * na1, data_fidelity=(2, 2), training_data=SparseGrid(**sgk))
    c2 = Component(r2.model(), inputs=[y1, x1], outputs=[y2], name='c2', vectorized=False,
                   data_fidelity=(2, 2), training_data=SparseGrid(**sgk))
    system = System(c1, c2, name='s')
    logs = {'c1': [], 'c2': []}
    watch_activations(system['c1'], r1, logs['c1']); watch_activations(system['c2'], r2, logs['c2'])
    np.random.seed(seed % (2 ** 31))
    system.fit(max_iter=rng.randint(5, 9), num_refine=40, max_tol=-np.inf)
    cost_alloc, eval_alloc, cost_cum, eval_cum = system.get_allocation()
    # the whole adaptive history through the model's bookkeeping: designs (sgRefine / designBatch), accounts (bookCall) and the
    # report (allocEvals / allocCost) — for EVERY cost profile, the per-call-varying one included (the model mirrors the code)
    if lines is not None:
        for cname, rec in (('c1', r1), ('c2', r2)):
            lines.append('sg.init 2'); post.append(None)
            alphas = []
            for batch, n0, n1, misc, avgs in logs[cname]:
                lines.append('sg.batch ' + ' '.join(fmt_pair(ai, bi) for ai, bi in batch)); post.append(None)
                reps = {}
                if rec.cost is not None:
                    for k in range(n0, n1):
                        reps.setdefault(tuple(rec.calls[k][0]), []).append(rec.cost(tuple(rec.calls[k][0]), k))
                lines.append('sg.cost ' + ' '.join(f'{",".join(map(str, al)) or "-"}=' + ','.join(core.rat_str(c) for c in cs)
                                                   for al, cs in reps.items()))
                post.append(('cost', {'seed': seed, 'cost_profile': cost_kind, 'component': cname}, [list(ai) + list(bi) for ai, bi in batch], misc, avgs))
                for ai, _ in batch:
                    if tuple(ai) not in alphas:
                        alphas.append(tuple(ai))
            lines.append('sg.alloc ' + ' '.join(",".join(map(str, al)) or "-" for al in alphas))
            post.append(('alloc', {'seed': seed, 'cost_profile': cost_kind, 'component': cname}, alphas,
                         [eval_alloc.get(cname, {}).get(al, 0) for al in alphas], [float(cost_alloc.get(cname, {}).get(al, 0.0)) for al in alphas]))
            res.hit('allocation-report-vs-model')
    nlog = {k: len(v) for k, v in logs.items()}
    for cname, rec in (('c1', r1), ('c2', r2)):
        truth_n, truth_c = {}, {}
        for k, (al, x, y) in enumerate(rec.calls):
            truth_n[al] = truth_n.get(al, 0) + 1
            truth_c[al] = truth_c.get(al, 0.0) + (rec.cost(al, k) if rec.cost else 1.0)
        for al in truth_n:
            rep_n = eval_alloc.get(cname, {}).get(al, 0)
            rep_c = cost_alloc.get(cname, {}).get(al, 0.0)
            if rep_n != truth_n[al] or abs(rep_c - truth_c[al]) > 1e-9 * max(1.0, truth_c[al]):
                res.failures.append({'kind': 'allocation-report-differs-from-ground-truth',
                                     'signature': 'cost-ratio-evals' if cost_kind == 'varying' else 'none',
                                     'input': {'seed': seed, 'cost_profile': cost_kind, 'component': cname,
                                               'alpha': list(al)},
                                     'observed': {'evals': rep_n, 'cost': rep_c},
                                     'expected': {'evals': truth_n[al], 'cost': truth_c[al]}})
        # never twice over the adaptive history either
        keys = [(al, x) for al, x, y in rec.calls]
        if len(keys) != len(set(keys)):
            res.failures.append({'kind': 'model-evaluated-twice', 'signature': 'none',
                                 'input': {'seed': seed, 'cost_profile': cost_kind, 'component': cname}})
    tot = sum(len(r.calls) for r in (r1, r2))
    if cost_kind in ('const', 'alpha', 'nondyadic'):
        # a second training history after clear(): the model now reports other costs; the report must be about THIS history
        system.clear()
        newcost = lambda alpha, k: 7.0 + 3.0 * sum(alpha)   # noqa: E731
        for rec in (r1, r2):
            rec.calls.clear(); rec.cost = newcost
        system.fit(max_iter=rng.randint(3, 6), num_refine=40, max_tol=-np.inf)
        cost_alloc, eval_alloc, cost_cum, eval_cum = system.get_allocation()
        for cname, rec in (('c1', r1), ('c2', r2)):
            truth_n, truth_c = {}, {}
            for k, (al, x, y) in enumerate(rec.calls):
                truth_n[al] = truth_n.get(al, 0) + 1
                truth_c[al] = truth_c.get(al, 0.0) + newcost(al, k)
            for al in truth_n:
                rep_n = eval_alloc.get(cname, {}).get(al, 0)
                rep_c = cost_alloc.get(cname, {}).get(al, 0.0)
                if rep_n != truth_n[al] or abs(rep_c - truth_c[al]) > 1e-9 * max(1.0, truth_c[al]):
                    res.failures.append({'kind': 'allocation-report-after-clear-and-retrain-differs-from-ground-truth',
                                         'signature': 'none',
                                         'input': {'seed': seed, 'cost_profile': cost_kind, 'component': cname,
                                                   'alpha': list(al), 'second_history_cost': '7 + 3*sum(alpha)'},
                                         'observed': {'evals': rep_n, 'cost': rep_c},
                                         'expected': {'evals': truth_n[al], 'cost': truth_c[al]}})
        res.hit('clear-and-retrain-with-other-costs')
        tot = sum(len(r.calls) for r in (r1, r2))
    if int(eval_cum[-1]) != tot and cost_kind != 'varying':
        res.failures.append({'kind': 'cumulative-evaluation-count-wrong', 'signature': 'none',
                             'input': {'seed': seed, 'cost_profile': cost_kind},
                             'observed': int(eval_cum[-1]), 'expected': tot})
    res.case(('system', seed, cost_kind), True, {'system': 'c1->c2 chain', 'seed': seed, 'cost_profile': cost_kind,
                                                 'steps': len(system.train_history), 'model_calls': tot})
    res.hit('allocation-' + cost_kind)


def run_failing_cost_case(ctx, res, seed):
    """a serial model that reports a (fidelity-dependent) cost and RAISES at a few evaluations in the middle of larger batches: the
    failed evaluations were made - the allocation report must count them (and book their fidelity's cost), per fidelity"""
    from amisc import Component, Variable
    from amisc.training import SparseGrid
    rng = random.Random(seed)
    fail_at = set(rng.sample(range(6, 16), 2))

    def fail(k, alpha, x):
        return 'raise' if k in fail_at else None
    cost = lambda alpha, k: 0.9 + 1.4 * sum(alpha)   # noqa: E731
    f1 = lambda alpha, x: {'y1': np.exp(0.4 * x['x0']) * (1 + 0.2 * sum(alpha)) + 0.3 * x['x1']}   # noqa: E731
    r1 = cc.Recorder(f1, ['x0', 'x1'], ['y1'], 1, False, cost, fail=fail)
    c1 = Component(r1.model(), inputs=[Variable('x0', domain=(0.0, 1.0)), Variable('x1', domain=(-1.0, 1.0))], outputs=[Variable('y1')],
                   name='c1', vectorized=False, model_fidelity=(1,), data_fidelity=(2, 2),
                   training_data=SparseGrid(opt_args={'locally_biased': False, 'maxfun': 60}))
    system = System(c1, name='sf')
    np.random.seed(seed % (2 ** 31))
    system.fit(max_iter=rng.randint(5, 7), num_refine=30, max_tol=-np.inf)
    cost_alloc, eval_alloc, cost_cum, eval_cum = system.get_allocation()
    truth = {}
    for al, x, y in r1.calls:
        truth[al] = truth.get(al, 0) + 1
    info = {'failing_cost_case': seed, 'raised_at_calls': sorted(fail_at), 'calls': len(r1.calls)}
    if not any(y == 'raise' for _, _, y in r1.calls):
        return
    for al, n in truth.items():
        rep_n = eval_alloc.get('c1', {}).get(al, 0)
        rep_c = cost_alloc.get('c1', {}).get(al, 0.0)
        if rep_n != n or abs(rep_c - n * cost(al, 0)) > 1e-9 * max(1.0, n * cost(al, 0)):
            res.failures.append({'kind': 'allocation-report-differs-from-ground-truth', 'signature': 'none',
                                 'input': {**info, 'alpha': list(al)}, 'observed': {'evals': rep_n, 'cost': rep_c},
                                 'expected': {'evals': n, 'cost': n * cost(al, 0)}})
    res.hit('allocation-with-failed-evaluations-that-report-cost')
    res.case(('failing_cost', seed), True, info)


def check_cost_line(res, o, misc, avgs, info):
    """compare one `sg.cost` answer (booked costs | averages) with the component's misc_costs / model_costs"""
    try:
        mm, ma = [t.split() for t in (o + ' ').split('|')]
    except ValueError:
        mm, ma = [], []
    ok = len(mm) == len(misc) and len(ma) == len(avgs)
    if ok:
        for t, v in zip(mm, misc):
            m = core.parse_rat(t)
            ok = ok and m is not None and abs(float(m) - v) <= 1e-11 * max(1.0, abs(v))
        for t, v in zip(ma, avgs):
            m = core.parse_rat(t)
            ok = ok and ((m is None and v is None) or (m is not None and v is not None and abs(float(m) - v) <= 1e-11 * max(1.0, abs(v))))
    if not ok:
        res.disagreements.append({'name': 'Amisc.bookCall vs Component.activate_index (misc_costs / model_costs)', 'input': info,
                                  'impl': {'misc_costs': misc, 'model_costs': avgs}, 'model': o})


def watch_activations(comp, rec, log):
    """record, for every activate_index call a System makes, the batch of indices, the slice of model calls and the accounts"""
    orig = comp.activate_index

    def wrapped(a, b, **kw):
        nb = comp._neighbors(a, b, forward=True)
        batch = list(itertools.chain([(a, b)] if (a, b) not in comp.candidate_set else [], nb))
        n0 = len(rec.calls)
        orig(a, b, **kw)
        log.append((batch, n0, len(rec.calls), [float(comp.misc_costs[ai, bi]) for ai, bi in batch],
                    [None if comp.model_costs.get(ai) is None else float(comp.model_costs.get(ai)) for ai, bi in batch]))
    object.__setattr__(comp, 'activate_index', wrapped)


def run_latent_case(ctx, res, seed):
    """a component with a scalar input and a compressed FIELD input (SVD latent coefficients share one data-fidelity entry):
    model calls are decoded back to latent grid coordinates; never twice, inside the latent domains, stored = returned,
    grids only grow"""
    from amisc import Component, Variable
    from amisc.compression import SVD
    from amisc.training import SparseGrid
    from amisc.utils import to_surrogate_dataset
    rng = random.Random(seed)
    rank = rng.choice([1, 2, 3])
    ngrid = rng.choice([20, 30])
    grid = np.linspace(-1, 1, ngrid)
    rs = np.random.RandomState(seed % 2 ** 31)
    coef = 0.5 + rs.rand(40, rank)
    fx = sum(coef[:, [k]] * np.sin((k + 1) * grid)[None, :] for k in range(rank))
    fy = sum(coef[:, [k]] * np.cos((k + 1) * grid)[None, :] for k in range(rank))
    pvar = Variable('p', compression=SVD(rank=rank, data_matrix={'px': fx, 'py': fy}, coords=grid, fields=['px', 'py']))
    delta = Variable('delta', domain=(0.0, 1.0))
    log = []

    def model(inputs, p_coords=None):
        d = np.atleast_1d(inputs['delta']); ax = np.atleast_2d(inputs['px']); ay = np.atleast_2d(inputs['py'])
        out = d * np.mean(ax + ay, axis=-1) + np.mean(ax * ay, axis=-1)
        log.append((d.copy(), ax.copy(), ay.copy(), np.atleast_1d(out).copy()))
        return {'amp': out}
    blim = (rng.choice([1, 2]), rng.choice([1, 2]) if rank < 3 else 1)
    comp = Component(model, [delta, pvar], [Variable('amp')], data_fidelity=blim, vectorized=True,
                     training_data=SparseGrid(opt_args={'locally_biased': False, 'maxfun': 60}))
    info = {'latent': seed, 'rank': rank, 'beta_lim': list(blim)}
    zero = ((), (0, 0))
    nxt, hist, seen, grids_prev, returned = zero, [], {}, {}, {}
    for step in range(rng.randint(3, 5)):
        n0 = len(log)
        comp.activate_index(*nxt)
        hist.append(list(nxt[1]))
        xg = {n: list(v) for n, v in comp.training_data.x_grids.items()}
        for n, g in xg.items():
            if g[:len(grids_prev.get(n, []))] != grids_prev.get(n, []):
                res.failures.append({'kind': 'grid-points-moved', 'input': {**info, 'history': list(hist)}, 'observed': g})
        grids_prev = xg
        doms = comp.inputs.get_domains()
        for (d, ax, ay, out) in log[n0:]:
            lat, _ = to_surrogate_dataset({'delta': d, 'px': ax, 'py': ay}, comp.inputs, del_fields=True, p_coords=grid)
            for r in range(len(d)):
                key = []
                for n in xg:
                    z = float(np.atleast_1d(lat[n])[r])
                    lb, ub = map(float, doms[n])
                    if not (lb - 1e-6 * (ub - lb) <= z <= ub + 1e-6 * (ub - lb)):
                        res.failures.append({'kind': 'evaluated-outside-domain', 'input': {**info, 'history': list(hist)},
                                             'observed': {'variable': n, 'value': z, 'domain': [lb, ub]}})
                    j = int(np.argmin([abs(z - g) for g in xg[n]]))
                    if abs(z - xg[n][j]) > 1e-6 * (ub - lb):
                        res.failures.append({'kind': 'evaluated-point-not-on-grid', 'input': {**info, 'history': list(hist)},
                                             'observed': {'variable': n, 'value': z}})
                    key.append(j)
                key = tuple(key)
                if key in seen:
                    res.failures.append({'kind': 'model-evaluated-twice', 'signature': 'none', 'input': {**info, 'history': list(hist)},
                                         'observed': {'coord': list(key), 'first_at_activation': seen[key], 'again_at_activation': step}})
                seen.setdefault(key, step)
                returned[key] = float(out[r])
        res.hit('latent-activation')
        cands = sorted(comp.candidate_set)
        if not cands:
            break
        nxt = rng.choice(cands)
    # stored == returned (coordinates of latent inputs are nested tuples: flatten them in x_grids order)
    stored = {}
    for coord, yd in comp.training_data.yi_map[()].items():
        flat = []
        for c in coord:
            flat.extend(c if isinstance(c, tuple) else [c])
        stored[tuple(flat)] = yd['amp']
    if set(stored) != set(returned):
        res.failures.append({'kind': 'stored-keys-differ-from-evaluated-keys', 'input': {**info, 'history': hist},
                             'observed': sorted(set(stored) ^ set(returned))[:6]})
    for k in set(stored) & set(returned):
        if not abs(stored[k] - returned[k]) <= 1e-12 * max(1.0, abs(returned[k])):
            res.failures.append({'kind': 'stored-value-is-not-the-model-output', 'input': {**info, 'history': hist},
                                 'observed': {'coord': list(k), 'stored': stored[k], 'model': returned[k]}})
    res.case(('latent', seed), len(hist) >= 3, {**info, 'history': hist, 'model_points': len(seen)})


def run(ctx: core.Ctx, only=None) -> core.Result:
    res = core.Result()
    res.rule = ('(A) scripted random admissible histories on real Components with 0-2 model-, 1-3 data-, 0-2 '
                'surrogate-fidelity dims, knots_per_level 1-3, normalised inputs, serial and vectorised models (30 %: serial models that '
                'RAISE at up to 3 evaluations — failed points stay NaN and are never requested again; 40 %: input domains TIGHTENED between activations), logging every '
                'model call; (B) adaptive System.fit on a 2-component chain with cost profiles none/const/per-alpha/'
                'per-call-varying and get_allocation vs ground truth (const/per-alpha: also after clear() and a second training history with other costs); (C) components with a compressed field input (latent '
                'coefficients as grid dimensions). non-trivial = >= 4 activations (A) / any (B).')
    lines, post = [], []
    keys = ('nin', 'alpha_lim', 'beta_lim', 'surr_lim', 'kpl', 'domains', 'norms_in', 'nsteps', 'fseed', 'vectorized', 'cost', 'failing', 'shrink')
    if only is not None:
        cases = [o.get('input', o) for o in only]
    else:
        cases = core.corpus_cases('C09') + [gen_case(ctx.rng) for _ in range(ctx.scale(24, 250))]
        for k_, c_ in enumerate(cases):       # failing models / tightened domains in a fixed share of every run
            if 'nin' in c_ and k_ % 4 == 0:
                c_['failing'] = True
            if 'nin' in c_ and k_ % 4 == 1:
                c_['shrink'] = True
    if only is None:
        cases = cases + [{'latent': ctx.rng.randrange(10 ** 6)} for _ in range(ctx.scale(4, 30))]
    for case in cases:
        if 'latent' in case:
            with core.guarded(res, 'scenario-raised', case):
                run_latent_case(ctx, res, case['latent'])
            continue
        if 'failing_cost_case' in case:
            continue
        if 'cost_profile' in case and 'nin' not in case:
            with core.guarded(res, 'scenario-raised', case):
                run_system_case(ctx, res, case['seed'], case['cost_profile'], lines, post)
            continue
        case = {k: (tuple(case[k]) if k.endswith('_lim') else case.get(k, False)) for k in keys}
        with core.guarded(res, 'scenario-raised', case):
            run_component_case(ctx, res, case, lines, post)
    if only is None:
        for k in range(ctx.scale(5, 20)):
            sd = ctx.rng.randrange(10 ** 6)
            prof = ['nondyadic', 'varying', 'alpha', 'none', 'const'][k % 5]
            with core.guarded(res, 'scenario-raised', {'seed': sd, 'cost_profile': prof}):
                run_system_case(ctx, res, sd, prof, lines, post)
    if only is None:
        for _ in range(ctx.scale(2, 8)):
            sd = ctx.rng.randrange(10 ** 6)
            with core.guarded(res, 'scenario-raised', {'failing_cost_case': sd}):
                run_failing_cost_case(ctx, res, sd)
    else:
        for o_ in only:
            if 'failing_cost_case' in o_.get('input', o_):
                run_failing_cost_case(ctx, res, o_.get('input', o_)['failing_cost_case'])
    out = core.try_driver(lines, res, 'Amisc.activateBatch')
    for pst, o in zip(post, out or []):
        if pst is None:
            continue
        if pst[0] == 'cost':
            _, case, hist, misc, avgs = pst
            check_cost_line(res, o, misc, avgs, {**case, 'history': hist})
            continue
        if pst[0] == 'alloc':
            _, info, alphas, evals, costs = pst
            for al, tok, ev, co in zip(alphas, o.split(), evals, costs):
                mev, mco = tok.split(':')
                mco = core.parse_rat(mco)
                if int(mev) != int(ev) or abs(float(mco) - co) > 1e-9 * max(1.0, abs(co)):
                    res.disagreements.append({'name': 'Amisc.allocEvals / allocCost vs System.get_allocation', 'input': {**info, 'alpha': list(al)},
                                              'impl': {'evals': ev, 'cost': co}, 'model': {'evals': int(mev), 'cost': float(mco)}})
            continue
        _, case, hist, got, glen = pst
        model_keys, model_len = [s.strip() for s in o.split('|')]
        if model_keys != got or model_len.split() != [str(v) for v in glen]:
            res.disagreements.append({'name': 'Amisc.activateBatch vs Component.activate_index (evaluated keys / grid sizes)',
                                      'input': {**case, 'history': hist}, 'impl': got + ' | ' + ' '.join(map(str, glen)),
                                      'model': o})
    # known findings
    kf = {k['id']: k for k in core.known_findings() if k.get('status') == 'open' and k['property'] == 'C09'}
    kept = []
    for f in res.failures:
        sig = f.get('signature')
        if sig == 'cost-ratio-evals' and 'F8' in kf:
            res.known_hits['F8'] = res.known_hits.get('F8', 0) + 1
        else:
            kept.append(f)
    res.failures = kept
    if res.known_hits.get('F8'):
        res.extra.setdefault('known_lines', []).append(
            ('F8', 'cost-ratio-evals: get_allocation recovers evaluation counts as round(cost/average cost); with a model '
                   'cost that varies between calls of one fidelity the reported counts/costs differ from the truth'))
    return res


ASSUMPTIONS = ['Leja node values are not modelled (grid = its length); evaluated points are mapped back to coordinates by '
               'nearest grid value', 'allocation truthfulness is claimed for costs that depend on the fidelity only (F8)']
