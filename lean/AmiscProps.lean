import AmiscProps.C01
import AmiscProps.C02
