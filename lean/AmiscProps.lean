import AmiscProps.C01
import AmiscProps.C02
import AmiscProps.C03
import AmiscProps.C05
import AmiscProps.C11
import AmiscProps.C18
