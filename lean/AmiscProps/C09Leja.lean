/-
  C09 (training points lie inside the domain in force) — every point the Leja construction of `SparseGrid.collocation_1d` adds is
  one of the points the optimiser may return for the bounds it was given (the candidates), the first one is the midpoint of those
  bounds, and points chosen earlier are never moved or dropped. Own module: depends on the generated Leja fragment.
-/
import AmiscModel.Leja

namespace Amisc.C09

theorem argminOn_mem (f : Q → Q) : ∀ (cands : List Q) (best : Option Q) (z : Q),
    argminOn f cands best = some z → z ∈ cands ∨ best = some z
  | [], best, z, h => Or.inr (by simpa [argminOn] using h)
  | c :: rest, none, z, h => by
      simp only [argminOn] at h
      rcases argminOn_mem f rest (some c) z h with h1 | h1
      · exact Or.inl (by simp [h1])
      · exact Or.inl (by simp [Option.some.inj h1])
  | c :: rest, some b, z, h => by
      simp only [argminOn] at h
      rcases argminOn_mem f rest _ z h with h1 | h1
      · exact Or.inl (by simp [h1])
      · by_cases hlt : f c < f b
        · rw [if_pos hlt] at h1; exact Or.inl (by simp [Option.some.inj h1])
        · rw [if_neg hlt] at h1; exact Or.inr h1

/-- **Nested, never moving, inside the bounds**: after `n` more points the sequence is the old sequence followed by points that
    the optimiser returned for the CURRENT bounds (members of the candidate list) -/
theorem lejaSeq_extends (w : Q → Q) (cands : List Q) : ∀ (n : Nat) (pts : List Q),
    ∃ new : List Q, lejaSeq w cands n pts = pts ++ new ∧ ∀ z ∈ new, z ∈ cands
  | 0, pts => ⟨[], by simp [lejaSeq], by simp⟩
  | n + 1, pts => by
      simp only [lejaSeq]
      cases h : lejaNext w cands pts with
      | none => exact ⟨[], by simp, by simp⟩
      | some z =>
          obtain ⟨new, hnew, hmem⟩ := lejaSeq_extends w cands n (pts ++ [z])
          refine ⟨z :: new, by simp only []; rw [hnew]; simp, ?_⟩
          intro y hy
          rcases List.mem_cons.mp hy with rfl | hy'
          · have := argminOn_mem (Gen.lejaObjNeg w pts) cands none y (by simpa [lejaNext] using h)
            rcases this with h1 | h1
            · exact h1
            · exact absurd h1 (by simp)
          · exact hmem y hy'

/-- a fresh sequence starts at the midpoint of the bounds in force -/
theorem lejaFresh_head (w : Q → Q) (cands : List Q) (lb ub : Q) (n : Nat) :
    (lejaFresh w cands lb ub (n + 1)).head? = some ((ub + lb) / 2) := by
  simp only [lejaFresh]
  obtain ⟨new, hnew, _⟩ := lejaSeq_extends w cands n [Gen.lejaFirst lb ub]
  rw [hnew]; simp [Gen.lejaFirst]

end Amisc.C09
