/-
  C02 — Index sets stay downward-closed; candidates are exactly the admissible margin.
  Reference theorems: AmiscProps.C02Core (same namespace). This file: the bookkeeping GENERATED from the source is the model.
-/
import AmiscProps.C02Core
import AmiscModel.IndexGen

namespace Amisc.C02

/-! ### the bookkeeping as generated from `Component.activate_index` / `Component._neighbors` -/

theorem generated_backOK_is_model (active : List Idx) (self c : Idx) : backOKGen active self c = backOK active self c := by
  unfold backOKGen backOK Gen.backDims Gen.backFails
  congr 1
  funext j
  cases (c.nth j == 0) <;> cases (decide (c.dec j ∈ active)) <;> cases (decide (c.dec j = self)) <;> rfl

theorem generated_nbrs_is_model (box : Idx) (active : List Idx) (idx : Idx) : nbrsGen box active idx = nbrs box active idx := by
  unfold nbrsGen nbrs
  congr 1
  funext k
  simp only [generated_backOK_is_model, Gen.nbrSkip, Bool.or_false, Bool.not_not]

/-- **the activation the driver runs — request guards, neighbour rule and the commit block read statement by statement from
    the source — is the reference `activate`** about which the invariants (C02), the weight theorems (C01), the crash
    theorems (C13) and the replay theorems (C18) are stated -/
theorem generated_activate_is_model (box : Idx) (st : IState) (idx : Idx) : activateGen box st idx = activate box st idx := by
  unfold activateGen activate Gen.guardActive Gen.guardNonCandidate
  by_cases h1 : idx ∈ st.active
  · simp [h1]
  · by_cases h2 : idx ∈ st.cand
    · simp [h1, h2, Gen.commitOps, applyCommit, generated_nbrs_is_model]
    · by_cases h3 : idx.total > 0
      · simp [h1, h2, h3]
      · simp [h1, h2, h3, Gen.commitOps, applyCommit, generated_nbrs_is_model]

theorem generated_run_is_model (box : Idx) (rs : List Idx) : runGen box rs = run box rs := by
  unfold runGen run
  congr 1
  funext st idx
  exact generated_activate_is_model box st idx

/-- hence every reachable state of the generated bookkeeping satisfies the invariants -/
theorem generated_inv_reachable (box : Idx) (rs : List Idx) (h : WT box rs) :
    let st := runGen box rs
    st.active.Nodup ∧ st.cand.Nodup ∧ (∀ i ∈ st.active, i ∉ st.cand) ∧
    isDownwardClosed st.active = true ∧ isDC st.active = true ∧
    (∀ i ∈ st.active ++ st.cand, Idx.le i box = true) ∧
    (st.active = [] → st.cand = []) ∧
    (st.active ≠ [] → ∀ i, i ∈ st.cand ↔ inMargin box st.active i = true) := by
  rw [generated_run_is_model]
  exact inv_reachable box rs h

example : runGen [1, 2] [[0, 0], [0, 1], [1, 0], [1, 1]] = run [1, 2] [[0, 0], [0, 1], [1, 0], [1, 1]] := by decide +kernel

end Amisc.C02
