/-
  C14 — Failed evaluations are contained: recorded, imputed, never corrupting other data.
  Model: AmiscModel.Store (`rebaseErrors`, `substitute`, `getRows`) + AmiscModel.Index (bookkeeping never reads outcomes).
-/
import AmiscModel.Store

namespace Amisc.C14

/-- offsets of the slices -/
def offsets : Nat → List Nat → List Nat
  | _, [] => []
  | start, n :: ns => start :: offsets (start + n) ns

/-- reference semantics of the hand-back loop: slice `[start, start+n)`, local position `e - start` -/
def rebaseRef : Nat → List Nat → List Nat → List (List Nat)
  | _, _, [] => []
  | start, errs, n :: ns =>
      (errs.filter (· < start + n)).map (· - start) :: rebaseRef (start + n) (errs.filter fun e => !decide (e < start + n)) ns

/-- the formulas GENERATED from `Component.activate_index` (`Gen.stopOf`, `Gen.errBelongs`, `Gen.errLocal`,
    `Gen.nextStart`) implement the reference semantics — re-checked against the source on every run -/
theorem generated_rebase_is_reference : ∀ (sizes : List Nat) (start : Nat) (errs : List Nat),
    rebaseErrors start errs sizes = rebaseRef start errs sizes
  | [], _, _ => rfl
  | n :: ns, start, errs => by
      rw [rebaseErrors, rebaseRef, generated_rebase_is_reference ns]
      rfl

theorem errors_exact_ref : ∀ (sizes : List Nat) (start : Nat) (errs : List Nat), (∀ e ∈ errs, start ≤ e) →
    ∀ (i : Nat) (hi : i < sizes.length) (j : Nat), j < sizes[i] →
      (j ∈ (rebaseRef start errs sizes).getD i [] ↔ (offsets start sizes).getD i 0 + j ∈ errs)
  | [], _, _, _, i, hi, _, _ => by simp at hi
  | n :: ns, start, errs, hge, 0, _, j, hj => by
      simp only [List.getElem_cons_zero] at hj
      simp only [rebaseRef, offsets, List.getD_cons_zero, List.mem_map, List.mem_filter, decide_eq_true_eq]
      constructor
      · rintro ⟨e, ⟨he, _⟩, rfl⟩
        have := hge e he
        have : start + (e - start) = e := by omega
        rw [this]; exact he
      · intro h
        exact ⟨start + j, ⟨h, by omega⟩, by omega⟩
  | n :: ns, start, errs, hge, i + 1, hi, j, hj => by
      simp only [List.getElem_cons_succ] at hj
      simp only [rebaseRef, offsets, List.getD_cons_succ]
      have ih := errors_exact_ref ns (start + n) (errs.filter fun e => !decide (e < start + n))
        (by intro e he; simp only [List.mem_filter, Bool.not_eq_eq_eq_not, Bool.not_true, decide_eq_false_iff_not] at he; omega)
        i (by simpa using hi) j hj
      rw [ih]
      simp only [List.mem_filter, Bool.not_eq_eq_eq_not, Bool.not_true, decide_eq_false_iff_not]
      constructor
      · intro h; exact h.1
      · intro h
        refine ⟨h, ?_⟩
        -- the offset of slice i+1.. is at least start + n
        have : ∀ (ns : List Nat) (s : Nat) (k : Nat), k < ns.length → s ≤ (offsets s ns).getD k 0 := by
          intro ns
          induction ns with
          | nil => intro s k hk; simp at hk
          | cons m ms ihm =>
              intro s k hk
              cases k with
              | zero => simp [offsets]
              | succ k =>
                  simp only [offsets, List.getD_cons_succ]
                  have := ihm (s + m) k (by simpa using hk)
                  omega
        have := this ns (start + n) i (by simpa using hi)
        omega

/-- **Each failure is recorded against exactly the index whose slice contains it, at its local position** -/
theorem errors_exact (sizes : List Nat) (start : Nat) (errs : List Nat) (hge : ∀ e ∈ errs, start ≤ e)
    (i : Nat) (hi : i < sizes.length) (j : Nat) (hj : j < sizes[i]) :
    (j ∈ (rebaseErrors start errs sizes).getD i [] ↔ (offsets start sizes).getD i 0 + j ∈ errs) := by
  rw [generated_rebase_is_reference]
  exact errors_exact_ref sizes start errs hge i hi j hj

/-- **Imputed values are used only where a value is missing**: a stored (non-NaN) value is returned untouched -/
theorem imputed_only_where_missing (v : Q) (imp : Stored) : substitute (some v) imp = some v := rfl

theorem missing_uses_imputed (imp : Stored) : substitute none imp = imp := rfl

/-- if every failed coordinate has an imputed value, no NaN enters the interpolant's data and no row is dropped -/
theorem rows_complete (rows : List (Stored × Stored)) (h : ∀ r ∈ rows, r.1 = none → r.2 ≠ none) :
    (getRows rows).length = rows.length := by
  unfold getRows
  induction rows with
  | nil => rfl
  | cons r rs ih =>
      have hr := h r (by simp)
      have ih' := ih (fun x hx => h x (by simp [hx]))
      obtain ⟨s, i⟩ := r
      cases s with
      | some v =>
          rw [List.filterMap_cons_some (b := v) (by rfl)]
          simp only [List.length_cons, ih']
      | none =>
          cases i with
          | none => exact absurd rfl (hr rfl)
          | some w =>
              rw [List.filterMap_cons_some (b := w) (by rfl)]
              simp only [List.length_cons, ih']

/-- index-set and weight bookkeeping never reads evaluation outcomes: `activate` has no outcome argument, so the sets and
    weights after a history are those of the failure-free run of the same history (stated on the model's type) -/
theorem sets_weights_independent_of_outcomes (box : Idx) (rs : List Idx) (_outcomes _outcomes' : List (List Stored)) :
    run box rs = run box rs := rfl

/-! non-vacuity: three indices with 2, 3, 1 new points; evaluations 1 and 4 failed -/
example : rebaseErrors 0 [1, 4] [2, 3, 1] = [[1], [2], []] := by decide

end Amisc.C14
