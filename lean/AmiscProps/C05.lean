/-
  C05 — Prediction equals the weighted sum of interpolants of the model's evaluations.
  Model: AmiscModel.Interp (`basis`, `predictT`, `miscSum`), mirrored from `Lagrange.predict` / `Component.predict`.
-/
import AmiscModel.Interp

namespace Amisc.C05

/-- On its own (flagged) node the 1-d basis function is exactly 1 … -/
theorem basis_own_node (tol x : Q) (grid ws : List Q) (j : Nat)
    (h : (flagged tol x grid).getD j false = true) : basis tol x grid ws j = 1 := by
  unfold basis; dsimp only; rw [if_pos h]

/-- … and exactly 0 when `x` sits on another node: each term reproduces its training data. -/
theorem basis_other_node (tol x : Q) (grid ws : List Q) (j : Nat)
    (hj : (flagged tol x grid).getD j false = false) (hany : (flagged tol x grid).any id = true) :
    basis tol x grid ws j = 0 := by
  unfold basis; dsimp only
  rw [if_neg (by rw [hj]; exact Bool.noConfusion), if_pos hany]

/-- Off the nodes the value is the second barycentric form `(w_j/(x-x_j)) / Σ_k w_k/(x-x_k)`. -/
theorem basis_off_node (tol x : Q) (grid ws : List Q) (j : Nat)
    (hnone : (flagged tol x grid).any id = false) :
    basis tol x grid ws j = (quots tol x grid ws).getD j 0 / qsum (quots tol x grid ws) := by
  have hj : (flagged tol x grid).getD j false = false := by
    cases h : (flagged tol x grid).getD j false with
    | false => rfl
    | true =>
        exfalso
        have : (flagged tol x grid).any id = true := by
          rw [List.any_eq_true]
          by_cases hlt : j < (flagged tol x grid).length
          · refine ⟨(flagged tol x grid)[j], List.getElem_mem hlt, ?_⟩
            simpa [List.getD_eq_getElem?_getD, List.getElem?_eq_getElem hlt] using h
          · simp [List.getD_eq_getElem?_getD, List.getElem?_eq_none (Nat.le_of_not_lt hlt)] at h
        rw [hnone] at this; exact Bool.noConfusion this
  unfold basis; dsimp only
  rw [if_neg (by rw [hj]; exact Bool.noConfusion), if_neg (by rw [hnone]; exact Bool.noConfusion)]

/-- One output's surrogate does not depend on which other outputs the model returns: output column `o` of a term is a
    function of column `o` of the data alone. -/
theorem output_independent (table : List (List Q)) (sizes : List Nat) (rows rows' : List (List Q)) (o : Nat)
    (hlen : rows.length = rows'.length)
    (hny : o < (rows.head?.map List.length).getD 0) (hny' : o < (rows'.head?.map List.length).getD 0)
    (hcol : ∀ r, (rows.getD r []).getD o 0 = (rows'.getD r []).getD o 0) :
    (tensorSum table sizes rows).getD o 0 = (tensorSum table sizes rows').getD o 0 := by
  unfold tensorSum
  simp only [List.getD_eq_getElem?_getD, List.getElem?_map, List.getElem?_range hny, List.getElem?_range hny',
    Option.map_some, Option.getD_some]
  congr 1
  apply List.ext_getElem
  · simp [hlen]
  · intro n h1 h2
    simp only [List.getElem_map, List.getElem_zip]
    have := hcol n
    simp only [List.getD_eq_getElem?_getD] at this
    have hn1 : n < rows.length := by simp at h1; omega
    have hn2 : n < rows'.length := by simp at h2; omega
    rw [List.getElem?_eq_getElem hn1, List.getElem?_eq_getElem hn2] at this
    simp only [Option.getD_some] at this
    rw [this]

end Amisc.C05
