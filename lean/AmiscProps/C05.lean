/-
  C05 — Prediction equals the weighted sum of interpolants of the model's evaluations.
  Model: AmiscModel.Interp (`basis`, `predictT`, `miscSum`), mirrored from `Lagrange.predict` / `Component.predict`.
-/
import AmiscModel.Interp
import AmiscProofs.TensorDeriv
import AmiscProofs.SparseExact

namespace Amisc.C05

/-- On its own (flagged) node the 1-d basis function is exactly 1 … -/
theorem basis_own_node (tol x : Q) (grid ws : List Q) (j : Nat)
    (h : (flagged tol x grid).getD j false = true) : basis tol x grid ws j = 1 := by
  unfold basis; dsimp only; rw [if_pos h]

/-- … and exactly 0 when `x` sits on another node: each term reproduces its training data. -/
theorem basis_other_node (tol x : Q) (grid ws : List Q) (j : Nat)
    (hj : (flagged tol x grid).getD j false = false) (hany : (flagged tol x grid).any id = true) :
    basis tol x grid ws j = 0 := by
  unfold basis; dsimp only
  rw [if_neg (by rw [hj]; exact Bool.noConfusion), if_pos hany]

/-- Off the nodes the value is the second barycentric form `(w_j/(x-x_j)) / Σ_k w_k/(x-x_k)`. -/
theorem basis_off_node (tol x : Q) (grid ws : List Q) (j : Nat)
    (hnone : (flagged tol x grid).any id = false) :
    basis tol x grid ws j = (quots tol x grid ws).getD j 0 / qsum (quots tol x grid ws) := by
  have hj : (flagged tol x grid).getD j false = false := by
    cases h : (flagged tol x grid).getD j false with
    | false => rfl
    | true =>
        exfalso
        have : (flagged tol x grid).any id = true := by
          rw [List.any_eq_true]
          by_cases hlt : j < (flagged tol x grid).length
          · refine ⟨(flagged tol x grid)[j], List.getElem_mem hlt, ?_⟩
            simpa [List.getD_eq_getElem?_getD, List.getElem?_eq_getElem hlt] using h
          · simp [List.getD_eq_getElem?_getD, List.getElem?_eq_none (Nat.le_of_not_lt hlt)] at h
        rw [hnone] at this; exact Bool.noConfusion this
  unfold basis; dsimp only
  rw [if_neg (by rw [hj]; exact Bool.noConfusion), if_neg (by rw [hnone]; exact Bool.noConfusion)]

/-- One output's surrogate does not depend on which other outputs the model returns: output column `o` of a term is a
    function of column `o` of the data alone. -/
theorem output_independent (table : List (List Q)) (sizes : List Nat) (rows rows' : List (List Q)) (o : Nat)
    (hlen : rows.length = rows'.length)
    (hny : o < (rows.head?.map List.length).getD 0) (hny' : o < (rows'.head?.map List.length).getD 0)
    (hcol : ∀ r, (rows.getD r []).getD o 0 = (rows'.getD r []).getD o 0) :
    (tensorSum table sizes rows).getD o 0 = (tensorSum table sizes rows').getD o 0 := by
  unfold tensorSum
  simp only [List.getD_eq_getElem?_getD, List.getElem?_map, List.getElem?_range hny, List.getElem?_range hny',
    Option.map_some, Option.getD_some]
  congr 1
  apply List.ext_getElem
  · simp [hlen]
  · intro n h1 h2
    simp only [List.getElem_map, List.getElem_zip]
    have := hcol n
    simp only [List.getD_eq_getElem?_getD] at this
    have hn1 : n < rows.length := by simp at h1; omega
    have hn2 : n < rows'.length := by simp at h2; omega
    rw [List.getElem?_eq_getElem hn1, List.getElem?_eq_getElem hn2] at this
    simp only [Option.getD_some] at this
    rw [this]


/-! ## in Mathlib terms: one term IS the tensor-product Lagrange interpolant of the model's evaluations -/

open Amisc.LL Amisc.Tensor Amisc.TD Polynomial Finset

/-- the prediction of one index is Σ over tensor nodes of (Π_d ℓ_{d,j_d}(x_d)) · y_j, with `ℓ` Mathlib's Lagrange basis
    polynomials of the state's grids — for any data, output column and point -/
theorem term_is_tensor_lagrange_interpolant (st : LState) (x : List Q) (hd : st.grids.length = x.length)
    (hgood : ∀ k, k < x.length → GoodDim (st.grids.getD k []) (st.wts.getD k []))
    (rows : List (List Q)) (o : ℕ) (ho : o < (rows.head?.map List.length).getD 0) :
    (predictT 0 st rows x).getD o 0 =
      (((prodIdx (st.grids.map List.length)).zip rows).map fun jr => lagCoef st x jr.1 * jr.2.getD o 0).sum :=
  predictT_is_lagrange_interpolant st x hd hgood rows o ho

/-- each term reproduces its training data: at the grid point of tensor node `n` it returns data row `n` -/
theorem term_reproduces_training_data (st : LState) (x : List Q) (hd : st.grids.length = x.length)
    (hgood : ∀ k, k < x.length → GoodDim (st.grids.getD k []) (st.wts.getD k []))
    (rows : List (List Q)) (o : ℕ) (ho : o < (rows.head?.map List.length).getD 0)
    (hrows : rows.length = (prodIdx (st.grids.map List.length)).length)
    (n : ℕ) (hn : n < (prodIdx (st.grids.map List.length)).length)
    (hx : ∀ k, k < x.length →
      x.getD k 0 = nodeFn (st.grids.getD k []) (((prodIdx (st.grids.map List.length))[n]).getD k 0)) :
    (predictT 0 st rows x).getD o 0 = (rows.getD n []).getD o 0 :=
  predictT_at_node st x hd hgood rows o ho hrows n hn hx


/-- the result is linear in the model's outputs: a term built from the data `a·y₁ + b·y₂` predicts `a·(term of y₁) +
    b·(term of y₂)` (and the weighted sum over indices is linear by definition) -/
theorem term_linear_in_data (tol : Q) (st : LState) (x : List Q) (rows r1 r2 : List (List Q)) (a b : Q) (o : ℕ)
    (ho : o < (rows.head?.map List.length).getD 0) (ho1 : o < (r1.head?.map List.length).getD 0)
    (ho2 : o < (r2.head?.map List.length).getD 0)
    (hl1 : r1.length = rows.length) (hl2 : r2.length = rows.length)
    (h : ∀ n, n < rows.length → (rows.getD n []).getD o 0 = a * (r1.getD n []).getD o 0 + b * (r2.getD n []).getD o 0) :
    (predictT tol st rows x).getD o 0 = a * (predictT tol st r1 x).getD o 0 + b * (predictT tol st r2 x).getD o 0 :=
  tensorSum_lincomb _ _ rows r1 r2 a b o ho ho1 ho2 hl1 hl2 h


open Amisc.SE in
/-- **the whole surrogate passes through its training points**: for a duplicate-free downward-closed index set with
    inclusion–exclusion weights and nested grids, the surrogate built from the unit pulse at node numbers `p` takes the
    value 1 at that training point and 0 at every other point of the grid of any member `l` of the set. By linearity in the
    data (`term_linear_in_data`, and `miscSum` is a weighted sum) every surrogate therefore returns, at a training point it
    uses, the training value stored there — in particular a single-fidelity surrogate passes through all of its training
    data. -/
theorem surrogate_interpolates_unit_pulses {na d : ℕ} (S : List Idx) (hnd : S.Nodup)
    (hlen : ∀ s ∈ S, s.length = na + d) (hdown : ∀ s ∈ S, ∀ j, Idx.le j s = true → j ∈ S)
    (nodes : ℕ → List Q) (gs : ℕ → ℕ) (hgs : Monotone gs) (hnodes : ∀ k, k < d → (nodes k).Nodup)
    (st : Idx → LState) (hN : Nested na d nodes gs st S) (p a : ℕ → ℕ) (l : Idx) (hl : l ∈ S)
    (ha : ∀ k, k < d → a k < gs (Idx.nth l (na + k)))
    (hlong : ∀ k, k < d → gs (Idx.nth l (na + k)) ≤ (nodes k).length)
    (x : List Q) (hx : x.length = d) (hxa : ∀ k, k < d → x.getD k 0 = (nodes k).getD (a k) 0) :
    (miscSum (S.map fun i => (IE S i, predictT 0 (st i) (prodRows (pulse p) ((st i).grids.map List.length)) x))).getD 0 0 =
      ∏ k : Fin d, (if p k = a k then (1 : ℚ) else 0) :=
  misc_interpolates_pulse S hnd hlen hdown nodes gs hgs hnodes st hN p a l hl ha hlong x hx hxa

end Amisc.C05
