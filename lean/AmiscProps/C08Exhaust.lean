/-
  C08 (exhaustion) — "when run to exhaustion training leaves every surrogate complete, and it never activates beyond the declared
  maximum fidelities": consequences of the index-set invariant (C02) for the training loop. Own module (needs one Mathlib list lemma).
-/
import AmiscProps.C02Core
import Mathlib.Data.List.Perm.Subperm

namespace Amisc.C08
open Amisc.C02

/-- **Run to exhaustion, every surrogate is complete**: when no candidate is left (the only way `refine` returns without a
    component, `stops_without_candidates`) the active set is the whole fidelity box -/
theorem exhaustion_fills_the_box (box : Idx) (rs : List Idx) (h : WT box rs) (hne : (run box rs).active ≠ [])
    (hc : (run box rs).cand = []) : ∀ i, Idx.le i box = true → i ∈ (run box rs).active :=
  (cand_empty_iff_full box rs h hne).mp hc

/-- **Training cannot outlast the box**: whatever the sequence of requests, the number of activated indices of a component (one
    history entry each) never exceeds the number of indices of its fidelity box — so exhaustion is reached after finitely many
    steps, and nothing beyond the declared maxima is ever activated (`never_beyond_box`) -/
theorem activations_le_box_size (box : Idx) (rs : List Idx) (h : WT box rs) :
    (run box rs).active.length ≤ (fullBox box).length := by
  have inv := inv_run box rs h
  have hsub : (run box rs).active ⊆ fullBox box := fun i hi => never_beyond_box box rs h i (by simp [hi])
  exact (List.subperm_of_subset inv.nodupA hsub).length_le

/-! non-vacuity: the 2×2 box is exhausted after its four activations -/
example : (run [1, 1] [[0, 0], [1, 0], [0, 1], [1, 1]]).cand = [] ∧ (run [1, 1] [[0, 0], [1, 0], [0, 1], [1, 1]]).active.length = 4 := by
  decide

end Amisc.C08
