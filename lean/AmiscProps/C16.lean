/-
  C16 — Normalisation, compression and dataset conversion are inverse and time-stable.
  The 1-d formulas are GENERATED from src/amisc/transform.py on every run (`Amisc.Gen.*`): if a `_transform` body
  changes, these round-trip theorems are re-checked against the new formula.
-/
import AmiscModel.Xform
import Mathlib.Analysis.SpecialFunctions.Log.Basic
import Mathlib.Tactic.FieldSimp
import Mathlib.Tactic.Ring
import Mathlib.Algebra.Order.Field.Rat
import Mathlib.Data.Matrix.Mul

namespace Amisc.C16

open Amisc.Gen

section field
variable {K : Type} [Field K]

theorem linear_rt (m b x : K) (hm : m ≠ 0) : linearInv m b (linearFwd m b x) = x := by
  unfold linearInv linearFwd; field_simp; ring

theorem linear_rt' (m b y : K) (hm : m ≠ 0) : linearFwd m b (linearInv m b y) = y := by
  unfold linearInv linearFwd; field_simp; ring

theorem minmax_rt (lb ub l u x : K) (h1 : ub - lb ≠ 0) (h2 : u - l ≠ 0) :
    minmaxInv lb ub l u (minmaxFwd lb ub l u x) = x := by
  unfold minmaxInv minmaxFwd; field_simp; ring

theorem minmax_rt' (lb ub l u y : K) (h1 : ub - lb ≠ 0) (h2 : u - l ≠ 0) :
    minmaxFwd lb ub l u (minmaxInv lb ub l u y) = y := by
  unfold minmaxInv minmaxFwd; field_simp; ring

theorem zscore_rt (mu sd x : K) (h : sd ≠ 0) : zscoreInv mu sd (zscoreFwd mu sd x) = x := by
  unfold zscoreInv zscoreFwd; field_simp; ring

theorem zscore_rt' (mu sd y : K) (h : sd ≠ 0) : zscoreFwd mu sd (zscoreInv mu sd y) = y := by
  unfold zscoreInv zscoreFwd; field_simp; ring

end field

/-- the Log transform (over ℝ, `np.exp`/`np.log` = `Real.exp`/`Real.log`): base > 0, base ≠ 1, x + offset > 0 -/
theorem log_rt (base offset x : ℝ) (hb : 0 < base) (hb1 : base ≠ 1) (hx : 0 < x + offset) :
    logInv Real.exp Real.log base offset (logFwd Real.exp Real.log base offset x) = x := by
  unfold logInv logFwd
  have hlog : Real.log base ≠ 0 := by
    intro h
    rcases Real.log_eq_zero.mp h with h0 | h1 | h2
    · exact absurd h0 hb.ne'
    · exact hb1 h1
    · rw [h2] at hb; norm_num at hb
  rw [div_mul_cancel₀ _ hlog, Real.exp_log hx]
  ring

theorem log_rt' (base offset y : ℝ) (hb : 0 < base) (hb1 : base ≠ 1) :
    logFwd Real.exp Real.log base offset (logInv Real.exp Real.log base offset y) = y := by
  unfold logInv logFwd
  have hlog : Real.log base ≠ 0 := by
    intro h
    rcases Real.log_eq_zero.mp h with h0 | h1 | h2
    · exact absurd h0 hb.ne'
    · exact hb1 h1
    · rw [h2] at hb; norm_num at hb
  have : Real.exp (y * Real.log base) - offset + offset = Real.exp (y * Real.log base) := by ring
  rw [this, Real.log_exp]
  field_simp

/-- one stage of `Variable.normalize` is inverted by the same stage of `denormalize` (same hyper-parameters) -/
theorem stage_rt (t : Tr) (h : Hyper) (x : Q) (hok : stageOK t h) : applyTr t h true (applyTr t h false x) = x := by
  cases t with
  | linear m b => simp only [applyTr]; exact linear_rt m b x hok
  | minmax lb ub l u =>
      simp only [applyTr, stageOK] at hok ⊢
      cases hd : h.dom with
      | none => rw [hd] at hok; simp only [Bool.false_eq_true, if_false, if_true]; exact minmax_rt lb ub l u x hok.1 hok.2
      | some d => rw [hd] at hok; simp only [Bool.false_eq_true, if_false, if_true]; exact minmax_rt d.1 d.2 l u x hok.1 hok.2
  | zscore mu sd =>
      simp only [applyTr, stageOK] at hok ⊢
      cases hd : h.dist with
      | none => rw [hd] at hok; simp only [Bool.false_eq_true, if_false, if_true]; exact zscore_rt mu sd x hok
      | some d => rw [hd] at hok; simp only [Bool.false_eq_true, if_false, if_true]; exact zscore_rt d.1 d.2 x hok

theorem stage_rt' (t : Tr) (h : Hyper) (y : Q) (hok : stageOK t h) : applyTr t h false (applyTr t h true y) = y := by
  cases t with
  | linear m b => simp only [applyTr]; exact linear_rt' m b y hok
  | minmax lb ub l u =>
      simp only [applyTr, stageOK] at hok ⊢
      cases hd : h.dom with
      | none => rw [hd] at hok; simp only [Bool.false_eq_true, if_false, if_true]; exact minmax_rt' lb ub l u y hok.1 hok.2
      | some d => rw [hd] at hok; simp only [Bool.false_eq_true, if_false, if_true]; exact minmax_rt' d.1 d.2 l u y hok.1 hok.2
  | zscore mu sd =>
      simp only [applyTr, stageOK] at hok ⊢
      cases hd : h.dist with
      | none => rw [hd] at hok; simp only [Bool.false_eq_true, if_false, if_true]; exact zscore_rt' mu sd y hok
      | some d => rw [hd] at hok; simp only [Bool.false_eq_true, if_false, if_true]; exact zscore_rt' d.1 d.2 y hok

/-- **Chain round trip**: for every chain of transforms whose stages are invertible at the hyper-parameters they see,
    denormalising a normalised value returns the value … -/
theorem chain_rt : ∀ (ts : List Tr) (h : Hyper) (x : Q), chainOK ts h → denormalize ts h (normalize ts h x) = x
  | [], _, _, _ => rfl
  | t :: ts, h, x, hok => by
      simp only [normalize, denormalize]
      rw [chain_rt ts (stepHyper t h) _ hok.2]
      exact stage_rt t h x hok.1

/-- … and normalising a denormalised value returns it as well. -/
theorem chain_rt' : ∀ (ts : List Tr) (h : Hyper) (y : Q), chainOK ts h → normalize ts h (denormalize ts h y) = y
  | [], _, _, _ => rfl
  | t :: ts, h, y, hok => by
      simp only [normalize, denormalize]
      rw [stage_rt' t h _ hok.1]
      exact chain_rt' ts (stepHyper t h) y hok.2

/-- the normalised domain is the image of the domain (both end points go through the same chain as the values) -/
theorem norm_domain_is_image (ts : List Tr) (h : Hyper) (lb ub : Q) (hd : h.dom = some (lb, ub)) :
    normDomain ts h = some (normalize ts h lb, normalize ts h ub) := by
  simp [normDomain, hd]

/-- **Time stability characterised**: a value encoded under hyper-parameters `h` decodes to the same physical value under
    `h'` whenever the two agree (in particular: whenever the variable's domain has not changed in between). -/
theorem decode_time_stable (ts : List Tr) (h h' : Hyper) (x : Q) (hok : chainOK ts h) (hsame : h' = h) :
    denormalize ts h' (normalize ts h x) = x := by
  rw [hsame]; exact chain_rt ts h x hok

/-- a chain whose stages never read the hyper-parameters (only `linear` stages) -/
def HyperFree : List Tr → Prop
  | [] => True
  | .linear m _ :: ts => m ≠ 0 ∧ HyperFree ts
  | _ :: _ => False

/-- **time stability, full strength, for hyper-parameter-free chains**: whatever happened to the variable's domain or
    distribution between encoding (`h`) and decoding (`h'`), the stored value decodes to the physical value it came from -/
theorem decode_time_stable_linear : ∀ (ts : List Tr) (h h' : Hyper) (x : Q), HyperFree ts →
    denormalize ts h' (normalize ts h x) = x
  | [], _, _, _, _ => rfl
  | .linear m b :: ts, h, h', x, hf => by
      simp only [normalize, denormalize, applyTr]
      rw [decode_time_stable_linear ts _ _ _ hf.2]
      simp only [Bool.false_eq_true, if_false, if_true]
      exact linear_rt m b x hf.1
  | .minmax _ _ _ _ :: _, _, _, _, hf => absurd hf (by simp [HyperFree])
  | .zscore _ _ :: _, _, _, _, hf => absurd hf (by simp [HyperFree])

/-- … and it is FALSE for a `minmax` stage with deferred bounds (finding F6): a value 2 encoded while the domain was (1, 3)
    decodes to 5/2 after the domain has been updated to (0, 5) -/
theorem minmax_not_time_stable :
    denormalize [.minmax 0 0 0 1] { dom := some (0, 5), dist := none }
      (normalize [.minmax 0 0 0 1] { dom := some (1, 3), dist := none } 2) = 5 / 2 := by
  decide +kernel

/-- latent coefficients survive reconstruction + compression when the projection has orthonormal columns (SVD):
    `Pᵀ (P c) = c` -/
theorem latent_roundtrip {m r : Type*} [Fintype m] [Fintype r] [DecidableEq r] (P : Matrix m r ℚ)
    (horth : P.transpose * P = 1) (c : r → ℚ) : P.transpose.mulVec (P.mulVec c) = c := by
  rw [Matrix.mulVec_mulVec, horth, Matrix.one_mulVec]

/-! non-vacuity: a three-stage chain on a variable with domain (2, 6) and N(4, 1/2) -/
example : chainOK [.minmax 0 0 0 1, .linear 2 (-1), .zscore 0 0] { dom := some (2, 6), dist := some (4, 1/2) } := by
  simp only [chainOK, stageOK, stepHyper, applyTr, Gen.minmaxFwd, Gen.linearFwd]
  norm_num
example : normalize [.minmax 0 0 0 1, .linear 2 (-1)] { dom := some (2, 6), dist := none } 3 = -1/2 := by
  decide +kernel

end Amisc.C16
