/-
  C08 — Each refinement step activates the best candidate; training stops when it must.
  Model: AmiscModel.Sys Part 2 (`indicator`, `argmaxStep`, `choose`, `fitLoop`), mirroring the candidate scan of
  `System.refine` (running maximum from −∞, strict `>`, NaN never selected, cost floor 1) and the loop of `System.fit`.
-/
import AmiscModel.Sys
import Mathlib.Algebra.Order.Field.Rat
import Mathlib.Tactic.Linarith

namespace Amisc.C08

/-- the formulas GENERATED from `System.refine` on every run are the ones the property speaks about:
    `delta_work = max(1, cost)` and `error_indicator = delta_error / delta_work` -/
theorem generated_work_is_max (cost : Q) : Gen.work cost = max 1 cost := by
  unfold Gen.work
  split
  · next h => exact (max_eq_right (le_of_lt h)).symm
  · next h => exact (max_eq_left (not_lt.mp h)).symm

theorem generated_indicator_is_quotient (e w : Q) : Gen.indicatorOf e w = e / w := rfl

/-- the cost by which the error is divided is at least one -/
theorem work_ge_one (c : Cand) : 1 ≤ work c := by
  unfold work Gen.work; split
  · next h => exact le_of_lt h
  · exact le_refl 1

/-- invariant of the scan: either a running maximum exists and the choice attains it over everything scanned, or
    everything scanned so far is undefined and the choice is the first scanned candidate -/
def ScanInv (pre : List Cand) (star : Option Cand) (emax : Option Q) : Prop :=
  (∀ m, emax = some m → ∃ b, star = some b ∧ b ∈ pre ∧ indicator b = some m ∧
      ∀ c' ∈ pre, ∀ e', indicator c' = some e' → e' ≤ m) ∧
  (emax = none → (∀ c' ∈ pre, indicator c' = none) ∧ star = pre.head?)

theorem scanStep_spec : ∀ (cs pre : List Cand) (star : Option Cand) (emax : Option Q), ScanInv pre star emax →
    ∃ emax', ScanInv (pre ++ cs) (scanStep cs star emax) emax'
  | [], pre, star, emax, h => ⟨emax, by simpa [scanStep] using h⟩
  | c :: rest, pre, star, emax, h => by
      have hassoc : pre ++ c :: rest = (pre ++ [c]) ++ rest := by simp
      rw [hassoc]
      unfold scanStep
      cases hi : indicator c with
      | some e =>
          simp only []
          cases emax with
          | none =>
              simp only [if_true]
              apply scanStep_spec rest (pre ++ [c]) (some c) (some e)
              refine ⟨?_, by intro hh; exact absurd hh (by simp)⟩
              intro m hm
              simp only [Option.some.injEq] at hm; subst hm
              refine ⟨c, rfl, by simp, hi, ?_⟩
              intro c' hc' e' he'
              rcases List.mem_append.mp hc' with h' | h'
              · rw [(h.2 rfl).1 c' h'] at he'; exact absurd he' (by simp)
              · simp only [List.mem_singleton] at h'; subst h'; rw [hi] at he'
                exact le_of_eq (Option.some.inj he').symm
          | some m =>
              obtain ⟨b, hb, hbm, hbi, hmx⟩ := h.1 m rfl
              by_cases hgt : e > m
              · simp only [hgt, decide_true, if_true]
                apply scanStep_spec rest (pre ++ [c]) (some c) (some e)
                refine ⟨?_, by intro hh; exact absurd hh (by simp)⟩
                intro m' hm'
                simp only [Option.some.injEq] at hm'; subst hm'
                refine ⟨c, rfl, by simp, hi, ?_⟩
                intro c' hc' e' he'
                rcases List.mem_append.mp hc' with h' | h'
                · exact le_trans (hmx c' h' e' he') (le_of_lt hgt)
                · simp only [List.mem_singleton] at h'; subst h'; rw [hi] at he'
                  exact le_of_eq (Option.some.inj he').symm
              · simp only [hgt, decide_false, Bool.false_eq_true, if_false]
                apply scanStep_spec rest (pre ++ [c]) star (some m)
                refine ⟨?_, by intro hh; exact absurd hh (by simp)⟩
                intro m' hm'
                simp only [Option.some.injEq] at hm'; subst hm'
                refine ⟨b, hb, by simp [hbm], hbi, ?_⟩
                intro c' hc' e' he'
                rcases List.mem_append.mp hc' with h' | h'
                · exact hmx c' h' e' he'
                · simp only [List.mem_singleton] at h'; subst h'; rw [hi] at he'
                  rw [← Option.some.inj he']; exact not_lt.mp hgt
      | none =>
          simp only []
          cases emax with
          | some m =>
              obtain ⟨b, hb, hbm, hbi, hmx⟩ := h.1 m rfl
              have : star.isNone = false := by rw [hb]; rfl
              simp only [this, Bool.false_eq_true, if_false]
              apply scanStep_spec rest (pre ++ [c]) star (some m)
              refine ⟨?_, by intro hh; exact absurd hh (by simp)⟩
              intro m' hm'
              simp only [Option.some.injEq] at hm'; subst hm'
              refine ⟨b, hb, by simp [hbm], hbi, ?_⟩
              intro c' hc' e' he'
              rcases List.mem_append.mp hc' with h' | h'
              · exact hmx c' h' e' he'
              · simp only [List.mem_singleton] at h'; subst h'; rw [hi] at he'; exact absurd he' (by simp)
          | none =>
              obtain ⟨hall, hstar⟩ := h.2 rfl
              have hall' : ∀ c' ∈ pre ++ [c], indicator c' = none := by
                intro c' hc'
                rcases List.mem_append.mp hc' with h' | h'
                · exact hall c' h'
                · simp only [List.mem_singleton] at h'; subst h'; exact hi
              cases hp : pre with
              | nil =>
                  subst hp
                  simp only [List.head?_nil] at hstar
                  subst hstar
                  simp only [Option.isNone_none, if_true]
                  apply scanStep_spec rest ([] ++ [c]) (some c) none
                  exact ⟨by intro m hm; exact absurd hm (by simp), fun _ => ⟨hall', by simp⟩⟩
              | cons p ps =>
                  subst hp
                  simp only [List.head?_cons] at hstar
                  subst hstar
                  simp only [Option.isNone_some, Bool.false_eq_true, if_false]
                  apply scanStep_spec rest (p :: ps ++ [c]) (some p) none
                  exact ⟨by intro m hm; exact absurd hm (by simp), fun _ => ⟨hall', by simp⟩⟩

theorem choose_spec (cs : List Cand) : ∃ emax, ScanInv cs (choose cs) emax := by
  have := scanStep_spec cs [] none none ⟨by intro m hm; exact absurd hm (by simp), fun _ => ⟨by simp, by simp⟩⟩
  simpa [choose] using this

/-- **The chosen index is a current candidate with the largest error indicator** `δ / max(1, cost)` among all candidates
    of all components — whenever at least one candidate has a defined indicator. -/
theorem choice_is_argmax (cs : List Cand) (c0 : Cand) (e0 : Q) (h0 : c0 ∈ cs) (hi0 : indicator c0 = some e0) :
    ∃ c e, choose cs = some c ∧ c ∈ cs ∧ indicator c = some e ∧ ∀ c' ∈ cs, ∀ e', indicator c' = some e' → e' ≤ e := by
  obtain ⟨emax, h1, h2⟩ := choose_spec cs
  cases emax with
  | none => have := (h2 rfl).1 c0 h0; rw [this] at hi0; exact absurd hi0 (by simp)
  | some m =>
      obtain ⟨b, hb, hbm, hbi, hmx⟩ := h1 m rfl
      exact ⟨b, m, hb, hbm, hbi, hmx⟩

/-- the choice is always one of the candidates -/
theorem choice_is_candidate (cs : List Cand) (c : Cand) (h : choose cs = some c) : c ∈ cs := by
  obtain ⟨emax, h1, h2⟩ := choose_spec cs
  cases emax with
  | some m =>
      obtain ⟨b, hb, hbm, _, _⟩ := h1 m rfl
      rw [h] at hb; exact (Option.some.inj hb) ▸ hbm
  | none =>
      have := (h2 rfl).2
      rw [h] at this
      exact List.mem_of_mem_head? this.symm

/-- **Training never stalls while candidates remain**: no index is chosen only when there is no candidate at all (an
    undefined, NaN, indicator falls back to the first candidate in scan order). -/
theorem choose_none_iff (cs : List Cand) : choose cs = none ↔ cs = [] := by
  constructor
  · intro h
    obtain ⟨emax, h1, h2⟩ := choose_spec cs
    cases emax with
    | some m => obtain ⟨b, hb, _⟩ := h1 m rfl; rw [h] at hb; exact absurd hb (by simp)
    | none =>
        have := (h2 rfl).2
        rw [h] at this
        cases cs with
        | nil => rfl
        | cons a l => simp at this
  · intro h; subst h; rfl

/-- when every indicator is undefined the first candidate in scan order is activated -/
theorem nan_fallback_is_first (cs : List Cand) (h : ∀ c ∈ cs, indicator c = none) : choose cs = cs.head? := by
  obtain ⟨emax, h1, h2⟩ := choose_spec cs
  cases emax with
  | none => exact (h2 rfl).2
  | some m =>
      obtain ⟨b, _, hbm, hbi, _⟩ := h1 m rfl
      rw [h b hbm] at hbi; exact absurd hbi (by simp)

/-! ### training loop -/

/-- the loop never records more entries than `maxIter` (when it starts below it) and always at least one -/
theorem fitLoop_bounds (maxIter : Nat) (tol : Q) (timeUp : Nat → Bool) :
    ∀ (steps : List StepResult) (level : Nat), level < maxIter →
      level ≤ fitLoop maxIter tol timeUp level steps ∧ fitLoop maxIter tol timeUp level steps ≤ maxIter
  | [], level, h => by simp [fitLoop]; omega
  | StepResult.noCandidate :: _, level, h => by simp [fitLoop]; omega
  | StepResult.activated err :: rest, level, h => by
      unfold fitLoop
      simp only []
      by_cases h1 : level + 1 ≥ maxIter
      · rw [if_pos h1]; omega
      · rw [if_neg h1]
        by_cases h2 : errBelow err tol = true
        · rw [if_pos h2]; omega
        · rw [if_neg h2]
          by_cases h3 : timeUp (level + 1) = true
          · rw [if_pos h3]; omega
          · rw [if_neg h3]
            have := fitLoop_bounds maxIter tol timeUp rest (level + 1) (by omega)
            omega

/-- one history entry per activation: the number of recorded entries is the number of steps consumed -/
theorem fitLoop_le_steps (maxIter : Nat) (tol : Q) (timeUp : Nat → Bool) :
    ∀ (steps : List StepResult) (level : Nat), fitLoop maxIter tol timeUp level steps ≤ level + steps.length
  | [], level => by simp [fitLoop]
  | StepResult.noCandidate :: _, level => by simp [fitLoop]
  | StepResult.activated err :: rest, level => by
      unfold fitLoop
      simp only []
      have := fitLoop_le_steps maxIter tol timeUp rest (level + 1)
      simp only [List.length_cons]
      split
      · omega
      · split
        · omega
        · split
          · omega
          · omega

/-- **Exactly the requested number of steps**: if every step activates an index whose error is not below the tolerance
    (or is NaN) and time does not run out, the loop stops exactly at `maxIter` entries. -/
theorem steps_exact (maxIter : Nat) (tol : Q) (timeUp : Nat → Bool) (hT : ∀ k, timeUp k = false) :
    ∀ (steps : List StepResult) (level : Nat), level < maxIter → maxIter - level ≤ steps.length →
      (∀ s ∈ steps, ∃ err, s = StepResult.activated err ∧ errBelow err tol = false) →
      fitLoop maxIter tol timeUp level steps = maxIter
  | [], level, h, hl, _ => by simp at hl; omega
  | s :: rest, level, h, hl, hs => by
      obtain ⟨err, rfl, herr⟩ := hs s (by simp)
      unfold fitLoop
      simp only []
      by_cases h1 : level + 1 ≥ maxIter
      · rw [if_pos h1]; omega
      · rw [if_neg h1, herr, hT]
        simp only [Bool.false_eq_true, if_false]
        apply steps_exact maxIter tol timeUp hT rest (level + 1) (by omega)
        · simp only [List.length_cons] at hl; omega
        · intro s hs'; exact hs s (by simp [hs'])

/-- training stops as soon as no candidate remains -/
theorem stops_without_candidates (maxIter : Nat) (tol : Q) (timeUp : Nat → Bool) (level : Nat)
    (rest : List StepResult) : fitLoop maxIter tol timeUp level (StepResult.noCandidate :: rest) = level := by
  simp [fitLoop]

/-! ### the loop as generated from `System.fit` -/

/-- the end tests GENERATED from the loop body are the three the property names (iteration limit, tolerance, time) -/
theorem generated_stop_is_reference (l m : Nat) (e t : Bool) : Gen.fitStop l m e t = (decide (l ≥ m) || e || t) := by
  unfold Gen.fitStop; cases e <;> cases t <;> simp

/-- the loop that the driver runs against `System.fit` (end tests generated from the source) is the reference loop -/
theorem generated_loop_is_model (maxIter : Nat) (tol : Q) (timeUp : Nat → Bool) :
    ∀ (steps : List StepResult) (level : Nat), fitLoopGen maxIter tol timeUp level steps = fitLoop maxIter tol timeUp level steps
  | [], level => by simp [fitLoopGen, fitLoop]
  | StepResult.noCandidate :: _, level => by simp [fitLoopGen, fitLoop]
  | StepResult.activated err :: rest, level => by
      unfold fitLoopGen fitLoop
      simp only []
      rw [generated_stop_is_reference, generated_loop_is_model maxIter tol timeUp rest (level + 1)]
      by_cases h1 : level + 1 ≥ maxIter
      · simp [h1]
      · by_cases h2 : errBelow err tol = true
        · simp [h1, h2]
        · by_cases h3 : timeUp (level + 1) = true
          · simp [h1, h2, h3]
          · simp [h1, h2, h3]

/-- the iteration limit of a call is relative to the history it starts from (generated from `max_iter = self.refine_level + max_iter`) -/
theorem generated_limit_is_relative (level k : Nat) : Gen.fitLimit level k = level + k := rfl

/-- an activation is recorded in the history before any end test can stop the loop (generated from the statement order) -/
theorem history_append_precedes_every_stop : Gen.fitRecordsBeforeStop = true := rfl

/-- **Training continued by a further call performs exactly the steps requested of THAT call**, whatever the length of the
    history it starts from: if the next `k` steps all activate an index whose error is not below the tolerance and time does
    not run out, a call `fit(max_iter = k)` on a history of `level` entries ends with `level + k` entries. -/
theorem continued_fit_performs_requested_steps (k : Nat) (hk : 0 < k) (tol : Q) (timeUp : Nat → Bool)
    (hT : ∀ n, timeUp n = false) (level : Nat) (steps : List StepResult) (hl : k ≤ steps.length)
    (hs : ∀ s ∈ steps, ∃ err, s = StepResult.activated err ∧ errBelow err tol = false) :
    fitCall k tol timeUp level steps = level + k := by
  unfold fitCall
  rw [generated_loop_is_model, generated_limit_is_relative]
  exact steps_exact (level + k) tol timeUp hT steps level (by omega) (by omega) hs

/-- … and never more than requested, and at least one (a call always makes one step when a candidate exists) -/
theorem continued_fit_bounds (k : Nat) (hk : 0 < k) (tol : Q) (timeUp : Nat → Bool) (level : Nat) (steps : List StepResult) :
    level ≤ fitCall k tol timeUp level steps ∧ fitCall k tol timeUp level steps ≤ level + k := by
  unfold fitCall
  rw [generated_loop_is_model, generated_limit_is_relative]
  exact fitLoop_bounds (level + k) tol timeUp steps level (by omega)

example : fitCall 2 (1/100) (fun _ => false) 5
    [StepResult.activated (some (1/2)), StepResult.activated none, StepResult.activated (some 1)] = 7 := by decide +kernel

/-! non-vacuity -/
example : (choose [{ comp := "a", idx := [1, 0], delta := some (3/7), cost := 2 },
                   { comp := "b", idx := [0, 1], delta := none, cost := 1/2 },
                   { comp := "b", idx := [1, 1], delta := some (1/2), cost := 1/2 }]).map (fun c => (c.comp, c.idx)) =
    some ("b", [1, 1]) := by decide +kernel
example : fitLoop 5 (1/1000) (fun _ => false) 0
    [.activated none, .activated (some (1/2)), .activated (some (1/3)), .activated (some (1/4)),
     .activated (some (1/5)), .activated (some (1/6))] = 5 := by decide +kernel

end Amisc.C08
