/-
  C01 (reference model part; generated obligations are in AmiscProps.C01) — Combination-technique weights equal the inclusion–exclusion formula.
  Property theorems only (helper lemmas live in AmiscProofs).  Model: AmiscModel.Index (`activate`, `run`,
  `lookahead`), spec: `IE` = Σ over 0/1 offset vectors `e` with `i + e ∈ S` of (-1)^{|e|}.
-/
import AmiscProofs.IndexExtra
import AmiscProofs.SparseBridge
import AmiscProps.C02Core

namespace Amisc.C01

/-- requests are well typed: every requested index has one entry per fidelity dimension -/
def WT (box : Idx) (rs : List Idx) : Prop := ∀ r ∈ rs, r.length = box.length

/-- Training-mode weights after ANY request sequence (admissible or not): a weight exists exactly for the members of
    the active set and equals the inclusion–exclusion value over the active set. -/
theorem ctrain_eq_IE (box : Idx) (rs : List Idx) (h : WT box rs) (i : Idx) :
    (run box rs).ctrain.get i =
      if i ∈ (run box rs).active then some (IE (run box rs).active i) else none := by
  have inv := inv_run box rs h
  by_cases hi : i ∈ (run box rs).active
  · rw [if_pos hi]
    apply CMap.get_of_has_val ((inv.hasT i).mpr hi)
    rw [inv.valT i hi, IE_eq_IEsum inv.nodupA]
    intro s hs
    rw [inv.lenA s hs, inv.lenA i hi]
  · rw [if_neg hi]
    exact CMap.get_of_not_has (fun hh => hi ((inv.hasT i).mp hh))

/-- Evaluation-mode weights: same statement over active ∪ candidate. -/
theorem ctest_eq_IE (box : Idx) (rs : List Idx) (h : WT box rs) (i : Idx) :
    (run box rs).ctest.get i =
      if i ∈ (run box rs).active ++ (run box rs).cand
      then some (IE ((run box rs).active ++ (run box rs).cand) i) else none := by
  have inv := inv_run box rs h
  have hlen : ∀ s ∈ (run box rs).active ++ (run box rs).cand, s.length = box.length := by
    intro s hs
    rcases List.mem_append.mp hs with h1 | h1
    · exact inv.lenA s h1
    · exact inv.lenC s h1
  by_cases hi : i ∈ (run box rs).active ++ (run box rs).cand
  · rw [if_pos hi]
    apply CMap.get_of_has_val ((inv.hasE i).mpr hi)
    rw [inv.valE i hi, IE_eq_IEsum inv.nodupAC]
    intro s hs
    rw [hlen s hs, hlen i hi]
  · rw [if_neg hi]
    exact CMap.get_of_not_has (fun hh => hi ((inv.hasE i).mp hh))

/-- The weights (and the candidate set) depend on the active SET alone, never on the order in which it was built. -/
theorem weights_order_independent (box : Idx) (rs rs' : List Idx) (h : WT box rs) (h' : WT box rs')
    (hset : ∀ x, x ∈ (run box rs).active ↔ x ∈ (run box rs').active) :
    (∀ i, (run box rs).ctrain.get i = (run box rs').ctrain.get i) ∧
    (∀ i, i ∈ (run box rs).cand ↔ i ∈ (run box rs').cand) ∧
    (∀ i, (run box rs).ctest.get i = (run box rs').ctest.get i) := by
  have inv := inv_run box rs h
  have inv' := inv_run box rs' h'
  have hcand : ∀ i, i ∈ (run box rs).cand ↔ i ∈ (run box rs').cand := by
    intro i
    by_cases hne : (run box rs).active = []
    · have hne' : (run box rs').active = [] := by
        cases hx : (run box rs').active with
        | nil => rfl
        | cons a l =>
            have : a ∈ (run box rs).active := (hset a).mpr (by rw [hx]; simp)
            rw [hne] at this; simp at this
      rw [inv.candEmpty hne, inv'.candEmpty hne']
    · have hne' : (run box rs').active ≠ [] := by
        intro hx
        cases hy : (run box rs).active with
        | nil => exact hne hy
        | cons a l =>
            have : a ∈ (run box rs').active := (hset a).mp (by rw [hy]; simp)
            rw [hx] at this; simp at this
      rw [inv.candMargin hne i, inv'.candMargin hne' i, inMargin_congr hset i]
  have hset2 : ∀ x, x ∈ (run box rs).active ++ (run box rs).cand ↔
      x ∈ (run box rs').active ++ (run box rs').cand := by
    intro x; simp [hset x, hcand x]
  refine ⟨fun i => ?_, hcand, fun i => ?_⟩
  · rw [ctrain_eq_IE box rs h i, ctrain_eq_IE box rs' h' i, IE_congr hset i]
    simp [hset i]
  · rw [ctest_eq_IE box rs h i, ctest_eq_IE box rs' h' i, IE_congr hset2 i]
    simp only [hset2 i]

/-- Incremental look-ahead weights used for candidate `c` (`predict(index_set={c}, incremental=True)`) are the
    inclusion–exclusion weights of active ∪ {c}. -/
theorem lookahead_eq_IE (box : Idx) (rs : List Idx) (h : WT box rs) (c : Idx) (hc : c ∈ (run box rs).cand)
    (i : Idx) :
    (lookahead (run box rs) c).get i =
      if i ∈ (run box rs).active ++ [c] then some (IE ((run box rs).active ++ [c]) i) else none := by
  have inv := inv_run box rs h
  have hcA : c ∉ (run box rs).active := fun hx => inv.disj c hx hc
  have hnd : ((run box rs).active ++ [c]).Nodup := by
    rw [List.nodup_append]
    refine ⟨inv.nodupA, by simp, ?_⟩
    intro a ha b hb e
    simp only [List.mem_singleton] at hb
    subst hb; subst e; exact hcA ha
  have hlen : ∀ s ∈ (run box rs).active ++ [c], s.length = box.length := by
    intro s hs
    rcases List.mem_append.mp hs with h1 | h1
    · exact inv.lenA s h1
    · simp only [List.mem_singleton] at h1; subst h1; exact inv.lenC s hc
  obtain ⟨hhas, hval⟩ := addNew (T := (run box rs).active) (N := [c]) (m := (run box rs).ctrain)
    inv.nodupA (by simp) (by simpa using hcA) (by simp)
    (by
      intro s hs n hn
      simp only [List.mem_singleton] at hn; subst hn
      cases hcd : cubeDist s n with
      | none => rfl
      | some d => exact absurd (inv.down s hs n (cubeDist_le hcd)) hcA)
    inv.hasT inv.valT
  unfold lookahead
  by_cases hi : i ∈ (run box rs).active ++ [c]
  · rw [if_pos hi]
    apply CMap.get_of_has_val ((hhas i).mpr hi)
    rw [hval i hi, IE_eq_IEsum hnd]
    intro s hs
    rw [hlen s hs, hlen i hi]
  · rw [if_neg hi]
    exact CMap.get_of_not_has (fun hh => hi ((hhas i).mp hh))

/-- **Training-mode weights sum to exactly 1** after any request history that activated something. -/
theorem train_weights_sum_one (box : Idx) (rs : List Idx) (h : WT box rs) (hne : (run box rs).active ≠ []) :
    ((run box rs).active.map fun i => ((run box rs).ctrain.get i).getD 0).sum = 1 := by
  have inv := inv_run box rs h
  rw [← Amisc.SB.sum_IE_eq_one inv.nodupA inv.lenA inv.down hne]
  congr 1
  apply List.map_congr_left
  intro i hi
  rw [ctrain_eq_IE box rs h i, if_pos hi]; rfl

/-- **Evaluation-mode weights sum to exactly 1** (over active ∪ candidate). -/
theorem test_weights_sum_one (box : Idx) (rs : List Idx) (h : WT box rs) (hne : (run box rs).active ≠ []) :
    (((run box rs).active ++ (run box rs).cand).map fun i => ((run box rs).ctest.get i).getD 0).sum = 1 := by
  have inv := inv_run box rs h
  have hlen : ∀ s ∈ (run box rs).active ++ (run box rs).cand, s.length = box.length := by
    intro s hs
    rcases List.mem_append.mp hs with h1 | h1
    · exact inv.lenA s h1
    · exact inv.lenC s h1
  have hne' : (run box rs).active ++ (run box rs).cand ≠ [] := by
    intro e; exact hne (List.append_eq_nil_iff.mp e).1
  rw [← Amisc.SB.sum_IE_eq_one inv.nodupAC hlen inv.downAC hne']
  congr 1
  apply List.map_congr_left
  intro i hi
  rw [ctest_eq_IE box rs h i, if_pos hi]; rfl

/-! non-vacuity: a concrete history (with an inadmissible and a repeated request) in a 2×3 box -/
example : WT [1, 2] [[0, 0], [1, 0], [5, 5], [0, 1], [1, 0], [1, 1]] := by
  intro r hr; simp at hr; rcases hr with h | h | h | h | h | h <;> subst h <;> rfl
example : (run [1, 2] [[0, 0], [1, 0], [5, 5], [0, 1], [1, 0], [1, 1]]).ctrain.get [0, 0] = some 0 ∧
    (run [1, 2] [[0, 0], [1, 0], [5, 5], [0, 1], [1, 0], [1, 1]]).ctrain.get [1, 1] = some 1 ∧
    (run [1, 2] [[0, 0], [1, 0], [5, 5], [0, 1], [1, 0], [1, 1]]).ctrain.get [1, 0] = some 0 := by decide
example : IE [[0, 0], [1, 0], [0, 1]] [0, 0] = -1 := by decide

end Amisc.C01
