/-
  C03 (coincidence tolerance) — the exactness theorems of AmiscProps.C03 are stated for coincidence tolerance 0. With the code's
  positive tolerance a point within the tolerance of exactly one node is REPLACED by that node: every 1-d basis value is the exact
  (tolerance-0) basis value at the node, so the surrogate returns the polynomial's value at a point that differs from the query by at
  most the tolerance in that coordinate (deviation ≤ tol · |∂f|); away from the nodes the two rules coincide.
-/
import AmiscProofs.SnapProofs

namespace Amisc.C03

/-- **Node snapping is evaluation at the node**: if exactly the node `i` lies within the tolerance `tol` of `x` (nodes further apart
    than the tolerance — the regime outside finding F1), the basis values `Lagrange.predict` computes at `x` are the tolerance-0 basis
    values at `grid[i]` -/
theorem node_snapping_is_evaluation_at_the_node (tol x : Q) (grid ws : List Q) (i : Nat) (hi : i < grid.length) (hnd : grid.Nodup)
    (hfl : ∀ k, k < grid.length → (qabs (x - grid.getD k 0) ≤ tol ↔ k = i)) (j : Nat) (hj : j < grid.length) :
    basis tol x grid ws j = basis 0 (grid.getD i 0) grid ws j :=
  Snap.basis_snaps tol x grid ws i hi hnd hfl j hj

/-- … and when no node lies within the tolerance, the tolerance plays no role -/
theorem no_snapping_away_from_nodes (tol x : Q) (grid ws : List Q) (htol : 0 ≤ tol)
    (hfar : ∀ k, k < grid.length → ¬ qabs (x - grid.getD k 0) ≤ tol) (j : Nat) :
    basis tol x grid ws j = basis 0 x grid ws j := by
  have hq : ∀ k, k < grid.length → ¬ qabs (x - grid.getD k 0) ≤ 0 := fun k hk h => hfar k hk (le_trans h htol)
  have hflag : ∀ t, (∀ k, k < grid.length → ¬ qabs (x - grid.getD k 0) ≤ t) → flagged t x grid = grid.map fun _ => false := by
    intro t ht
    unfold flagged
    apply List.map_congr_left
    intro xk hxk
    obtain ⟨k, hk, rfl⟩ := List.getElem_of_mem hxk
    have := ht k hk
    rw [List.getD_eq_getElem?_getD, List.getElem?_eq_getElem hk, Option.getD_some] at this
    exact decide_eq_false this
  have hdiff : ∀ t, (∀ k, k < grid.length → ¬ qabs (x - grid.getD k 0) ≤ t) → diffs t x grid = grid.map fun xk => x - xk := by
    intro t ht
    unfold diffs
    apply List.map_congr_left
    intro xk hxk
    obtain ⟨k, hk, rfl⟩ := List.getElem_of_mem hxk
    have := ht k hk
    rw [List.getD_eq_getElem?_getD, List.getElem?_eq_getElem hk, Option.getD_some] at this
    rw [if_neg this]
  unfold basis quots
  simp only []
  rw [hflag tol hfar, hflag 0 hq, hdiff tol hfar, hdiff 0 hq]

end Amisc.C03
