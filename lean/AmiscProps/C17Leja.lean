/-
  C17 (training abscissae) — the Leja sequence of `SparseGrid.collocation_1d` is equivariant under affine changes of units.
  Kept apart from AmiscProps.C17 because it depends on its own generated fragment (`Gen.lejaObjNeg`, `Gen.lejaFirst`).
-/
import AmiscProofs.LejaProofs

namespace Amisc.C17

/-- **The training abscissae are equivariant**: the Leja sequence of `SparseGrid.collocation_1d` — objective GENERATED from the
    source (`Gen.lejaObjNeg`, `Gen.lejaFirst`), global optimiser idealised as a minimiser over the candidate points — built on
    the mapped bounds `(a lb + b, a ub + b)` with the re-parameterised weight and the mapped candidates is the image of the
    original sequence, point by point, for every `a > 0`, `b`, every weight function and every number of points. -/
theorem leja_sequence_equivariant (w w' : Q → Q) (a b : Q) (ha : 0 < a) (hw : ∀ z, w' (a * z + b) = w z)
    (cands : List Q) (lb ub : Q) (n : Nat) :
    lejaFresh w' (cands.map fun p => a * p + b) (a * lb + b) (a * ub + b) n =
      (lejaFresh w cands lb ub n).map fun p => a * p + b := by
  cases n with
  | zero => rfl
  | succ n =>
      simp only [lejaFresh]
      have h1 : Gen.lejaFirst (a * lb + b) (a * ub + b) = a * Gen.lejaFirst lb ub + b := by
        unfold Gen.lejaFirst; ring
      rw [h1]
      exact Leja.lejaSeq_map w w' a b ha hw cands n [Gen.lejaFirst lb ub]

/-- extending an existing sequence (a later refinement of the same input) is equivariant as well -/
theorem leja_extension_equivariant (w w' : Q → Q) (a b : Q) (ha : 0 < a) (hw : ∀ z, w' (a * z + b) = w z)
    (cands pts : List Q) (n : Nat) :
    lejaSeq w' (cands.map fun p => a * p + b) n (pts.map fun p => a * p + b) =
      (lejaSeq w cands n pts).map fun p => a * p + b := Leja.lejaSeq_map w w' a b ha hw cands n pts

/-! non-vacuity: three Leja points on (0,1) over the candidates k/8 are 1/2, 0, 1; on (10, 14) they are 12, 10, 14 -/
example : lejaFresh (fun _ => 1) [0, 1/8, 1/4, 3/8, 1/2, 5/8, 3/4, 7/8, 1] 0 1 3 = [1/2, 0, 1] := by decide +kernel
example : lejaFresh (fun _ => 1) ([0, 1/8, 1/4, 3/8, 1/2, 5/8, 3/4, 7/8, 1].map fun p => 4 * p + 10) 10 14 3 = [12, 10, 14] := by
  decide +kernel


end Amisc.C17
