/-
  C10 — Prediction is pointwise: batching, shape and ordering never change a sample.
  Shape part: model AmiscModel.Shape (`commonShape`, `loopShape`, `outShape`, `ravel`, `unravel`) of
  `format_inputs` / `format_outputs`.  The value part (batch = map of single samples) is by construction in the models
  (`predictT`, `fpiRun`, `sweep` act on one sample) and is tied to the code by the correspondence run.
-/
import AmiscModel.Shape

namespace Amisc.C10

theorem commonShape_self : ∀ (s : Shape), commonShape s s = s
  | [] => rfl
  | a :: as => by simp [commonShape, commonShape_self as]

/-- inputs that all have one array shape `s` give exactly that loop shape -/
theorem loop_shape_same (s : Shape) (hs : s ≠ []) (n : Nat) : loopShape (List.replicate (n + 1) s) = s := by
  have h1 : atleast1d s = s := by
    unfold atleast1d
    cases s with
    | nil => exact absurd rfl hs
    | cons a l => rfl
  have this : ∀ m, (List.replicate m s).foldl commonShape s = s := by
    intro m
    induction m with
    | zero => rfl
    | succ m ih => simp [List.replicate_succ, commonShape_self, ih]
  unfold loopShape
  rw [List.map_replicate, h1, List.replicate_succ]
  simp only [List.foldl_cons, commonShape_self]
  exact this n

/-- a bare scalar counts as one sample -/
theorem loop_shape_scalar : loopShape [[]] = [1] := by decide

/-- scalars (0-d or one-element arrays) mixed with rank-1 arrays of length `n` give loop shape `(n,)` -/
theorem commonShape_one_left (n : Nat) : commonShape [1] [n] = [n] := by
  by_cases h : 1 = n
  · subst h; rfl
  · simp [commonShape, h]

theorem commonShape_one_right (n : Nat) : commonShape [n] [1] = [n] := by
  by_cases h : n = 1
  · subst h; rfl
  · simp [commonShape, h]

/-- equal-rank arrays that broadcast axis by axis give the broadcast shape -/
theorem commonShape_bcast : ∀ (a b : Shape), a.length = b.length →
    (∀ k, a.getD k 1 = b.getD k 1 ∨ a.getD k 1 = 1 ∨ b.getD k 1 = 1) →
    commonShape a b = List.zipWith (fun x y => if x = 1 then y else x) a b
  | [], [], _, _ => rfl
  | [], _ :: _, h, _ => by simp at h
  | _ :: _, [], h, _ => by simp at h
  | x :: a, y :: b, hl, hb => by
      have h0 := hb 0
      simp only [List.getD_cons_zero] at h0
      have ih := commonShape_bcast a b (by simpa using hl) (fun k => by simpa using hb (k + 1))
      simp only [commonShape, List.zipWith_cons_cons]
      by_cases hxy : x = y
      · subst hxy; simp only [if_true, ih]
        by_cases hx1 : x = 1
        · simp [hx1]
        · simp [hx1]
      · rcases h0 with h | h | h
        · exact absurd h hxy
        · subst h; simp [hxy, ih]
        · subst h
          have : ¬ x = 1 := hxy
          simp [hxy, this, ih]

/-- outputs come back in exactly the loop shape (scalar outputs) … -/
theorem out_shape_scalar (loop : Shape) (h1 : loop ≠ [1]) (h0 : loop ≠ []) : outShape loop [] = loop := by
  unfold outShape atleast1d
  cases loop with
  | nil => exact absurd rfl h0
  | cons a l => simp [h1]

/-- … and a single sample returns shape `(1,)` -/
theorem out_shape_single : outShape [1] [] = [1] := by decide

/-! ### flattening / unflattening of sample positions -/

theorem shapeSize_cons (n : Nat) (ns : Shape) : shapeSize (n :: ns) = n * shapeSize ns := by
  unfold shapeSize
  simp only [List.foldl_cons, Nat.one_mul]
  have : ∀ (l : List Nat) (a : Nat), l.foldl (· * ·) a = a * l.foldl (· * ·) 1 := by
    intro l
    induction l with
    | nil => intro a; simp
    | cons b l ih => intro a; simp only [List.foldl_cons]; rw [ih (a * b), ih (1 * b)]; simp [Nat.mul_assoc]
  exact this ns n

theorem ravel_lt : ∀ (s : Shape) (i : List Nat), s.length = i.length → (∀ k, i.getD k 0 < s.getD k 1) →
    ravel s i < shapeSize s
  | [], [], _, _ => by simp [ravel, shapeSize]
  | [], _ :: _, h, _ => by simp at h
  | _ :: _, [], h, _ => by simp at h
  | n :: ns, x :: xs, hl, hb => by
      have h0 : x < n := by simpa using hb 0
      have ih := ravel_lt ns xs (by simpa using hl) (fun k => by simpa using hb (k + 1))
      rw [shapeSize_cons]
      simp only [ravel]
      calc x * shapeSize ns + ravel ns xs < x * shapeSize ns + shapeSize ns := by omega
        _ = (x + 1) * shapeSize ns := by rw [Nat.add_mul, Nat.one_mul]
        _ ≤ n * shapeSize ns := Nat.mul_le_mul_right _ h0

/-- flattening the loop dimensions and reshaping back is the identity on sample positions -/
theorem unravel_ravel : ∀ (s : Shape) (i : List Nat), s.length = i.length → (∀ k, i.getD k 0 < s.getD k 1) →
    unravel s (ravel s i) = i
  | [], [], _, _ => rfl
  | [], _ :: _, h, _ => by simp at h
  | _ :: _, [], h, _ => by simp at h
  | n :: ns, x :: xs, hl, hb => by
      have hlt := ravel_lt ns xs (by simpa using hl) (fun k => by simpa using hb (k + 1))
      have ih := unravel_ravel ns xs (by simpa using hl) (fun k => by simpa using hb (k + 1))
      have hpos : 0 < shapeSize ns := by omega
      simp only [ravel, unravel]
      have hdiv : (x * shapeSize ns + ravel ns xs) / shapeSize ns = x := by
        rw [Nat.add_comm, Nat.add_mul_div_right _ _ hpos, Nat.div_eq_of_lt hlt, Nat.zero_add]
      have hmod : (x * shapeSize ns + ravel ns xs) % shapeSize ns = ravel ns xs := by
        rw [Nat.add_comm, Nat.add_mul_mod_self_right, Nat.mod_eq_of_lt hlt]
      rw [hdiv, hmod, ih]

/-! non-vacuity: the documentation example of `format_inputs` -/
example : loopShape [[10, 1, 5], [1, 1], [1, 20, 3]] = [10, 20] := by decide
example : unravel [2, 3, 4] (ravel [2, 3, 4] [1, 2, 3]) = [1, 2, 3] := by decide


end Amisc.C10
