/-
  C03 — Component surrogates are exact on their sparse polynomial space.
-/
import AmiscProofs.Combination

namespace Amisc.C03
open Amisc.Comb Finset

/-- **The combination-technique identity** (algebraic heart of sparse-grid exactness), over any commutative ring:
    for a finite downward-closed set `S` of multi-indices with inclusion–exclusion weights `ie S`, per-dimension
    families `u k : ℕ → R` that are stationary from level `l k` on, and `l ∈ S`,
      Σ_{i∈S} ie S i · Π_k u k (i k) = Π_k u k (l k).
    With `u k n` = the 1-d interpolation operator of level `n` applied to a monomial of degree ≤ knots·(l k) this is the
    statement that the MISC sum reproduces every monomial dominated by some index of the set. -/
theorem combination_exact {d : ℕ} {R : Type*} [CommRing R] (S : Finset (Fin d → ℕ)) (hS : DC S)
    (u : Fin d → ℕ → R) (l : Fin d → ℕ) (hl : l ∈ S) (hu : ∀ k m, l k ≤ m → u k m = u k (l k)) :
    ∑ i ∈ S, (ie S i : R) * ∏ k, u k (i k) = ∏ k, u k (l k) :=
  Amisc.Comb.combination_exact S hS u l hl hu

/-- weights of any non-empty downward-closed set sum to 1 (shared with C01) -/
theorem sum_ie_eq_one {d : ℕ} (S : Finset (Fin d → ℕ)) (hS : DC S) (hne : S.Nonempty) : ∑ i ∈ S, ie S i = 1 :=
  Amisc.Comb.sum_ie_eq_one S hS hne

/-! non-vacuity: the full 3×3 box is downward closed and contains its corner (2,2) -/
example : DC (Fintype.piFinset (fun _ : Fin 2 => Finset.range 3)) ∧
    (fun _ => 2) ∈ Fintype.piFinset (fun _ : Fin 2 => Finset.range 3) := by
  constructor
  · intro i hi j hj
    rw [Fintype.mem_piFinset] at hi ⊢
    intro k
    have h1 := hi k
    have h2 := hj k
    rw [Finset.mem_range] at h1 ⊢
    omega
  · rw [Fintype.mem_piFinset]; intro k; simp

end Amisc.C03
