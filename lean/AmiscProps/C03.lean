/-
  C03 — Component surrogates are exact on their sparse polynomial space.
-/
import AmiscProofs.Combination
import AmiscProofs.SparseExact
import AmiscProps.C01Core

namespace Amisc.C03
open Amisc.Comb Finset

/-- **The combination-technique identity** (algebraic heart of sparse-grid exactness), over any commutative ring:
    for a finite downward-closed set `S` of multi-indices with inclusion–exclusion weights `ie S`, per-dimension
    families `u k : ℕ → R` that are stationary from level `l k` on, and `l ∈ S`,
      Σ_{i∈S} ie S i · Π_k u k (i k) = Π_k u k (l k).
    With `u k n` = the 1-d interpolation operator of level `n` applied to a monomial of degree ≤ knots·(l k) this is the
    statement that the MISC sum reproduces every monomial dominated by some index of the set. -/
theorem combination_exact {d : ℕ} {R : Type*} [CommRing R] (S : Finset (Fin d → ℕ)) (hS : DC S)
    (u : Fin d → ℕ → R) (l : Fin d → ℕ) (hl : l ∈ S) (hu : ∀ k m, l k ≤ m → u k m = u k (l k)) :
    ∑ i ∈ S, (ie S i : R) * ∏ k, u k (i k) = ∏ k, u k (l k) :=
  Amisc.Comb.combination_exact S hS u l hl hu

/-- weights of any non-empty downward-closed set sum to 1 (shared with C01) -/
theorem sum_ie_eq_one {d : ℕ} (S : Finset (Fin d → ℕ)) (hS : DC S) (hne : S.Nonempty) : ∑ i ∈ S, ie S i = 1 :=
  Amisc.Comb.sum_ie_eq_one S hS hne

/-! non-vacuity: the full 3×3 box is downward closed and contains its corner (2,2) -/
example : DC (Fintype.piFinset (fun _ : Fin 2 => Finset.range 3)) ∧
    (fun _ => 2) ∈ Fintype.piFinset (fun _ : Fin 2 => Finset.range 3) := by
  constructor
  · intro i hi j hj
    rw [Fintype.mem_piFinset] at hi ⊢
    intro k
    have h1 := hi k
    have h2 := hj k
    rw [Finset.mem_range] at h1 ⊢
    omega
  · rw [Fintype.mem_piFinset]; intro k; simp


/-! ## The executable list model: `Component.predict` is exact on the sparse polynomial space -/

open Amisc.SE Amisc.Tensor Polynomial

/-- what `Lagrange.refine` leaves behind for one input dimension (distinct nodes, weights = nodal weights × common factor)
    — by `C04.refine_consistent_under_moving_bounds` every refinement history ends in `wtsInit C grid` -/
theorem refine_state_is_good (C : Q) (hC : C ≠ 0) (grid : List Q) (hnd : grid.Nodup) (hpos : 0 < grid.length) :
    GoodDim grid (wtsInit C grid) := goodDim_wtsInit C hC grid hnd hpos

/-- **one tensor term reproduces products of low-degree polynomials** (`Lagrange.predict`, any point `x`) -/
theorem tensor_term_exact (st : LState) (x : List Q) (p : ℕ → ℚ[X]) (hd : st.grids.length = x.length)
    (hgood : ∀ k, k < x.length → GoodDim (st.grids.getD k []) (st.wts.getD k []))
    (hdeg : ∀ k, k < x.length → (p k).degree < (st.grids.getD k []).length) :
    predictT 0 st (prodRows (fun k a => eval (LL.nodeFn (st.grids.getD k []) a) (p k)) (st.grids.map List.length)) x =
      [((List.range x.length).map fun k => eval (x.getD k 0) (p k)).prod] :=
  predictT_exact st x p hd hgood hdeg

/-- **C03 on the list model**, any duplicate-free downward-closed set with inclusion–exclusion weights: see
    `Amisc.SE.misc_exact`. -/
theorem surrogate_exact_on_sparse_space {na d : ℕ} (S : List Idx) (hnd : S.Nodup) (hlen : ∀ s ∈ S, s.length = na + d)
    (hdown : ∀ s ∈ S, ∀ j, Idx.le j s = true → j ∈ S)
    (nodes : ℕ → List Q) (gs : ℕ → ℕ) (hgs : Monotone gs) (hnodes : ∀ k, k < d → (nodes k).Nodup)
    (st : Idx → LState) (hN : Nested na d nodes gs st S) (f : PolyModel)
    (hf : ∀ t ∈ f, ∃ l ∈ S, (∀ k, k < d → (t.2 k).degree < gs (Idx.nth l (na + k))) ∧
      (∀ k, k < d → gs (Idx.nth l (na + k)) ≤ (nodes k).length))
    (x : List Q) (hx : x.length = d) :
    (miscSum (S.map fun i => (IE S i, predictT 0 (st i) (rowsOfPoly (st i) f) x))).getD 0 0 = f.evalAt d x :=
  misc_exact S hnd hlen hdown nodes gs hgs hnodes st hN f hf x hx

/-- **Training mode, after ANY request history**: the weights the component actually stores (`misc_coeff_train`) over the
    active set it actually reached reproduce every polynomial of the sparse space of that set. -/
theorem trained_component_exact_train {na d : ℕ} (box : Idx) (rs : List Idx) (h : C01.WT box rs)
    (hbox : box.length = na + d)
    (nodes : ℕ → List Q) (gs : ℕ → ℕ) (hgs : Monotone gs) (hnodes : ∀ k, k < d → (nodes k).Nodup)
    (st : Idx → LState) (hN : Nested na d nodes gs st (run box rs).active) (f : PolyModel)
    (hf : ∀ t ∈ f, ∃ l ∈ (run box rs).active, (∀ k, k < d → (t.2 k).degree < gs (Idx.nth l (na + k))) ∧
      (∀ k, k < d → gs (Idx.nth l (na + k)) ≤ (nodes k).length))
    (x : List Q) (hx : x.length = d) :
    (miscSum ((run box rs).active.map fun i =>
      (((run box rs).ctrain.get i).getD 0, predictT 0 (st i) (rowsOfPoly (st i) f) x))).getD 0 0 = f.evalAt d x := by
  have inv := inv_run box rs h
  rw [← misc_exact (run box rs).active inv.nodupA (fun s hs => by rw [inv.lenA s hs, hbox]) inv.down nodes gs hgs hnodes
    st hN f hf x hx]
  congr 2
  apply List.map_congr_left
  intro i hi
  rw [C01.ctrain_eq_IE box rs h i, if_pos hi]; rfl

/-- **Evaluation mode**: the same with `misc_coeff_test` over active ∪ candidate. -/
theorem trained_component_exact_test {na d : ℕ} (box : Idx) (rs : List Idx) (h : C01.WT box rs)
    (hbox : box.length = na + d)
    (nodes : ℕ → List Q) (gs : ℕ → ℕ) (hgs : Monotone gs) (hnodes : ∀ k, k < d → (nodes k).Nodup)
    (st : Idx → LState) (hN : Nested na d nodes gs st ((run box rs).active ++ (run box rs).cand)) (f : PolyModel)
    (hf : ∀ t ∈ f, ∃ l ∈ (run box rs).active ++ (run box rs).cand,
      (∀ k, k < d → (t.2 k).degree < gs (Idx.nth l (na + k))) ∧ (∀ k, k < d → gs (Idx.nth l (na + k)) ≤ (nodes k).length))
    (x : List Q) (hx : x.length = d) :
    (miscSum (((run box rs).active ++ (run box rs).cand).map fun i =>
      (((run box rs).ctest.get i).getD 0, predictT 0 (st i) (rowsOfPoly (st i) f) x))).getD 0 0 = f.evalAt d x := by
  have inv := inv_run box rs h
  have hlen : ∀ s ∈ (run box rs).active ++ (run box rs).cand, s.length = na + d := by
    intro s hs
    rcases List.mem_append.mp hs with h1 | h1
    · rw [inv.lenA s h1, hbox]
    · rw [inv.lenC s h1, hbox]
  rw [← misc_exact _ inv.nodupAC hlen inv.downAC nodes gs hgs hnodes st hN f hf x hx]
  congr 2
  apply List.map_congr_left
  intro i hi
  rw [C01.ctest_eq_IE box rs h i, if_pos hi]; rfl

/-! non-vacuity of the hypotheses: one input, the set {(0),(1)}, Leja-like nodes 1/2, 0, 1 with 1 and 3 nodes per level,
    states as `Lagrange.refine` builds them, the model `f(x) = 3 x² - x` (degree 2 < 3 = grid size of level 1) -/
section NonVacuous
def exNodes : ℕ → List Q := fun _ => [1/2, 0, 1]
def exGs : ℕ → ℕ := fun n => 2 * n + 1
def exSt : Idx → LState := fun i =>
  { grids := [(exNodes 0).take (exGs (Idx.nth i 0))], wts := [wtsInit (1/4) ((exNodes 0).take (exGs (Idx.nth i 0)))] }

example : Nested 0 1 exNodes exGs exSt [[0], [1]] := by
  refine ⟨?_, ?_, ?_⟩
  · intro i _; rfl
  · intro i _ k hk
    have : k = 0 := by omega
    subst this; simp [exSt]
  · intro i hi k hk
    have hk0 : k = 0 := by omega
    subst hk0
    simp only [List.mem_cons, List.not_mem_nil, or_false] at hi
    rcases hi with rfl | rfl
    · exact goodDim_wtsInit (1/4) (by norm_num) _ (by simp [exSt, exNodes, exGs, Idx.nth]) (by simp [exSt, exNodes, exGs, Idx.nth])
    · exact goodDim_wtsInit (1/4) (by norm_num) _
        (by simp [exSt, exNodes, exGs, Idx.nth]) (by simp [exSt, exNodes, exGs, Idx.nth])

example : Monotone exGs := fun a b h => by unfold exGs; omega
end NonVacuous

end Amisc.C03
