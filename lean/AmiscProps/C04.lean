/-
  C04 — Trained systems reproduce coupled polynomial systems exactly as bounds move.
  Composition of C03 (component exactness on all of ℝⁿ, hence beyond any guessed coupling bounds), C07 (the sweep is the
  composition), C06 (FPI) and C08 (exhaustion fills the box); what is specific to C04 is that the interpolator states stay
  valid while coupling bounds — and with them the interval capacity used by `Lagrange.refine` — move during training.
  Model: AmiscModel.Interp (`wtsInit`, `wtsAdd`, `wtsExtend`, `rescaleWts`, `refine1`).
-/
import AmiscProofs.WeightsProofs

namespace Amisc.C04

/-- the incremental weight update with one capacity is the direct formula on the extended grid -/
theorem weights_incremental_eq_direct (C : Q) (xs new : List Q) :
    wtsExtend C xs (wtsInit C xs) new = (xs ++ new, wtsInit C (xs ++ new)) := wtsExtend_wtsInit C new xs

/-- the rescaling step of `Lagrange.refine` turns weights computed under ANY earlier capacity into the direct weights
    under the current one -/
theorem rescale_restores_consistency (C0 C : Q) (h0 : C0 ≠ 0) (xs : List Q) (hlen : 1 < xs.length)
    (hd : ∀ i, i < xs.length → i ≠ 0 → xs.getD 0 0 ≠ xs.getD i 0) :
    rescaleWts C xs (wtsInit C0 xs) = wtsInit C xs := rescaleWts_correct C0 C h0 xs hlen hd

theorem wtsInit_small (C0 C : Q) (xs : List Q) (h : xs.length ≤ 1) : wtsInit C0 xs = wtsInit C xs := by
  cases xs with
  | nil => rfl
  | cons x t =>
      cases t with
      | nil => simp [wtsInit, qprod]
      | cons y t => simp at h

/-- **Weights stay consistent however the domain (capacity) moved between refinements**: refining a state whose weights
    are the direct weights under an earlier capacity `C0` with new nodes under the current capacity `C` yields the direct
    weights of the extended grid under `C` — proportional to the true barycentric weights, so the interpolant is the
    Lagrange interpolant on the extended grid. -/
theorem refine_consistent_under_moving_bounds (C0 C : Q) (h0 : C0 ≠ 0) (xs pts : List Q)
    (hd : ∀ i, i < xs.length → i ≠ 0 → xs.getD 0 0 ≠ xs.getD i 0) (hnew : extendGrid xs pts ≠ []) :
    refine1 C (some (xs, wtsInit C0 xs)) pts =
      (xs ++ extendGrid xs pts, wtsInit C (xs ++ extendGrid xs pts)) := by
  unfold refine1
  simp only []
  have : (extendGrid xs pts).isEmpty = false := by
    cases h : extendGrid xs pts with
    | nil => exact absurd h hnew
    | cons a l => rfl
  rw [this]
  simp only [Bool.false_eq_true, if_false]
  by_cases hlen : 1 < xs.length
  · rw [rescaleWts_correct C0 C h0 xs hlen hd, wtsExtend_wtsInit]
  · have hs : xs.length ≤ 1 := by omega
    have : rescaleWts C xs (wtsInit C0 xs) = wtsInit C xs := by
      unfold rescaleWts
      rw [if_neg hlen]
      exact wtsInit_small C0 C xs hs
    rw [this, wtsExtend_wtsInit]

/-! non-vacuity: three nodes weighted under capacity 1/4, two more added under capacity 1/2 -/
example : refine1 (1/2) (some ([1/2, 0, 1], wtsInit (1/4) [1/2, 0, 1])) [1/4, 3/4] =
    ([1/2, 0, 1, 1/4, 3/4], wtsInit (1/2) [1/2, 0, 1, 1/4, 3/4]) := by decide +kernel

end Amisc.C04
