/-
  C04 — Trained systems reproduce coupled polynomial systems exactly as bounds move.
  Composition of C03 (component exactness on all of ℝⁿ, hence beyond any guessed coupling bounds), C07 (the sweep is the
  composition), C06 (FPI) and C08 (exhaustion fills the box); what is specific to C04 is that the interpolator states stay
  valid while coupling bounds — and with them the interval capacity used by `Lagrange.refine` — move during training.
  Model: AmiscModel.Interp (`wtsInit`, `wtsAdd`, `wtsExtend`, `rescaleWts`, `refine1`).
-/
import AmiscProofs.WeightsProofs
import AmiscProps.C03
import AmiscProps.C07

namespace Amisc.C04

/-- the incremental weight update with one capacity is the direct formula on the extended grid -/
theorem weights_incremental_eq_direct (C : Q) (xs new : List Q) :
    wtsExtend C xs (wtsInit C xs) new = (xs ++ new, wtsInit C (xs ++ new)) := wtsExtend_wtsInit C new xs

/-- the rescaling step of `Lagrange.refine` turns weights computed under ANY earlier capacity into the direct weights
    under the current one -/
theorem rescale_restores_consistency (C0 C : Q) (h0 : C0 ≠ 0) (xs : List Q) (hlen : 1 < xs.length)
    (hd : ∀ i, i < xs.length → i ≠ 0 → xs.getD 0 0 ≠ xs.getD i 0) :
    rescaleWts C xs (wtsInit C0 xs) = wtsInit C xs := rescaleWts_correct C0 C h0 xs hlen hd

theorem wtsInit_small (C0 C : Q) (xs : List Q) (h : xs.length ≤ 1) : wtsInit C0 xs = wtsInit C xs := by
  cases xs with
  | nil => rfl
  | cons x t =>
      cases t with
      | nil => simp [wtsInit, qprod]
      | cons y t => simp at h

/-- **Weights stay consistent however the domain (capacity) moved between refinements**: refining a state whose weights
    are the direct weights under an earlier capacity `C0` with new nodes under the current capacity `C` yields the direct
    weights of the extended grid under `C` — proportional to the true barycentric weights, so the interpolant is the
    Lagrange interpolant on the extended grid. -/
theorem refine_consistent_under_moving_bounds (C0 C : Q) (h0 : C0 ≠ 0) (xs pts : List Q)
    (hd : ∀ i, i < xs.length → i ≠ 0 → xs.getD 0 0 ≠ xs.getD i 0) (hnew : extendGrid xs pts ≠ []) :
    refine1 C (some (xs, wtsInit C0 xs)) pts =
      (xs ++ extendGrid xs pts, wtsInit C (xs ++ extendGrid xs pts)) := by
  unfold refine1
  simp only []
  have : (extendGrid xs pts).isEmpty = false := by
    cases h : extendGrid xs pts with
    | nil => exact absurd h hnew
    | cons a l => rfl
  rw [this]
  simp only [Bool.false_eq_true, if_false]
  by_cases hlen : 1 < xs.length
  · rw [rescaleWts_correct C0 C h0 xs hlen hd, wtsExtend_wtsInit]
  · have hs : xs.length ≤ 1 := by omega
    have : rescaleWts C xs (wtsInit C0 xs) = wtsInit C xs := by
      unfold rescaleWts
      rw [if_neg hlen]
      exact wtsInit_small C0 C xs hs
    rw [this, wtsExtend_wtsInit]


/-! ## End to end: a feed-forward system of trained polynomial components IS the coupled polynomial system

Glue of C01 (stored weights), C03 (component exactness at EVERY point — in particular at coupling values outside any guessed
or moved coupling bounds), the state theorem above (`Lagrange.refine` leaves `wtsInit` states whatever the capacities were)
and C07 (the system sweep is the composition, whatever the listing). -/

open Amisc.SE Amisc.Tensor in
/-- a trained component as `System.predict` sees it: named inputs / output, the request history that built its index set,
    its nested grids and interpolator states, and the polynomial model `f` it was trained on -/
structure TrainedComp where
  name  : String
  ins   : List String
  out   : String
  na    : ℕ
  box   : Idx
  rs    : List Idx
  nodes : ℕ → List Q
  gs    : ℕ → ℕ
  st    : Idx → LState
  f     : SE.PolyModel

namespace TrainedComp
open Amisc.SE Amisc.Tensor Polynomial

/-- hypotheses of C03 for this component (`d` = number of inputs): well-typed history, nested grids of distinct nodes, states as
    `Lagrange.refine` leaves them, model inside the sparse polynomial space of the active set reached -/
structure OK (t : TrainedComp) : Prop where
  wt     : C01.WT t.box t.rs
  hbox   : t.box.length = t.na + t.ins.length
  mono   : Monotone t.gs
  nodup  : ∀ k, k < t.ins.length → (t.nodes k).Nodup
  nested : Nested t.na t.ins.length t.nodes t.gs t.st (run t.box t.rs).active
  space  : ∀ tm ∈ t.f, ∃ l ∈ (run t.box t.rs).active,
      (∀ k, k < t.ins.length → (tm.2 k).degree < t.gs (Idx.nth l (t.na + k))) ∧
      (∀ k, k < t.ins.length → t.gs (Idx.nth l (t.na + k)) ≤ (t.nodes k).length)

/-- the component evaluated through its SURROGATE (`Component.predict`, training mode): weighted sum of the tensor terms -/
noncomputable def surrogate (t : TrainedComp) : SComp :=
  { name := t.name, ins := t.ins, outs := [t.out],
    fn := fun e _ => (miscSum ((run t.box t.rs).active.map fun i =>
      (((run t.box t.rs).ctrain.get i).getD 0, predictT 0 (t.st i) (rowsOfPoly (t.st i) t.f) (t.ins.map e)))).getD 0 0 }

/-- the component evaluated through its MODEL -/
noncomputable def model (t : TrainedComp) : SComp :=
  { name := t.name, ins := t.ins, outs := [t.out], fn := fun e _ => t.f.evalAt t.ins.length (t.ins.map e) }

theorem surrogate_eq_model (t : TrainedComp) (h : t.OK) : t.surrogate = t.model := by
  unfold surrogate model
  congr 1
  funext e _
  exact C03.trained_component_exact_train t.box t.rs h.wt h.hbox t.nodes t.gs h.mono h.nodup t.st h.nested t.f h.space
    (t.ins.map e) (by simp)

end TrainedComp

/-- **A feed-forward system of trained components equals the system of their polynomial models at EVERY input** — for every
    listing of the components and every training history of each of them (no assumption that coupling values stay inside
    any bounds: C03 is exact outside the domain too). -/
theorem trained_feedforward_system_eq_model_system (ts : List TrainedComp) (hok : ∀ t ∈ ts, t.OK) (x : Env) :
    predictFF (ts.map TrainedComp.surrogate) x = predictFF (ts.map TrainedComp.model) x := by
  have : ts.map TrainedComp.surrogate = ts.map TrainedComp.model :=
    List.map_congr_left fun t ht => t.surrogate_eq_model (hok t ht)
  rw [this]

/-- … and therefore returns the true coupled solution of the polynomial system (exogenous inputs untouched, every coupling
    variable and output equal to its polynomial evaluated at the upstream values), independent of the listing. -/
theorem trained_feedforward_system_is_coupled_solution (ts : List TrainedComp) (hok : ∀ t ∈ ts, t.OK) (x : Env)
    (hn : ((ts.map TrainedComp.model).map (·.name)).Nodup) (hu : UniqueProducers (ts.map TrainedComp.model))
    (hnd : (ts.map TrainedComp.model).Nodup) (ha : C07.Acyclic (ts.map TrainedComp.model)) :
    Sol (ts.map TrainedComp.model) x (predictFF (ts.map TrainedComp.surrogate) x) := by
  rw [trained_feedforward_system_eq_model_system ts hok x]
  refine C07.predictFF_is_coupled_solution _ hn hu ?_ hnd ha x
  intro c hc e e' hee v
  obtain ⟨t, _, rfl⟩ := List.mem_map.mp hc
  simp only [TrainedComp.model]
  congr 1
  apply List.map_congr_left
  intro w hw
  exact hee w hw

/-! non-vacuity: three nodes weighted under capacity 1/4, two more added under capacity 1/2 -/
example : refine1 (1/2) (some ([1/2, 0, 1], wtsInit (1/4) [1/2, 0, 1])) [1/4, 3/4] =
    ([1/2, 0, 1, 1/4, 3/4], wtsInit (1/2) [1/2, 0, 1, 1/4, 3/4]) := by decide +kernel

end Amisc.C04
