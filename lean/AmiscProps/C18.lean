/-
  C18 — Replaying the training history reproduces every intermediate surrogate (index sets and weights).
  `simStep` mirrors the loop body of `System.simulate_fit` on shadow structures, including the
  `active_set = active_set or self.active_set` fallback of `_neighbors` (an empty shadow set is replaced by the LIVE set).
-/
import AmiscProofs.IndexExtra
import AmiscProps.C02

namespace Amisc.C18

/-- the request is one that `activate_index` accepts in state `st` -/
def Accepted (st : IState) (r : Idx) : Prop := r ∉ st.active ∧ (r ∈ st.cand ∨ r.total = 0)

/-- every entry of the history was accepted when it was made (what `fit` records) -/
def AllAccepted (box : Idx) : IState → List Idx → Prop
  | _, [] => True
  | st, r :: rs => r.length = box.length ∧ Accepted st r ∧ AllAccepted box (activate box st r) rs

def simRun (box : Idx) (live : List Idx) (st : IState) (hs : List Idx) : IState := hs.foldl (simStep box live) st

/-- the fallback to the live set is harmless: it is only reachable for the all-zero index, whose neighbours do not
    depend on the set -/
theorem nbrs_zero_any (box : Idx) (live : List Idx) (d : Nat) :
    nbrs box live (Idx.zero d) = nbrs box [] (Idx.zero d) := by
  unfold nbrs
  have fm_congr : ∀ (L : List Nat) (f g : Nat → Option Idx), (∀ k ∈ L, f k = g k) → L.filterMap f = L.filterMap g := by
    intro L f g hfg
    induction L with
    | nil => rfl
    | cons a L ih =>
        simp only [List.filterMap_cons, hfg a (by simp)]
        rw [ih (fun k hk => hfg k (by simp [hk]))]
  apply fm_congr
  intro k _
  have : backOK live (Idx.zero d) ((Idx.zero d).inc k) = backOK [] (Idx.zero d) ((Idx.zero d).inc k) := by
    rw [Bool.eq_iff_iff, backOK_iff, backOK_iff]
    have key : ∀ j, j < ((Idx.zero d).inc k).length →
        (((Idx.zero d).inc k).nth j = 0 ∨ ((Idx.zero d).inc k).dec j = Idx.zero d) := by
      intro j _
      by_cases hjk : k = j
      · subst hjk; right; exact Idx.dec_inc _ _
      · left; rw [Idx.nth_inc_ne _ k j hjk, Idx.nth_zero]
    constructor
    · intro _ j hj
      rcases key j hj with h | h
      · exact Or.inl h
      · exact Or.inr (Or.inr h)
    · intro _ j hj
      rcases key j hj with h | h
      · exact Or.inl h
      · exact Or.inr (Or.inr h)
  simp only [this]

/-- one replayed step equals the live activation step -/
theorem simStep_eq_activate {box : Idx} {st : IState} {r : Idx} (live : List Idx) (h : Inv box st)
    (hlen : r.length = box.length) (hacc : Accepted st r) : simStep box live st r = activate box st r := by
  obtain ⟨hA, hC⟩ := hacc
  have hn : nbrs box (if st.active.isEmpty then live else st.active) r = nbrs box st.active r := by
    cases hact : st.active with
    | nil =>
        simp only [List.isEmpty_nil, if_true]
        have hcand : st.cand = [] := h.candEmpty hact
        have h0 : r.total = 0 := by
          rcases hC with hC | hC
          · rw [hcand] at hC; simp at hC
          · exact hC
        rw [(Idx.total_eq_zero_iff r).mp h0]
        exact nbrs_zero_any box live r.length
    | cons a l => simp
  have hn' := hn
  simp only [List.isEmpty_iff] at hn'
  by_cases hCm : r ∈ st.cand
  · rw [activate_in_cand hA hCm]
    unfold simStep
    simp only [hn, hCm, decide_true, if_true]
  · have h0 : r.total = 0 := by
      rcases hC with hC | hC
      · exact absurd hC hCm
      · exact hC
    rw [activate_initial hA hCm h0]
    unfold simStep
    simp [hn', hCm]

/-- **Replay = live**: replaying any recorded history (from any reachable intermediate state) regenerates exactly the
    state — both index sets and both weight trees — that the live component had. -/
theorem replay_from {box : Idx} (live : List Idx) : ∀ (hs : List Idx) (st : IState), Inv box st →
    AllAccepted box st hs → simRun box live st hs = hs.foldl (activate box) st
  | [], _, _, _ => rfl
  | r :: hs, st, h, hall => by
      obtain ⟨hlen, hacc, hrest⟩ := hall
      simp only [simRun, List.foldl_cons]
      rw [simStep_eq_activate live h hlen hacc]
      exact replay_from live hs _ (inv_activate h hlen) hrest

theorem replay_eq_live (box : Idx) (live : List Idx) (hs : List Idx) (h : AllAccepted box IState.init hs) :
    simRun box live IState.init hs = run box hs :=
  replay_from live hs _ (inv_init box) h

/-- prefixes of a recorded history are recorded histories: the k-th yielded state is the live state after step k -/
theorem allAccepted_take (box : Idx) : ∀ (hs : List Idx) (st : IState) (k : Nat),
    AllAccepted box st hs → AllAccepted box st (hs.take k)
  | [], _, k, _ => by simp [AllAccepted]
  | _ :: _, _, 0, _ => by simp [AllAccepted]
  | r :: hs, st, k + 1, h => by
      simp only [List.take_succ_cons, AllAccepted]
      exact ⟨h.1, h.2.1, allAccepted_take box hs _ k h.2.2⟩

theorem replay_prefix_eq_live (box : Idx) (live : List Idx) (hs : List Idx) (h : AllAccepted box IState.init hs)
    (k : Nat) : simRun box live IState.init (hs.take k) = run box (hs.take k) :=
  replay_eq_live box live _ (allAccepted_take box hs _ k h)

/-! non-vacuity: a recorded 4-step history in a 2×2 box, replayed against a non-empty live set -/
example : AllAccepted [1, 1] IState.init [[0, 0], [0, 1], [1, 0], [1, 1]] := by
  simp only [AllAccepted, Accepted]; decide
example : simRun [1, 1] [[0, 0], [0, 1], [1, 0], [1, 1]] IState.init [[0, 0], [0, 1]] = run [1, 1] [[0, 0], [0, 1]] := by
  decide

/-! ### the replay step as generated from `System.simulate_fit` -/

/-- the replay step the driver runs — the statements of the loop body of `simulate_fit` read from the source, with the
    `active_set or self.active_set` fall-back of `_neighbors` — is the reference `simStep` -/
theorem generated_simStep_is_model (box : Idx) (live : List Idx) (st : IState) (idx : Idx) :
    simStepGen box live st idx = simStep box live st idx := by
  unfold simStepGen simStep Gen.nbrActiveFallback
  by_cases h2 : idx ∈ st.cand
  · simp [h2, Gen.simOps, applyCommit, C02.generated_nbrs_is_model]
  · simp [h2, Gen.simOps, applyCommit, C02.generated_nbrs_is_model]

/-- hence replaying a recorded history with the generated step regenerates the live state of the generated bookkeeping -/
theorem generated_replay_eq_live (box : Idx) (live : List Idx) (hs : List Idx) (h : AllAccepted box IState.init hs) :
    hs.foldl (simStepGen box live) IState.init = runGen box hs := by
  have : (simStepGen box live) = (simStep box live) := by
    funext st idx; exact generated_simStep_is_model box live st idx
  rw [this, C02.generated_run_is_model]
  exact replay_eq_live box live hs h

end Amisc.C18
