/-
  C07 (raw / normalised forms) — whatever mixture of model and surrogate evaluation is requested and whatever form the inputs are
  given in, the physical values that travel through `System.predict` are those of the plain composition.
  Depends on its own generated fragments (`Gen.needsDenorm`, `needsNorm`, `formAfterWrite`, `inputFormOf`), hence its own module.
-/
import AmiscModel.Forms

namespace Amisc.C07

variable (nm dn : String → Q → Q)

/-- conversions are inverse on the values that occur: `denormalize (normalize x) = x` (C16 `chain_rt` per variable) -/
def Inverse : Prop := ∀ v x, dn v (nm v x) = x

theorem gatherRaw_eq_decode (e : FEnv) : gatherRaw dn e = decode dn e := by
  funext u
  unfold gatherRaw decode Gen.needsDenorm
  cases (e u).2 <;> simp

theorem gatherNorm_decodes (h : Inverse nm dn) (e : FEnv) : (fun u => dn u (gatherNorm nm e u)) = decode dn e := by
  funext u
  unfold gatherNorm decode Gen.needsNorm
  cases hb : (e u).2 <;> simp [h u]

/-- **one component**: the values it writes stand for what the chosen path computes from the physical values of its inputs -/
theorem decode_runCompF (h : Inverse nm dn) (um : String → Bool) (c : FComp) (e : FEnv) :
    decode dn (runCompF nm dn c (um c.name) e) = runComp (c.chosen um) (decode dn e) := by
  funext v
  unfold runCompF runComp FComp.chosen decode
  simp only []
  by_cases hv : v ∈ c.outs
  · simp only [hv, if_true]
    cases hum : um c.name
    · simp only [Gen.formAfterWrite, Bool.not_false, if_true, Bool.false_eq_true, if_false]
      rw [h v, gatherNorm_decodes nm dn h e]; rfl
    · simp only [Gen.formAfterWrite, Bool.not_true, if_true, Bool.false_eq_true, if_false]
      rw [gatherRaw_eq_decode dn e]; rfl
  · simp only [hv, if_false]

/-- **The sweep with forms is the plain sweep of the chosen paths**: per-component overrides (`use_model`) change only which
    function a component applies — never the values other components receive -/
theorem decode_sweepF (h : Inverse nm dn) (um : String → Bool) : ∀ (order : List FComp) (e : FEnv),
    decode dn (sweepF nm dn um order e) = sweep (order.map fun c => c.chosen um) (decode dn e)
  | [], _ => rfl
  | c :: rest, e => by
      have ih := decode_sweepF h um rest (runCompF nm dn c (um c.name) e)
      simp only [sweepF, sweep, List.foldl_cons, List.map_cons] at ih ⊢
      rw [ih, decode_runCompF nm dn h um c e]

/-- **Inputs given raw or normalised produce the same result**: the same physical inputs, handed over in model units
    (`normalized_inputs=False`) or in normalised form (`normalized_inputs=True`), give the same physical outputs — for every
    selection of evaluation paths -/
theorem inputs_raw_or_normalised_same (h : Inverse nm dn) (um : String → Bool) (order : List FComp) (x : String → Q) :
    decode dn (sweepF nm dn um order (inputsF x false)) =
      decode dn (sweepF nm dn um order (inputsF (fun v => nm v (x v)) true)) := by
  rw [decode_sweepF nm dn h, decode_sweepF nm dn h]
  congr 1
  funext v
  simp [decode, inputsF, Gen.inputFormOf, h v]

/-- with exact surrogates (`fnSurr = fnModel`, C03) every selection of paths returns the same physical values -/
theorem overrides_do_not_change_exact_systems (h : Inverse nm dn) (um um' : String → Bool) (order : List FComp)
    (hex : ∀ c ∈ order, c.fnSurr = c.fnModel) (e : FEnv) :
    decode dn (sweepF nm dn um order e) = decode dn (sweepF nm dn um' order e) := by
  rw [decode_sweepF nm dn h, decode_sweepF nm dn h]
  congr 1
  apply List.map_congr_left
  intro c hc
  unfold FComp.chosen
  rw [hex c hc]
  simp

/-! non-vacuity: x ↦ 2x − 3 as normalisation; a model-evaluated producer feeding a surrogate-evaluated consumer -/
def exNm : String → Q → Q := fun _ x => 2 * x - 3
def exDn : String → Q → Q := fun _ z => (z + 3) / 2
def fA : FComp := { name := "a", ins := ["x"], outs := ["y"], fnModel := fun e _ => e "x" + 1, fnSurr := fun e _ => e "x" + 1 }
def fB : FComp := { name := "b", ins := ["y"], outs := ["z"], fnModel := fun e _ => 3 * e "y", fnSurr := fun e _ => 3 * e "y" }
example : decode exDn (sweepF exNm exDn (fun n => n == "a") [fA, fB] (inputsF (fun _ => 1) false)) "z" = 6 := by decide +kernel
example : (sweepF exNm exDn (fun n => n == "a") [fA, fB] (inputsF (fun _ => 1) false)) "z" = (9, true) := by decide +kernel

end Amisc.C07
