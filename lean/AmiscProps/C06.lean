/-
  C06 — Feedback loops return a fixed point within tolerance or NaN, never stale data.
  Model: AmiscModel.Sys Part 3 (`fpiRun`, `fpiOutput`): per-sample control of the fixed-point iteration in
  `System.predict` (`_end_conditions_met`), with the Jacobi map `F` of the loop and the Anderson proposal `mix` as
  parameters (ANY functions: the theorems hold for every acceleration scheme).
-/
import AmiscModel.Sys
import AmiscProofs.AffineLoop

namespace Amisc.C06

variable (F : List Q → List Q) (mix : Nat → List (List Q) → List (List Q) → List Q) (tol : Q)

/-- invariant: a converged sample carries `y = F prev'` for an iterate with `‖y − prev'‖∞ ≤ tol` -/
theorem converged_is_fixed_point (maxIter : Nat) : ∀ (fuel : Nat) (s : FpiState) (ch rh : List (List Q)),
    (s.conv = true → ∃ p, s.y = F p ∧ maxAbsDiff s.y p ≤ tol) →
    (fpiRun F mix tol maxIter fuel s ch rh).conv = true →
    ∃ p, (fpiRun F mix tol maxIter fuel s ch rh).y = F p ∧ maxAbsDiff (fpiRun F mix tol maxIter fuel s ch rh).y p ≤ tol
  | 0, s, _, _, h, hc => by simp only [fpiRun] at hc ⊢; exact h hc
  | fuel + 1, s, ch, rh, h, hc => by
      unfold fpiRun at hc ⊢
      by_cases h0 : (s.conv || !s.valid) = true
      · simp only [h0, if_true] at hc ⊢; exact h hc
      · simp only [h0, Bool.false_eq_true, if_false] at hc ⊢
        have hsc : s.conv = false := by
          cases hh : s.conv with
          | false => rfl
          | true => simp [hh] at h0
        by_cases h1 : maxAbsDiff (F s.prev) s.prev ≤ tol
        · simp only [h1, decide_true, if_true] at hc ⊢
          exact ⟨s.prev, rfl, h1⟩
        · simp only [h1, decide_false, Bool.false_eq_true, if_false] at hc ⊢
          by_cases h2 : s.k ≥ maxIter
          · simp only [h2, if_true] at hc
            rw [hsc] at hc; exact absurd hc (by simp)
          · simp only [h2, if_false] at hc ⊢
            exact converged_is_fixed_point maxIter fuel _ _ _ (by intro hh; simp [hsc] at hh) hc

/-- **A sample returned without NaN is a fixed point within tolerance**: its value is `F c` for an iterate `c` with
    `‖F c − c‖∞ ≤ tol` (so `‖F y − y‖ ≤ L·tol` for an `L`-Lipschitz loop). -/
theorem returned_is_fixed_point (maxIter fuel : Nat) (s0 : FpiState) (h0 : s0.conv = false) (y : List Q)
    (h : fpiOutput (fpiRun F mix tol maxIter fuel s0 [] []) = some y) :
    ∃ c, y = F c ∧ maxAbsDiff y c ≤ tol := by
  unfold fpiOutput at h
  by_cases hc : (fpiRun F mix tol maxIter fuel s0 [] []).conv = true
  · rw [if_pos hc] at h
    obtain ⟨p, hp1, hp2⟩ := converged_is_fixed_point F mix tol maxIter fuel s0 [] [] (by intro hh; simp [h0] at hh) hc
    have : (fpiRun F mix tol maxIter fuel s0 [] []).y = y := Option.some.inj h
    rw [this] at hp1 hp2
    exact ⟨p, hp1, hp2⟩
  · rw [if_neg hc] at h; exact absurd h (by simp)

/-- **A sample that did not converge is NaN** (the loop's coupling outputs are not returned) -/
theorem nonconverged_is_nan (s : FpiState) (h : s.conv = false) : fpiOutput s = none := by
  simp [fpiOutput, h]

/-- the sweep counter never exceeds the iteration limit: at most `maxIter + 1` sweeps -/
theorem sweeps_le (maxIter : Nat) : ∀ (fuel : Nat) (s : FpiState) (ch rh : List (List Q)),
    s.k ≤ maxIter → (fpiRun F mix tol maxIter fuel s ch rh).k ≤ maxIter
  | 0, s, _, _, h => by simpa [fpiRun] using h
  | fuel + 1, s, ch, rh, h => by
      unfold fpiRun
      by_cases h0 : (s.conv || !s.valid) = true
      · simp only [h0, if_true]; exact h
      · simp only [h0, Bool.false_eq_true, if_false]
        by_cases h1 : maxAbsDiff (F s.prev) s.prev ≤ tol
        · simp only [h1, decide_true, if_true]; exact h
        · simp only [h1, decide_false, Bool.false_eq_true, if_false]
          by_cases h2 : s.k ≥ maxIter
          · simp only [h2, if_true]; exact h
          · simp only [h2, if_false]
            exact sweeps_le maxIter fuel _ _ _ (by simp only []; omega)

/-- **Allowing more iterations never changes a sample that converged**: if the run with limit `m` ends converged, the
    run with any larger limit `m'` is the very same run. -/
theorem more_iterations_stable (m m' : Nat) (hm : m ≤ m') : ∀ (fuel : Nat) (s : FpiState) (ch rh : List (List Q)),
    s.conv = false → (fpiRun F mix tol m fuel s ch rh).conv = true →
    fpiRun F mix tol m' fuel s ch rh = fpiRun F mix tol m fuel s ch rh
  | 0, s, _, _, _, _ => by simp [fpiRun]
  | fuel + 1, s, ch, rh, hs, hc => by
      unfold fpiRun at hc ⊢
      by_cases h0 : (s.conv || !s.valid) = true
      · simp only [h0, if_true]
      · simp only [h0, Bool.false_eq_true, if_false] at hc ⊢
        by_cases h1 : maxAbsDiff (F s.prev) s.prev ≤ tol
        · simp only [h1, decide_true, if_true]
        · simp only [h1, decide_false, Bool.false_eq_true, if_false] at hc ⊢
          by_cases h2 : s.k ≥ m
          · simp only [h2, if_true] at hc
            rw [hs] at hc; exact absurd hc (by simp)
          · simp only [h2, if_false] at hc ⊢
            by_cases h3 : s.k ≥ m'
            · omega
            · simp only [h3, if_false]
              exact more_iterations_stable m m' hm fuel _ _ _ (by simp only [hs]) hc


/-! ### affine loops: the returned value against the exact linear solve -/

/-- **Decoupled affine loops** (every coupling variable `c_i ↦ a c_i + b`, `a ≠ 1`): every component of a sample returned
    without NaN lies within `|a| / |1 − a| · tol` of the exact solution `b / (1 − a)` — the tolerance amplified by the
    loop's sensitivity — for EVERY acceleration scheme `mix`, iteration limit and starting iterate. -/
theorem affine_loop_within_amplified_tolerance (a b : Q) (ha : a ≠ 1) (maxIter fuel : Nat) (s0 : FpiState)
    (h0 : s0.conv = false) (y : List Q)
    (h : fpiOutput (fpiRun (fun p => p.map fun c => a * c + b) mix tol maxIter fuel s0 [] []) = some y) :
    ∀ (i : Nat) (hi : i < y.length), |y[i] - b / (1 - a)| ≤ |a| / |1 - a| * tol := by
  obtain ⟨c, hy, hres⟩ := returned_is_fixed_point _ mix tol maxIter fuel s0 h0 y h
  intro i hi
  have hlen : y.length = c.length := by rw [hy]; simp
  have hic : i < c.length := hlen ▸ hi
  have hyi : y[i] = a * c[i] + b := by simp [hy]
  have := AffineLoop.abs_sub_le_maxAbsDiff y c i hi hic
  rw [hyi] at this ⊢
  exact AffineLoop.scalar_bound a b c[i] tol ha (le_trans this hres)

/-- **Coupled affine loops of any size** (`F c = A c + b`, exact solution `xs = A xs + b`, sensitivity `S (I − A) = I`):
    the value `y = F c` returned for an iterate `c` satisfies `y − xs = S A (c − y)` exactly — the residual pushed through
    the loop's sensitivity; in particular a zero residual returns the exact linear solve. (Matrix form; `fpiRun` returns
    `F c` for an iterate with `‖F c − c‖∞ ≤ tol` by `returned_is_fixed_point`.) -/
theorem affine_loop_error_is_amplified_residual {n : Type*} [Fintype n] [DecidableEq n]
    (A S : Matrix n n Q) (hS : S * (1 - A) = 1) (b xs c : n → Q) (hxs : xs = A.mulVec xs + b) :
    (A.mulVec c + b) - xs = (S * A).mulVec (c - (A.mulVec c + b)) ∧
    (A.mulVec c + b = c → A.mulVec c + b = xs) :=
  ⟨AffineLoop.error_eq_sensitivity_mul_residual A S hS b xs c hxs,
   AffineLoop.zero_residual_is_solution A S hS b xs c hxs⟩

/-! non-vacuity: c ↦ c/2 + 1, tol 1/10: the returned value is within (1/2)/(1/2)·(1/10) of 2 -/
example : ∃ y, fpiOutput (fpiRun (fun p => p.map fun c => (1/2 : Q) * c + 1) (fun _ ch _ => ch.getLastD []) (1/10) 20 22
    { prev := [0], y := [] } [] []) = some [y] ∧ |y - 2| ≤ 1/10 := by
  refine ⟨31/16, by decide +kernel, by norm_num⟩

/-! non-vacuity: the scalar loop c ↦ c/2 + 1 from 0 with tolerance 1/10 converges (to within tol of the fixed point 2) -/
def Fh : List Q → List Q := fun p => p.map fun c => c / 2 + 1
def mixh : Nat → List (List Q) → List (List Q) → List Q := fun _ ch _ => ch.getLastD []
/-- the per-sample control that the driver runs against `System.predict` — convergence and give-up tests GENERATED from
    `_end_conditions_met` — is the reference control the theorems above are about -/
theorem generated_fpi_is_model (maxIter : Nat) : ∀ (fuel : Nat) (s : FpiState) (ch rh : List (List Q)),
    fpiRunGen F mix tol maxIter fuel s ch rh = fpiRun F mix tol maxIter fuel s ch rh
  | 0, s, _, _ => by simp [fpiRunGen, fpiRun]
  | fuel + 1, s, ch, rh => by
      unfold fpiRunGen fpiRun
      simp only [Gen.fpiWithin, Gen.fpiGiveUp, generated_fpi_is_model maxIter fuel, decide_eq_true_eq]

/-- on giving up, every output written by the loop's components is invalidated for the non-converged samples (generated
    from the give-up branch of `_end_conditions_met`): the model's `fpiOutput = none` speaks for all of them -/
theorem give_up_invalidates_every_loop_output : Gen.fpiInvalidatesEveryLoopOutput = true := rfl

/-- hence the returned value of the generated control is a fixed point within tolerance, too -/
theorem generated_returned_is_fixed_point (maxIter fuel : Nat) (s0 : FpiState) (h0 : s0.conv = false) (y : List Q)
    (h : fpiOutput (fpiRunGen F mix tol maxIter fuel s0 [] []) = some y) :
    ∃ c, y = F c ∧ maxAbsDiff y c ≤ tol := by
  rw [generated_fpi_is_model] at h
  exact returned_is_fixed_point F mix tol maxIter fuel s0 h0 y h

example : (fpiRun Fh mixh (1/10) 20 22 { prev := [0], y := [] } [] []).conv = true := by decide +kernel
example : fpiOutput (fpiRun Fh mixh (1/10) 2 22 { prev := [0], y := [] } [] []) = none := by decide +kernel

end Amisc.C06
