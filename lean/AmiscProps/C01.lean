/-
  C01 — Combination-technique weights equal the inclusion–exclusion formula.
  Reference theorems: AmiscProps.C01Core (same namespace). This file: the update rule and bookkeeping GENERATED from the
  source are the model's, and the weight theorems restated for them.
-/
import AmiscProps.C01Core
import AmiscModel.Generated.Logic
import AmiscProps.C02

namespace Amisc.C01

/-- `sgn k = (-1)^k` -/
theorem sgn_eq_pow (k : Nat) : sgn k = (-1 : Int) ^ k := by
  induction k with
  | zero => simp [sgn]
  | succ k ih => rw [sgn_succ, ih, pow_succ]; ring

/-- **the update rule GENERATED from `Component.update_misc_coeff` on every run is the model's rule**: for two indices of
    equal length, `if np.all(np.isin(new - old, [0, 1])): coeff += (-1) ** int(np.sum(np.abs(new - old)))` contributes exactly
    `sgn |new − old|₁` when `new − old ∈ {0,1}^d` and nothing otherwise (`cubeDist`, `sgn` of `AmiscModel.Index`) -/
theorem generated_update_rule_is_model : ∀ (n o : Idx), n.length = o.length →
    Gen.coeffTerm (List.zipWith (fun (a b : Nat) => (a : Int) - (b : Int)) n o) = (cubeDist n o).map sgn
  | [], [], _ => by simp [Gen.coeffTerm, cubeDist, sgn]
  | [], _ :: _, h => by simp at h
  | _ :: _, [], h => by simp at h
  | a :: n, b :: o, h => by
      have hl : n.length = o.length := by simpa using h
      have ih := generated_update_rule_is_model n o hl
      unfold Gen.coeffTerm at ih ⊢
      rw [cubeDist]
      simp only [List.zipWith_cons_cons, List.all_cons, List.map_cons, List.sum_cons]
      by_cases h1 : a = b
      · subst h1
        simp only [sub_self, if_true]
        have : ([0, 1] : List Int).contains 0 = true := by decide
        simp only [this, Bool.true_and, Int.natAbs_zero, zero_add]
        exact ih
      · by_cases h2 : a = b + 1
        · subst h2
          have e : ((b + 1 : Nat) : Int) - (b : Int) = 1 := by push_cast; ring
          simp only [e, h1, if_false, if_true]
          have : ([0, 1] : List Int).contains 1 = true := by decide
          simp only [this, Bool.true_and, Int.natAbs_one]
          split at ih
          · next hall =>
              rw [if_pos hall]
              cases hc : cubeDist n o with
              | none => rw [hc] at ih; simp at ih
              | some k =>
                  rw [hc] at ih
                  simp only [Option.map_some, Option.some.injEq] at ih ⊢
                  rw [sgn_succ, ← ih, pow_add, pow_one]; ring
          · next hall =>
              rw [if_neg hall]
              cases hc : cubeDist n o with
              | none => rfl
              | some k => rw [hc] at ih; simp at ih
        · have hne : ¬ (([0, 1] : List Int).contains ((a : Int) - (b : Int)) = true) := by
            simp only [List.contains_cons, List.contains_nil, Bool.or_false, Bool.or_eq_true, beq_iff_eq, not_or]
            constructor
            · intro e; apply h1; omega
            · intro e; apply h2; omega
          simp only [h1, h2, if_false]
          rw [if_neg]
          · rfl
          · simp only [Bool.and_eq_true, not_and]
            intro hc; exact absurd hc hne

/-! ### the same statements about the bookkeeping GENERATED from the source (what the driver runs) -/

/-- training-mode weights of the generated bookkeeping are the inclusion–exclusion values of the active set -/
theorem generated_ctrain_eq_IE (box : Idx) (rs : List Idx) (h : WT box rs) (i : Idx) :
    (runGen box rs).ctrain.get i =
      if i ∈ (runGen box rs).active then some (IE (runGen box rs).active i) else none := by
  rw [C02.generated_run_is_model]; exact ctrain_eq_IE box rs h i

/-- evaluation-mode weights of the generated bookkeeping are the inclusion–exclusion values of active ∪ candidate -/
theorem generated_ctest_eq_IE (box : Idx) (rs : List Idx) (h : WT box rs) (i : Idx) :
    (runGen box rs).ctest.get i =
      if i ∈ (runGen box rs).active ++ (runGen box rs).cand
      then some (IE ((runGen box rs).active ++ (runGen box rs).cand) i) else none := by
  rw [C02.generated_run_is_model]; exact ctest_eq_IE box rs h i

end Amisc.C01
