/-
  C19 — Monitoring and bookkeeping options never influence what is learned.
  `Amisc.Gen.fitUnknownCallees`, `fitRefineCallSites`, `refineKwargs` are GENERATED on every run from the AST of
  `System.fit`: every call in `fit` other than `self.refine(...)` is looked up in an effect table of callees that only read
  the learning state and draw nothing from the NumPy stream (predict, test_set_performance, save_to_file, plotting,
  logging, bounds estimation before the loop); anything else is "unknown" and breaks the obligation below.
-/
import AmiscModel.Generated.Facts
import AmiscModel.Sys

namespace Amisc.C19
open Amisc.Gen

/-- monitoring configuration of `fit` -/
structure Monitor where
  testSet : Bool
  saveInterval : Nat
  plotInterval : Nat
  rootDir : Bool
  logStdout : Bool
  startTestCheck : Nat
deriving Repr

/-- the learning loop: by the frame facts it is the single `refine` call site fed only by learning options -/
def fitWith (_m : Monitor) (maxIter : Nat) (tol : Q) (timeUp : Nat → Bool) (level : Nat) (steps : List StepResult) : Nat :=
  fitLoop maxIter tol timeUp level steps

/-- **Obligation on the generated frame**: `fit` makes no call outside the effect table, has exactly one `refine` call
    site, and passes it only learning options. -/
theorem monitoring_frame :
    fitUnknownCallees = [] ∧ fitRefineCallSites = 1 := by decide

theorem refine_gets_no_monitor_option :
    ∀ k ∈ refineKwargs, k ∈ ["executor", "num_refine", "targets", "update_bounds"] := by decide

/-- **The monitoring callees draw nothing from a random stream**: no reference to `np.random` / `random` / a generator inside
    `test_set_performance`, the test-set helpers, `save_to_file`, the title printer and `predict` (GENERATED from their bodies on
    every run) — the global NumPy stream is consumed by `refine`'s input sampling only -/
theorem monitors_draw_nothing : monitorRandomUses = [] := by decide

/-- for all monitor configurations the learning trace is the same -/
theorem monitors_do_not_influence_learning (m₁ m₂ : Monitor) (maxIter : Nat) (tol : Q) (timeUp : Nat → Bool) (level : Nat)
    (steps : List StepResult) : fitWith m₁ maxIter tol timeUp level steps = fitWith m₂ maxIter tol timeUp level steps := rfl

end Amisc.C19
