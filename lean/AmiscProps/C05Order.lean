/-
  C05 (ordering contract) — the training store hands the data of an index to the interpolator in the order in which the
  interpolator's product loop consumes them. Both orders are read from the source on every run (`Gen.gridOrderIsProduct`:
  `SparseGrid._expand_grid_coords` is `itertools.product` over `range(size)` per dimension in dimension order;
  `Gen.evalLoopsAreProduct`: `Lagrange.predict / gradient / hessian` pair data row `i` with the `i`-th element of
  `itertools.product(*[range(s) for s in grid_sizes.values()])`) — the order the model uses on both sides (`prodIdx`).
-/
import AmiscModel.Generated.Consts
import AmiscModel.Store
import AmiscProofs.OrderProofs

namespace Amisc.C05

theorem ordering_contract : Gen.gridOrderIsProduct = true ∧ Gen.evalLoopsAreProduct = true := by decide

/-- **What both sides enumerate**: in the order shared by the store and the evaluation loops (`prodIdx`), the data row of grid
    coordinate `c` is row number `ravel sizes c` (row-major, last input fastest) — for every grid shape and every coordinate of it;
    and there are exactly `shapeSize sizes` rows. -/
theorem row_of_coordinate (sizes c : List Nat) (hl : c.length = sizes.length)
    (hb : ∀ k, k < sizes.length → c.getD k 0 < sizes.getD k 0) :
    (prodIdx sizes)[ravel sizes c]? = some c ∧ (prodIdx sizes).length = shapeSize sizes :=
  ⟨Order.prodIdx_getElem_ravel sizes c hl hb, Order.length_prodIdx sizes⟩

/-! the common order: last dimension fastest -/
example : prodIdx [2, 3] = [[0, 0], [0, 1], [0, 2], [1, 0], [1, 1], [1, 2]] := by decide

end Amisc.C05
