/-
  C11 (coincidence tolerance) — the derivative theorems of AmiscProps.C11 are stated for coincidence tolerance 0; away from the nodes
  (no node within the tolerance of the evaluation point) the formulas `Lagrange.gradient` / `hessian` evaluate do not depend on the
  tolerance at all, so the theorems apply verbatim to the code's positive tolerance there. (At a point within the tolerance of a node the
  code's at-node formulas use the distances of the QUERY point — an O(tolerance) perturbation covered by the float budget.)
-/
import AmiscProofs.SnapProofs

namespace Amisc.C11

theorem derivative_formulas_do_not_depend_on_the_tolerance_away_from_nodes (tol x : Q) (grid ws : List Q) (htol : 0 ≤ tol)
    (hfar : ∀ k, k < grid.length → ¬ qabs (x - grid.getD k 0) ≤ tol) (j : Nat) :
    dBasis tol x grid ws j = dBasis 0 x grid ws j ∧ d2Basis tol x grid ws j = d2Basis 0 x grid ws j :=
  Snap.dBasis_far tol x grid ws htol hfar j

end Amisc.C11
