/-
  C20 — Seeded training is reproducible across processes and hash randomisation.
  `Amisc.Gen.*Order` are GENERATED on every run from src/amisc/system.py: the classification of the expression that is
  iterated to build System.inputs(), System.coupling_variables(), the member list of a feedback loop and the loop's
  coupling list.  A set-valued source iterates in an order that depends on PYTHONHASHSEED; a dict/list source does not.
-/
import AmiscModel.Generated.Facts

namespace Amisc.C20
open Amisc.Gen

/-- how an order source resolves under a hash-dependent permutation `π` of the positions -/
def resolve (src : OrderSource) (π : List Nat) (xs : List String) : List String :=
  match src with
  | .dictOrdered => xs
  | _ => π.filterMap fun i => xs[i]?

/-- `sample_inputs`: the i-th variable in iteration order receives the i-th chunk of the random stream -/
def assignStreams (order : List String) (chunks : List Nat) : List (String × Nat) := order.zip chunks

/-- **Obligation on the generated facts**: every order source on the sampling / prediction path is insertion-ordered.
    (Does not build when a set-valued source is re-introduced.) -/
theorem all_order_sources_are_ordered :
    inputsOrder = .dictOrdered ∧ couplingOrder = .dictOrdered ∧ sccOrder = .dictOrdered ∧
    fpiCouplingOrder = .dictOrdered ∧ sampleLoopOverInputs = true := by decide

/-- the candidate scan of `System.refine` (components in listing order, candidates in the order of an `IndexSet` of integer tuples —
    integer hashes are not randomised —, results scanned in that same order with a strict comparison): ties between equal
    indicators are broken by position, never by a string hash -/
theorem refine_scan_order_is_hash_independent : refineScanOrder = .dictOrdered := by decide

/-- with ordered sources the variables, and hence the random stream each receives, do not depend on the permutation -/
theorem samples_independent_of_hash_permutation (π π' : List Nat) (xs : List String) (chunks : List Nat) :
    assignStreams (resolve inputsOrder π xs) chunks = assignStreams (resolve inputsOrder π' xs) chunks ∧
    resolve couplingOrder π xs = resolve couplingOrder π' xs ∧
    resolve sccOrder π xs = resolve sccOrder π' xs ∧
    resolve fpiCouplingOrder π xs = resolve fpiCouplingOrder π' xs := by
  obtain ⟨h1, h2, h3, h4, _⟩ := all_order_sources_are_ordered
  rw [h1, h2, h3, h4]
  exact ⟨rfl, rfl, rfl, rfl⟩

/-- why it matters: a set-valued source DOES make the stream assignment depend on the permutation -/
theorem set_order_changes_streams :
    assignStreams (resolve .setValued [0, 1] ["a", "b"]) [10, 20] ≠
    assignStreams (resolve .setValued [1, 0] ["a", "b"]) [10, 20] := by decide

end Amisc.C20
