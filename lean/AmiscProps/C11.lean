/-
  C11 — Reported gradients and Hessians are the exact derivatives of the prediction.
  The 1-d formulas coded in `Lagrange.gradient` (model: `Amisc.dBasis`) are the derivatives of the Lagrange basis
  polynomials whose weighted tensor products `Lagrange.predict` evaluates; weights may carry any common factor c ≠ 0.
-/
import AmiscProofs.BaryDeriv

open Polynomial Finset Lagrange

namespace Amisc.C11

variable {F : Type*} [Field F] {ι : Type*} [DecidableEq ι] {s : Finset ι} {v : ι → F}

/-- value: the quotient `(w_j/(x−x_j)) / Σ_k w_k/(x−x_k)` computed by `predict` IS the Lagrange basis polynomial -/
theorem value_is_lagrange_basis (hvs : Set.InjOn v s) (j : ι) (hj : j ∈ s) {x c : F} (hc : c ≠ 0)
    (hx : ∀ i ∈ s, x ≠ v i) :
    (c * nodalWeight s v j * (x - v j)⁻¹) / (∑ i ∈ s, c * nodalWeight s v i * (x - v i)⁻¹) =
      eval x (Lagrange.basis s v j) :=
  Amisc.Bary.second_form_basis hvs j hj hc hx

/-- gradient, interior points: the off-node formula of `Lagrange.gradient` is the derivative of that polynomial -/
theorem grad_offnode (hvs : Set.InjOn v s) (j : ι) (hj : j ∈ s) {x c : F} (hc : c ≠ 0) (hx : ∀ i ∈ s, x ≠ v i) :
    let S := ∑ i ∈ s, c * nodalWeight s v i * (x - v i)⁻¹
    let S2 := ∑ i ∈ s, c * nodalWeight s v i * ((x - v i)⁻¹) ^ 2
    (c * nodalWeight s v j / (S * (x - v j))) * (S2 / S - 1 / (x - v j)) =
      eval x (derivative (Lagrange.basis s v j)) :=
  Amisc.Bary.dBasis_offnode hvs j hj hc hx

/-- gradient exactly at the node of the basis function itself -/
theorem grad_at_own_node (hvs : Set.InjOn v s) (j : ι) (hj : j ∈ s) {c : F} (hc : c ≠ 0) :
    - ∑ p ∈ s.erase j, (c * nodalWeight s v p / (c * nodalWeight s v j)) / (v j - v p) =
      eval (v j) (derivative (Lagrange.basis s v j)) :=
  Amisc.Bary.dBasis_at_own_node hvs j hj hc

/-- gradient exactly at another training node -/
theorem grad_at_other_node (hvs : Set.InjOn v s) (i j : ι) (hi : i ∈ s) (hj : j ∈ s) (hij : i ≠ j) {c : F}
    (hc : c ≠ 0) :
    (c * nodalWeight s v j / (c * nodalWeight s v i)) / (v i - v j) =
      eval (v i) (derivative (Lagrange.basis s v j)) :=
  Amisc.Bary.dBasis_at_other_node hvs i j hi hj hij hc

/-! non-vacuity: three rational nodes 0, 1, 1/2 -/
example : Set.InjOn (fun i : Fin 3 => ([0, 1, 1/2] : List ℚ).getD i 0) (Finset.univ : Finset (Fin 3)) := by
  intro a _ b _ h
  fin_cases a <;> fin_cases b <;> simp_all

end Amisc.C11
