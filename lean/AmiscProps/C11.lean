/-
  C11 — Reported gradients and Hessians are the exact derivatives of the prediction.
  The 1-d formulas coded in `Lagrange.gradient` (model: `Amisc.dBasis`) are the derivatives of the Lagrange basis
  polynomials whose weighted tensor products `Lagrange.predict` evaluates; weights may carry any common factor c ≠ 0.
-/
import AmiscProofs.BaryDeriv
import AmiscProofs.TensorDeriv
import AmiscProofs.GradExact

open Polynomial Finset Lagrange

namespace Amisc.C11

variable {F : Type*} [Field F] {ι : Type*} [DecidableEq ι] {s : Finset ι} {v : ι → F}

/-- value: the quotient `(w_j/(x−x_j)) / Σ_k w_k/(x−x_k)` computed by `predict` IS the Lagrange basis polynomial -/
theorem value_is_lagrange_basis (hvs : Set.InjOn v s) (j : ι) (hj : j ∈ s) {x c : F} (hc : c ≠ 0)
    (hx : ∀ i ∈ s, x ≠ v i) :
    (c * nodalWeight s v j * (x - v j)⁻¹) / (∑ i ∈ s, c * nodalWeight s v i * (x - v i)⁻¹) =
      eval x (Lagrange.basis s v j) :=
  Amisc.Bary.second_form_basis hvs j hj hc hx

/-- gradient, interior points: the off-node formula of `Lagrange.gradient` is the derivative of that polynomial -/
theorem grad_offnode (hvs : Set.InjOn v s) (j : ι) (hj : j ∈ s) {x c : F} (hc : c ≠ 0) (hx : ∀ i ∈ s, x ≠ v i) :
    let S := ∑ i ∈ s, c * nodalWeight s v i * (x - v i)⁻¹
    let S2 := ∑ i ∈ s, c * nodalWeight s v i * ((x - v i)⁻¹) ^ 2
    (c * nodalWeight s v j / (S * (x - v j))) * (S2 / S - 1 / (x - v j)) =
      eval x (derivative (Lagrange.basis s v j)) :=
  Amisc.Bary.dBasis_offnode hvs j hj hc hx

/-- gradient exactly at the node of the basis function itself -/
theorem grad_at_own_node (hvs : Set.InjOn v s) (j : ι) (hj : j ∈ s) {c : F} (hc : c ≠ 0) :
    - ∑ p ∈ s.erase j, (c * nodalWeight s v p / (c * nodalWeight s v j)) / (v j - v p) =
      eval (v j) (derivative (Lagrange.basis s v j)) :=
  Amisc.Bary.dBasis_at_own_node hvs j hj hc

/-- gradient exactly at another training node -/
theorem grad_at_other_node (hvs : Set.InjOn v s) (i j : ι) (hi : i ∈ s) (hj : j ∈ s) (hij : i ≠ j) {c : F}
    (hc : c ≠ 0) :
    (c * nodalWeight s v j / (c * nodalWeight s v i)) / (v i - v j) =
      eval (v i) (derivative (Lagrange.basis s v j)) :=
  Amisc.Bary.dBasis_at_other_node hvs i j hi hj hij hc

/-! ## second derivatives (diagonal entries of `Lagrange.hessian`), Mathlib form -/

theorem hess_offnode (hvs : Set.InjOn v s) (j : ι) (hj : j ∈ s) {x c : F} (hc : c ≠ 0) (hx : ∀ i ∈ s, x ≠ v i) :
    let S := ∑ i ∈ s, c * nodalWeight s v i * (x - v i)⁻¹
    let qp := - ∑ i ∈ s, c * nodalWeight s v i * ((x - v i)⁻¹) ^ 2
    let qpp := 2 * ∑ i ∈ s, c * nodalWeight s v i * ((x - v i)⁻¹) ^ 3
    (c * nodalWeight s v j / (S * (x - v j))) *
        ((- qpp / S + 2 * ((qp / S) * (qp / S))) + (2 * (qp / (S * (x - v j))) + 2 / ((x - v j) * (x - v j)))) =
      eval x (derivative (derivative (Lagrange.basis s v j))) :=
  Amisc.Bary.d2Basis_offnode hvs j hj hc hx

theorem hess_at_other_node (hvs : Set.InjOn v s) (i j : ι) (hi : i ∈ s) (hj : j ∈ s) (hij : i ≠ j) {c : F}
    (hc : c ≠ 0) :
    (-2 * (c * nodalWeight s v j / (c * nodalWeight s v i)) / (v i - v j)) *
        ((∑ p ∈ s.erase i, (c * nodalWeight s v p / (c * nodalWeight s v i)) / (v i - v p)) + 1 / (v i - v j)) =
      eval (v i) (derivative (derivative (Lagrange.basis s v j))) :=
  Amisc.Bary.d2Basis_at_other_node hvs i j hi hj hij hc

theorem hess_at_own_node (hvs : Set.InjOn v s) (j : ι) (hj : j ∈ s) {c : F} (hc : c ≠ 0) :
    2 * ((∑ p ∈ s.erase j, (c * nodalWeight s v p / (c * nodalWeight s v j)) / (v j - v p)) *
         (∑ p ∈ s.erase j, (c * nodalWeight s v p / (c * nodalWeight s v j)) / (v j - v p))) +
      2 * (∑ p ∈ s.erase j, (c * nodalWeight s v p / (c * nodalWeight s v j)) / ((v j - v p) * (v j - v p))) =
      eval (v j) (derivative (derivative (Lagrange.basis s v j))) :=
  Amisc.Bary.d2Basis_at_own_node hvs j hj hc

/-! ## the executable list model (`dBasis`, `d2Basis`, `gradT`, `hessT`) -/

open Amisc.LL Amisc.Tensor Amisc.TD

/-- the 1-d factor `Lagrange.gradient` computes is the derivative of the basis polynomial — all node branches -/
theorem model_dBasis_is_derivative (grid ws : List Q) (hg : GoodDim grid ws) (x : Q) (j : ℕ) (hj : j < grid.length) :
    dBasis 0 x grid ws j = eval x (derivative (Lagrange.basis (range grid.length) (nodeFn grid) j)) := by
  obtain ⟨c, hc, hw⟩ := hg.wt
  exact dBasis_eq_eval grid ws hg.nodup hg.len c hc hw x j hj

/-- the diagonal 1-d factor `Lagrange.hessian` computes is the second derivative — all node branches -/
theorem model_d2Basis_is_second_derivative (grid ws : List Q) (hg : GoodDim grid ws) (x : Q) (j : ℕ)
    (hj : j < grid.length) :
    d2Basis 0 x grid ws j =
      eval x (derivative (derivative (Lagrange.basis (range grid.length) (nodeFn grid) j))) := by
  obtain ⟨c, hc, hw⟩ := hg.wt
  exact d2Basis_eq_eval grid ws hg.nodup hg.len c hc hw x j hj

/-- **C11 for one tensor term**: gradient and diagonal Hessian entry are the first and second derivative, in `x_m`, of the
    polynomial that the prediction evaluates (any data, any output column, any point). -/
theorem jacobian_hessian_are_derivatives (st : LState) (x : List Q) (hd : st.grids.length = x.length)
    (rows : List (List Q)) (o : ℕ) (ho : o < (rows.head?.map List.length).getD 0) (m : ℕ) (hm : m < x.length)
    (hg : GoodDim (st.grids.getD m []) (st.wts.getD m [])) :
    (∀ t, (predictT 0 st rows (x.set m t)).getD o 0 = eval t (slicePoly st x m rows o fun _ => 0)) ∧
    (gradT 0 st rows x m).getD o 0 = eval (x.getD m 0) (derivative (slicePoly st x m rows o fun _ => 0)) ∧
    (hessT 0 st rows x m m).getD o 0 =
      eval (x.getD m 0) (derivative (derivative (slicePoly st x m rows o fun _ => 0))) :=
  grad_hess_are_derivatives st x hd rows o ho m hm hg

/-- **cross terms** `(m,n)`, `m ≠ n`: derivative in `x_n` of the polynomial whose value is the gradient entry `m` -/
theorem hessian_cross_is_derivative (st : LState) (x : List Q) (hd : st.grids.length = x.length)
    (rows : List (List Q)) (o : ℕ) (ho : o < (rows.head?.map List.length).getD 0) (m n : ℕ) (hmn : m ≠ n)
    (hn : n < x.length) (hg : GoodDim (st.grids.getD n []) (st.wts.getD n [])) :
    (∀ t, (gradT 0 st rows (x.set n t) m).getD o 0 =
      eval t (slicePoly st x n rows o fun d => if d = m then 1 else 0)) ∧
    (hessT 0 st rows x m n).getD o 0 =
      eval (x.getD n 0) (derivative (slicePoly st x n rows o fun d => if d = m then 1 else 0)) :=
  hess_cross_is_derivative st x hd rows o ho m n hmn hn hg

/-! ## component level (`Component.gradient` / `hessian` = weighted sums over the index set) -/

open Amisc.SE Amisc.GE

/-- one polynomial `P` in `x_m` (all other coordinates frozen) with `predict(x[m:=t]) = P(t)` for all `t`,
    `jacobian_m(x) = P'(x_m)` and `hessian_mm(x) = P''(x_m)`, for ANY weights and data (single output) -/
theorem component_jacobian_hessian_are_derivatives (S : List Idx) (c : Idx → ℤ) (st : Idx → LState)
    (rows : Idx → List (List Q)) (x : List Q) (m : ℕ)
    (hd : ∀ i ∈ S, (st i).grids.length = x.length) (hm : m < x.length)
    (hg : ∀ i ∈ S, GoodDim ((st i).grids.getD m []) ((st i).wts.getD m []))
    (hny : ∀ i ∈ S, ((rows i).head?.map List.length).getD 0 = 1) :
    (∀ t, (miscSum (S.map fun i => (c i, predictT 0 (st i) (rows i) (x.set m t)))).getD 0 0 =
      eval t (compSlice S c st rows x m fun _ => 0)) ∧
    (miscSum (S.map fun i => (c i, gradT 0 (st i) (rows i) x m))).getD 0 0 =
      eval (x.getD m 0) (derivative (compSlice S c st rows x m fun _ => 0)) ∧
    (miscSum (S.map fun i => (c i, hessT 0 (st i) (rows i) x m m))).getD 0 0 =
      eval (x.getD m 0) (derivative (derivative (compSlice S c st rows x m fun _ => 0))) :=
  component_derivatives S c st rows x m hd hm hg hny

/-- for polynomial models within the surrogate's polynomial space the reported derivatives are the analytic ones -/
theorem derivatives_exact_for_polynomial_models {na d : ℕ} (S : List Idx) (hnd : S.Nodup)
    (hlen : ∀ s ∈ S, s.length = na + d) (hdown : ∀ s ∈ S, ∀ j, Idx.le j s = true → j ∈ S)
    (nodes : ℕ → List Q) (gs : ℕ → ℕ) (hgs : Monotone gs) (hnodes : ∀ k, k < d → (nodes k).Nodup)
    (st : Idx → LState) (hN : Nested na d nodes gs st S) (f : PolyModel)
    (hf : ∀ t ∈ f, ∃ l ∈ S, (∀ k, k < d → (t.2 k).degree < gs (Idx.nth l (na + k))) ∧
      (∀ k, k < d → gs (Idx.nth l (na + k)) ≤ (nodes k).length))
    (x : List Q) (hx : x.length = d) (m : ℕ) (hm : m < d) :
    (miscSum (S.map fun i => (IE S i, gradT 0 (st i) (rowsOfPoly (st i) f) x m))).getD 0 0 =
      eval (x.getD m 0) (derivative (slice f d x m)) ∧
    (miscSum (S.map fun i => (IE S i, hessT 0 (st i) (rowsOfPoly (st i) f) x m m))).getD 0 0 =
      eval (x.getD m 0) (derivative (derivative (slice f d x m))) :=
  derivatives_exact S hnd hlen hdown nodes gs hgs hnodes st hN f hf x hx m hm

/-- … and the cross entry `(m,n)`, `m ≠ n`, is the analytic mixed partial derivative `∂²f/∂x_n∂x_m` -/
theorem cross_derivatives_exact_for_polynomial_models {na d : ℕ} (S : List Idx) (hnd : S.Nodup)
    (hlen : ∀ s ∈ S, s.length = na + d) (hdown : ∀ s ∈ S, ∀ j, Idx.le j s = true → j ∈ S)
    (nodes : ℕ → List Q) (gs : ℕ → ℕ) (hgs : Monotone gs) (hnodes : ∀ k, k < d → (nodes k).Nodup)
    (st : Idx → LState) (hN : Nested na d nodes gs st S) (f : PolyModel)
    (hf : ∀ t ∈ f, ∃ l ∈ S, (∀ k, k < d → (t.2 k).degree < gs (Idx.nth l (na + k))) ∧
      (∀ k, k < d → gs (Idx.nth l (na + k)) ≤ (nodes k).length))
    (x : List Q) (hx : x.length = d) (m n : ℕ) (hm : m < d) (hn : n < d) (hmn : m ≠ n) :
    (miscSum (S.map fun i => (IE S i, hessT 0 (st i) (rowsOfPoly (st i) f) x m n))).getD 0 0 =
      eval (x.getD n 0) (derivative (slice (dModel f m) d x n)) :=
  cross_derivative_exact S hnd hlen hdown nodes gs hgs hnodes st hN f hf x hx m n hm hn hmn

/-! non-vacuity: three rational nodes 0, 1, 1/2 -/
example : Set.InjOn (fun i : Fin 3 => ([0, 1, 1/2] : List ℚ).getD i 0) (Finset.univ : Finset (Fin 3)) := by
  intro a _ b _ h
  fin_cases a <;> fin_cases b <;> simp_all

end Amisc.C11
