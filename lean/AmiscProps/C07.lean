/-
  C07 — Feed-forward prediction is the composition of components in dependency order.
  Model: AmiscModel.Sys Part 1 (`runComp`, `sweep`, `toposort`, `predictFF`).
-/
import AmiscProofs.SweepProofs
import AmiscProofs.ToposortProofs

namespace Amisc.C07

theorem uniqueProducers_perm {a b : List SComp} (h : a.Perm b) (hu : UniqueProducers a) : UniqueProducers b :=
  fun c hc d hd v hv hv' => hu c (h.mem_iff.mpr hc) d (h.mem_iff.mpr hd) v hv hv'

theorem readsIns_perm {a b : List SComp} (h : a.Perm b) (hr : ReadsIns a) : ReadsIns b :=
  fun c hc => hr c (h.mem_iff.mpr hc)

/-- **The sweep computes the coupled solution**: evaluating the components in a topological order yields an environment
    that equals the input on exogenous variables and satisfies `e v = c.fn e v` for every output `v` of every component
    `c` — i.e. the composition of the components with upstream outputs fed to downstream inputs. -/
theorem sweep_eq_denotation (order : List SComp) (hu : UniqueProducers order) (hr : ReadsIns order)
    (hnd : order.Nodup) (htopo : isTopo order [] order = true) (x : Env) : Sol order x (sweep order x) :=
  sweep_sol order hu hr hnd htopo x

/-- … and that solution is unique, so ANY two topological orders of the same components — in particular the orders
    obtained from any two listings/insertions of the components — give the same value for every variable. -/
theorem listing_permutation_invariant (o1 o2 : List SComp) (h : o1.Perm o2) (hu : UniqueProducers o1)
    (hr : ReadsIns o1) (hnd : o1.Nodup) (ht1 : isTopo o1 [] o1 = true) (ht2 : isTopo o2 [] o2 = true) (x : Env) :
    ∀ v, sweep o1 x v = sweep o2 x v := by
  have s1 := sweep_sol o1 hu hr hnd ht1 x
  have s2 := sweep_sol o2 (uniqueProducers_perm h hu) (readsIns_perm h hr) (h.nodup_iff.mp hnd) ht2 x
  exact sol_unique o1 hr ht1 x _ _ s1 (sol_perm h.symm s2)

theorem sweep_not_written : ∀ (q : List SComp) (e : Env) (v : String), v ∉ produced q → sweep q e v = e v
  | [], _, _, _ => rfl
  | c :: q, e, v, h => by
      have hc : v ∉ c.outs := fun ho => h (mem_produced.mpr ⟨c, by simp, ho⟩)
      have hq : v ∉ produced q := fun hp => h (by
        obtain ⟨d, hd, hv⟩ := mem_produced.mp hp
        exact mem_produced.mpr ⟨d, by simp [hd], hv⟩)
      simp only [sweep, List.foldl_cons]
      have := sweep_not_written q (runComp c e) v hq
      simp only [sweep] at this
      rw [this, runComp_other hc]

/-- Asking for a subset of outputs (the early exit of `System.predict` truncates the topological order once all targets
    are computed) returns the same values for those outputs as the full run. -/
theorem targets_subset_same_values (p q : List SComp) (hu : UniqueProducers (p ++ q)) (hnd : (p ++ q).Nodup) (x : Env) :
    ∀ v ∈ produced p, sweep (p ++ q) x v = sweep p x v := by
  intro v hv
  have : sweep (p ++ q) x = sweep q (sweep p x) := by simp [sweep, List.foldl_append]
  rw [this]
  apply sweep_not_written
  intro hq
  obtain ⟨c, hc, hvc⟩ := mem_produced.mp hv
  obtain ⟨d, hd, hvd⟩ := mem_produced.mp hq
  have hcd := hu c (by simp [hc]) d (by simp [hd]) v hvc hvd
  rw [List.nodup_append] at hnd
  exact hnd.2.2 c hc d hd hcd

/-! ## the full model function `predictFF` (dependency sort included) -/

/-- a system "has no feedback loop": some arrangement of the listed components is a topological order -/
def Acyclic (cs : List SComp) : Prop := ∃ o : List SComp, o.Perm cs ∧ isTopo cs [] o = true

theorem acyclic_perm {cs cs' : List SComp} (h : cs.Perm cs') (ha : Acyclic cs) : Acyclic cs' := by
  obtain ⟨o, ho, ht⟩ := ha
  refine ⟨o, ho.trans h, ?_⟩
  rw [← isTopo_congr_all (fun v => produced_perm h v)]
  exact ht

/-- the dependency sort itself is correct: it always returns a topological order, and for an acyclic system with distinct
    component names a permutation of the listed components -/
theorem sort_is_topological (cs : List SComp) : isTopo cs [] (toposort cs) = true := toposort_isTopo cs

theorem sort_is_permutation (cs : List SComp) (hn : (cs.map (·.name)).Nodup) (ha : Acyclic cs) :
    (toposort cs).Perm cs := toposort_perm cs hn ha

/-- **`System.predict` on a feed-forward system computes the coupled solution**: whatever the listing, the returned
    environment equals the input on exogenous variables and satisfies `e v = c.fn e v` for every output of every component -/
theorem predictFF_is_coupled_solution (cs : List SComp) (hn : (cs.map (·.name)).Nodup) (hu : UniqueProducers cs)
    (hr : ReadsIns cs) (hnd : cs.Nodup) (ha : Acyclic cs) (x : Env) : Sol cs x (predictFF cs x) := by
  have hp := toposort_perm cs hn ha
  have ht : isTopo (toposort cs) [] (toposort cs) = true := by
    rw [isTopo_congr_all (fun v => produced_perm hp v)]
    exact toposort_isTopo cs
  exact sol_perm hp (sweep_sol (toposort cs) (uniqueProducers_perm hp.symm hu) (readsIns_perm hp.symm hr)
    (hp.nodup_iff.mpr hnd) ht x)

/-- **… and therefore does not depend on the order in which the components were listed or inserted** -/
theorem predictFF_listing_invariant (cs cs' : List SComp) (h : cs.Perm cs') (hn : (cs.map (·.name)).Nodup)
    (hu : UniqueProducers cs) (hr : ReadsIns cs) (hnd : cs.Nodup) (ha : Acyclic cs) (x : Env) :
    ∀ v, predictFF cs x v = predictFF cs' x v := by
  have s1 := predictFF_is_coupled_solution cs hn hu hr hnd ha x
  have s2 := predictFF_is_coupled_solution cs' ((h.map _).nodup_iff.mp hn) (uniqueProducers_perm h hu)
    (readsIns_perm h hr) (h.nodup_iff.mp hnd) (acyclic_perm h ha) x
  have hp := toposort_perm cs hn ha
  have ht : isTopo (toposort cs) [] (toposort cs) = true := by
    rw [isTopo_congr_all (fun v => produced_perm hp v)]
    exact toposort_isTopo cs
  exact sol_unique (toposort cs) (readsIns_perm hp.symm hr) ht x _ _ (sol_perm hp.symm s1)
    (sol_perm (h.symm.trans hp.symm) s2)

/-! ## NaN samples: the code's single validity mask (finding F15)

`System.predict` keeps ONE mask per call: after every component, samples whose freshly written outputs are NaN are dropped
for the rest of the sweep. The model below mirrors that (values are `Option Q`, `none` = NaN, one sample); the witness shows
that with this rule the output of an independent sibling depends on the listing — the full-strength property is FALSE of
the pinned tree for NaN-producing components, and the check reports it as known finding F15. -/

/-- one sample through the sweep with the code's global mask: once `valid` is false no later component is evaluated and its
    outputs stay `none` -/
def sweepGlobalMask (order : List (List String × List String × ((String → Option Q) → String → Option Q)))
    (env : String → Option Q) : String → Option Q :=
  (order.foldl (fun (st : (String → Option Q) × Bool) c =>
      if st.2 then
        let env' : String → Option Q := fun v => if v ∈ c.2.1 then c.2.2 st.1 v else st.1 v
        (env', c.2.1.all fun v => (env' v).isSome)
      else st) (env, true)).1

def nA : List String × List String × ((String → Option Q) → String → Option Q) :=
  (["x"], ["y0"], fun e _ => (e "x").map (· * 2))
def nB : List String × List String × ((String → Option Q) → String → Option Q) :=
  (["y0"], ["yb"], fun e _ => (e "y0").bind fun y => if y ≤ 1 then none else some (y - 1))      -- undefined for y0 ≤ 1
def nC : List String × List String × ((String → Option Q) → String → Option Q) :=
  (["y0"], ["yc"], fun e _ => (e "y0").map (· + 1))
def nEnv : String → Option Q := fun v => if v = "x" then some (1/10) else none

/-- **F15 witness**: the same three components, both orders topological; `yc` is a value in one listing and NaN in the other -/
theorem global_mask_listing_dependent :
    sweepGlobalMask [nA, nC, nB] nEnv "yc" = some (6/5) ∧ sweepGlobalMask [nA, nB, nC] nEnv "yc" = none := by
  constructor <;> decide +kernel

/-! non-vacuity: a two-component chain listed in both orders -/
def cA : SComp := { name := "a", ins := ["x"], outs := ["y"], fn := fun e v => if v = "y" then e "x" * e "x" + 1 else 0 }
def cB : SComp := { name := "b", ins := ["y", "x"], outs := ["z"], fn := fun e v => if v = "z" then e "y" - 3 * e "x" else 0 }
example : isTopo [cA, cB] [] [cA, cB] = true := by decide
example : (toposort [cB, cA]).map (·.name) = ["a", "b"] := by decide
example : predictFF [cB, cA] (fun v => if v = "x" then 2 else 0) "z" = -1 := by decide +kernel
example : Acyclic [cB, cA] := ⟨[cA, cB], List.Perm.swap _ _ _, by decide⟩

end Amisc.C07
