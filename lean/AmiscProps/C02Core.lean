/-
  C02 (reference model part) — Index sets stay downward-closed; candidates are exactly the admissible margin.
  Theorems about the reference bookkeeping `activate` / `run`; `AmiscProps.C02` adds the obligations tying the bookkeeping
  GENERATED from the source to it. Kept apart so that properties that only use the reference theorems (C03, C04, C11) do
  not stop building when a generated fragment changes.
-/
import AmiscProofs.IndexExtra

namespace Amisc.C02

def WT (box : Idx) (rs : List Idx) : Prop := ∀ r ∈ rs, r.length = box.length

/-- In every reachable state (after ANY request sequence): active and candidate sets are duplicate-free and disjoint,
    the active set is downward closed (both in the order formulation and as computed by `is_downward_closed`), no
    index exceeds the declared maxima, and the candidate set is exactly the admissible margin. -/
theorem inv_reachable (box : Idx) (rs : List Idx) (h : WT box rs) :
    let st := run box rs
    st.active.Nodup ∧ st.cand.Nodup ∧ (∀ i ∈ st.active, i ∉ st.cand) ∧
    isDownwardClosed st.active = true ∧ isDC st.active = true ∧
    (∀ i ∈ st.active ++ st.cand, Idx.le i box = true) ∧
    (st.active = [] → st.cand = []) ∧
    (st.active ≠ [] → ∀ i, i ∈ st.cand ↔ inMargin box st.active i = true) := by
  intro st
  have inv := inv_run box rs h
  refine ⟨inv.nodupA, inv.nodupC, inv.disj, isDownwardClosed_iff.mpr inv.down, isDC_of_down inv.down, ?_,
    inv.candEmpty, inv.candMargin⟩
  intro i hi
  rcases List.mem_append.mp hi with h1 | h1
  · exact inv.leBox i h1
  · have hne : st.active ≠ [] := by
      intro he
      have := inv.candEmpty he
      rw [this] at h1; simp at h1
    exact (inMargin_iff.mp ((inv.candMargin hne i).mp h1)).2.1

/-- one-step form: the invariant is preserved by every request -/
theorem inv_step (box : Idx) (st : IState) (r : Idx) (hr : r.length = box.length) :
    Inv box st → Inv box (activate box st r) := fun h => inv_activate h hr

/-- A request for an index that is already active, or that is not a candidate (other than the all-zero index),
    changes nothing — index sets and both weight trees. -/
theorem rejected_is_noop (box : Idx) (st : IState) (r : Idx)
    (h : r ∈ st.active ∨ (r ∉ st.cand ∧ r.total > 0)) : activate box st r = st :=
  activate_rejected h

/-- From the empty state exactly the all-zero request is accepted. -/
theorem first_index (box : Idx) (r : Idx) (hr : r.length = box.length) :
    (activate box IState.init r ≠ IState.init ↔ r = Idx.zero box.length) := by
  constructor
  · intro hne
    apply Classical.byContradiction
    intro hz
    apply hne
    apply activate_rejected
    right
    refine ⟨by simp [IState.init], ?_⟩
    apply Nat.pos_of_ne_zero
    intro h0
    apply hz
    rw [← hr]
    exact (Idx.total_eq_zero_iff r).mp h0
  · intro hz hinit
    have h0 : r.total = 0 := by
      rw [Idx.total_eq_zero_iff, hr]; exact hz
    have := activate_initial (box := box) (st := IState.init) (idx := r) (by simp [IState.init])
      (by simp [IState.init]) h0
    rw [hinit] at this
    have h2 := congrArg IState.active this
    simp [IState.init, unionNew] at h2

/-- Activation stops being possible precisely when the whole fidelity box is active. -/
theorem cand_empty_iff_full (box : Idx) (rs : List Idx) (h : WT box rs) (hne : (run box rs).active ≠ []) :
    (run box rs).cand = [] ↔ ∀ i, Idx.le i box = true → i ∈ (run box rs).active := by
  have inv := inv_run box rs h
  constructor
  · intro hc i hib
    apply Classical.byContradiction
    intro hi
    obtain ⟨c, hcm⟩ := exists_margin i hi hib
    have := (inv.candMargin hne c).mpr hcm
    rw [hc] at this; simp at this
  · intro hfull
    cases hcs : (run box rs).cand with
    | nil => rfl
    | cons c rest =>
        exfalso
        have hc : c ∈ (run box rs).cand := by rw [hcs]; simp
        obtain ⟨h1, h2, _⟩ := inMargin_iff.mp ((inv.candMargin hne c).mp hc)
        exact h1 (hfull c h2)

/-- The Python predicate `is_downward_closed` (all smaller indices present) agrees with the neighbour formulation. -/
theorem isDownwardClosed_spec (A : List Idx) : isDownwardClosed A = isDC A := by
  rw [Bool.eq_iff_iff]
  constructor
  · intro h; exact isDC_of_down (isDownwardClosed_iff.mp h)
  · intro h; exact isDownwardClosed_iff.mpr (down_of_isDC h)

/-- no accepted index ever exceeds the declared maximum fidelities: every member is in the box enumeration -/
theorem never_beyond_box (box : Idx) (rs : List Idx) (h : WT box rs) :
    ∀ i ∈ (run box rs).active ++ (run box rs).cand, i ∈ fullBox box := by
  intro i hi
  exact mem_fullBox.mpr ((inv_reachable box rs h).2.2.2.2.2.1 i hi)

/-! non-vacuity -/
example : (run [1, 1] [[0, 0], [1, 0], [0, 1], [1, 1]]).cand = [] ∧
    (run [1, 1] [[0, 0], [1, 0], [0, 1], [1, 1]]).active ≠ [] := by decide
example : (run [1, 2] [[0, 0], [1, 1], [1, 0]]).cand ≠ [] := by decide
example : activate [1, 2] (run [1, 2] [[0, 0]]) [1, 1] = run [1, 2] [[0, 0]] := by decide

end Amisc.C02
