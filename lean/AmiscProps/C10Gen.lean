/-
  C10 (generated shape rules) — the shape algebra assembled from the fragments read out of `format_inputs._common_shape` and
  `format_outputs` (what the driver runs) is the reference algebra of AmiscProps.C10. Own module: depends on generated fragments.
-/
import AmiscModel.Shape

namespace Amisc.C10

/-! ### the shape rules GENERATED from `format_inputs._common_shape` / `format_outputs` are the model's -/

/-- one axis of the broadcasting rule, as read from the if/elif chain of `_common_shape`, is the reference rule -/
theorem generated_commonShape_is_model : ∀ (a b : Shape), commonShapeGen a b = commonShape a b
  | [], _ => by simp [commonShapeGen, commonShape]
  | _ :: _, [] => by simp [commonShapeGen, commonShape]
  | x :: xs, y :: ys => by
      have ih := generated_commonShape_is_model xs ys
      simp only [commonShapeGen, commonShape, Gen.commonStep, ih]
      by_cases h1 : x = y
      · rw [if_pos h1, if_pos h1]
      · rw [if_neg h1, if_neg h1]
        by_cases h2 : x = 1
        · rw [if_pos h2, if_pos h2]
        · rw [if_neg h2, if_neg h2]
          by_cases h3 : y = 1
          · rw [if_pos h3, if_pos h3]
          · rw [if_neg h3, if_neg h3]

theorem generated_loopShape_is_model (shapes : List Shape) : loopShapeGen shapes = loopShape shapes := by
  unfold loopShapeGen loopShape
  have : commonShapeGen = commonShape := by funext a b; exact generated_commonShape_is_model a b
  rw [this]

/-- the two squeeze tests of `format_outputs` (a singleton output, a singleton loop shape) are the reference tests -/
theorem generated_outShape_is_model (loop out : Shape) : outShapeGen loop out = outShape loop out := by
  unfold outShapeGen outShape Gen.squeezeOut Gen.squeezeLoop
  simp only [beq_iff_eq]


end Amisc.C10
