/-
  C13 — Interrupted training saves a consistent state that resumes to the same result.
  Model: one activation as a sequence of micro-steps mirroring `Component.activate_index`
    refine(index 1) … refine(index n) ; model call ; store(index 1) … store(index n) ; index-set/weight bookkeeping
  with a crash possible before any micro-step; persisted state = (index state, store).
-/
import AmiscProofs.StoreProofs
import AmiscProofs.IndexInv
import AmiscModel.Generated.Logic

namespace Amisc.C13

inductive MicroStep where
  | refine (a b : Idx)
  | modelCall
  | store (i : Nat)
  | bookkeeping
deriving Repr, DecidableEq

structure AState where
  ist : IState
  g : SGrid

/-- statement order of `activate_index` for a batch of indices -/
def microSteps (batch : List (Idx × Idx)) : List MicroStep :=
  batch.map (fun ab => MicroStep.refine ab.1 ab.2) ++ [MicroStep.modelCall] ++
  (List.range batch.length).map MicroStep.store ++ [MicroStep.bookkeeping]

/-- the order assumed by `microSteps` (index-set / weight bookkeeping LAST) is the order of the statements of the current
    `Component.activate_index`: regenerated from the source on every run (`harness/translate/tr_logic.py`) -/
theorem code_commits_last : Gen.activateCommitLast = true := by decide

def applyMicro (box req : Idx) (design : List (Idx × List Coord)) (s : AState) : MicroStep → AState
  | .refine a b => { s with g := (sgRefine s.g a b).1 }
  | .modelCall => s
  | .store i =>
      let d := design.getD i ([], [])
      { s with g := { s.g with stored := s.g.stored ++ d.2.map fun c => (d.1, c) } }
  | .bookkeeping => { s with ist := activate box s.ist req }

/-- the state left behind when the process is interrupted before micro-step number `k` -/
def crashAt (box req : Idx) (batch : List (Idx × Idx)) (design : List (Idx × List Coord)) (s : AState) (k : Nat) : AState :=
  ((microSteps batch).take k).foldl (applyMicro box req design) s

theorem foldl_ist_unchanged (box req : Idx) (design : List (Idx × List Coord)) :
    ∀ (steps : List MicroStep) (s : AState), MicroStep.bookkeeping ∉ steps →
      (steps.foldl (applyMicro box req design) s).ist = s.ist
  | [], _, _ => rfl
  | st :: rest, s, h => by
      simp only [List.foldl_cons]
      rw [foldl_ist_unchanged box req design rest _ (fun hm => h (by simp [hm]))]
      cases st with
      | refine a b => rfl
      | modelCall => rfl
      | store i => rfl
      | bookkeeping => exact absurd (by simp) h

/-- **Whatever the interruption point, the saved index sets and both weight trees are those of the state before the
    activation** (index sets and weights move only after all data are stored) … -/
theorem crash_preserves_index_state (box req : Idx) (batch : List (Idx × Idx)) (design : List (Idx × List Coord))
    (s : AState) (k : Nat) (hk : k < (microSteps batch).length) :
    (crashAt box req batch design s k).ist = s.ist := by
  unfold crashAt
  apply foldl_ist_unchanged
  intro hmem
  -- the only bookkeeping step is the last one, which `take k` (k < length) does not reach
  have hlen : (microSteps batch).length = (batch.length + 1 + batch.length) + 1 := by
    simp [microSteps]; omega
  have : (microSteps batch).take k = ((batch.map (fun ab => MicroStep.refine ab.1 ab.2) ++ [MicroStep.modelCall] ++
      (List.range batch.length).map MicroStep.store).take k) := by
    unfold microSteps
    rw [List.take_append_of_le_length]
    simp; omega
  rw [this] at hmem
  have hsub := List.mem_of_mem_take hmem
  simp at hsub

/-- … hence every saved state of every reachable history satisfies the index-set and weight invariants (C01, C02). -/
theorem crash_state_satisfies_invariants (box : Idx) (rs : List Idx) (hrs : ∀ r ∈ rs, r.length = box.length) (req : Idx)
    (batch : List (Idx × Idx)) (design : List (Idx × List Coord)) (g : SGrid) (k : Nat)
    (hk : k < (microSteps batch).length) :
    Inv box (crashAt box req batch design { ist := run box rs, g := g } k).ist := by
  rw [crash_preserves_index_state box req batch design _ k hk]
  exact inv_run box rs hrs

/-- **Resuming completes to the same data**: whatever part of the activation's data had been stored before the interruption
    (any store between the one before the activation and the completed one), re-running the activation ends with exactly the
    stored key set of the uninterrupted activation — nothing is lost and nothing else is added. -/
theorem resume_same_store (g gc : SGrid) (batch : List (Idx × Idx)) (hk : gc.kpl = g.kpl)
    (hsub : ∀ key, key ∈ g.stored → key ∈ gc.stored)
    (hpart : ∀ key, key ∈ gc.stored → key ∈ g.stored ∨ needed g.kpl batch key) :
    ∀ key, key ∈ (activateBatch gc batch).1.stored ↔ key ∈ (activateBatch g batch).1.stored := by
  intro key
  rw [mem_stored_activateBatch, mem_stored_activateBatch, hk]
  constructor
  · rintro (h | h)
    · exact hpart key h
    · exact Or.inr h
  · rintro (h | h)
    · exact Or.inl (hsub key h)
    · exact Or.inr h

/-- and on resume only coordinates without stored value are requested again (no value is recomputed or overwritten) -/
theorem resume_requests_only_missing (gc : SGrid) (hs : gc.stored.Nodup) (batch : List (Idx × Idx)) :
    ∀ k ∈ (activateBatch gc batch).2, k ∉ gc.stored := by
  intro k hk hin
  have h := (activateBatch_spec gc batch hs).2
  rw [List.nodup_append] at h
  exact h.2.2 k hin k hk rfl


/-! ### cost accounting across an interruption (finding F5b, machine-checked)

The property also asks for the same COST ACCOUNTING as a run that was never interrupted. By `resume_requests_only_missing` the resumed
activation evaluates — and therefore books (`misc_costs[a, b] = model_costs[a] · #new points`, `AmiscModel.Store.bookCall`) — only
the points that were not stored before the interruption; the evaluations made before it are booked nowhere. -/

/-- **F5b witness**: one input, two knots per level, constant cost 3. The uninterrupted activation of β = (1) evaluates 2 points
    and books 6; interrupted after ONE of the two values was stored, the resumed activation designs 1 point and books 3 — the
    stored data are complete and identical (`resume_same_store`), the cost account is not. -/
theorem resume_books_only_the_remaining_points :
    let g1 := (activateBatch { kpl := 2 } [([], [0])]).1
    let gc : SGrid := { g1 with stored := g1.stored ++ [([], [1])] }
    (designBatch g1 [([], [1])] []).2.map (·.2.length) = [2] ∧
    (designBatch gc [([], [1])] []).2.map (·.2.length) = [1] ∧
    (bookCall {} [([], [3, 3])] [([], [1], 2)]).misc.map (·.cost) = [6] ∧
    (bookCall {} [([], [3])] [([], [1], 1)]).misc.map (·.cost) = [3] ∧
    ((activateBatch gc [([], [1])]).1.stored.all fun k => decide (k ∈ (activateBatch g1 [([], [1])]).1.stored)) = true ∧
    ((activateBatch g1 [([], [1])]).1.stored.all fun k => decide (k ∈ (activateBatch gc [([], [1])]).1.stored)) = true := by
  refine ⟨by decide +kernel, by decide +kernel, by decide +kernel, by decide +kernel, by decide +kernel, by decide +kernel⟩


/-- **F17 witness** (open finding): the running cost average of `call_model` is updated when the model call returns — before the
    data are stored. An interruption in between saves the updated average without the data; on resume the same evaluations are
    made and averaged again. With an earlier average 1 and reported costs 4, 7: the uninterrupted run ends with average 4, the
    interrupted-and-resumed one with 5. -/
theorem interrupted_call_is_averaged_twice :
    (updAvg (fun _ => some 1) [] [4, 7]) [] = some 4 ∧
    (updAvg (updAvg (fun _ => some 1) [] [4, 7]) [] [4, 7]) [] = some 5 := by
  constructor <;> decide +kernel

/-! non-vacuity -/
example : (microSteps [([0], [0]), ([1], [0])]).length = 6 := by decide

end Amisc.C13
