/-
  C09 — No point is evaluated twice; stored data and cost accounts are truthful.
  Model: AmiscModel.Store (`sgRefine`, `designBatch`, `activateBatch`, `runBatches`).
-/
import AmiscProofs.StoreProofs

namespace Amisc.C09

/-- Over an ENTIRE history of activations (any batches of indices, in any order, admissible or not) no
    (model fidelity, grid coordinate) pair is evaluated twice. -/
theorem no_double_evaluation (kpl : Nat) (bs : List (List (Idx × Idx))) :
    (runBatches { kpl := kpl } bs).2.Nodup := by
  have := (runBatches_spec bs { kpl := kpl } (by simp)).2
  simpa using this

/-- The stored keys are exactly the evaluated ones (nothing is stored that was not evaluated, nothing evaluated is lost),
    from any duplicate-free starting store (e.g. one loaded from file). -/
theorem stored_eq_evaluated (g : SGrid) (hs : g.stored.Nodup) (bs : List (List (Idx × Idx))) :
    (runBatches g bs).1.stored = g.stored ++ (runBatches g bs).2 ∧
    (g.stored ++ (runBatches g bs).2).Nodup := runBatches_spec bs g hs

/-- one activation never requests a coordinate that already has a stored output for that fidelity -/
theorem batch_disjoint_from_store (g : SGrid) (hs : g.stored.Nodup) (batch : List (Idx × Idx)) :
    ∀ k ∈ (activateBatch g batch).2, k ∉ g.stored := by
  intro k hk hin
  have h := (activateBatch_spec g batch hs).2
  rw [List.nodup_append] at h
  exact h.2.2 k hin k hk rfl

/-- the coordinates of a coarser index are a subset of those of any finer index (nested grids): `prodIdx` is monotone -/
theorem nested_points : ∀ (s t : List Nat), s.length = t.length → (∀ i, s.getD i 0 ≤ t.getD i 0) →
    ∀ c ∈ prodIdx s, c ∈ prodIdx t
  | [], [], _, _, c, hc => hc
  | [], _ :: _, h, _, _, _ => by simp at h
  | _ :: _, [], h, _, _, _ => by simp at h
  | a :: s, b :: t, hl, hle, c, hc => by
      simp only [prodIdx, List.mem_flatMap, List.mem_range, List.mem_map] at hc ⊢
      obtain ⟨x, hx, y, hy, rfl⟩ := hc
      have h0 : a ≤ b := by simpa using hle 0
      refine ⟨x, by omega, y, ?_, rfl⟩
      exact nested_points s t (by simpa using hl) (fun i => by simpa using hle (i + 1)) y hy

/-! non-vacuity: the history of the F11 witness (an index that differs from a computed one only in a surrogate-fidelity
    dimension arrives in a later batch): model fidelity (1), one data dim; no key twice -/
example : (runBatches { kpl := 2 } [[([0], [0]), ([1], [0]), ([0], [1]), ([0], [0])], [], [([1], [0])]]).2 =
    [([0], [0]), ([1], [0]), ([0], [1]), ([0], [2])] := by decide

end Amisc.C09
