/-
  C09 — No point is evaluated twice; stored data and cost accounts are truthful.
  Model: AmiscModel.Store (`sgRefine`, `designBatch`, `activateBatch`, `runBatches`).
-/
import AmiscProofs.StoreProofs
import AmiscProofs.CostProofs

namespace Amisc.C09

/-- Over an ENTIRE history of activations (any batches of indices, in any order, admissible or not) no
    (model fidelity, grid coordinate) pair is evaluated twice. -/
theorem no_double_evaluation (kpl : Nat) (bs : List (List (Idx × Idx))) :
    (runBatches { kpl := kpl } bs).2.Nodup := by
  have := (runBatches_spec bs { kpl := kpl } (by simp)).2
  simpa using this

/-- The stored keys are exactly the evaluated ones (nothing is stored that was not evaluated, nothing evaluated is lost),
    from any duplicate-free starting store (e.g. one loaded from file). -/
theorem stored_eq_evaluated (g : SGrid) (hs : g.stored.Nodup) (bs : List (List (Idx × Idx))) :
    (runBatches g bs).1.stored = g.stored ++ (runBatches g bs).2 ∧
    (g.stored ++ (runBatches g bs).2).Nodup := runBatches_spec bs g hs

/-- one activation never requests a coordinate that already has a stored output for that fidelity -/
theorem batch_disjoint_from_store (g : SGrid) (hs : g.stored.Nodup) (batch : List (Idx × Idx)) :
    ∀ k ∈ (activateBatch g batch).2, k ∉ g.stored := by
  intro k hk hin
  have h := (activateBatch_spec g batch hs).2
  rw [List.nodup_append] at h
  exact h.2.2 k hin k hk rfl

/-- the coordinates of a coarser index are a subset of those of any finer index (nested grids): `prodIdx` is monotone -/
theorem nested_points : ∀ (s t : List Nat), s.length = t.length → (∀ i, s.getD i 0 ≤ t.getD i 0) →
    ∀ c ∈ prodIdx s, c ∈ prodIdx t
  | [], [], _, _, c, hc => hc
  | [], _ :: _, h, _, _, _ => by simp at h
  | _ :: _, [], h, _, _, _ => by simp at h
  | a :: s, b :: t, hl, hle, c, hc => by
      simp only [prodIdx, List.mem_flatMap, List.mem_range, List.mem_map] at hc ⊢
      obtain ⟨x, hx, y, hy, rfl⟩ := hc
      have h0 : a ≤ b := by simpa using hle 0
      refine ⟨x, by omega, y, ?_, rfl⟩
      exact nested_points s t (by simpa using hl) (fun i => by simpa using hle (i + 1)) y hy


/-! ## cost accounts and the allocation report (`model_costs`, `misc_costs`, `System.get_allocation`) -/

open Amisc.Cost in
/-- **The allocation report is truthful when the model's cost depends on the fidelity only**: after ANY sequence of
    activations (any batches, any number of points per index, any mixture of fidelities per call) in which every evaluation
    reports the cost `c alpha ≠ 0` of its fidelity, `get_allocation` reports for every fidelity exactly the number of
    evaluations made and exactly the total cost the model reported — although the code keeps neither count and has to recover
    it as `round(booked cost / average cost)`. -/
theorem allocation_truthful_for_fidelity_costs (c : Idx → Q) (hc0 : ∀ a, c a ≠ 0) (calls : List Cost.Call)
    (h : ∀ cl ∈ calls, Cost.ConstCall c cl) (a : Idx) :
    allocEvals (runCalls {} calls) a = (trueEvals calls a : Int) ∧ allocCost (runCalls {} calls) a = trueCost calls a := by
  have hg : Cost.Good c (runCalls {} calls) :=
    Cost.runCalls_good c calls {} ⟨fun _ _ hv => by simp at hv, fun e he => by simp at he⟩ h
  have hn := Cost.runCalls_sumNpts c a calls {} h
  have h0 : Cost.sumNpts ({} : CostAcc) a = 0 := by simp [Cost.sumNpts]
  rw [h0, Nat.zero_add] at hn
  refine ⟨?_, ?_⟩
  · rw [Cost.allocEvals_eq c hc0 _ hg a, hn]
  · rw [Cost.allocCost_eq c _ hg a, hn, Cost.trueCost_eq c a calls h]

/-- the same from any account state that satisfies the invariant (e.g. one loaded from file): the averages stay `c`, every
    booked cost stays `c alpha × points` -/
theorem cost_accounts_invariant (c : Idx → Q) (acc : CostAcc) (hg : Cost.Good c acc) (calls : List Cost.Call)
    (h : ∀ cl ∈ calls, Cost.ConstCall c cl) : Cost.Good c (runCalls acc calls) := Cost.runCalls_good c calls acc hg h

/-- **F8 (open finding), machine-checked**: the full-strength statement is FALSE of this bookkeeping when the cost varies
    between evaluations of one fidelity. Two activations of one fidelity, 1 evaluation of cost 1, then 2 evaluations of cost
    4 and 7: three evaluations were made and cost 12, the report says 2 evaluations costing 9. -/
theorem allocation_wrong_for_varying_costs :
    let calls : List Cost.Call := [([([0], [1])], [([0], [0], 1)]), ([([0], [4, 7])], [([0], [1], 2)])]
    trueEvals calls [0] = 3 ∧ allocEvals (runCalls {} calls) [0] = 2 ∧
    trueCost calls [0] = 12 ∧ allocCost (runCalls {} calls) [0] = 9 := by
  refine ⟨by decide +kernel, by decide +kernel, by decide +kernel, by decide +kernel⟩

/-! non-vacuity of the truthful case: fidelity-dependent costs 3 (alpha 0) and 5/2 (alpha 1), three calls -/
example : Cost.ConstCall (fun a => if a = [0] then 3 else 5/2)
    ([([0], [3, 3]), ([1], [5/2])], [([0], [0], 1), ([1], [0], 1), ([0], [1], 1)]) :=
  ⟨by decide +kernel, by
    intro a
    by_cases h0 : a = [0]
    · subst h0; decide
    · by_cases h1 : a = [1]
      · subst h1; decide
      · have e0 : ([0] : Idx) ≠ a := fun h => h0 h.symm
        have e1 : ([1] : Idx) ≠ a := fun h => h1 h.symm
        simp [List.filter, e0, e1]⟩

/-! non-vacuity: the history of the F11 witness (an index that differs from a computed one only in a surrogate-fidelity
    dimension arrives in a later batch): model fidelity (1), one data dim; no key twice -/
example : (runBatches { kpl := 2 } [[([0], [0]), ([1], [0]), ([0], [1]), ([0], [0])], [], [([1], [0])]]).2 =
    [([0], [0]), ([1], [0]), ([0], [1]), ([0], [2])] := by decide

end Amisc.C09
