/-
  C17 — Surrogates are equivariant under affine changes of input units.
  Per input dimension the prediction is built from the 1-d weights and basis factors; under x ↦ a·x + b (a > 0) of
  nodes, domain (capacity C ↦ a·C) and evaluation point these are unchanged PROVIDED the node-coincidence tolerance
  scales with the inputs (tol ↦ a·tol).  The generated `Amisc.Gen.snapTol` is what the code uses; whether it scales is
  decided against the real code by the correspondence run (finding F1 on the pinned tree: it is an absolute 1e-8).
-/
import AmiscProofs.InterpScale
import AmiscProofs.TensorScale

namespace Amisc.C17

/-- barycentric weights do not depend on the units of the input (this is what the interval-capacity device is for) -/
theorem weights_affine_invariant (a b C : Q) (ha : a ≠ 0) (xs : List Q) :
    wtsInit (a * C) (xs.map fun x => a * x + b) = wtsInit C xs := wtsInit_affine a b C ha xs

/-- … also through every incremental refinement step -/
theorem weights_step_affine_invariant (a b C : Q) (ha : a ≠ 0) (xs ws : List Q) (x : Q) :
    wtsAdd (a * C) (xs.map fun x => a * x + b) ws (a * x + b) = wtsAdd C xs ws x := wtsAdd_affine a b C ha xs ws x

/-- node-coincidence decisions are equivariant iff the tolerance is scaled with the inputs -/
theorem snapping_equivariant (a b tol x : Q) (ha : 0 < a) (grid : List Q) :
    flagged (a * tol) (a * x + b) (grid.map fun g => a * g + b) = flagged tol x grid := flagged_affine a b tol x ha grid

/-- every 1-d factor of the prediction is equivariant (given a scaled tolerance) -/
theorem predict_factor_equivariant (a b tol x : Q) (ha : 0 < a) (grid ws : List Q) (j : Nat) :
    basis (a * tol) (a * x + b) (grid.map fun g => a * g + b) ws j = basis tol x grid ws j :=
  basis_affine a b tol x ha grid ws j

/-- the first-derivative factor of `Lagrange.gradient` scales by `1/a` -/
theorem gradient_factor_equivariant (a b tol x : Q) (ha : 0 < a) (grid ws : List Q) (j : Nat) (hj : j < grid.length) :
    dBasis (a * tol) (a * x + b) (grid.map fun g => a * g + b) ws j = a⁻¹ * dBasis tol x grid ws j :=
  dBasis_affine a b tol x ha grid ws j hj

/-- the second-derivative factor of `Lagrange.hessian` scales by `1/a²` -/
theorem hessian_factor_equivariant (a b tol x : Q) (ha : 0 < a) (grid ws : List Q) (j : Nat) (hj : j < grid.length) :
    d2Basis (a * tol) (a * x + b) (grid.map fun g => a * g + b) ws j = a⁻¹ * a⁻¹ * d2Basis tol x grid ws j :=
  d2Basis_affine a b tol x ha grid ws j hj

open Amisc.TS in
/-- **whole tensor term, per-dimension unit changes `x_d ↦ a_d x_d + b_d`** (coincidence tolerance 0): equal predictions at
    mapped points, gradient entry `m` scaled by `1/a_m`, Hessian entry `(m,n)` by `1/(a_m a_n)` — any data, any output -/
theorem term_equivariant (a b : ℕ → Q) (ha : ∀ d, 0 < a d) (st : LState) (x : List Q) (hd : st.grids.length = x.length)
    (rows : List (List Q)) (o : ℕ) (ho : o < (rows.head?.map List.length).getD 0) :
    (predictT 0 (mapState a b st) rows (mapPoint a b x)).getD o 0 = (predictT 0 st rows x).getD o 0 ∧
    (∀ m, m < x.length →
      (gradT 0 (mapState a b st) rows (mapPoint a b x) m).getD o 0 = (a m)⁻¹ * (gradT 0 st rows x m).getD o 0) ∧
    (∀ m n, m < x.length → n < x.length →
      (hessT 0 (mapState a b st) rows (mapPoint a b x) m n).getD o 0 =
        (a m)⁻¹ * (a n)⁻¹ * (hessT 0 st rows x m n).getD o 0) :=
  ⟨predictT_affine a b ha st x hd rows o ho, fun m hm => gradT_affine a b ha st x hd rows o ho m hm,
   fun m n hm hn => hessT_affine a b ha st x hd rows o ho m n hm hn⟩

/-! non-vacuity / executable instance: three nodes, width 1e-9 -/
example : wtsInit ((1/1000000000 : Q) * (1/4)) ([0, 1, 1/2].map fun x => (1/1000000000 : Q) * x + 7) =
    wtsInit (1/4) [0, 1, 1/2] := weights_affine_invariant _ _ _ (by norm_num) _


end Amisc.C17
