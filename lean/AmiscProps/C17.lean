/-
  C17 — Surrogates are equivariant under affine changes of input units.
  Per input dimension the prediction is built from the 1-d weights and basis factors; under x ↦ a·x + b (a > 0) of
  nodes, domain (capacity C ↦ a·C) and evaluation point these are unchanged PROVIDED the node-coincidence tolerance
  scales with the inputs (tol ↦ a·tol).  The generated `Amisc.Gen.snapTol` is what the code uses; whether it scales is
  decided against the real code by the correspondence run (finding F1 on the pinned tree: it is an absolute 1e-8).
-/
import AmiscProofs.InterpScale

namespace Amisc.C17

/-- barycentric weights do not depend on the units of the input (this is what the interval-capacity device is for) -/
theorem weights_affine_invariant (a b C : Q) (ha : a ≠ 0) (xs : List Q) :
    wtsInit (a * C) (xs.map fun x => a * x + b) = wtsInit C xs := wtsInit_affine a b C ha xs

/-- … also through every incremental refinement step -/
theorem weights_step_affine_invariant (a b C : Q) (ha : a ≠ 0) (xs ws : List Q) (x : Q) :
    wtsAdd (a * C) (xs.map fun x => a * x + b) ws (a * x + b) = wtsAdd C xs ws x := wtsAdd_affine a b C ha xs ws x

/-- node-coincidence decisions are equivariant iff the tolerance is scaled with the inputs -/
theorem snapping_equivariant (a b tol x : Q) (ha : 0 < a) (grid : List Q) :
    flagged (a * tol) (a * x + b) (grid.map fun g => a * g + b) = flagged tol x grid := flagged_affine a b tol x ha grid

/-- every 1-d factor of the prediction is equivariant (given a scaled tolerance) -/
theorem predict_factor_equivariant (a b tol x : Q) (ha : 0 < a) (grid ws : List Q) (j : Nat) :
    basis (a * tol) (a * x + b) (grid.map fun g => a * g + b) ws j = basis tol x grid ws j :=
  basis_affine a b tol x ha grid ws j

/-! non-vacuity / executable instance: three nodes, width 1e-9 -/
example : wtsInit ((1/1000000000 : Q) * (1/4)) ([0, 1, 1/2].map fun x => (1/1000000000 : Q) * x + 7) =
    wtsInit (1/4) [0, 1, 1/2] := weights_affine_invariant _ _ _ (by norm_num) _

end Amisc.C17
