/-
  C12 — Save/load preserves a system exactly and training can resume from it.
  Model: AmiscModel.Persist (field map of Component.serialize / deserialize).
-/
import AmiscModel.Persist

namespace Amisc.C12

theorem getD_optOfList {α : Type} (l : List α) : (optOfList l).getD [] = l := by
  unfold optOfList
  cases l with
  | nil => rfl
  | cons a t => rfl

/-- **Round trip of the field map**: reading back what was written restores every field — index sets, all four trees,
    costs, fidelities, configuration — also when some containers are empty (their keys are then not written). -/
theorem roundtrip (s : PState) (h : PWF s) : pdeserialize (pserialize s) = s := by
  unfold pdeserialize pserialize
  simp only [getD_optOfList]
  cases hs : hasSurrogate s with
  | true => simp
  | false =>
      have ht := h hs
      simp only [Bool.false_eq_true, if_false, Option.getD_none]
      cases s
      simp only [PState.mk.injEq, true_and]
      exact ht.symm

/-- nothing that influences prediction or refinement is lost: the document determines the state -/
theorem doc_has_all_state (s s' : PState) (h : PWF s) (h' : PWF s') (hd : pserialize s = pserialize s') : s = s' := by
  rw [← roundtrip s h, ← roundtrip s' h', hd]

/-- the evaluation-mode weights are part of the document whenever they are non-empty (mutant "never written") -/
theorem coeff_test_written (s : PState) (h : s.coeffTest ≠ []) : (pserialize s).coeffTest = some s.coeffTest := by
  unfold pserialize optOfList
  cases hc : s.coeffTest with
  | nil => exact absurd hc h
  | cons a t => simp [hc]

/-! non-vacuity: a trained multi-fidelity component state and a surrogate-less one are well-formed -/
example : PWF { name := "c", vectorized := true, modelFid := [1], dataFid := [2, 2], surrFid := [],
                active := [[0, 0, 0]], cand := [[1, 0, 0], [0, 1, 0]], miscCosts := [([0, 0, 0], 1)],
                coeffTrain := [([0, 0, 0], 1)], coeffTest := [([0, 0, 0], -1), ([1, 0, 0], 1), ([0, 1, 0], 1)],
                states := [([0, 0, 0], "s0")], modelCosts := [([0], 2)], trainingData := "td" } := by
  intro h; simp [hasSurrogate] at h
example : PWF { name := "a", vectorized := false, modelFid := [], dataFid := [], surrFid := [], active := [], cand := [],
                miscCosts := [], coeffTrain := [], coeffTest := [], states := [], modelCosts := [], trainingData := "" } :=
  fun _ => rfl

end Amisc.C12
