/-
  C12 — Save/load preserves a system exactly and training can resume from it.
  Model: AmiscModel.Persist (field map of Component.serialize / deserialize).
-/
import AmiscModel.Persist

namespace Amisc.C12

theorem getD_optOfList {α : Type} (l : List α) : (optOfList l).getD [] = l := by
  unfold optOfList
  cases l with
  | nil => rfl
  | cons a t => rfl

/-- **Round trip of the field map**: reading back what was written restores every field — index sets, all four trees,
    costs, fidelities, configuration — also when some containers are empty (their keys are then not written). -/
theorem roundtrip (s : PState) (h : PWF s) : pdeserialize (pserialize s) = s := by
  unfold pdeserialize pserialize
  simp only [getD_optOfList]
  cases hs : hasSurrogate s with
  | true => simp
  | false =>
      have ht := h hs
      simp only [Bool.false_eq_true, if_false, Option.getD_none]
      cases s
      simp only [PState.mk.injEq, true_and]
      exact ht.symm

/-- nothing that influences prediction or refinement is lost: the document determines the state -/
theorem doc_has_all_state (s s' : PState) (h : PWF s) (h' : PWF s') (hd : pserialize s = pserialize s') : s = s' := by
  rw [← roundtrip s h, ← roundtrip s' h', hd]

/-- the evaluation-mode weights are part of the document whenever they are non-empty (mutant "never written") -/
theorem coeff_test_written (s : PState) (h : s.coeffTest ≠ []) : (pserialize s).coeffTest = some s.coeffTest := by
  unfold pserialize optOfList
  cases hc : s.coeffTest with
  | nil => exact absurd hc h
  | cons a t => simp [hc]

/-! ### the field map as generated from `Component.serialize` -/

theorem wr_whenNonEmpty {α : Type} (key : String) (surr : Bool) (l : List α) (h : Gen.serializeRuleOf key = .whenNonEmpty) :
    wr key surr l = optOfList l := by
  unfold wr written optOfList; rw [h]; cases l <;> simp

/-- the document written through the dispatch chain GENERATED from `Component.serialize` is the model's document -/
theorem generated_serialize_is_model (s : PState) : pserializeGen s = pserialize s := by
  unfold pserializeGen pserialize
  rw [wr_whenNonEmpty "model_fidelity" _ _ (by decide), wr_whenNonEmpty "data_fidelity" _ _ (by decide),
    wr_whenNonEmpty "surrogate_fidelity" _ _ (by decide), wr_whenNonEmpty "active_set" _ _ (by decide),
    wr_whenNonEmpty "candidate_set" _ _ (by decide), wr_whenNonEmpty "misc_costs" _ _ (by decide),
    wr_whenNonEmpty "misc_coeff_train" _ _ (by decide), wr_whenNonEmpty "misc_coeff_test" _ _ (by decide),
    wr_whenNonEmpty "misc_states" _ _ (by decide), wr_whenNonEmpty "model_costs" _ _ (by decide)]
  have ht : Gen.serializeRuleOf "training_data" = .surrogateOnly := by decide
  simp only [ht, written]

/-- the keys written through the generated chain are the model's keys, for every combination of emptiness flags -/
theorem generated_keys_are_model (f : CompFlags) : serializeKeysGen f = serializeKeys f := by
  have h1 : Gen.serializeRuleOf "serializers" = .always := by decide
  have h2 : Gen.serializeRuleOf "model" = .always := by decide
  have h3 : Gen.serializeRuleOf "model_kwargs" = .always := by decide
  have h4 : Gen.serializeRuleOf "inputs" = .always := by decide
  have h5 : Gen.serializeRuleOf "outputs" = .always := by decide
  have h6 : Gen.serializeRuleOf "vectorized" = .always := by decide
  have h7 : Gen.serializeRuleOf "name" = .always := by decide
  have h8 : Gen.serializeRuleOf "call_unpacked" = .always := by decide
  have h9 : Gen.serializeRuleOf "ret_unpacked" = .always := by decide
  have e1 : Gen.serializeRuleOf "model_fidelity" = .whenNonEmpty := by decide
  have e2 : Gen.serializeRuleOf "data_fidelity" = .whenNonEmpty := by decide
  have e3 : Gen.serializeRuleOf "surrogate_fidelity" = .whenNonEmpty := by decide
  have e4 : Gen.serializeRuleOf "active_set" = .whenNonEmpty := by decide
  have e5 : Gen.serializeRuleOf "candidate_set" = .whenNonEmpty := by decide
  have e6 : Gen.serializeRuleOf "misc_states" = .whenNonEmpty := by decide
  have e7 : Gen.serializeRuleOf "misc_costs" = .whenNonEmpty := by decide
  have e8 : Gen.serializeRuleOf "misc_coeff_train" = .whenNonEmpty := by decide
  have e9 : Gen.serializeRuleOf "misc_coeff_test" = .whenNonEmpty := by decide
  have e10 : Gen.serializeRuleOf "model_costs" = .whenNonEmpty := by decide
  have s1 : Gen.serializeRuleOf "interpolator" = .surrogateOnly := by decide
  have s2 : Gen.serializeRuleOf "training_data" = .surrogateOnly := by decide
  unfold serializeKeysGen serializeKeys
  simp only [h1, h2, h3, h4, h5, h6, h7, h8, h9, e1, e2, e3, e4, e5, e6, e7, e8, e9, e10, s1, s2, written]
  cases f.surr <;> simp

/-- every learned-state field that may be left out of the document has an empty-container default (generated from the field
    declarations of `Component`): a missing key is restored as the empty container, which is what `pdeserialize` does -/
theorem omitted_fields_default_to_empty :
    ∀ k ∈ ["model_fidelity", "data_fidelity", "surrogate_fidelity", "active_set", "candidate_set", "misc_states", "misc_costs",
           "misc_coeff_train", "misc_coeff_test", "model_costs"],
      Gen.serializeRuleOf k = .whenNonEmpty ∧ Gen.fieldDefaultEmpty k = true := by decide

/-- **round trip through the generated document** -/
theorem generated_roundtrip (s : PState) (h : PWF s) : pdeserialize (pserializeGen s) = s := by
  rw [generated_serialize_is_model]; exact roundtrip s h

/-! non-vacuity: a trained multi-fidelity component state and a surrogate-less one are well-formed -/
example : PWF { name := "c", vectorized := true, modelFid := [1], dataFid := [2, 2], surrFid := [],
                active := [[0, 0, 0]], cand := [[1, 0, 0], [0, 1, 0]], miscCosts := [([0, 0, 0], 1)],
                coeffTrain := [([0, 0, 0], 1)], coeffTest := [([0, 0, 0], -1), ([1, 0, 0], 1), ([0, 1, 0], 1)],
                states := [([0, 0, 0], "s0")], modelCosts := [([0], 2)], trainingData := "td" } := by
  intro h; simp [hasSurrogate] at h
example : PWF { name := "a", vectorized := false, modelFid := [], dataFid := [], surrFid := [], active := [], cand := [],
                miscCosts := [], coeffTrain := [], coeffTest := [], states := [], modelCosts := [], trainingData := "" } :=
  fun _ => rfl

end Amisc.C12
