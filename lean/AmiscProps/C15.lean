/-
  C15 — Serial, vectorised and parallel execution agree under every schedule.
  Model: AmiscModel.Exec (`complete`, `collect`, `serial`).
-/
import AmiscModel.Exec

namespace Amisc.C15

/-- **Schedule independence of collection**: whatever order `π` the submitted tasks finish in (any list that contains
    every task index at least once — in particular every permutation), collecting by submission index returns exactly the
    serial results, position by position. -/
theorem collect_schedule_independent {α β : Type} (f : α → Outcome β) (tasks : List α) (π : List Nat)
    (hπ : ∀ i, i < tasks.length → i ∈ π) :
    collect tasks.length (complete f tasks π) = (serial f tasks).map some := by
  unfold collect serial
  apply List.ext_getElem
  · simp
  · intro i h1 h2
    simp only [List.length_map, List.length_range] at h1
    simp only [List.getElem_map, List.getElem_range]
    -- the first completed future with submission index i carries f (tasks[i])
    have key : ∀ (π : List Nat), i ∈ π →
        ((complete f tasks π).find? fun e => e.1 == i) = some (i, f tasks[i]) := by
      intro π
      induction π with
      | nil => intro h; exact absurd h (by simp)
      | cons j π ih =>
          intro hmem
          unfold complete
          by_cases hj : j < tasks.length
          · simp only [List.filterMap_cons, List.getElem?_eq_getElem hj, Option.map_some]
            by_cases hji : j = i
            · subst hji; simp
            · have : i ∈ π := by
                rcases List.mem_cons.mp hmem with h | h
                · exact absurd h.symm hji
                · exact h
              have hne : ((j, f tasks[j]).1 == i) = false := by simp [hji]
              rw [List.find?_cons_of_neg (by simp [hji])]
              exact ih this
          · have hnone : tasks[j]? = none := List.getElem?_eq_none (Nat.le_of_not_lt hj)
            simp only [List.filterMap_cons, hnone, Option.map_none]
            have : i ∈ π := by
              rcases List.mem_cons.mp hmem with h | h
              · exact absurd (h ▸ h1) hj
              · exact h
            exact ih this
    rw [key π (hπ i h1)]
    rfl

/-- errors are recorded against the same positions as in the serial run -/
theorem errors_same_positions {α β : Type} [DecidableEq β] (f : α → Outcome β) (tasks : List α) (π : List Nat)
    (hπ : ∀ i, i < tasks.length → i ∈ π) :
    (collect tasks.length (complete f tasks π)).filterMap id = serial f tasks := by
  rw [collect_schedule_independent f tasks π hπ]
  simp [List.filterMap_map]


/-- **Error records are those of the serial run**: under every completion order the failed evaluations are recorded with the
    submission index and the arguments (inputs and model fidelity) of the task that failed -/
theorem error_records_schedule_independent {α β : Type} (f : α → Outcome β) (tasks : List α) (π : List Nat)
    (hπ : ∀ i, i < tasks.length → i ∈ π) :
    errorRecords tasks (collect tasks.length (complete f tasks π)) = errorRecords tasks ((serial f tasks).map some) := by
  rw [collect_schedule_independent f tasks π hπ]

/-- … and every record names a task that did fail, with that task's own arguments -/
theorem error_record_names_failed_task {α β : Type} (f : α → Outcome β) (tasks : List α) (i : Nat) (t : α)
    (h : (i, t) ∈ errorRecords tasks ((serial f tasks).map some)) :
    tasks[i]? = some t ∧ f t = .raised := by
  unfold errorRecords at h
  rw [List.mem_filterMap] at h
  obtain ⟨j, hj, hm⟩ := h
  rw [List.mem_range] at hj
  simp only [serial, List.map_map, List.getElem?_map, List.getElem?_eq_getElem hj, Option.map_some, Function.comp] at hm
  cases hf : f tasks[j] with
  | ok v => simp [hf] at hm
  | raised =>
      simp only [hf, Option.some.injEq, Prod.mk.injEq] at hm
      obtain ⟨rfl, rfl⟩ := hm
      exact ⟨List.getElem?_eq_getElem hj, hf⟩

/-- **Parallel sums over indices** (`Component.predict` / `gradient` with an executor): the weighted sum of the per-index
    interpolants does not depend on the order in which the tasks finish -/
theorem parallel_sum_schedule_independent {α : Type} (f : α → Outcome Rat) (tasks : List α) (coeffs : List Int) (π : List Nat)
    (hπ : ∀ i, i < tasks.length → i ∈ π) :
    weightedSum coeffs (collect tasks.length (complete f tasks π)) = weightedSum coeffs ((serial f tasks).map some) := by
  rw [collect_schedule_independent f tasks π hπ]

/-- **Whatever is computed from the collected results** — the stored datasets, the error indicators of the candidate scan of
    `System.refine` and hence the chosen index and the training history — is the serial value -/
theorem consumer_schedule_independent {α β γ : Type} (f : α → Outcome β) (tasks : List α) (π : List Nat)
    (hπ : ∀ i, i < tasks.length → i ∈ π) (g : List (Option (Outcome β)) → γ) :
    g (collect tasks.length (complete f tasks π)) = g ((serial f tasks).map some) := by
  rw [collect_schedule_independent f tasks π hπ]

example : errorRecords [10, 20, 30] (collect 3 (complete (fun n : Nat => if n = 20 then Outcome.raised else Outcome.ok (n + 1))
    [10, 20, 30] [2, 0, 1])) = [(1, 20)] := by decide

/-! non-vacuity: three tasks finishing in the order 2, 0, 1 (task 1 raises) -/
example : collect 3 (complete (fun n : Nat => if n = 20 then Outcome.raised else Outcome.ok (n + 1)) [10, 20, 30] [2, 0, 1]) =
    [some (.ok 11), some .raised, some (.ok 31)] := by decide

end Amisc.C15
