/-
  C15 — Serial, vectorised and parallel execution agree under every schedule.
  Model: AmiscModel.Exec (`complete`, `collect`, `serial`).
-/
import AmiscModel.Exec

namespace Amisc.C15

/-- **Schedule independence of collection**: whatever order `π` the submitted tasks finish in (any list that contains
    every task index at least once — in particular every permutation), collecting by submission index returns exactly the
    serial results, position by position. -/
theorem collect_schedule_independent {α β : Type} (f : α → Outcome β) (tasks : List α) (π : List Nat)
    (hπ : ∀ i, i < tasks.length → i ∈ π) :
    collect tasks.length (complete f tasks π) = (serial f tasks).map some := by
  unfold collect serial
  apply List.ext_getElem
  · simp
  · intro i h1 h2
    simp only [List.length_map, List.length_range] at h1
    simp only [List.getElem_map, List.getElem_range]
    -- the first completed future with submission index i carries f (tasks[i])
    have key : ∀ (π : List Nat), i ∈ π →
        ((complete f tasks π).find? fun e => e.1 == i) = some (i, f tasks[i]) := by
      intro π
      induction π with
      | nil => intro h; exact absurd h (by simp)
      | cons j π ih =>
          intro hmem
          unfold complete
          by_cases hj : j < tasks.length
          · simp only [List.filterMap_cons, List.getElem?_eq_getElem hj, Option.map_some]
            by_cases hji : j = i
            · subst hji; simp
            · have : i ∈ π := by
                rcases List.mem_cons.mp hmem with h | h
                · exact absurd h.symm hji
                · exact h
              have hne : ((j, f tasks[j]).1 == i) = false := by simp [hji]
              rw [List.find?_cons_of_neg (by simp [hji])]
              exact ih this
          · have hnone : tasks[j]? = none := List.getElem?_eq_none (Nat.le_of_not_lt hj)
            simp only [List.filterMap_cons, hnone, Option.map_none]
            have : i ∈ π := by
              rcases List.mem_cons.mp hmem with h | h
              · exact absurd (h ▸ h1) hj
              · exact h
            exact ih this
    rw [key π (hπ i h1)]
    rfl

/-- errors are recorded against the same positions as in the serial run -/
theorem errors_same_positions {α β : Type} [DecidableEq β] (f : α → Outcome β) (tasks : List α) (π : List Nat)
    (hπ : ∀ i, i < tasks.length → i ∈ π) :
    (collect tasks.length (complete f tasks π)).filterMap id = serial f tasks := by
  rw [collect_schedule_independent f tasks π hπ]
  simp [List.filterMap_map]

/-! non-vacuity: three tasks finishing in the order 2, 0, 1 (task 1 raises) -/
example : collect 3 (complete (fun n : Nat => if n = 20 then Outcome.raised else Outcome.ok (n + 1)) [10, 20, 30] [2, 0, 1]) =
    [some (.ok 11), some .raised, some (.ok 31)] := by decide

end Amisc.C15
