import AmiscProofs.IdxBasic
import AmiscProofs.CoeffUpdate
import AmiscProofs.IndexInv
import AmiscProofs.IEBridge
import AmiscProofs.IndexExtra
import AmiscProofs.Combination
import AmiscProofs.Bary
import AmiscProofs.BaryDeriv
