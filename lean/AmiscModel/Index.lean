/-
  AmiscModel.Index — executable model of amisc's multi-index bookkeeping.

  Mirrors (src/amisc/component.py):
    * `Component._neighbors`            → `nbrs`
    * `Component.update_misc_coeff`     → `updateOne`, `updateCoeff`
    * `Component.activate_index`        → `activate`   (index-set / weight part, lines 1119-1127, 1208-1220)
    * `Component.predict(incremental=True)` weight preparation → `lookahead`
    * `Component.is_downward_closed`    → `isDownwardClosed`
  and (src/amisc/system.py) `System.simulate_fit` → `simStep`.

  A multi-index `(alpha, beta)` is modelled as the concatenation `alpha ++ beta : List Nat`; the split point is
  configuration that the index algebra never looks at.  Python `set`s are duplicate-free lists; the model never
  depends on their order (proved in AmiscProps.C01: weights are a function of the set).

  This file is import-free so that the driver runs exactly these definitions.
-/

namespace Amisc

abbrev Idx := List Nat

namespace Idx

/-- pointwise `≤`, equal lengths required (`np.any(ind_new > max_ind)` negated). -/
def le : Idx → Idx → Bool
  | [], [] => true
  | a :: as, b :: bs => decide (a ≤ b) && le as bs
  | _, _ => false

/-- `ind[k] += 1` -/
def inc : Idx → Nat → Idx
  | [], _ => []
  | a :: as, 0 => (a + 1) :: as
  | a :: as, k + 1 => a :: inc as k

/-- `ind[k] -= 1` (only used where `ind[k] ≥ 1`) -/
def dec : Idx → Nat → Idx
  | [], _ => []
  | a :: as, 0 => (a - 1) :: as
  | a :: as, k + 1 => a :: dec as k

/-- component `k` (0 outside the range; never used outside the range) -/
def nth : Idx → Nat → Nat
  | [], _ => 0
  | a :: _, 0 => a
  | _ :: as, k + 1 => nth as k

def total : Idx → Nat
  | [] => 0
  | a :: as => a + total as

def add : Idx → Idx → Idx
  | a :: as, b :: bs => (a + b) :: add as bs
  | _, _ => []

def zero (d : Nat) : Idx := List.replicate d 0

end Idx

/-- If `new - old ∈ {0,1}^d` return `some |new - old|₁`, else `none`
    (`np.all(np.isin(diff, [0, 1]))`, `np.sum(np.abs(diff))`). -/
def cubeDist : Idx → Idx → Option Nat
  | [], [] => some 0
  | n :: ns, o :: os =>
      if n = o then cubeDist ns os
      else if n = o + 1 then (cubeDist ns os).map (· + 1)
      else none
  | _, _ => none

def sgn (k : Nat) : Int := if k % 2 = 0 then 1 else -1

/-- contribution of set member `s` to the weight of `i` : `(-1)^{|s-i|}` if `s - i ∈ {0,1}^d`. -/
def term (s i : Idx) : Int :=
  match cubeDist s i with
  | some k => sgn k
  | none => 0

/-! ### coefficient maps (`MiscTree` of floats) -/

abbrev CMap := List (Idx × Int)

namespace CMap

def get : CMap → Idx → Option Int
  | [], _ => none
  | (k, v) :: rest, i => if k = i then some v else get rest i

/-- `if m.get(i) is None: m[i] = 0`; `m[i] += δ` -/
def bump : CMap → Idx → Int → CMap
  | [], i, δ => [(i, δ)]
  | (k, v) :: rest, i, δ => if k = i then (k, v + δ) :: rest else (k, v) :: bump rest i δ

def keys (m : CMap) : List Idx := m.map (·.1)

end CMap

/-- inner loop of `update_misc_coeff` for one new index over `itertools.chain(index_set, [new])`. -/
def updateOne (new : Idx) (indexSet : List Idx) (m : CMap) : CMap :=
  (indexSet ++ [new]).foldl
    (fun m old => match cubeDist new old with
                  | some k => m.bump old (sgn k)
                  | none => m) m

/-- `update_misc_coeff(new_indices, index_set, misc_coeff)`: the index set is *not* updated between new indices. -/
def updateCoeff (news : List Idx) (indexSet : List Idx) (m : CMap) : CMap :=
  news.foldl (fun m n => updateOne n indexSet m) m

/-! ### neighbours -/

/-- backward-neighbour test of `_neighbors` for the tentative index `c`: every `c - e_j` with `c_j ≥ 1` is in the
    active set or is the index being activated itself. -/
def backOK (active : List Idx) (self c : Idx) : Bool :=
  (List.range c.length).all fun j =>
    c.nth j == 0 || (decide (c.dec j ∈ active) || decide (c.dec j = self))

/-- `Component._neighbors(alpha, beta, active_set, forward=True)` -/
def nbrs (box : Idx) (active : List Idx) (idx : Idx) : List Idx :=
  (List.range idx.length).filterMap fun k =>
    let c := idx.inc k
    if c.le box && backOK active idx c then some c else none

/-! ### component index state and activation -/

structure IState where
  active : List Idx := []
  cand   : List Idx := []
  ctrain : CMap := []
  ctest  : CMap := []
deriving Repr, DecidableEq

def IState.init : IState := {}

/-- union preserving first occurrences (`set.update`) -/
def unionNew (xs ys : List Idx) : List Idx :=
  ys.foldl (fun acc y => if y ∈ acc then acc else acc ++ [y]) xs

/-- `Component.activate_index`, index-set and weight bookkeeping. -/
def activate (box : Idx) (st : IState) (idx : Idx) : IState :=
  if idx ∈ st.active then st
  else if idx ∉ st.cand ∧ idx.total > 0 then st
  else
    let neighbors := nbrs box st.active idx
    let ctrain' := updateCoeff [idx] st.active st.ctrain
    let inCand := decide (idx ∈ st.cand)
    let cand' := if inCand then st.cand.erase idx else st.cand
    let ctest' := if inCand then st.ctest else updateCoeff [idx] (st.active ++ st.cand) st.ctest
    let active' := unionNew st.active [idx]
    let ctest'' := updateCoeff neighbors (active' ++ cand') ctest'
    { active := active', cand := unionNew cand' neighbors, ctrain := ctrain', ctest := ctest'' }

def run (box : Idx) (rs : List Idx) : IState := rs.foldl (activate box) IState.init

/-- weights used by `Component.predict(index_set={c}, incremental=True)`:
    a copy of the training weights updated with `{c}` over the active set. -/
def lookahead (st : IState) (c : Idx) : CMap := updateCoeff [c] st.active st.ctrain

/-! ### specifications -/

/-- all 0/1 vectors of length `d` -/
def cube : Nat → List Idx
  | 0 => [[]]
  | d + 1 => (cube d).map (0 :: ·) ++ (cube d).map (1 :: ·)

/-- inclusion–exclusion weight: Σ over 0/1 offsets `e` with `i + e ∈ S` of `(-1)^{|e|}`. -/
def IE (S : List Idx) (i : Idx) : Int :=
  ((cube i.length).map fun e => if i.add e ∈ S then sgn e.total else 0).sum

/-- the same quantity summed over the members of `S` (equal to `IE` for duplicate-free `S`, see AmiscProofs). -/
def IEsum (S : List Idx) (i : Idx) : Int := (S.map fun s => term s i).sum

/-- every one-step backward neighbour of `i` is in `A` -/
def backIn (A : List Idx) (i : Idx) : Bool :=
  (List.range i.length).all fun j => i.nth j == 0 || decide (i.dec j ∈ A)

/-- admissible margin membership -/
def inMargin (box : Idx) (A : List Idx) (i : Idx) : Bool :=
  !decide (i ∈ A) && i.le box && backIn A i

/-- downward-closed (neighbour formulation) -/
def isDC (A : List Idx) : Bool := A.all fun i => backIn A i

/-- all indices `≤ box` (in `itertools.product` order) -/
def fullBox : Idx → List Idx
  | [] => [[]]
  | b :: bs => (List.range (b + 1)).flatMap fun a => (fullBox bs).map (a :: ·)

/-- `Component.is_downward_closed`: every index below every member is a member. -/
def isDownwardClosed (A : List Idx) : Bool :=
  A.all fun i => (fullBox i).all fun j => decide (j ∈ A)

/-! ### `System.simulate_fit` for one component (shadow structures) -/

/-- `_neighbors(..., active_set=shadow)` has `active_set = active_set or self.active_set`: an empty shadow set falls
    back to the live set `live`. -/
def simStep (box : Idx) (live : List Idx) (st : IState) (idx : Idx) : IState :=
  let act := if st.active.isEmpty then live else st.active
  let neighbors := nbrs box act idx
  let ctrain' := updateCoeff [idx] st.active st.ctrain
  let inCand := decide (idx ∈ st.cand)
  let cand' := if inCand then st.cand.erase idx else st.cand
  let ctest' := if inCand then st.ctest else updateCoeff [idx] (st.active ++ st.cand) st.ctest
  let active' := unionNew st.active [idx]
  let ctest'' := updateCoeff neighbors (active' ++ cand') ctest'
  { active := active', cand := unionNew cand' neighbors, ctrain := ctrain', ctest := ctest'' }

end Amisc
