/-
  AmiscModel.Sys — executable model of system-level evaluation and training control.

  Part 1 (C07): feed-forward evaluation.  A component reads named inputs and writes named outputs; `System.predict`
  condenses the dependency graph and evaluates components in a topological order, each component reading the exogenous
  inputs and the outputs written so far (`sweep`).  `toposort` picks, like Kahn's algorithm, any component all of whose
  coupling inputs are available; the theorems of C07 show that the result does not depend on which topological order is
  used, hence not on the order in which components were listed.
  Component behaviour is abstract: `fn : (String → Q) → String → Q` (reads inputs by name, returns outputs by name);
  the driver instantiates it with exact polynomials.

  Part 2 (C08): one refinement step's selection rule (`argmaxStep`) and the training loop's termination (`fitLoop`).
  Part 3 (C06): per-sample fixed-point iteration control (`fpiRun`).
-/
import AmiscModel.Interp
import AmiscModel.Index
import AmiscModel.Generated.Logic

namespace Amisc

/-! ## Part 1: feed-forward sweep -/

structure SComp where
  name : String
  ins  : List String
  outs : List String
  fn   : (String → Q) → String → Q

abbrev Env := String → Q

/-- write the outputs of `c` computed from the current environment -/
def runComp (c : SComp) (env : Env) : Env :=
  fun v => if v ∈ c.outs then c.fn env v else env v

/-- evaluate the components in the given order -/
def sweep (order : List SComp) (env : Env) : Env := order.foldl (fun e c => runComp c e) env

/-- variables produced by some component of the list -/
def produced (cs : List SComp) : List String := cs.flatMap (·.outs)

/-- `c` is ready once every input that is produced by a component of the system has been produced already -/
def ready (all done : List SComp) (c : SComp) : Bool :=
  c.ins.all fun v => !decide (v ∈ produced all) || decide (v ∈ produced done)

/-- Kahn-style topological sort by repeated selection of the first ready component in listing order (fuel = number of
    components).  Components on a cycle are never ready and are dropped (feedback loops are handled by Part 3). -/
def toposortAux (all : List SComp) : Nat → List SComp → List SComp → List SComp
  | 0, done, _ => done
  | fuel + 1, done, pending =>
      match pending.find? (ready all done) with
      | none => done
      | some c => toposortAux all fuel (done ++ [c]) (pending.filter fun d => d.name != c.name)

def toposort (cs : List SComp) : List SComp := toposortAux cs cs.length [] cs

/-- `System.predict` on a feed-forward system -/
def predictFF (cs : List SComp) (x : Env) : Env := sweep (toposort cs) x

/-- an order is topological: every component only reads exogenous variables or variables produced strictly earlier -/
def isTopo (all : List SComp) : List SComp → List SComp → Bool
  | _, [] => true
  | done, c :: rest => ready all done c && isTopo all (done ++ [c]) rest

/-! ## Part 2: refinement selection and training loop (C08) -/

/-- a candidate with its error indicator numerator `δ` (`none` = NaN) and its cost -/
structure Cand where
  comp : String
  idx  : Idx
  delta : Option Q
  cost : Q
deriving Repr

/-- `delta_work = max(1, cost)` -/
def work (c : Cand) : Q := Gen.work c.cost     -- generated from `delta_work = max(1., comp.get_cost(alpha, beta))`

/-- error indicator `δ / max(1, cost)`; NaN stays NaN -/
def indicator (c : Cand) : Option Q := c.delta.map (fun d => Gen.indicatorOf d (work c))   -- generated formula

/-- the scan of `System.refine`: `star` = chosen candidate so far, `emax` = running maximum (`none` = −∞).
    A defined indicator replaces the choice iff it is strictly greater than the running maximum; an undefined (NaN)
    indicator is taken only as a fallback while nothing has been chosen yet and never raises the running maximum. -/
def scanStep : List Cand → Option Cand → Option Q → Option Cand
  | [], star, _ => star
  | c :: rest, star, emax =>
      match indicator c with
      | some e =>
          if (match emax with | none => true | some m => decide (e > m)) then scanStep rest (some c) (some e)
          else scanStep rest star emax
      | none => if star.isNone then scanStep rest (some c) emax else scanStep rest star emax

def choose (cands : List Cand) : Option Cand := scanStep cands none none

/-- outcome of one `fit` iteration -/
inductive StepResult where
  | activated (err : Option Q)     -- one index activated, with `added_error` (`none` = NaN)
  | noCandidate
deriving Repr

/-- `System.fit` loop control: `steps` is the stream of refinement outcomes, `maxIter` already includes the existing
    history length, `tol` the tolerance, `timeUp k` whether the time limit has passed after step `k`.
    Returns the number of history entries appended. -/
def errBelow (err : Option Q) (tol : Q) : Bool :=
  match err with
  | some e => decide (e < tol)
  | none => false          -- `nan < tol` is False

def fitLoop (maxIter : Nat) (tol : Q) (timeUp : Nat → Bool) : Nat → List StepResult → Nat
  | level, [] => level
  | level, StepResult.noCandidate :: _ => level
  | level, StepResult.activated err :: rest =>
      let level' := level + 1
      if level' ≥ maxIter then level'
      else if errBelow err tol then level'
      else if timeUp level' then level'
      else fitLoop maxIter tol timeUp level' rest

/-- the same loop with the end tests GENERATED from the body of `System.fit` (`Gen.fitStop`); this is what the driver runs.
    `C08.generated_loop_is_model` proves it equal to the reference `fitLoop` above. -/
def fitLoopGen (maxIter : Nat) (tol : Q) (timeUp : Nat → Bool) : Nat → List StepResult → Nat
  | level, [] => level
  | level, StepResult.noCandidate :: _ => level
  | level, StepResult.activated err :: rest =>
      if Gen.fitStop (level + 1) maxIter (errBelow err tol) (timeUp (level + 1)) then level + 1
      else fitLoopGen maxIter tol timeUp (level + 1) rest

/-- a call `fit(max_iter = k)` on a system whose history has `level` entries -/
def fitCall (k : Nat) (tol : Q) (timeUp : Nat → Bool) (level : Nat) (steps : List StepResult) : Nat :=
  fitLoopGen (Gen.fitLimit level k) tol timeUp level steps

/-! ## Part 3: fixed-point iteration control for one sample (C06) -/

/-- per-sample FPI state: `prev` = iterate fed to the loop members, `conv` = converged flag, `valid` -/
structure FpiState where
  prev  : List Q
  y     : List Q
  conv  : Bool := false
  valid : Bool := true
  k     : Nat := 0
deriving Repr

def maxAbsDiff (a b : List Q) : Q := (List.zipWith (fun u v => qabs (u - v)) a b).foldl (fun m d => if d > m then d else m) 0

/-- One sweep + end-condition test for a single sample, `F` = the Jacobi map of the loop (all members evaluated at
    `prev`), `mix` = what Anderson acceleration proposes from the sample's own history (a parameter).
    Mirrors `_end_conditions_met`: residual = y - prev; converged if all |residual| ≤ tol; a converged sample is frozen;
    after `maxIter` sweeps a non-converged sample is invalidated (its coupling outputs become NaN = `none`). -/
def fpiRun (F : List Q → List Q) (mix : Nat → List (List Q) → List (List Q) → List Q) (tol : Q) (maxIter : Nat) :
    Nat → FpiState → List (List Q) → List (List Q) → FpiState
  | 0, s, _, _ => s
  | fuel + 1, s, chist, rhist =>
      if s.conv || !s.valid then s else
      let y := F s.prev
      let res := List.zipWith (· - ·) y s.prev
      let conv := decide (maxAbsDiff y s.prev ≤ tol)
      let chist' := chist ++ [y]
      let rhist' := rhist ++ [res]
      if conv then { s with y := y, conv := true }
      else if s.k ≥ maxIter then { s with y := y, valid := false }
      else
        let next := if s.k = 0 then y else mix s.k chist' rhist'
        fpiRun F mix tol maxIter fuel { s with y := y, prev := next, k := s.k + 1 } chist' rhist'

/-- the same per-sample control with the convergence test and the give-up test GENERATED from `_end_conditions_met`
    (`Gen.fpiWithin`, `Gen.fpiGiveUp`); this is what the driver runs. `C06.generated_fpi_is_model`: equal to `fpiRun`. -/
def fpiRunGen (F : List Q → List Q) (mix : Nat → List (List Q) → List (List Q) → List Q) (tol : Q) (maxIter : Nat) :
    Nat → FpiState → List (List Q) → List (List Q) → FpiState
  | 0, s, _, _ => s
  | fuel + 1, s, chist, rhist =>
      if s.conv || !s.valid then s else
      let y := F s.prev
      let res := List.zipWith (· - ·) y s.prev
      let conv := Gen.fpiWithin (maxAbsDiff y s.prev) tol
      let chist' := chist ++ [y]
      let rhist' := rhist ++ [res]
      if conv then { s with y := y, conv := true }
      else if Gen.fpiGiveUp s.k maxIter then { s with y := y, valid := false }
      else
        let next := if s.k = 0 then y else mix s.k chist' rhist'
        fpiRunGen F mix tol maxIter fuel { s with y := y, prev := next, k := s.k + 1 } chist' rhist'

/-- what the caller sees for the loop's coupling outputs of this sample: the value, or NaN -/
def fpiOutput (s : FpiState) : Option (List Q) := if s.conv then some s.y else none

end Amisc
