/-
  AmiscModel.Shape — shape algebra of `format_inputs` / `format_outputs` (src/amisc/utils.py), scalar inputs only
  (no field-quantity trailing dimensions).

  * `atleast1d`      : `np.atleast_1d` on shapes (a 0-d scalar becomes `(1,)`)
  * `commonShape`    : `_common_shape` — common LEADING dimensions under NumPy broadcasting, stopping at the first mismatch
  * `loopShape`      : fold over all inputs, starting from the first input's shape
  * `outShape`       : `format_outputs` — `loop_shape + output_shape`, squeeze a singleton output, squeeze a singleton loop
  * `ravel/unravel`  : C-order flattening of a loop position
-/

import AmiscModel.Generated.Logic

namespace Amisc

abbrev Shape := List Nat

def atleast1d (s : Shape) : Shape := if s.isEmpty then [1] else s

def commonShape : Shape → Shape → Shape
  | a :: as, b :: bs =>
      if a = b then a :: commonShape as bs
      else if a = 1 then b :: commonShape as bs
      else if b = 1 then a :: commonShape as bs
      else []
  | _, _ => []

/-- loop shape of a dict of inputs given their array shapes (in dict order) -/
def loopShape (shapes : List Shape) : Shape :=
  match shapes.map atleast1d with
  | [] => []
  | s :: rest => (s :: rest).foldl commonShape s

def shapeSize (s : Shape) : Nat := s.foldl (· * ·) 1

/-- shape returned by `format_outputs` for an output whose per-sample shape is `out` (`[]` = scalar per sample, stored as
    `(N,)`, i.e. `output_shape = ()`) -/
def outShape (loop out : Shape) : Shape :=
  let full := loop ++ out
  let s1 := if out = [1] then loop else full          -- squeeze singleton outputs (last axis)
  let s1 := atleast1d s1
  let s2 := if loop = [1] then atleast1d (s1.drop 1) else s1   -- squeeze singleton loop dimension (first axis)
  s2

/-! ### the same shape algebra assembled from the fragments GENERATED out of `format_inputs._common_shape` / `format_outputs`
    (`Gen.commonStep`, `Gen.squeezeOut`, `Gen.squeezeLoop`); this is what the driver runs. `C10.generated_commonShape_is_model`,
    `generated_loopShape_is_model`, `generated_outShape_is_model`: equal to the reference definitions above. -/

def commonShapeGen : Shape → Shape → Shape
  | a :: as, b :: bs =>
      match Gen.commonStep a b with
      | some c => c :: commonShapeGen as bs
      | none => []
  | _, _ => []

def loopShapeGen (shapes : List Shape) : Shape :=
  match shapes.map atleast1d with
  | [] => []
  | s :: rest => (s :: rest).foldl commonShapeGen s

def outShapeGen (loop out : Shape) : Shape :=
  let full := loop ++ out
  let s1 := if Gen.squeezeOut out then loop else full
  let s1 := atleast1d s1
  let s2 := if Gen.squeezeLoop loop then atleast1d (s1.drop 1) else s1
  s2

/-- C-order flat index of a position -/
def ravel : Shape → List Nat → Nat
  | [], [] => 0
  | n :: ns, i :: is => i * shapeSize ns + ravel ns is
  | _, _ => 0

/-- position of a flat index -/
def unravel : Shape → Nat → List Nat
  | [], _ => []
  | _ :: ns, k => (k / shapeSize ns) :: unravel ns (k % shapeSize ns)

end Amisc
