/-
  AmiscModel.Exec — model of the executor path of `Component.call_model` (and of the parallel loops in
  `Component.predict` / `System.refine`): tasks are submitted in index order, complete in ANY order (`π`), and the results
  are collected by SUBMISSION index (`for i, fs in enumerate(futures): fs.result()`); an exception is recorded against the
  index of the task that raised it.
-/

namespace Amisc

/-- outcome of one evaluation -/
inductive Outcome (β : Type) where
  | ok (v : β)
  | raised
deriving Repr, DecidableEq

/-- the executor finishes the tasks in the order `π` (a list of task indices); each completed future is stored with its
    submission index -/
def complete {α β : Type} (f : α → Outcome β) (tasks : List α) (π : List Nat) : List (Nat × Outcome β) :=
  π.filterMap fun i => tasks[i]?.map fun t => (i, f t)

/-- collection loop: result of the future that was submitted i-th -/
def collect {β : Type} (n : Nat) (done : List (Nat × Outcome β)) : List (Option (Outcome β)) :=
  (List.range n).map fun i => (done.find? fun e => e.1 == i).map (·.2)

/-- serial evaluation -/
def serial {α β : Type} (f : α → Outcome β) (tasks : List α) : List (Outcome β) := tasks.map f

/-- indices recorded in `errors` -/
def errorIndices {β : Type} (rs : List (Outcome β)) : List Nat :=
  (List.range rs.length).filter fun i => match rs[i]? with | some .raised => true | _ => false

end Amisc

namespace Amisc

/-- what `call_model` stores for a failed evaluation: the submission index together with the arguments (inputs, model fidelity)
    of THAT task — `{'inputs': {k: v[i]}, 'index': i, 'model_kwargs': kwargs with model_fidelity[i]}` -/
def errorRecords {α β : Type} (tasks : List α) (rs : List (Option (Outcome β))) : List (Nat × α) :=
  (List.range tasks.length).filterMap fun i =>
    match rs[i]?, tasks[i]? with
    | some (some Outcome.raised), some t => some (i, t)
    | _, _ => none

/-- the parallel loops of `Component.predict` / `gradient`: per-index results are collected by submission index and combined
    with the weights in submission order (`none`/raised terms contribute nothing here) -/
def weightedSum (coeffs : List Int) (rs : List (Option (Outcome Rat))) : Rat :=
  (List.zipWith (fun (c : Int) r => match r with | some (Outcome.ok v) => (c : Rat) * v | _ => 0) coeffs rs).foldl (· + ·) 0

end Amisc
