/-
  AmiscModel.Exec — model of the executor path of `Component.call_model` (and of the parallel loops in
  `Component.predict` / `System.refine`): tasks are submitted in index order, complete in ANY order (`π`), and the results
  are collected by SUBMISSION index (`for i, fs in enumerate(futures): fs.result()`); an exception is recorded against the
  index of the task that raised it.
-/

namespace Amisc

/-- outcome of one evaluation -/
inductive Outcome (β : Type) where
  | ok (v : β)
  | raised
deriving Repr, DecidableEq

/-- the executor finishes the tasks in the order `π` (a list of task indices); each completed future is stored with its
    submission index -/
def complete {α β : Type} (f : α → Outcome β) (tasks : List α) (π : List Nat) : List (Nat × Outcome β) :=
  π.filterMap fun i => tasks[i]?.map fun t => (i, f t)

/-- collection loop: result of the future that was submitted i-th -/
def collect {β : Type} (n : Nat) (done : List (Nat × Outcome β)) : List (Option (Outcome β)) :=
  (List.range n).map fun i => (done.find? fun e => e.1 == i).map (·.2)

/-- serial evaluation -/
def serial {α β : Type} (f : α → Outcome β) (tasks : List α) : List (Outcome β) := tasks.map f

/-- indices recorded in `errors` -/
def errorIndices {β : Type} (rs : List (Outcome β)) : List Nat :=
  (List.range rs.length).filter fun i => match rs[i]? with | some .raised => true | _ => false

end Amisc
