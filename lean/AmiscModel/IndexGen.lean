/-
  AmiscModel.IndexGen — the index bookkeeping assembled from the fragments GENERATED out of `Component.activate_index` and
  `Component._neighbors` (AmiscModel.Generated.Logic): request guards, box test, range and failure condition of the backward
  check, and the commit block statement by statement.  This is what the driver runs; `C02.generated_activate_is_model` proves
  it equal to the hand-written reference `Amisc.activate`, about which the C01/C02/C13/C18 theorems are stated.
-/
import AmiscModel.Index
import AmiscModel.Generated.Logic

namespace Amisc

/-- backward check of `_neighbors` with the generated loop range and failure condition -/
def backOKGen (active : List Idx) (self c : Idx) : Bool :=
  (List.range (Gen.backDims c.length)).all fun j =>
    c.nth j == 0 || !(Gen.backFails (decide (c.dec j ∈ active)) (decide (c.dec j = self)))

/-- `_neighbors(alpha, beta, forward=True)` with the generated box test (an incremented index is never below zero) -/
def nbrsGen (box : Idx) (active : List Idx) (idx : Idx) : List Idx :=
  (List.range idx.length).filterMap fun k =>
    let c := idx.inc k
    if !(Gen.nbrSkip (!(c.le box)) false) && backOKGen active idx c then some c else none

/-- one statement of the commit block -/
def applyCommit (idx : Idx) (nb : List Idx) (inCand : Bool) (st : IState) (op : Gen.CommitOp) : IState :=
  let go : Bool := match op.guard with
    | .always => true
    | .ifInCand => inCand
    | .ifNotInCand => !inCand
  if go then
    match op.act with
    | .trainSelf => { st with ctrain := updateCoeff [idx] st.active st.ctrain }
    | .testSelf => { st with ctest := updateCoeff [idx] (st.active ++ st.cand) st.ctest }
    | .candRemoveSelf => { st with cand := st.cand.erase idx }
    | .activeAddSelf => { st with active := unionNew st.active [idx] }
    | .testNbrs => { st with ctest := updateCoeff nb (st.active ++ st.cand) st.ctest }
    | .candAddNbrs => { st with cand := unionNew st.cand nb }
  else st

/-- `Component.activate_index` (index-set / weight part) assembled from the generated fragments -/
def activateGen (box : Idx) (st : IState) (idx : Idx) : IState :=
  if Gen.guardActive (decide (idx ∈ st.active)) then st
  else if Gen.guardNonCandidate (decide (idx ∈ st.cand)) idx.total then st
  else
    Gen.commitOps.foldl (applyCommit idx (nbrsGen box st.active idx) (decide (idx ∈ st.cand))) st

/-- one step of `System.simulate_fit` on the shadow structures, assembled from the generated statement list `Gen.simOps`;
    the neighbours are computed from the shadow active set BEFORE the step (falling back to the live set when it is empty) -/
def simStepGen (box : Idx) (live : List Idx) (st : IState) (idx : Idx) : IState :=
  let act := if Gen.nbrActiveFallback && st.active.isEmpty then live else st.active
  Gen.simOps.foldl (applyCommit idx (nbrsGen box act idx) (decide (idx ∈ st.cand))) st

def runGen (box : Idx) (rs : List Idx) : IState := rs.foldl (activateGen box) IState.init

end Amisc
