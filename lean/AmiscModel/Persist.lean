/-
  AmiscModel.Persist — field-map model of `Component.serialize` / `Component.deserialize` (src/amisc/component.py).

  A component's learned state is a record of containers; `serialize` writes a key only when the container is non-empty
  (fidelities, index sets, the four trees, model costs), always writes the configuration keys, and omits the training-data
  and interpolator payloads for components without a surrogate; `deserialize` (pydantic defaults) restores a missing key
  as the empty container.  Payloads that are pickled / base64-encoded (interpolator states, training data) are opaque
  tokens here.
-/
import AmiscModel.Index
import AmiscModel.Generated.Logic

namespace Amisc

structure PState where
  name : String
  vectorized : Bool
  modelFid : Idx
  dataFid : Idx
  surrFid : Idx
  active : List Idx
  cand : List Idx
  miscCosts : List (Idx × Int)      -- values are opaque numbers (floats written with full precision)
  coeffTrain : CMap
  coeffTest : CMap
  states : List (Idx × String)      -- opaque payload tokens
  modelCosts : List (Idx × Int)
  trainingData : String             -- opaque payload token ("" for a component without surrogate)
deriving Repr, DecidableEq

structure PDoc where
  name : String
  vectorized : Bool
  modelFid : Option Idx
  dataFid : Option Idx
  surrFid : Option Idx
  active : Option (List Idx)
  cand : Option (List Idx)
  miscCosts : Option (List (Idx × Int))
  coeffTrain : Option CMap
  coeffTest : Option CMap
  states : Option (List (Idx × String))
  modelCosts : Option (List (Idx × Int))
  trainingData : Option String
deriving Repr, DecidableEq

/-- `if len(value) > 0: d[key] = …` -/
def optOfList {α : Type} (l : List α) : Option (List α) := if l.isEmpty then none else some l

def hasSurrogate (s : PState) : Bool := !(s.modelFid.isEmpty && s.dataFid.isEmpty && s.surrFid.isEmpty)

def pserialize (s : PState) : PDoc :=
  { name := s.name, vectorized := s.vectorized,
    modelFid := optOfList s.modelFid, dataFid := optOfList s.dataFid, surrFid := optOfList s.surrFid,
    active := optOfList s.active, cand := optOfList s.cand, miscCosts := optOfList s.miscCosts,
    coeffTrain := optOfList s.coeffTrain, coeffTest := optOfList s.coeffTest, states := optOfList s.states,
    modelCosts := optOfList s.modelCosts,
    trainingData := if hasSurrogate s then some s.trainingData else none }

def pdeserialize (d : PDoc) : PState :=
  { name := d.name, vectorized := d.vectorized,
    modelFid := d.modelFid.getD [], dataFid := d.dataFid.getD [], surrFid := d.surrFid.getD [],
    active := d.active.getD [], cand := d.cand.getD [], miscCosts := d.miscCosts.getD [],
    coeffTrain := d.coeffTrain.getD [], coeffTest := d.coeffTest.getD [], states := d.states.getD [],
    modelCosts := d.modelCosts.getD [], trainingData := d.trainingData.getD "" }

/-- well-formedness: a component without surrogate carries no training data payload -/
def PWF (s : PState) : Prop := hasSurrogate s = false → s.trainingData = ""

/-- the key set written by `Component.serialize`, as a function of the emptiness flags -/
structure CompFlags where
  surr : Bool
  mf : Bool
  df : Bool
  sf : Bool
  act : Bool
  cand : Bool
  costs : Bool
  ctrain : Bool
  ctest : Bool
  states : Bool
  mcost : Bool
  cu : Bool
  ru : Bool
  name : Bool

def serializeKeys (f : CompFlags) : List String :=
  ["serializers", "model", "model_kwargs", "inputs", "outputs", "vectorized"] ++
  (if f.name then ["name"] else []) ++
  (if f.mf then ["model_fidelity"] else []) ++ (if f.df then ["data_fidelity"] else []) ++
  (if f.sf then ["surrogate_fidelity"] else []) ++
  (if f.surr then ["interpolator", "training_data"] else []) ++
  (if f.cu then ["call_unpacked"] else []) ++ (if f.ru then ["ret_unpacked"] else []) ++
  (if f.act then ["active_set"] else []) ++ (if f.cand then ["candidate_set"] else []) ++
  (if f.states then ["misc_states"] else []) ++ (if f.costs then ["misc_costs"] else []) ++
  (if f.ctrain then ["misc_coeff_train"] else []) ++ (if f.ctest then ["misc_coeff_test"] else []) ++
  (if f.mcost then ["model_costs"] else [])

/-! ### the same field map assembled from the dispatch chain GENERATED out of `Component.serialize` -/

/-- is a key with this write rule written, given whether its container is non-empty and whether the component has a surrogate -/
def written (r : Gen.WriteRule) (nonEmpty surr : Bool) : Bool :=
  match r with
  | .whenNonEmpty => nonEmpty
  | .always => true
  | .surrogateOnly => surr

def wr {α : Type} (key : String) (surr : Bool) (l : List α) : Option (List α) :=
  if written (Gen.serializeRuleOf key) (!l.isEmpty) surr then some l else none

/-- `Component.serialize` on the learned state, every field through the generated rule of ITS key -/
def pserializeGen (s : PState) : PDoc :=
  { name := s.name, vectorized := s.vectorized,
    modelFid := wr "model_fidelity" (hasSurrogate s) s.modelFid, dataFid := wr "data_fidelity" (hasSurrogate s) s.dataFid,
    surrFid := wr "surrogate_fidelity" (hasSurrogate s) s.surrFid,
    active := wr "active_set" (hasSurrogate s) s.active, cand := wr "candidate_set" (hasSurrogate s) s.cand,
    miscCosts := wr "misc_costs" (hasSurrogate s) s.miscCosts,
    coeffTrain := wr "misc_coeff_train" (hasSurrogate s) s.coeffTrain, coeffTest := wr "misc_coeff_test" (hasSurrogate s) s.coeffTest,
    states := wr "misc_states" (hasSurrogate s) s.states, modelCosts := wr "model_costs" (hasSurrogate s) s.modelCosts,
    trainingData := if written (Gen.serializeRuleOf "training_data") true (hasSurrogate s) then some s.trainingData else none }

/-- the key set written, every key through its generated rule (keys whose value may be `None` carry a not-None flag) -/
def serializeKeysGen (f : CompFlags) : List String :=
  let w := fun (k : String) (flag : Bool) => if written (Gen.serializeRuleOf k) flag f.surr then [k] else []
  w "serializers" true ++ w "model" true ++ w "model_kwargs" true ++ w "inputs" true ++ w "outputs" true ++ w "vectorized" true ++
  (if f.name then w "name" true else []) ++
  w "model_fidelity" f.mf ++ w "data_fidelity" f.df ++ w "surrogate_fidelity" f.sf ++
  w "interpolator" true ++ w "training_data" true ++
  (if f.cu then w "call_unpacked" true else []) ++ (if f.ru then w "ret_unpacked" true else []) ++
  w "active_set" f.act ++ w "candidate_set" f.cand ++ w "misc_states" f.states ++ w "misc_costs" f.costs ++
  w "misc_coeff_train" f.ctrain ++ w "misc_coeff_test" f.ctest ++ w "model_costs" f.mcost

end Amisc
