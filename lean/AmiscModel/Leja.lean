/-
  AmiscModel.Leja — the 1-d Leja sequence of `SparseGrid.collocation_1d`: start at the midpoint of the bounds, then repeatedly
  append a global minimiser of the objective GENERATED from the source (`Gen.lejaObjNeg` = −weight × product of distances to the
  points chosen so far). The global optimiser (DIRECT) is a parameter of the model: it is represented by an ideal minimiser over a
  finite candidate list (the points it may return), first least value winning.
-/
import AmiscModel.Generated.Consts
import AmiscModel.Interp

namespace Amisc

/-- ideal minimiser over a candidate list: the first candidate with the least objective value -/
def argminOn (f : Q → Q) : List Q → Option Q → Option Q
  | [], best => best
  | z :: rest, none => argminOn f rest (some z)
  | z :: rest, some b => argminOn f rest (if f z < f b then some z else some b)

/-- next point of the sequence -/
def lejaNext (w : Q → Q) (cands pts : List Q) : Option Q := argminOn (Gen.lejaObjNeg w pts) cands none

/-- `n` more points appended to `pts` -/
def lejaSeq (w : Q → Q) (cands : List Q) : Nat → List Q → List Q
  | 0, pts => pts
  | n + 1, pts =>
      match lejaNext w cands pts with
      | some z => lejaSeq w cands n (pts ++ [z])
      | none => pts

/-- a fresh sequence of `n` points on `(lb, ub)` -/
def lejaFresh (w : Q → Q) (cands : List Q) (lb ub : Q) (n : Nat) : List Q :=
  match n with
  | 0 => []
  | n + 1 => lejaSeq w cands n [Gen.lejaFirst lb ub]

end Amisc
