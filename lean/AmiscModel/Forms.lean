/-
  AmiscModel.Forms — the raw / normalised bookkeeping of `System.predict` (`norm_status`).

  Every variable travels through the sweep as a number together with a flag "is in normalised (surrogate) form". A component is
  evaluated either through its MODEL (`use_model`: reads and writes model units) or through its SURROGATE (reads and writes
  normalised values; a component without surrogate wraps its model in the same conversion). `_gather_comp_inputs` converts exactly the
  inputs whose recorded form is not the one the evaluation path needs, and what a component writes is recorded in the form of its
  path. The conversion decisions and the recorded forms are GENERATED from the source (`Gen.needsDenorm`, `Gen.needsNorm`,
  `Gen.formAfterWrite`, `Gen.inputFormOf`).
-/
import AmiscModel.Sys

namespace Amisc

/-- value and form flag (`true` = normalised) of every variable -/
abbrev FEnv := String → Q × Bool

/-- a component with both evaluation paths, each given as a function on PHYSICAL values -/
structure FComp where
  name    : String
  ins     : List String
  outs    : List String
  fnModel : (String → Q) → String → Q
  fnSurr  : (String → Q) → String → Q

/-- the physical value a (number, form) pair stands for; `dn v` = `Variable.denormalize` of variable `v` -/
def decode (dn : String → Q → Q) (e : FEnv) : Env := fun v => if (e v).2 then dn v (e v).1 else (e v).1

/-- what `_gather_comp_inputs` hands to a component evaluated through its model: model units -/
def gatherRaw (dn : String → Q → Q) (e : FEnv) : String → Q :=
  fun u => if Gen.needsDenorm true (e u).2 then dn u (e u).1 else (e u).1

/-- … and through its surrogate: normalised values -/
def gatherNorm (nm : String → Q → Q) (e : FEnv) : String → Q :=
  fun u => if Gen.needsNorm false (e u).2 then nm u (e u).1 else (e u).1

/-- one component of the sweep; `cm` = evaluated through the model -/
def runCompF (nm dn : String → Q → Q) (c : FComp) (cm : Bool) (e : FEnv) : FEnv :=
  fun v =>
    if v ∈ c.outs then
      if cm then (c.fnModel (gatherRaw dn e) v, Gen.formAfterWrite true)
      else (nm v (c.fnSurr (fun u => dn u (gatherNorm nm e u)) v), Gen.formAfterWrite false)
    else e v

/-- the sweep with per-component evaluation paths `um` (by component name) -/
def sweepF (nm dn : String → Q → Q) (um : String → Bool) (order : List FComp) (e : FEnv) : FEnv :=
  order.foldl (fun e c => runCompF nm dn c (um c.name) e) e

/-- the caller's inputs, all in one form (`normalized_inputs`) -/
def inputsF (x : String → Q) (normalizedInputs : Bool) : FEnv := fun v => (x v, Gen.inputFormOf normalizedInputs)

/-- the plain component that a path selection stands for -/
def FComp.chosen (c : FComp) (um : String → Bool) : SComp :=
  { name := c.name, ins := c.ins, outs := c.outs, fn := if um c.name then c.fnModel else c.fnSurr }

end Amisc
