/-
  AmiscModel.Store — executable model of the training-data path of one component.

  Mirrors
    * `SparseGrid.beta_to_knots` (scalar inputs)           → `knots`
    * `SparseGrid._expand_grid_coords`                      → `prodIdx (knots β)`  (itertools.product order)
    * `SparseGrid.refine`                                   → `sgRefine`   (grid growth + coordinates without stored output)
    * the batch construction of `Component.activate_index`  → `activateBatch`
      (order of `indices`, duplicate removal against earlier designs of the same alpha, one concatenated model call,
       per-index `set` afterwards)
    * cost bookkeeping `misc_costs[a,b] = model_cost(a) * #new points`, `get_allocation` → `AllocEntry`, `allocation`
  Grid *values* (Leja nodes) are not part of this model: a grid is its length; coordinates are tuples of positions.
-/
import AmiscModel.Index
import AmiscModel.Generated.Logic
import AmiscModel.Interp

namespace Amisc

abbrev Coord := List Nat
abbrev EvalKey := Idx × Coord   -- (alpha, grid coordinate)

structure SGrid where
  kpl     : Nat
  stored  : List EvalKey := []      -- keys of `yi_map`
  gridLen : List Nat := []          -- current length of every 1-d grid (`x_grids`)
  betas   : List Idx := []          -- `betas` seen so far
deriving Repr

def knots (kpl : Nat) (β : Idx) : List Nat := β.map fun b => kpl * b + 1

/-- `is_one_level_refinement(beta_old, beta_new)` -/
def isOneLevel (old new : Idx) : Bool :=
  old.length == new.length &&
  (let diffs : List Int := List.zipWith (fun (n o : Nat) => (n : Int) - (o : Int)) new old
   (diffs.filter (· ≠ 0)) == [1])

/-- `SparseGrid.refine(alpha, beta)`: returns the coordinates of `beta`'s tensor grid that have no stored output for
    `alpha` (in `itertools.product` order).  A 1-d grid is extended to the size `beta` needs when a one-level-lower `beta`
    has been seen (always the case for admissible histories); the very first call creates the grids. -/
def sgRefine (g : SGrid) (alpha beta : Idx) : SGrid × List Coord :=
  let sizes := knots g.kpl beta
  let gridLen' :=
    if g.gridLen.isEmpty then sizes
    else if g.betas.any (fun old => isOneLevel old beta) then List.zipWith max g.gridLen sizes
    else g.gridLen
  let new := (prodIdx sizes).filter fun c => !decide ((alpha, c) ∈ g.stored)
  ({ g with gridLen := gridLen', betas := if beta ∈ g.betas then g.betas else g.betas ++ [beta] }, new)

/-- design phase of `activate_index` for the batch `indices` (alpha, data-part of beta): per index the coordinates that
    will be evaluated, after removing those already designed for the same alpha earlier in the batch. -/
def designBatch : SGrid → List (Idx × Idx) → List (Idx × List Coord) → SGrid × List (Idx × List Coord)
  | g, [], acc => (g, acc)
  | g, (a, b) :: rest, acc =>
      let (g', coords) := sgRefine g a b
      let earlier : List EvalKey := acc.flatMap fun (a', cs) => cs.map fun c => (a', c)
      let coords' := coords.filter fun c => !decide ((a, c) ∈ earlier)
      designBatch g' rest (acc ++ [(a, coords')])

/-- the evaluations of one activation in call order -/
def batchEvals (design : List (Idx × List Coord)) : List EvalKey :=
  design.flatMap fun (a, cs) => cs.map fun c => (a, c)

/-- one activation: design, one model call for `batchEvals`, then every index stores its own slice -/
def activateBatch (g : SGrid) (batch : List (Idx × Idx)) : SGrid × List EvalKey :=
  let (g', design) := designBatch g batch []
  let evals := batchEvals design
  ({ g' with stored := g'.stored ++ evals }, evals)

/-- a whole history of activations (each given by its batch of indices) -/
def runBatches : SGrid → List (List (Idx × Idx)) → SGrid × List EvalKey
  | g, [] => (g, [])
  | g, b :: bs =>
      let (g', ev) := activateBatch g b
      let (g'', evs) := runBatches g' bs
      (g'', ev ++ evs)

/-! ### slices handed back to the indices (`start_idx`, `end_idx`) -/

/-- `[start, end)` of every index of the batch in the concatenated model output -/
def sliceBounds (design : List (Idx × List Coord)) : List (Nat × Nat) :=
  (design.foldl (fun (acc : Nat × List (Nat × Nat)) d => (acc.1 + d.2.length, acc.2 ++ [(acc.1, acc.1 + d.2.length)]))
    (0, [])).2

/-! ### cost accounts -/

/-- ground truth per evaluation: (alpha, cost reported by the model) -/
abbrev CostLog := List (Idx × Q)

def totalEvals (log : CostLog) (alpha : Idx) : Nat := (log.filter (·.1 = alpha)).length
def totalCost (log : CostLog) (alpha : Idx) : Q := qsum ((log.filter (·.1 = alpha)).map (·.2))

end Amisc

namespace Amisc

/-! ### failed evaluations (C14): error re-basing and imputation substitution -/

/-- The loop of `activate_index` that hands the errors of the concatenated model call back to the indices of the batch:
    `errors` holds global batch positions; for index `i` with slice `[start, start + n_i)` every error position below the
    slice end is popped and stored at its local position `idx - start`. -/
def rebaseErrors : Nat → List Nat → List Nat → List (List Nat)
  | _, _, [] => []
  | start, errs, n :: ns =>
      let stop := Gen.stopOf start n
      (errs.filter (Gen.errBelongs · stop)).map (Gen.errLocal · start) ::
        rebaseErrors (Gen.nextStart stop) (errs.filter fun e => !Gen.errBelongs e stop) ns

/-- stored value of one output at one coordinate: `none` = NaN -/
abbrev Stored := Option Q

/-- `get_by_coord` substitution rule: a NaN value is replaced by the imputed one when it exists; otherwise the stored value
    is returned untouched -/
def substitute (stored imputed : Stored) : Stored :=
  match stored with
  | some v => some v
  | none => imputed

/-- with `skip_nan`, a coordinate whose value is still NaN after substitution is dropped -/
def getRows (rows : List (Stored × Stored)) : List Q :=
  rows.filterMap fun (s, i) => substitute s i

end Amisc

namespace Amisc

/-! ### cost accounts (C09): `model_costs`, `misc_costs`, `System.get_allocation`

  * `Component.call_model`: after a model call that reported `model_cost`, for every fidelity `a` of the call
      `model_costs[a] = nanmean(hstack((costs_of_this_call, model_costs[a])))`            → `updAvg`
    (the previous AVERAGE enters as one more sample — this is what the code does, not a true running mean);
  * `Component.activate_index`: `misc_costs[a, b] = model_costs.get(a, 1.) * num_train_pts`   → `bookIndex`
  * `System.get_allocation`: per booked index `added_eval = round(added_cost / model_costs.get(a, 1.))` with the averages
    AT REPORT TIME, summed per fidelity                                                        → `allocEvals`, `allocCost`
-/

/-- one booked index: fidelity, (data part of) beta, number of new points evaluated for it (ghost: the code does not keep
    it — `get_allocation` has to recover it), cost booked -/
structure MiscEntry where
  alpha : Idx
  beta  : Idx
  npts  : Nat
  cost  : Q
deriving Repr

structure CostAcc where
  avg  : Idx → Option Q := fun _ => none     -- `model_costs`
  misc : List MiscEntry := []                -- `misc_costs`, in booking order

/-- `np.nanmean(np.hstack((costs, old)))` -/
def meanWith (costs : List Q) (old : Option Q) : Q :=
  qsum (costs ++ old.toList) / ((costs ++ old.toList).length : Q)

/-- update of the average for one fidelity of a call (a call without reported costs for `a` changes nothing) -/
def updAvg (avg : Idx → Option Q) (a : Idx) (costs : List Q) : Idx → Option Q :=
  if costs.isEmpty then avg else fun a' => if a' = a then some (meanWith costs (avg a)) else avg a'

/-- `misc_costs[a, b] = model_costs.get(a, 1.) * num_train_pts` -/
def bookIndex (acc : CostAcc) (a b : Idx) (n : Nat) : CostAcc :=
  { acc with misc := acc.misc ++ [{ alpha := a, beta := b, npts := n, cost := (acc.avg a).getD 1 * (n : Q) }] }

/-- one activation: `reported` = the costs the model reported in this call, grouped by fidelity; `design` = the indices of
    the batch with the number of new points each -/
def bookCall (acc : CostAcc) (reported : List (Idx × List Q)) (design : List (Idx × Idx × Nat)) : CostAcc :=
  let acc' := { acc with avg := reported.foldl (fun av r => updAvg av r.1 r.2) acc.avg }
  design.foldl (fun ac d => bookIndex ac d.1 d.2.1 d.2.2) acc'

def runCalls (acc : CostAcc) (calls : List (List (Idx × List Q) × List (Idx × Idx × Nat))) : CostAcc :=
  calls.foldl (fun ac c => bookCall ac c.1 c.2) acc

/-- Python's `round` on an exact rational: nearest integer, ties to even -/
def pyRound (x : Q) : Int :=
  let f := x.num / (x.den : Int)      -- floor (the denominator of a `Rat` is positive)
  let r := x - (f : Q)
  if r < 1/2 then f else if r > 1/2 then f + 1 else if f % 2 = 0 then f else f + 1

/-- `get_allocation`: evaluations recovered for one booked index -/
def entryEvals (acc : CostAcc) (e : MiscEntry) : Int := pyRound (e.cost / (acc.avg e.alpha).getD 1)

/-- reported evaluations / cost of fidelity `a` (`eval_alloc[comp][a]`, `cost_alloc[comp][a]`) -/
def allocEvals (acc : CostAcc) (a : Idx) : Int := ((acc.misc.filter (·.alpha = a)).map (entryEvals acc)).foldl (· + ·) 0
def allocCost (acc : CostAcc) (a : Idx) : Q := qsum ((acc.misc.filter (·.alpha = a)).map (·.cost))

/-- ground truth from the model's own reports: number of evaluations made at fidelity `a`, and their total cost -/
def trueEvals (calls : List (List (Idx × List Q) × List (Idx × Idx × Nat))) (a : Idx) : Nat :=
  (calls.map fun c => ((c.1.filter (·.1 = a)).map (·.2.length)).sum).sum
def trueCost (calls : List (List (Idx × List Q) × List (Idx × Idx × Nat))) (a : Idx) : Q :=
  qsum (calls.map fun c => qsum ((c.1.filter (·.1 = a)).map fun r => qsum r.2))

end Amisc
