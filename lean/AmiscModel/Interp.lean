/-
  AmiscModel.Interp — executable model (exact rationals) of amisc's tensor-product barycentric Lagrange interpolator.

  Mirrors src/amisc/interpolator.py:
    * `Lagrange.refine`   → `wtsInit` (first state), `wtsAdd` / `wtsExtend` (incremental), capacity `C = (ub-lb)/cap`
    * `Lagrange.predict`  → `basis`, `predictT`
    * `Lagrange.gradient` → `dBasis`, `gradT`
    * `Lagrange.hessian`  → `d2Basis`, `hessT`
  and the weighted sum of `Component.predict` / `gradient` → `miscSum`.
  The node-coincidence rule `np.isclose(diff, 0, rtol, atol)` is the parameter `tol` (|x - node| ≤ tol ⇒ "on the node");
  its value comes from the generated `Amisc.Gen.snapTol`.
  Division by zero never occurs on the paths taken (flagged differences are replaced by 1 exactly as the code does);
  `Rat` division is total (x/0 = 0), the property theorems carry the hypotheses that exclude it.
-/

namespace Amisc

abbrev Q := Rat

def qabs (x : Q) : Q := if x < 0 then -x else x

def qprod (l : List Q) : Q := l.foldl (· * ·) 1
def qsum (l : List Q) : Q := l.foldl (· + ·) 0

/-! ### barycentric weights -/

/-- `weights = 1 / prod((x_j - x_i)/C, i ≠ j)` (diagonal filled with 1) -/
def wtsInit (C : Q) (xs : List Q) : List Q :=
  (List.range xs.length).map fun j =>
    1 / qprod ((List.range xs.length).map fun i => if i = j then 1 else (xs.getD j 0 - xs.getD i 0) / C)

/-- one incremental step: `w[:j] *= C/(grid[:j]-grid[j])`, `w[j] = prod(C/(grid[j]-grid[:j]))` -/
def wtsAdd (C : Q) (xs ws : List Q) (x : Q) : List Q :=
  List.zipWith (fun xi wi => wi * (C / (xi - x))) xs ws ++ [qprod (xs.map fun xi => C / (x - xi))]

/-- add the new nodes one after the other with capacity `C` -/
def wtsExtend (C : Q) : List Q → List Q → List Q → List Q × List Q
  | xs, ws, [] => (xs, ws)
  | xs, ws, x :: rest => wtsExtend C (xs ++ [x]) (wtsAdd C xs ws x) rest

/-- `_extend_grids`: new values not already present, first occurrence order -/
def extendGrid (grid new : List Q) : List Q :=
  new.foldl (fun acc x => if x ∈ grid ∨ x ∈ acc then acc else acc ++ [x]) []

/-- The old weights carry the capacity of the domain at the time they were computed; before extending, `Lagrange.refine`
    rescales them by the common factor that makes node 0's weight what it would be under the CURRENT capacity
    (`w0 = 1 / prod((grid[0] - grid[1:n]) / C)`, `weights[:n] *= w0 / weights[0]`), for grids of more than one node. -/
def rescaleWts (C : Q) (xs ws : List Q) : List Q :=
  if xs.length > 1 then
    let w0 := 1 / qprod ((xs.drop 1).map fun xi => (xs.getD 0 0 - xi) / C)
    ws.map (· * (w0 / ws.getD 0 0))
  else ws

/-- `Lagrange.refine` for one variable: `old = none` initialises, otherwise extends incrementally (nothing changes when no
    new node arrives) -/
def refine1 (C : Q) (old : Option (List Q × List Q)) (pts : List Q) : List Q × List Q :=
  match old with
  | none => let g := extendGrid [] pts; (g, wtsInit C g)
  | some (xs, ws) =>
      let new := extendGrid xs pts
      if new.isEmpty then (xs, ws) else wtsExtend C xs (rescaleWts C xs ws) new

/-! ### 1-d basis with the node special cases -/

def flagged (tol x : Q) (grid : List Q) : List Bool := grid.map fun xk => decide (qabs (x - xk) ≤ tol)

/-- `diff[div_zero_idx] = 1` -/
def diffs (tol x : Q) (grid : List Q) : List Q :=
  grid.map fun xk => if qabs (x - xk) ≤ tol then 1 else x - xk

def quots (tol x : Q) (grid ws : List Q) : List Q := List.zipWith (fun w d => w / d) ws (diffs tol x grid)

/-- value of the j-th 1-d Lagrange basis polynomial as computed by `Lagrange.predict` -/
def basis (tol x : Q) (grid ws : List Q) (j : Nat) : Q :=
  let fl := flagged tol x grid
  if fl.getD j false then 1
  else if fl.any id then 0
  else (quots tol x grid ws).getD j 0 / qsum (quots tol x grid ws)

/-- first derivative of the j-th basis polynomial as computed by `Lagrange.gradient` -/
def dBasis (tol x : Q) (grid ws : List Q) (j : Nat) : Q :=
  let fl := flagged tol x grid
  let wj := ws.getD j 0
  if fl.getD j false then
    -- x on its own node: -Σ_{p≠j} (w_p/w_j)/(x - x_p)
    - qsum ((List.range grid.length).map fun p => if p = j then 0 else (ws.getD p 0 / wj) / (x - grid.getD p 0))
  else if fl.any id then
    -- x on another node i: (w_j/w_i)/(x - x_j)   (the flagged node's weight)
    let i := (fl.idxOf true)
    (wj / ws.getD i 0) / (x - grid.getD j 0)
  else
    let d := diffs tol x grid
    let qs := qsum (quots tol x grid ws)
    let sq := qsum (List.zipWith (fun w d => w / (d * d)) ws d)
    let dj := d.getD j 1
    (wj / (qs * dj)) * (sq / qs - 1 / dj)

/-- second derivative of the j-th basis polynomial as computed by `Lagrange.hessian` (diagonal terms) -/
def d2Basis (tol x : Q) (grid ws : List Q) (j : Nat) : Q :=
  let fl := flagged tol x grid
  let wj := ws.getD j 0
  if fl.getD j false then
    let s1 := qsum ((List.range grid.length).map fun p => if p = j then 0 else (ws.getD p 0 / wj) / (x - grid.getD p 0))
    let s2 := qsum ((List.range grid.length).map fun p =>
      if p = j then 0 else (ws.getD p 0 / wj) / ((x - grid.getD p 0) * (x - grid.getD p 0)))
    2 * (s1 * s1) + 2 * s2
  else if fl.any id then
    let i := fl.idxOf true
    let wi := ws.getD i 0
    let xi := grid.getD i 0
    let currDiv := wj / wi
    let currDiff := xi - grid.getD j 0
    let s := qsum ((List.range grid.length).map fun p => if p = i then 0 else (ws.getD p 0 / wi) / (xi - grid.getD p 0))
    (-2 * currDiv / currDiff) * (s + 1 / currDiff)
  else
    let d := diffs tol x grid
    let qs := qsum (quots tol x grid ws)
    let qp := - qsum (List.zipWith (fun w d => w / (d * d)) ws d)
    let qpp := 2 * qsum (List.zipWith (fun w d => w / (d * d * d)) ws d)
    let dj := d.getD j 1
    let front := wj / (qs * dj)
    let first := (- qpp / qs) + 2 * ((qp / qs) * (qp / qs))
    let second := 2 * (qp / (qs * dj)) + 2 / (dj * dj)
    front * (first + second)

/-! ### tensor products (row order = `itertools.product`, last coordinate fastest) -/

/-- all node multi-indices for the given grid sizes, in `itertools.product` order -/
def prodIdx : List Nat → List (List Nat)
  | [] => [[]]
  | n :: ns => (List.range n).flatMap fun a => (prodIdx ns).map (a :: ·)

structure LState where
  grids : List (List Q)
  wts   : List (List Q)
deriving Repr

/-- table `T[d][j]` of 1-d factors for dimension `d` and node `j`, computed once per evaluation point;
    `kind d` selects value (0), first (1) or second (2) derivative in dimension `d` -/
def factorTable (tol : Q) (st : LState) (x : List Q) (kind : Nat → Nat) : List (List Q) :=
  (List.range x.length).map fun d =>
    let g := st.grids.getD d []; let w := st.wts.getD d []; let xd := x.getD d 0
    (List.range g.length).map fun j =>
      match kind d with
      | 0 => basis tol xd g w j
      | 1 => dBasis tol xd g w j
      | _ => d2Basis tol xd g w j

/-- Σ_rows (Π_d T[d][j_d]) · y[row][o] for every output column `o` -/
def tensorSum (table : List (List Q)) (sizes : List Nat) (rows : List (List Q)) : List Q :=
  let nodeIdx := prodIdx sizes
  let ny := (rows.head?.map List.length).getD 0
  let coefs := nodeIdx.map fun j => qprod ((List.range j.length).map fun d => (table.getD d []).getD (j.getD d 0) 0)
  (List.range ny).map fun o => qsum ((coefs.zip rows).map fun (c, row) => c * row.getD o 0)

/-- `Lagrange.predict` for one sample and all outputs: Σ_j (Π_d L_{d,j_d}(x_d)) · y[row j] -/
def predictT (tol : Q) (st : LState) (rows : List (List Q)) (x : List Q) : List Q :=
  tensorSum (factorTable tol st x (fun _ => 0)) (st.grids.map List.length) rows

/-- `Lagrange.gradient`: ∂/∂x_k -/
def gradT (tol : Q) (st : LState) (rows : List (List Q)) (x : List Q) (k : Nat) : List Q :=
  tensorSum (factorTable tol st x (fun d => if d = k then 1 else 0)) (st.grids.map List.length) rows

/-- `Lagrange.hessian`: ∂²/∂x_m∂x_n (cross terms are products of first derivatives) -/
def hessT (tol : Q) (st : LState) (rows : List (List Q)) (x : List Q) (m n : Nat) : List Q :=
  tensorSum (factorTable tol st x (fun d => if m = n then (if d = m then 2 else 0) else (if d = m ∨ d = n then 1 else 0)))
    (st.grids.map List.length) rows

/-- condition scale of a prediction: Σ_rows |Π_d L| · |y| (used only for the float comparison budget) -/
def predictAbsT (tol : Q) (st : LState) (rows : List (List Q)) (x : List Q) (kind : Nat → Nat) : List Q :=
  tensorSum ((factorTable tol st x kind).map (·.map qabs)) (st.grids.map List.length) (rows.map (·.map qabs))

/-- weighted sum over indices with non-zero weight (`Component.predict`) -/
def miscSum (terms : List (Int × List Q)) : List Q :=
  match terms.filter (fun t => t.1 ≠ 0) with
  | [] => []
  | t :: ts => ts.foldl (fun acc u => List.zipWith (· + ·) acc (u.2.map (fun v => (u.1 : Q) * v))) (t.2.map (fun v => (t.1 : Q) * v))

end Amisc
