/-
  AmiscModel.Xform — executable model (exact rationals) of `Variable.normalize` / `denormalize`
  (src/amisc/variable.py) for chains of Linear / Minmax / Zscore transforms, with the hyper-parameter propagation:
    * the variable's CURRENT domain (and, for Normal distributions, (mu, std)) is pushed through the chain alongside the
      values;
    * a Minmax stage takes its `(lb, ub)` from the propagated domain (when the variable has a domain), a Zscore stage its
      `(mu, std)` from the propagated distribution arguments (when the variable is Normal);
    * `denormalize` first recomputes the forward list of hyper-parameters and then applies the inverses in reverse order,
      each with the hyper-parameters its forward stage saw.
  The 1-d formulas are the GENERATED ones (`Amisc.Gen.*`, regenerated from transform.py on every run).
  `Log` stages are not executable over `Rat`; their round trip is proved over ℝ in AmiscProps.C16.
-/
import AmiscModel.Generated.Transforms
import AmiscModel.Interp

namespace Amisc

inductive Tr where
  | linear (slope offset : Q)
  | minmax (lb ub lbN ubN : Q)
  | zscore (mu std : Q)
deriving Repr, DecidableEq

/-- hyper-parameters travelling with the values: the domain (if any) and the Normal arguments (if any) -/
structure Hyper where
  dom  : Option (Q × Q)
  dist : Option (Q × Q)
deriving Repr, DecidableEq

/-- `_normalize_single`: one transform, forward or inverse, with the parameter override rule -/
def applyTr (t : Tr) (h : Hyper) (inverse : Bool) (x : Q) : Q :=
  match t with
  | .linear m b => if inverse then Gen.linearInv m b x else Gen.linearFwd m b x
  | .minmax lb ub l u =>
      let (lb', ub') := match h.dom with | some d => d | none => (lb, ub)
      if inverse then Gen.minmaxInv lb' ub' l u x else Gen.minmaxFwd lb' ub' l u x
  | .zscore mu sd =>
      let (mu', sd') := match h.dist with | some d => d | none => (mu, sd)
      if inverse then Gen.zscoreInv mu' sd' x else Gen.zscoreFwd mu' sd' x

/-- hyper-parameters after one forward stage (every entry is transformed like a value) -/
def stepHyper (t : Tr) (h : Hyper) : Hyper :=
  { dom := h.dom.map fun (a, b) => (applyTr t h false a, applyTr t h false b),
    dist := h.dist.map fun (a, b) => (applyTr t h false a, applyTr t h false b) }

/-- `Variable.normalize(values)` -/
def normalize : List Tr → Hyper → Q → Q
  | [], _, x => x
  | t :: ts, h, x => normalize ts (stepHyper t h) (applyTr t h false x)

/-- `Variable.normalize(values, denorm=True)`: the inverse of the LAST stage first, each stage with the hyper-parameters
    of its own forward pass -/
def denormalize : List Tr → Hyper → Q → Q
  | [], _, y => y
  | t :: ts, h, y => applyTr t h true (denormalize ts (stepHyper t h) y)

/-- `VariableList.get_domains(norm=True)`: the normalised domain is the image of the domain -/
def normDomain (ts : List Tr) (h : Hyper) : Option (Q × Q) :=
  h.dom.map fun (a, b) => (normalize ts h a, normalize ts h b)

/-- side conditions under which every stage is invertible -/
def stageOK (t : Tr) (h : Hyper) : Prop :=
  match t with
  | .linear m _ => m ≠ 0
  | .minmax lb ub l u =>
      (match h.dom with | some d => d.2 - d.1 ≠ 0 | none => ub - lb ≠ 0) ∧ u - l ≠ 0
  | .zscore _ sd => (match h.dist with | some d => d.2 ≠ 0 | none => sd ≠ 0)

def chainOK : List Tr → Hyper → Prop
  | [], _ => True
  | t :: ts, h => stageOK t h ∧ chainOK ts (stepHyper t h)

end Amisc
