/-
  Line-protocol driver: one command per input line, one canonical output line per command.
  Run with:  lake env lean --run Driver.lean < ops.txt
  The driver executes exactly the definitions of `AmiscModel.*` (the ones the theorems are about).
-/
import AmiscModel

open Amisc

/-! ## parsing / printing helpers -/

def parseNat? (s : String) : Option Nat := s.toNat?

def parseInt? (s : String) : Option Int := s.toInt?

def parseIdx? (s : String) : Option Idx :=
  if s == "-" then some [] else (s.splitOn ",").mapM parseNat?

def showIdx (i : Idx) : String :=
  if i.isEmpty then "-" else ",".intercalate (i.map toString)

def lexLt : List Nat → List Nat → Bool
  | [], [] => false
  | [], _ :: _ => true
  | _ :: _, [] => false
  | a :: as, b :: bs => a < b || (a == b && lexLt as bs)

def insertSorted (lt : α → α → Bool) (x : α) : List α → List α
  | [] => [x]
  | y :: ys => if lt x y then x :: y :: ys else y :: insertSorted lt x ys

def sortBy (lt : α → α → Bool) (xs : List α) : List α := xs.foldl (fun acc x => insertSorted lt x acc) []

def showSet (s : List Idx) : String := ";".intercalate ((sortBy lexLt s).map showIdx)

def showCMap (m : CMap) : String :=
  ";".intercalate ((sortBy (fun a b => lexLt a.1 b.1) m).map fun (k, v) => s!"{showIdx k}:{v}")

def showIState (st : IState) : String :=
  s!"A={showSet st.active}|C={showSet st.cand}|T={showCMap st.ctrain}|E={showCMap st.ctest}"

/-! ## driver state -/

structure DState where
  box  : Idx := []
  ist  : IState := {}
  sim  : IState := {}

def stepIdx (st : DState) (cmd : String) (args : List String) : DState × String :=
  match cmd, args with
  | "idx.box", [b] =>
      match parseIdx? b with
      | some box => ({ st with box := box, ist := {}, sim := {} }, "ok")
      | none => (st, "bad-op")
  | "idx.act", [i] =>
      match parseIdx? i with
      | some idx =>
          if idx.length != st.box.length then (st, "bad-op") else
          let ist := activate st.box st.ist idx
          ({ st with ist := ist }, showIState ist)
      | none => (st, "bad-op")
  | "idx.look", [i] =>
      match parseIdx? i with
      | some idx => (st, showCMap (lookahead st.ist idx))
      | none => (st, "bad-op")
  | "idx.nbrs", [i] =>
      match parseIdx? i with
      | some idx => (st, showSet (nbrs st.box st.ist.active idx))
      | none => (st, "bad-op")
  | "idx.ie", [which, i] =>
      match parseIdx? i with
      | some idx =>
          let S := if which == "train" then st.ist.active else st.ist.active ++ st.ist.cand
          (st, toString (IE S idx))
      | none => (st, "bad-op")
  | "idx.margin", [] =>
      (st, showSet ((fullBox st.box).filter fun i => inMargin st.box st.ist.active i))
  | "idx.dc", [] => (st, toString (isDC st.ist.active) ++ " " ++ toString (isDownwardClosed st.ist.active))
  | "idx.simreset", [] => ({ st with sim := {} }, "ok")
  | "idx.sim", [i] =>
      match parseIdx? i with
      | some idx =>
          let sim := simStep st.box st.ist.active st.sim idx
          ({ st with sim := sim }, showIState sim)
      | none => (st, "bad-op")
  | _, _ => (st, "bad-op")

def step (st : DState) (line : String) : DState × String :=
  match (line.trimAscii.toString.splitOn " ").filter (· ≠ "") with
  | [] => (st, "")
  | cmd :: args =>
      if cmd.startsWith "idx." then stepIdx st cmd args
      else (st, "bad-op")

partial def loop (h : IO.FS.Stream) (out : IO.FS.Stream) (st : DState) : IO Unit := do
  let line ← h.getLine
  if line.isEmpty then return ()
  let (st', o) := step st line
  out.putStrLn o
  loop h out st'

def main : IO Unit := do
  let stdin ← IO.getStdin
  let stdout ← IO.getStdout
  loop stdin stdout {}
