/-
  Line-protocol driver: one command per input line, one canonical output line per command.
  Run with:  lake env lean --run Driver.lean < ops.txt
  The driver executes exactly the definitions of `AmiscModel.*` (the ones the theorems are about).
-/
import AmiscModel

open Amisc

/-! ## parsing / printing helpers -/

def parseNat? (s : String) : Option Nat := s.toNat?

def parseInt? (s : String) : Option Int := s.toInt?

def parseIdx? (s : String) : Option Idx :=
  if s == "-" then some [] else (s.splitOn ",").mapM parseNat?

def showIdx (i : Idx) : String :=
  if i.isEmpty then "-" else ",".intercalate (i.map toString)

def lexLt : List Nat → List Nat → Bool
  | [], [] => false
  | [], _ :: _ => true
  | _ :: _, [] => false
  | a :: as, b :: bs => a < b || (a == b && lexLt as bs)

def insertSorted (lt : α → α → Bool) (x : α) : List α → List α
  | [] => [x]
  | y :: ys => if lt x y then x :: y :: ys else y :: insertSorted lt x ys

def sortBy (lt : α → α → Bool) (xs : List α) : List α := xs.foldl (fun acc x => insertSorted lt x acc) []

def showSet (s : List Idx) : String := ";".intercalate ((sortBy lexLt s).map showIdx)

def showCMap (m : CMap) : String :=
  ";".intercalate ((sortBy (fun a b => lexLt a.1 b.1) m).map fun (k, v) => s!"{showIdx k}:{v}")

def showIState (st : IState) : String :=
  s!"A={showSet st.active}|C={showSet st.cand}|T={showCMap st.ctrain}|E={showCMap st.ctest}"

/-! ## rationals -/

def parseRat? (s : String) : Option Rat :=
  match s.splitOn "/" with
  | [a] => a.toInt?.map fun n => (n : Rat)
  | [a, b] => do
      let n ← a.toInt?
      let d ← b.toNat?
      if d = 0 then none else some ((n : Rat) / (d : Rat))
  | _ => none

def showRat (r : Rat) : String := if r.den = 1 then toString r.num else s!"{r.num}/{r.den}"

def parseRats? (toks : List String) : Option (List Rat) := toks.mapM parseRat?

/-- split a token list at "|" separators -/
def splitBar (toks : List String) : List (List String) :=
  let (cur, acc) := toks.foldl (fun (cur, acc) t => if t == "|" then ([], acc ++ [cur]) else (cur ++ [t], acc)) ([], [])
  acc ++ [cur]

/-- split a token list at ";" separators -/
def splitSemi (toks : List String) : List (List String) :=
  let (cur, acc) := toks.foldl (fun (cur, acc) t => if t == ";" then ([], acc ++ [cur]) else (cur ++ [t], acc)) ([], [])
  acc ++ [cur]

def parseMatrix? (toks : List String) : Option (List (List Rat)) :=
  if toks.isEmpty then some [] else (splitSemi toks).mapM parseRats?

def showRats (l : List Rat) : String := " ".intercalate (l.map showRat)

/-! ## driver state -/

structure DState where
  box  : Idx := []
  ist  : IState := {}
  sim  : IState := {}
  lstates : List (String × LState) := []
  ldata   : List (String × List (List Rat)) := []
  lcoef   : List (String × Int) := []
  polys   : List (String × List (Rat × List Nat)) := []
  sg      : SGrid := { kpl := 2 }
  cost    : CostAcc := {}
  lastDesign : List (Idx × Idx × Nat) := []
  scomps  : List (String × List String × List (String × List (Rat × List Nat))) := []

def stepIdx (st : DState) (cmd : String) (args : List String) : DState × String :=
  match cmd, args with
  | "idx.box", [b] =>
      match parseIdx? b with
      | some box => ({ st with box := box, ist := {}, sim := {} }, "ok")
      | none => (st, "bad-op")
  | "idx.act", [i] =>
      match parseIdx? i with
      | some idx =>
          if idx.length != st.box.length then (st, "bad-op") else
          let ist := activateGen st.box st.ist idx
          ({ st with ist := ist }, showIState ist)
      | none => (st, "bad-op")
  | "idx.look", [i] =>
      match parseIdx? i with
      | some idx => (st, showCMap (lookahead st.ist idx))
      | none => (st, "bad-op")
  | "idx.nbrs", [i] =>
      match parseIdx? i with
      | some idx => (st, showSet (nbrsGen st.box st.ist.active idx))
      | none => (st, "bad-op")
  | "idx.ie", [which, i] =>
      match parseIdx? i with
      | some idx =>
          let S := if which == "train" then st.ist.active else st.ist.active ++ st.ist.cand
          (st, toString (IE S idx))
      | none => (st, "bad-op")
  | "idx.margin", [] =>
      (st, showSet ((fullBox st.box).filter fun i => inMargin st.box st.ist.active i))
  | "idx.dc", [] => (st, toString (isDC st.ist.active) ++ " " ++ toString (isDownwardClosed st.ist.active))
  | "idx.simreset", [] => ({ st with sim := {} }, "ok")
  | "idx.sim", [i] =>
      match parseIdx? i with
      | some idx =>
          let sim := simStepGen st.box st.ist.active st.sim idx
          ({ st with sim := sim }, showIState sim)
      | none => (st, "bad-op")
  | _, _ => (st, "bad-op")

def lookupS {α} (l : List (String × α)) (k : String) : Option α := (l.find? (·.1 == k)).map (·.2)
def upsert {α} (l : List (String × α)) (k : String) (v : α) : List (String × α) :=
  (l.filter (·.1 != k)) ++ [(k, v)]

def stepItp (st : DState) (cmd : String) (args : List String) : DState × String :=
  let parts := splitBar args
  match cmd, parts with
  | "itp.reset", _ => ({ st with lstates := [], ldata := [], lcoef := [] }, "ok")
  -- itp.state key | g11 g12 ; g21 ... | w11 ... ; w21 ...
  | "itp.state", [[key], g, w] =>
      match parseMatrix? g, parseMatrix? w with
      | some gs, some ws => ({ st with lstates := upsert st.lstates key { grids := gs, wts := ws } }, "ok")
      | _, _ => (st, "bad-op")
  -- itp.autostate key | g11 g12 ; g21 ...     (weights computed by the model with capacity 1)
  | "itp.autostate", [[key], g] =>
      match parseMatrix? g with
      | some gs => ({ st with lstates := upsert st.lstates key { grids := gs, wts := gs.map (wtsInit 1) } }, "ok")
      | _ => (st, "bad-op")
  | "itp.data", [[key], rows] =>
      match parseMatrix? rows with
      | some r => ({ st with ldata := upsert st.ldata key r }, "ok")
      | none => (st, "bad-op")
  | "itp.coef", [[key, c]] =>
      match c.toInt? with
      | some ci => ({ st with lcoef := upsert st.lcoef key ci }, "ok")
      | none => (st, "bad-op")
  -- itp.term key tol | x...
  | "itp.term", [[key, tol], x] =>
      match lookupS st.lstates key, lookupS st.ldata key, parseRat? tol, parseRats? x with
      | some ls, some rows, some t, some xs => (st, showRats (predictT t ls rows xs))
      | _, _, _, _ => (st, "bad-op")
  | "itp.grad", [[key, tol, k], x] =>
      match lookupS st.lstates key, lookupS st.ldata key, parseRat? tol, parseRats? x, k.toNat? with
      | some ls, some rows, some t, some xs, some kk => (st, showRats (gradT t ls rows xs kk))
      | _, _, _, _, _ => (st, "bad-op")
  | "itp.hess", [[key, tol, m, n], x] =>
      match lookupS st.lstates key, lookupS st.ldata key, parseRat? tol, parseRats? x, m.toNat?, n.toNat? with
      | some ls, some rows, some t, some xs, some mm, some nn => (st, showRats (hessT t ls rows xs mm nn))
      | _, _, _, _, _, _ => (st, "bad-op")
  -- itp.misc tol | x...      Σ coef · term over all registered coefficients
  | "itp.misc", [[tol], x] =>
      match parseRat? tol, parseRats? x with
      | some t, some xs =>
          let terms := st.lcoef.filterMap fun (key, c) =>
            match lookupS st.lstates key, lookupS st.ldata key with
            | some ls, some rows => some (c, predictT t ls rows xs)
            | _, _ => none
          if terms.length != st.lcoef.length then (st, "bad-op") else (st, showRats (miscSum terms))
      | _, _ => (st, "bad-op")
  -- itp.miscabs tol kindcode... | x   condition scale Σ|c|·Σ|ΠL||y| ; kinds: list of 0/1/2 per dimension
  | "itp.miscabs", [tol :: kinds, x] =>
      match parseRat? tol, parseRats? x, kinds.mapM String.toNat? with
      | some t, some xs, some ks =>
          let terms := st.lcoef.filterMap fun (key, c) =>
            match lookupS st.lstates key, lookupS st.ldata key with
            | some ls, some rows => some ((if c < 0 then -c else c), predictAbsT t ls rows xs (fun d => ks.getD d 0))
            | _, _ => none
          (st, showRats (miscSum terms))
      | _, _, _ => (st, "bad-op")
  | "itp.miscgrad", [[tol, k], x] =>
      match parseRat? tol, parseRats? x, k.toNat? with
      | some t, some xs, some kk =>
          let terms := st.lcoef.filterMap fun (key, c) =>
            match lookupS st.lstates key, lookupS st.ldata key with
            | some ls, some rows => some (c, gradT t ls rows xs kk)
            | _, _ => none
          if terms.length != st.lcoef.length then (st, "bad-op") else (st, showRats (miscSum terms))
      | _, _, _ => (st, "bad-op")
  | "itp.mischess", [[tol, m, n], x] =>
      match parseRat? tol, parseRats? x, m.toNat?, n.toNat? with
      | some t, some xs, some mm, some nn =>
          let terms := st.lcoef.filterMap fun (key, c) =>
            match lookupS st.lstates key, lookupS st.ldata key with
            | some ls, some rows => some (c, hessT t ls rows xs mm nn)
            | _, _ => none
          if terms.length != st.lcoef.length then (st, "bad-op") else (st, showRats (miscSum terms))
      | _, _, _, _ => (st, "bad-op")
  -- itp.refine C | old grid | old weights | new points      ("-" for no old state)
  | "itp.refine", [[c], g, w, pts] =>
      match parseRat? c, parseRats? pts with
      | some cc, some ps =>
          if g == ["-"] then
            let (gx, wx) := refine1 cc none ps
            (st, showRats gx ++ " | " ++ showRats wx)
          else match parseRats? g, parseRats? w with
            | some gs, some ws =>
                let (gx, wx) := refine1 cc (some (gs, ws)) ps
                (st, showRats gx ++ " | " ++ showRats wx)
            | _, _ => (st, "bad-op")
      | _, _ => (st, "bad-op")
  -- itp.leja n wkind lb ub | candidates | points so far ("-": a fresh sequence)   wkind: const | quad (w z = 1 + z²)
  --   → the sequence after n more points (objective = the generated `Gen.lejaObjNeg`, ideal minimiser over the candidates)
  | "itp.leja", [[n, wk, lb, ub], cands, pts] =>
      match n.toNat?, parseRat? lb, parseRat? ub, parseRats? cands with
      | some nn, some l, some u, some cs =>
          let w : Rat → Rat := if wk == "quad" then (fun z => 1 + z * z) else (fun _ => 1)
          if pts == ["-"] then (st, showRats (lejaFresh w cs l u nn))
          else match parseRats? pts with
            | some ps => (st, showRats (lejaSeq w cs nn ps))
            | none => (st, "bad-op")
      | _, _, _, _ => (st, "bad-op")
  | "itp.snaptol", [[scale]] =>
      match parseRat? scale with
      | some sc => (st, showRat (Amisc.Gen.snapTol sc))
      | none => (st, "bad-op")
  -- the coincidence tolerance of the derivative routines (separate generated fragments)
  | "itp.snaptol", [[scale, which]] =>
      match parseRat? scale with
      | some sc =>
          if which == "gradient" then (st, showRat (Amisc.Gen.snapTolGradient sc))
          else if which == "hessian" then (st, showRat (Amisc.Gen.snapTolHessian sc))
          else if which == "predict" then (st, showRat (Amisc.Gen.snapTol sc))
          else (st, "bad-op")
      | none => (st, "bad-op")
  | _, _ => (st, "bad-op")

def qpow (x : Rat) : Nat → Rat
  | 0 => 1
  | n + 1 => x * qpow x n

/-- exact evaluation of a sparse polynomial Σ c · Π x_d^{k_d} and of its first / second partial derivatives -/
def polyEval (p : List (Rat × List Nat)) (x : List Rat) : Rat :=
  qsum (p.map fun (c, ks) => c * qprod ((List.range ks.length).map fun d => qpow (x.getD d 0) (ks.getD d 0)))

def polyDiff (p : List (Rat × List Nat)) (k : Nat) : List (Rat × List Nat) :=
  p.filterMap fun (c, ks) =>
    let e := ks.getD k 0
    if e = 0 then none else some (c * (e : Rat), ks.set k (e - 1))

def stepPoly (st : DState) (cmd : String) (args : List String) : DState × String :=
  let parts := splitBar args
  match cmd, parts with
  -- poly.set name | c k1 k2 .. ; c k1 k2 ..
  | "poly.set", [[name], body] =>
      let terms := (splitSemi body).mapM fun toks =>
        match toks with
        | c :: ks => do
            let cq ← parseRat? c
            let kn ← ks.mapM String.toNat?
            some (cq, kn)
        | [] => none
      match terms with
      | some t => ({ st with polys := upsert st.polys name t }, "ok")
      | none => (st, "bad-op")
  | "poly.eval", [[name], x] =>
      match lookupS st.polys name, parseRats? x with
      | some p, some xs => (st, showRat (polyEval p xs))
      | _, _ => (st, "bad-op")
  | "poly.grad", [[name, k], x] =>
      match lookupS st.polys name, parseRats? x, k.toNat? with
      | some p, some xs, some kk => (st, showRat (polyEval (polyDiff p kk) xs))
      | _, _, _ => (st, "bad-op")
  | "poly.hess", [[name, m, n], x] =>
      match lookupS st.polys name, parseRats? x, m.toNat?, n.toNat? with
      | some p, some xs, some mm, some nn => (st, showRat (polyEval (polyDiff (polyDiff p mm) nn) xs))
      | _, _, _, _ => (st, "bad-op")
  | _, _ => (st, "bad-op")

/-- "alpha:beta" with "-" for an empty part -/
def parsePair? (s : String) : Option (Idx × Idx) :=
  match s.splitOn ":" with
  | [a, b] => do
      let ai ← parseIdx? a
      let bi ← parseIdx? b
      some (ai, bi)
  | _ => none

def showKey (k : EvalKey) : String := showIdx k.1 ++ ":" ++ showIdx k.2

def keyLt (a b : EvalKey) : Bool := lexLt a.1 b.1 || (a.1 == b.1 && lexLt a.2 b.2)

def stepSg (st : DState) (cmd : String) (args : List String) : DState × String :=
  match cmd, args with
  | "sg.init", [k] =>
      match k.toNat? with
      | some kk => ({ st with sg := { kpl := kk }, cost := {} }, "ok")
      | none => (st, "bad-op")
  -- sg.batch a:b a:b ...   (alpha : data part of beta) — prints the evaluated keys (sorted) | grid lengths
  | "sg.batch", pairs =>
      match pairs.mapM parsePair? with
      | some batch =>
          let (g, ev) := activateBatch st.sg batch
          let design := (designBatch st.sg batch []).2
          ({ st with sg := g, lastDesign := List.zipWith (fun (ab : Idx × Idx) (d : Idx × List Coord) => (ab.1, ab.2, d.2.length)) batch design }, ";".intercalate ((sortBy keyLt ev).map showKey) ++ " | " ++
            " ".intercalate (g.gridLen.map toString))
      | none => (st, "bad-op")
  -- sg.cost a=c,c,.. a=c,..    the costs the model reported in the call of the LAST `sg.batch`, grouped by fidelity (none: the model
  --   reports no cost) → booked `misc_costs` of the batch (points per index as designed by the model) | `model_costs` per index
  | "sg.cost", reps =>
      let rep? := reps.mapM fun t => match t.splitOn "=" with
        | [a, cs] => do
            let ai ← parseIdx? a
            let cl ← (cs.splitOn ",").mapM parseRat?
            some (ai, cl)
        | _ => none
      match rep? with
      | some rep =>
          let acc := bookCall st.cost rep st.lastDesign
          let booked := acc.misc.drop st.cost.misc.length
          ({ st with cost := acc }, showRats (booked.map (·.cost)) ++ " | " ++
            " ".intercalate (st.lastDesign.map fun d => match acc.avg d.1 with | some v => showRat v | none => "none"))
      | none => (st, "bad-op")
  -- sg.alloc a a ..  → per fidelity "evals:cost" as `get_allocation` reports them
  | "sg.alloc", alphas =>
      match alphas.mapM parseIdx? with
      | some al => (st, " ".intercalate (al.map fun a => s!"{allocEvals st.cost a}:{showRat (allocCost st.cost a)}"))
      | none => (st, "bad-op")
  | "sg.stored", [] => (st, ";".intercalate ((sortBy keyLt st.sg.stored).map showKey))
  -- sg.rebase e1 e2 .. | n1 n2 ..   → per-index local error positions, "|"-separated
  | "sg.rebase", toks =>
      match splitBar toks with
      | [es, ns] =>
          match es.mapM String.toNat?, ns.mapM String.toNat? with
          | some errs, some sizes =>
              (st, " | ".intercalate ((rebaseErrors 0 errs sizes).map fun l => " ".intercalate (l.map toString)))
          | _, _ => (st, "bad-op")
      | _ => (st, "bad-op")
  | _, _ => (st, "bad-op")

/-- component with polynomial outputs over its inputs (in the order of `ins`) -/
def mkSComp (name : String) (ins : List String) (outs : List (String × List (Rat × List Nat))) : SComp :=
  { name := name, ins := ins, outs := outs.map (·.1),
    fn := fun env v =>
      match outs.find? (·.1 == v) with
      | some (_, p) => polyEval p (ins.map env)
      | none => 0 }

def stepSys (st : DState) (cmd : String) (args : List String) : DState × String :=
  let parts := splitBar args
  match cmd, parts with
  | "sys.reset", _ => ({ st with scomps := [] }, "ok")
  -- sys.comp name | in1 in2 .. | out1 : c k1 k2 ; c k1 k2 | out2 : ...
  | "sys.comp", [name] :: ins :: outs =>
      let parsed := outs.mapM fun toks =>
        match toks with
        | o :: ":" :: body =>
            let terms := (splitSemi body).mapM fun t =>
              match t with
              | c :: ks => do
                  let cq ← parseRat? c
                  let kn ← ks.mapM String.toNat?
                  some (cq, kn)
              | [] => none
            terms.map fun t => (o, t)
        | _ => none
      match parsed with
      | some os => ({ st with scomps := st.scomps ++ [(name, ins, os)] }, "ok")
      | none => (st, "bad-op")
  -- sys.predict var=val var=val ... | target target ...   (targets may be empty = all produced variables)
  | "sys.predict", [binds, targets] =>
      let xs := binds.mapM fun b =>
        match b.splitOn "=" with
        | [v, q] => (parseRat? q).map fun r => (v, r)
        | _ => none
      match xs with
      | some x =>
          let cs := st.scomps.map fun (n, i, o) => mkSComp n i o
          let env0 : Env := fun v => ((x.find? (·.1 == v)).map (·.2)).getD 0
          let env := predictFF cs env0
          let vars := if targets.isEmpty then produced cs else targets
          let sorted := sortBy (fun a b => a < b) vars
          (st, " ".intercalate (sorted.map fun v => v ++ "=" ++ showRat (env v)) ++
               " | order=" ++ ",".intercalate ((toposort cs).map (·.name)) ++
               " topo=" ++ toString (isTopo cs [] (toposort cs)))
      | none => (st, "bad-op")
  -- sys.forms comp comp .. | v=m:b v=m:b .. | var=val .. | 0/1     components evaluated through their MODEL | linear normalisations
  --   z = m x + b of variables (others: identity) | the caller's inputs AS GIVEN | normalized_inputs
  --   → every produced variable as the NUMBER `System.predict` holds for it and its form (n = normalised, r = raw)
  | "sys.forms", [ums, norms, binds, [ni]] =>
      let nrm := norms.mapM fun t =>
        match t.splitOn "=" with
        | [v, mb] => match mb.splitOn ":" with
            | [m, b] => do
                let mq ← parseRat? m
                let bq ← parseRat? b
                some (v, mq, bq)
            | _ => none
        | _ => none
      let xs := binds.mapM fun b =>
        match b.splitOn "=" with
        | [v, q] => (parseRat? q).map fun r => (v, r)
        | _ => none
      match nrm, xs with
      | some nr, some x =>
          let look := fun (v : String) => ((nr.find? (·.1 == v)).map (·.2)).getD (1, 0)
          let nm : String → Rat → Rat := fun v z => (look v).1 * z + (look v).2
          let dn : String → Rat → Rat := fun v z => (z - (look v).2) / (look v).1
          let cs := st.scomps.map fun (n, i, o) => mkSComp n i o
          let order := toposort cs
          let fcs : List FComp := order.map fun c => { name := c.name, ins := c.ins, outs := c.outs, fnModel := c.fn, fnSurr := c.fn }
          let env0 : FEnv := inputsF (fun v => ((x.find? (·.1 == v)).map (·.2)).getD 0) (ni == "1")
          let env := sweepF nm dn (fun n => ums.contains n) fcs env0
          let sorted := sortBy (fun a b => a < b) (produced cs)
          (st, " ".intercalate (sorted.map fun v => v ++ "=" ++ showRat (env v).1 ++ ":" ++ (if (env v).2 then "n" else "r")))
      | _, _ => (st, "bad-op")
  | _, _ => (st, "bad-op")

def parseCand? (tok : String) : Option Cand :=
  match tok.splitOn ":" with
  | [c, i, d, w] => do
      let idx ← parseIdx? i
      let cost ← parseRat? w
      let delta ← if d == "nan" then some none else (parseRat? d).map some
      some { comp := c, idx := idx, delta := delta, cost := cost }
  | _ => none

def stepRef (st : DState) (cmd : String) (args : List String) : DState × String :=
  match cmd with
  -- ref.choose comp:idx:delta:cost ...   (scan order = order given)
  | "ref.choose" =>
      match args.mapM parseCand? with
      | some cs =>
          match choose cs with
          | some c => (st, c.comp ++ ":" ++ showIdx c.idx)
          | none => (st, "none")
      | none => (st, "bad-op")
  -- ref.fit maxIter tol level timeUpAt | a:err a:nan n ...
  | "ref.fit" =>
      match splitBar args with
      | [[mi, tol, lvl, tu], steps] =>
          let parsed := steps.mapM fun t =>
            if t == "n" then some StepResult.noCandidate
            else match t.splitOn ":" with
              | ["a", "nan"] => some (StepResult.activated none)
              | ["a", e] => (parseRat? e).map fun r => StepResult.activated (some r)
              | _ => none
          match mi.toNat?, parseRat? tol, lvl.toNat?, tu.toNat?, parsed with
          | some m, some t, some l, some tuAt, some ss =>
              (st, toString (fitLoopGen m t (fun k => tuAt != 0 && k ≥ tuAt) l ss))
          | _, _, _, _, _ => (st, "bad-op")
      | _ => (st, "bad-op")
  -- ref.fitcall k tol level | steps…   (a call fit(max_iter = k) on a history of `level` entries; limit generated from the source)
  | "ref.fitcall" =>
      match splitBar args with
      | [[k, tol, lvl], steps] =>
          let parsed := steps.mapM fun t =>
            if t == "n" then some StepResult.noCandidate
            else match t.splitOn ":" with
              | ["a", "nan"] => some (StepResult.activated none)
              | ["a", e] => (parseRat? e).map fun r => StepResult.activated (some r)
              | _ => none
          match k.toNat?, parseRat? tol, lvl.toNat?, parsed with
          | some kk, some t, some l, some ss => (st, toString (fitCall kk t (fun _ => false) l ss))
          | _, _, _, _ => (st, "bad-op")
      | _ => (st, "bad-op")
  | _ => (st, "bad-op")

def stepFpi (st : DState) (cmd : String) (args : List String) : DState × String :=
  match cmd, splitBar args with
  -- fpi.run tol maxIter | prev0 ; prev1 ; ... | y0 ; y1 ; ...     (logged per-sweep inputs and responses of ONE sample)
  | "fpi.run", [[tol, mi], prevs, ys] =>
      match parseRat? tol, mi.toNat?, parseMatrix? prevs, parseMatrix? ys with
      | some t, some m, some ps, some yy =>
          -- the model `fpiRun` is executed with F := the logged response to each logged iterate and
          -- mix := the logged iterate of the next sweep (both are parameters of the model)
          let F : List Rat → List Rat := fun p =>
            match (ps.zip yy).find? (fun e => e.1 == p) with
            | some (_, y) => y
            | none => []
          let mix : Nat → List (List Rat) → List (List Rat) → List Rat := fun k _ _ => ps.getD (k + 1) []
          let s0 : FpiState := { prev := ps.getD 0 [], y := [] }
          let s := fpiRunGen F mix t m (m + 2) s0 [] []
          (st, s!"conv={s.conv} valid={s.valid} sweeps={s.k + 1} y={showRats s.y}")
      | _, _, _, _ => (st, "bad-op")
  | _, _ => (st, "bad-op")

def parseShape? (toks : List String) : Option Shape :=
  if toks == ["()"] then some [] else toks.mapM String.toNat?

def showShape (s : Shape) : String := if s.isEmpty then "()" else " ".intercalate (s.map toString)

def stepShp (st : DState) (cmd : String) (args : List String) : DState × String :=
  match cmd with
  -- shp.loop s1 | s2 | ...      (each shape: space separated dims, "()" for a 0-d scalar)
  | "shp.loop" =>
      match (splitBar args).mapM parseShape? with
      | some shapes => (st, showShape (loopShapeGen shapes))
      | none => (st, "bad-op")
  -- shp.out loop | out
  | "shp.out" =>
      match (splitBar args).mapM parseShape? with
      | some [l, o] => (st, showShape (outShapeGen l o))
      | _ => (st, "bad-op")
  | _ => (st, "bad-op")

def parseTr? (tok : String) : Option Tr :=
  match tok.splitOn ":" with
  | ["lin", m, b] => do some (Tr.linear (← parseRat? m) (← parseRat? b))
  | ["mm", a, b, l, u] => do some (Tr.minmax (← parseRat? a) (← parseRat? b) (← parseRat? l) (← parseRat? u))
  | ["z", m, sd] => do some (Tr.zscore (← parseRat? m) (← parseRat? sd))
  | _ => none

def parsePairOpt? (toks : List String) : Option (Option (Rat × Rat)) :=
  match toks with
  | ["-"] => some none
  | [a, b] => do some (some (← parseRat? a, ← parseRat? b))
  | _ => none

def stepXf (st : DState) (cmd : String) (args : List String) : DState × String :=
  match splitBar args with
  -- xf.norm|xf.denorm  chain tokens | dom | dist | values...
  | [chain, dom, dist, xs] =>
      match chain.mapM parseTr?, parsePairOpt? dom, parsePairOpt? dist, parseRats? xs with
      | some ts, some d, some ds, some vals =>
          let h : Hyper := { dom := d, dist := ds }
          if cmd == "xf.norm" then (st, showRats (vals.map (normalize ts h)))
          else if cmd == "xf.denorm" then (st, showRats (vals.map (denormalize ts h)))
          else (st, "bad-op")
      | _, _, _, _ => (st, "bad-op")
  | _ => (st, "bad-op")

def stepPs (st : DState) (cmd : String) (args : List String) : DState × String :=
  match cmd with
  -- ps.keys surr=1 mf=0 ...   → keys written by Component.serialize (sorted)
  | "ps.keys" =>
      let get := fun (k : String) => args.any fun a => a == k ++ "=1"
      let f : CompFlags := { surr := get "surr", mf := get "mf", df := get "df", sf := get "sf", act := get "act",
                             cand := get "cand", costs := get "costs", ctrain := get "ctrain", ctest := get "ctest",
                             states := get "states", mcost := get "mcost", cu := get "cu", ru := get "ru", name := get "name" }
      (st, " ".intercalate (sortBy (fun a b => a < b) (serializeKeysGen f)))
  | _ => (st, "bad-op")

def step (st : DState) (line : String) : DState × String :=
  match (line.trimAscii.toString.splitOn " ").filter (· ≠ "") with
  | [] => (st, "")
  | cmd :: args =>
      if cmd.startsWith "idx." then stepIdx st cmd args
      else if cmd.startsWith "itp." then stepItp st cmd args
      else if cmd.startsWith "poly." then stepPoly st cmd args
      else if cmd.startsWith "sg." then stepSg st cmd args
      else if cmd.startsWith "sys." then stepSys st cmd args
      else if cmd.startsWith "ref." then stepRef st cmd args
      else if cmd.startsWith "fpi." then stepFpi st cmd args
      else if cmd.startsWith "shp." then stepShp st cmd args
      else if cmd.startsWith "xf." then stepXf st cmd args
      else if cmd.startsWith "ps." then stepPs st cmd args
      else (st, "bad-op")

partial def loop (h : IO.FS.Stream) (out : IO.FS.Stream) (st : DState) : IO Unit := do
  let line ← h.getLine
  if line.isEmpty then return ()
  let (st', o) := step st line
  out.putStrLn o
  loop h out st'

def main : IO Unit := do
  let stdin ← IO.getStdin
  let stdout ← IO.getStdout
  loop stdin stdout {}
