/-
  The dependency sort of the feed-forward model (`Amisc.toposort`, Kahn-style selection in listing order) returns a
  topological order, and for systems that have one (no feedback loop) a permutation of the listed components.
-/
import AmiscProofs.SweepProofs

namespace Amisc

theorem ready_mono {all done done' : List SComp} {c : SComp} (h : ∀ v, v ∈ produced done → v ∈ produced done')
    (hr : ready all done c = true) : ready all done' c = true := by
  rw [ready_iff] at hr ⊢
  intro v hv hp
  exact h v (hr v hv hp)

theorem ready_congr_all {a b done : List SComp} (h : ∀ v, v ∈ produced a ↔ v ∈ produced b) (c : SComp) :
    ready a done c = ready b done c := by
  rw [Bool.eq_iff_iff, ready_iff, ready_iff]
  constructor
  · intro hr v hv hp; exact hr v hv ((h v).mpr hp)
  · intro hr v hv hp; exact hr v hv ((h v).mp hp)

theorem isTopo_congr_all {a b : List SComp} (h : ∀ v, v ∈ produced a ↔ v ∈ produced b) :
    ∀ (rest done : List SComp), isTopo a done rest = isTopo b done rest
  | [], _ => rfl
  | c :: rest, done => by
      simp only [isTopo]
      rw [ready_congr_all h c, isTopo_congr_all h rest (done ++ [c])]

theorem isTopo_append_single (all : List SComp) : ∀ (done d0 : List SComp) (c : SComp),
    isTopo all d0 done = true → ready all (d0 ++ done) c = true → isTopo all d0 (done ++ [c]) = true
  | [], d0, c, _, hr => by simpa [isTopo] using hr
  | d :: done, d0, c, ht, hr => by
      simp only [isTopo, Bool.and_eq_true, List.cons_append] at ht ⊢
      refine ⟨ht.1, isTopo_append_single all done (d0 ++ [d]) c ht.2 ?_⟩
      simpa using hr

/-- the result of the selection loop is always a topological order (w.r.t. the produced variables of `all`) -/
theorem toposortAux_isTopo (all : List SComp) : ∀ (fuel : Nat) (done pending : List SComp),
    isTopo all [] done = true → isTopo all [] (toposortAux all fuel done pending) = true
  | 0, _, _, h => h
  | fuel + 1, done, pending, h => by
      unfold toposortAux
      cases hf : pending.find? (ready all done) with
      | none => exact h
      | some c =>
          have hr : ready all done c = true := by
            have := List.find?_some hf
            exact this
          exact toposortAux_isTopo all fuel _ _ (isTopo_append_single all done [] c h (by simpa using hr))

theorem toposort_isTopo (cs : List SComp) : isTopo cs [] (toposort cs) = true :=
  toposortAux_isTopo cs cs.length [] cs rfl

/-! ### permutation for systems that have a topological order -/

theorem perm_cons_filter_name : ∀ (L : List SComp) (c : SComp), (L.map (·.name)).Nodup → c ∈ L →
    L.Perm (c :: L.filter fun d => d.name != c.name)
  | [], _, _, h => by simp at h
  | a :: L, c, hnd, hc => by
      have hnd' : a.name ∉ L.map (·.name) ∧ (L.map (·.name)).Nodup := List.nodup_cons.mp (by rw [List.map_cons] at hnd; exact hnd)
      rcases List.mem_cons.mp hc with rfl | hcL
      · -- c is the head: nothing else has its name
        have : (L.filter fun d => d.name != c.name) = L := by
          apply List.filter_eq_self.mpr
          intro d hd
          have : d.name ≠ c.name := fun e => hnd'.1 (e ▸ List.mem_map.mpr ⟨d, hd, rfl⟩)
          simpa using this
        simp [List.filter_cons, this]
      · have hne : a.name ≠ c.name := fun e => hnd'.1 (e ▸ List.mem_map.mpr ⟨c, hcL, rfl⟩)
        have ih := perm_cons_filter_name L c hnd'.2 hcL
        have hf : ((a :: L).filter fun d => d.name != c.name) = a :: L.filter fun d => d.name != c.name := by
          simp [List.filter_cons, hne]
        rw [hf]
        exact (List.Perm.cons a ih).trans (List.Perm.swap c a _)

theorem nodup_names_of_perm {a b : List SComp} (h : a.Perm b) (hn : (a.map (·.name)).Nodup) : (b.map (·.name)).Nodup :=
  (h.map _).nodup_iff.mp hn

/-- in a system with a topological order `o`, some pending component is always ready -/
theorem exists_ready (all : List SComp) : ∀ (o pre : List SComp) (done pending : List SComp),
    isTopo all pre o = true → (∀ c ∈ pre, c ∈ done) → (∀ c ∈ o, c ∈ done ∨ c ∈ pending) → (∃ c ∈ o, c ∈ pending) →
    ∃ c ∈ pending, ready all done c = true
  | [], _, _, _, _, _, _, ⟨c, hc, _⟩ => by simp at hc
  | c :: o, pre, done, pending, ht, hpre, hcov, hex => by
      simp only [isTopo, Bool.and_eq_true] at ht
      by_cases hcp : c ∈ pending
      · refine ⟨c, hcp, ready_mono ?_ ht.1⟩
        intro v hv
        obtain ⟨d, hd, hvd⟩ := mem_produced.mp hv
        exact mem_produced.mpr ⟨d, hpre d hd, hvd⟩
      · have hcd : c ∈ done := (hcov c (by simp)).resolve_right hcp
        apply exists_ready all o (pre ++ [c]) done pending ht.2
        · intro d hd
          rcases List.mem_append.mp hd with h | h
          · exact hpre d h
          · simp only [List.mem_singleton] at h; subst h; exact hcd
        · intro d hd; exact hcov d (by simp [hd])
        · obtain ⟨d, hd, hdp⟩ := hex
          rcases List.mem_cons.mp hd with rfl | h
          · exact absurd hdp hcp
          · exact ⟨d, h, hdp⟩

theorem toposortAux_perm (all o : List SComp) (ho : isTopo all [] o = true) (hon : (o.map (·.name)).Nodup) :
    ∀ (fuel : Nat) (done pending : List SComp), fuel = pending.length → (done ++ pending).Perm o →
      (toposortAux all fuel done pending).Perm o
  | 0, done, pending, hf, hp => by
      have : pending = [] := List.length_eq_zero_iff.mp hf.symm
      subst this
      simpa [toposortAux] using hp
  | fuel + 1, done, pending, hf, hp => by
      unfold toposortAux
      have hne : pending ≠ [] := by intro e; rw [e] at hf; simp at hf
      obtain ⟨p0, hp0⟩ := List.exists_mem_of_ne_nil pending hne
      have hcov : ∀ c ∈ o, c ∈ done ∨ c ∈ pending := by
        intro c hc
        exact List.mem_append.mp (hp.mem_iff.mpr hc)
      obtain ⟨r, hrp, hrr⟩ := exists_ready all o [] done pending ho (by simp) hcov
        ⟨p0, hp.mem_iff.mp (List.mem_append_right _ hp0), hp0⟩
      cases hfind : pending.find? (ready all done) with
      | none =>
          exfalso
          have := List.find?_eq_none.mp hfind r hrp
          exact this hrr
      | some c =>
          have hcp : c ∈ pending := List.mem_of_find?_eq_some hfind
          have hpn : (pending.map (·.name)).Nodup := by
            have := nodup_names_of_perm hp.symm hon
            rw [List.map_append] at this
            exact (List.nodup_append.mp this).2.1
          have hperm := perm_cons_filter_name pending c hpn hcp
          apply toposortAux_perm all o ho hon fuel
          · have := hperm.length_eq
            simp only [List.length_cons] at this
            omega
          · have : (done ++ [c] ++ pending.filter fun d => d.name != c.name).Perm (done ++ pending) := by
              rw [List.append_assoc]
              exact List.Perm.append_left done (by simpa using hperm.symm)
            exact this.trans hp

/-- **for a system without feedback loops** (a topological order of the listed components exists) whose component names are
    distinct, the dependency sort returns a permutation of the listed components -/
theorem toposort_perm (cs : List SComp) (hn : (cs.map (·.name)).Nodup)
    (hdag : ∃ o : List SComp, o.Perm cs ∧ isTopo cs [] o = true) : (toposort cs).Perm cs := by
  obtain ⟨o, hoc, hto⟩ := hdag
  have := toposortAux_perm cs o hto (nodup_names_of_perm hoc.symm hn) cs.length [] cs rfl (by simpa using hoc.symm)
  exact this.trans hoc

end Amisc
