/-
  Barycentric identities over Mathlib's `Lagrange` (any field): S₁ = Σ w_k/(x-x_k) = 1/nodal(x), the first barycentric
  form for any polynomial of degree < #nodes, S₂ = Σ w_k/(x-x_k)² = nodal'(x)/nodal(x)².
-/
import Mathlib.LinearAlgebra.Lagrange
import Mathlib.Tactic.LinearCombination
import Mathlib.Tactic.FieldSimp

namespace Amisc.Bary
open Polynomial Finset Lagrange

variable {F : Type*} [Field F] {ι : Type*} [DecidableEq ι]
variable {s : Finset ι} {v : ι → F}

/-- Σ w_k/(x-x_k) = 1/nodal(x) -/
theorem S1_eq (hvs : Set.InjOn v s) (hs : s.Nonempty) {x : F} (hx : ∀ i ∈ s, x ≠ v i) :
    (∑ i ∈ s, nodalWeight s v i * (x - v i)⁻¹) = (eval x (nodal s v))⁻¹ := by
  have h := eval_interpolate_not_at_node (s := s) (v := v) (1 : ι → F) hx
  rw [interpolate_one hvs hs, eval_one] at h
  simp only [Pi.one_apply, mul_one] at h
  exact eq_inv_of_mul_eq_one_right h.symm

/-- first barycentric form for an arbitrary polynomial of degree < #s -/
theorem eval_eq_bary (hvs : Set.InjOn v s) {P : F[X]} (hP : P.degree < #s) {x : F} (hx : ∀ i ∈ s, x ≠ v i) :
    eval x P = eval x (nodal s v) * ∑ i ∈ s, nodalWeight s v i * (x - v i)⁻¹ * eval (v i) P := by
  conv_lhs => rw [eq_interpolate hvs hP]
  exact eval_interpolate_not_at_node _ hx

/-- Σ w_k/(x-x_k)² = nodal'(x)/nodal(x)² -/
theorem S2_eq (hvs : Set.InjOn v s) (hs : s.Nonempty) {x : F} (hx : ∀ i ∈ s, x ≠ v i) :
    (∑ i ∈ s, nodalWeight s v i * ((x - v i)⁻¹) ^ 2) =
      eval x (derivative (nodal s v)) / (eval x (nodal s v)) ^ 2 := by
  set N := nodal s v with hN
  set p : F[X] := N - C (eval x N) with hp
  have hroot : IsRoot p x := by simp [hp, IsRoot]
  set q := p /ₘ (X - C x) with hq
  have hmul : (X - C x) * q = p := mul_divByMonic_eq_iff_isRoot.mpr hroot
  have hNx : eval x N ≠ 0 := eval_nodal_not_at_node hx
  -- q(x) = N'(x)
  have hqx : eval x q = eval x (derivative N) := by
    have := congrArg (fun r => eval x (derivative r)) hmul
    simp only [derivative_mul, derivative_sub, derivative_X, derivative_C, sub_zero, one_mul, eval_add,
      eval_mul, eval_sub, eval_X, eval_C, sub_self, zero_mul, add_zero, hp] at this
    exact this
  -- q(v i) = N(x)/(x - v i)
  have hqv : ∀ i ∈ s, eval (v i) q = eval x N * (x - v i)⁻¹ := by
    intro i hi
    have h1 := congrArg (eval (v i)) hmul
    simp only [eval_mul, eval_sub, eval_X, eval_C, hp, hN, eval_nodal_at_node hi, zero_sub] at h1
    have hne : x - v i ≠ 0 := sub_ne_zero_of_ne (hx i hi)
    have hne' : v i - x ≠ 0 := sub_ne_zero_of_ne (hx i hi).symm
    field_simp
    linear_combination (-1 : F) * h1
  -- degree of q
  have hdeg : q.degree < #s := by
    have hpdeg : p.degree = #s := by
      rw [hp, degree_sub_C (by rw [hN, degree_nodal]; exact_mod_cast hs.card_pos), hN, degree_nodal]
    have hp0 : p ≠ 0 := by intro h; rw [h, degree_zero] at hpdeg; exact absurd hpdeg (by simp)
    calc q.degree < p.degree := degree_divByMonic_lt p (X - C x) hp0 (by rw [degree_X_sub_C]; exact zero_lt_one)
      _ = #s := hpdeg
  have hb := eval_eq_bary hvs hdeg hx
  rw [hqx] at hb
  rw [hb]
  rw [show (∑ i ∈ s, nodalWeight s v i * (x - v i)⁻¹ * eval (v i) q) =
        eval x N * ∑ i ∈ s, nodalWeight s v i * ((x - v i)⁻¹) ^ 2 from by
    rw [Finset.mul_sum]; refine Finset.sum_congr rfl fun i hi => ?_
    rw [hqv i hi]; ring]
  have hNx' : eval x (nodal s v) ≠ 0 := eval_nodal_not_at_node hx
  rw [hN]; field_simp

end Amisc.Bary
