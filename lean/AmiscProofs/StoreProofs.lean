/-
  Store invariants: every activation evaluates a duplicate-free batch of (alpha, coordinate) keys disjoint from what is
  already stored; hence no key is ever evaluated twice over a whole history, and the stored keys are exactly the evaluated
  ones.
-/
import AmiscModel.Store
import Mathlib.Data.List.Nodup

namespace Amisc

theorem prodIdx_nodup : ∀ (sizes : List Nat), (prodIdx sizes).Nodup
  | [] => by simp [prodIdx]
  | n :: ns => by
      unfold prodIdx
      rw [List.nodup_flatMap]
      refine ⟨fun a _ => (prodIdx_nodup ns).map (List.cons_injective), ?_⟩
      refine List.Pairwise.imp ?_ (List.nodup_range (n := n))
      intro a b hab
      simp only [Function.onFun]
      rw [List.disjoint_left]
      intro x hx hx'
      obtain ⟨y, _, rfl⟩ := List.mem_map.mp hx
      obtain ⟨z, _, hz⟩ := List.mem_map.mp hx'
      exact hab (List.cons.inj hz).1.symm

theorem sgRefine_stored (g : SGrid) (a b : Idx) : (sgRefine g a b).1.stored = g.stored := rfl

theorem sgRefine_new_nodup (g : SGrid) (a b : Idx) : (sgRefine g a b).2.Nodup := by
  unfold sgRefine
  exact (prodIdx_nodup _).filter _

theorem sgRefine_new_fresh (g : SGrid) (a b : Idx) : ∀ c ∈ (sgRefine g a b).2, (a, c) ∉ g.stored := by
  intro c hc
  unfold sgRefine at hc
  simp only [List.mem_filter, Bool.not_eq_eq_eq_not, Bool.not_true, decide_eq_false_iff_not] at hc
  exact hc.2

theorem batchEvals_append (acc : List (Idx × List Coord)) (a : Idx) (cs : List Coord) :
    batchEvals (acc ++ [(a, cs)]) = batchEvals acc ++ cs.map fun c => (a, c) := by
  simp [batchEvals, List.flatMap_append]

/-- invariant of the design loop -/
theorem designBatch_spec : ∀ (batch : List (Idx × Idx)) (g : SGrid) (acc : List (Idx × List Coord)),
    (batchEvals acc).Nodup → (∀ k ∈ batchEvals acc, k ∉ g.stored) →
    (batchEvals (designBatch g batch acc).2).Nodup ∧
    (∀ k ∈ batchEvals (designBatch g batch acc).2, k ∉ g.stored) ∧
    (designBatch g batch acc).1.stored = g.stored
  | [], g, acc, h1, h2 => ⟨h1, h2, rfl⟩
  | (a, b) :: rest, g, acc, h1, h2 => by
      unfold designBatch
      simp only []
      have hnd := sgRefine_new_nodup g a b
      have hfr := sgRefine_new_fresh g a b
      set coords' := (sgRefine g a b).2.filter fun c =>
        !decide ((a, c) ∈ acc.flatMap fun x => x.2.map fun c => (x.1, c)) with hc'
      have hcnd : coords'.Nodup := hnd.filter _
      have hearlier : (acc.flatMap fun x => x.2.map fun c => (x.1, c)) = batchEvals acc := rfl
      have h1' : (batchEvals (acc ++ [(a, coords')])).Nodup := by
        rw [batchEvals_append, List.nodup_append]
        refine ⟨h1, hcnd.map (fun x y h => (Prod.mk.inj h).2), ?_⟩
        intro k hk k' hk' e
        subst e
        obtain ⟨c, hcm, rfl⟩ := List.mem_map.mp hk'
        rw [hc', List.mem_filter] at hcm
        have := hcm.2
        simp only [Bool.not_eq_eq_eq_not, Bool.not_true, decide_eq_false_iff_not] at this
        exact this (hearlier ▸ hk)
      have h2' : ∀ k ∈ batchEvals (acc ++ [(a, coords')]), k ∉ (sgRefine g a b).1.stored := by
        intro k hk
        rw [sgRefine_stored]
        rw [batchEvals_append] at hk
        rcases List.mem_append.mp hk with h | h
        · exact h2 k h
        · obtain ⟨c, hcm, rfl⟩ := List.mem_map.mp h
          rw [hc', List.mem_filter] at hcm
          exact hfr c hcm.1
      have ih := designBatch_spec rest (sgRefine g a b).1 (acc ++ [(a, coords')]) h1' h2'
      refine ⟨ih.1, ?_, ?_⟩
      · intro k hk
        have := ih.2.1 k hk
        rwa [sgRefine_stored] at this
      · rw [ih.2.2, sgRefine_stored]

theorem activateBatch_spec (g : SGrid) (batch : List (Idx × Idx)) (hs : g.stored.Nodup) :
    (activateBatch g batch).1.stored = g.stored ++ (activateBatch g batch).2 ∧
    (g.stored ++ (activateBatch g batch).2).Nodup := by
  have h := designBatch_spec batch g [] (by simp [batchEvals]) (by simp [batchEvals])
  unfold activateBatch
  simp only []
  refine ⟨by rw [h.2.2], ?_⟩
  rw [List.nodup_append]
  exact ⟨hs, h.1, fun k hk k' hk' e => h.2.1 k' hk' (e ▸ hk)⟩

theorem runBatches_spec : ∀ (bs : List (List (Idx × Idx))) (g : SGrid), g.stored.Nodup →
    (runBatches g bs).1.stored = g.stored ++ (runBatches g bs).2 ∧ (g.stored ++ (runBatches g bs).2).Nodup
  | [], g, hs => by simp [runBatches, hs]
  | b :: bs, g, hs => by
      have h1 := activateBatch_spec g b hs
      have hs' : (activateBatch g b).1.stored.Nodup := by rw [h1.1]; exact h1.2
      have h2 := runBatches_spec bs (activateBatch g b).1 hs'
      unfold runBatches
      simp only []
      rw [h1.1] at h2
      refine ⟨by rw [h2.1, List.append_assoc], ?_⟩
      rw [← List.append_assoc]; exact h2.2

end Amisc

namespace Amisc

/-- the keys an activation batch needs: every coordinate of every index of the batch, at that index's fidelity -/
def needed (kpl : Nat) (batch : List (Idx × Idx)) (key : EvalKey) : Prop :=
  ∃ ab ∈ batch, key.1 = ab.1 ∧ key.2 ∈ prodIdx (knots kpl ab.2)

theorem sgRefine_kpl (g : SGrid) (a b : Idx) : (sgRefine g a b).1.kpl = g.kpl := rfl

theorem mem_sgRefine_new (g : SGrid) (a b : Idx) (c : Coord) :
    c ∈ (sgRefine g a b).2 ↔ c ∈ prodIdx (knots g.kpl b) ∧ (a, c) ∉ g.stored := by
  unfold sgRefine
  simp [List.mem_filter]

/-- what the design loop evaluates: exactly the needed keys that are not stored yet (each once) -/
theorem mem_designBatch_evals : ∀ (batch : List (Idx × Idx)) (g : SGrid) (acc : List (Idx × List Coord)) (key : EvalKey),
    key ∈ batchEvals (designBatch g batch acc).2 ↔
      key ∈ batchEvals acc ∨ (needed g.kpl batch key ∧ key ∉ g.stored)
  | [], g, acc, key => by simp [designBatch, needed]
  | (a, b) :: rest, g, acc, key => by
      unfold designBatch
      simp only []
      rw [mem_designBatch_evals rest (sgRefine g a b).1 _ key, batchEvals_append, sgRefine_stored, sgRefine_kpl]
      have hearlier : (acc.flatMap fun x => x.2.map fun c => (x.1, c)) = batchEvals acc := rfl
      simp only [List.mem_append, List.mem_map, List.mem_filter, Bool.not_eq_eq_eq_not, Bool.not_true,
        decide_eq_false_iff_not, hearlier, mem_sgRefine_new]
      constructor
      · rintro ((h | ⟨c, ⟨⟨hc1, hc2⟩, _⟩, rfl⟩) | ⟨⟨ab, hab, h1, h2⟩, h3⟩)
        · exact Or.inl h
        · exact Or.inr ⟨⟨(a, b), by simp, rfl, hc1⟩, hc2⟩
        · exact Or.inr ⟨⟨ab, by simp [hab], h1, h2⟩, h3⟩
      · rintro (h | ⟨⟨ab, hab, h1, h2⟩, h3⟩)
        · exact Or.inl (Or.inl h)
        · rcases List.mem_cons.mp hab with h | h
          · subst h
            by_cases hk : key ∈ batchEvals acc
            · exact Or.inl (Or.inl hk)
            · refine Or.inl (Or.inr ⟨key.2, ⟨⟨h2, ?_⟩, ?_⟩, ?_⟩)
              · simp only [] at h1; rw [← h1]; exact h3
              · simp only [] at h1; rw [← h1]; exact hk
              · simp only [] at h1; rw [← h1]
          · exact Or.inr ⟨⟨ab, h, h1, h2⟩, h3⟩

/-- the store after an activation = what was stored before ∪ what the batch needs -/
theorem mem_stored_activateBatch (g : SGrid) (batch : List (Idx × Idx)) (key : EvalKey) :
    key ∈ (activateBatch g batch).1.stored ↔ key ∈ g.stored ∨ needed g.kpl batch key := by
  have hst := (designBatch_spec batch g [] (by simp [batchEvals]) (by simp [batchEvals])).2.2
  unfold activateBatch
  simp only [List.mem_append, hst]
  rw [mem_designBatch_evals batch g [] key]
  simp only [batchEvals, List.flatMap_nil, List.not_mem_nil, false_or]
  constructor
  · rintro (h | ⟨h, _⟩)
    · exact Or.inl h
    · exact Or.inr h
  · rintro (h | h)
    · exact Or.inl h
    · by_cases hs : key ∈ g.stored
      · exact Or.inl hs
      · exact Or.inr ⟨h, hs⟩

end Amisc
