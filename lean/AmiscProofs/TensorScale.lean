/-
  Tensor-level equivariance under per-dimension affine changes of input units x_d ↦ a_d·x_d + b_d (a_d > 0), coincidence
  tolerance 0: predictions are equal, gradient entry `m` scales by 1/a_m, Hessian entry `(m,n)` by 1/(a_m·a_n).
-/
import AmiscProofs.TensorDeriv
import AmiscProofs.InterpScaleDeriv

namespace Amisc.TS

open Amisc.Tensor Amisc.TD

/-- image of a state: every grid mapped by its dimension's affine map, weights unchanged (they are invariant when the
    capacity scales with the domain, `wtsInit_affine`) -/
def mapState (a b : ℕ → Q) (st : LState) : LState :=
  { grids := (List.range st.grids.length).map fun d => (st.grids.getD d []).map fun g => a d * g + b d,
    wts := st.wts }

def mapPoint (a b : ℕ → Q) (x : List Q) : List Q := (List.range x.length).map fun d => a d * x.getD d 0 + b d

theorem mapState_grid (a b : ℕ → Q) (st : LState) (d : ℕ) (hd : d < st.grids.length) :
    (mapState a b st).grids.getD d [] = (st.grids.getD d []).map fun g => a d * g + b d := by
  simp [mapState, List.getD_eq_getElem?_getD, List.getElem?_range hd]

theorem mapPoint_getD (a b : ℕ → Q) (x : List Q) (d : ℕ) (hd : d < x.length) :
    (mapPoint a b x).getD d 0 = a d * x.getD d 0 + b d := by
  simp [mapPoint, List.getD_eq_getElem?_getD, List.getElem?_range hd]

theorem mapState_sizes (a b : ℕ → Q) (st : LState) :
    (mapState a b st).grids.map List.length = st.grids.map List.length := by
  apply List.ext_getElem
  · simp [mapState]
  · intro d h1 h2
    have hd : d < st.grids.length := by simpa using h2
    simp [mapState, List.getD_eq_getElem?_getD, List.getElem?_eq_getElem hd]

/-- scale factor of one table row -/
def rowScale (a : ℕ → Q) (kind : ℕ → ℕ) (d : ℕ) : Q :=
  match kind d with
  | 0 => 1
  | 1 => (a d)⁻¹
  | _ => (a d)⁻¹ * (a d)⁻¹

theorem entry_affine (a b : ℕ → Q) (ha : ∀ d, 0 < a d) (st : LState) (x : List Q) (kind : ℕ → ℕ) (k n : ℕ)
    (hk : k < st.grids.length) (hkx : k < x.length) (hn : n < (st.grids.getD k []).length) :
    entry (mapState a b st) (mapPoint a b x) kind k n = rowScale a kind k * entry st x kind k n := by
  unfold entry rowScale
  rw [mapState_grid a b st k hk, mapPoint_getD a b x k hkx]
  have hw : (mapState a b st).wts = st.wts := rfl
  rw [hw]
  generalize kind k = kk
  match kk with
  | 0 =>
      simp only [one_mul]
      have := basis_affine (a k) (b k) 0 (x.getD k 0) (ha k) (st.grids.getD k []) (st.wts.getD k []) n
      rw [mul_zero] at this; exact this
  | 1 =>
      simp only
      have := dBasis_affine (a k) (b k) 0 (x.getD k 0) (ha k) (st.grids.getD k []) (st.wts.getD k []) n hn
      rw [mul_zero] at this; exact this
  | _ + 2 =>
      simp only
      have := d2Basis_affine (a k) (b k) 0 (x.getD k 0) (ha k) (st.grids.getD k []) (st.wts.getD k []) n hn
      rw [mul_zero] at this; exact this

/-- **tensor-level equivariance**: the tensor sum for the image state at the image point is the original one times the product
    of the row scale factors -/
theorem tensorSum_affine (a b : ℕ → Q) (ha : ∀ d, 0 < a d) (st : LState) (x : List Q) (hd : st.grids.length = x.length)
    (kind : ℕ → ℕ) (rows : List (List Q)) (o : ℕ) (ho : o < (rows.head?.map List.length).getD 0) :
    (tensorSum (factorTable 0 (mapState a b st) (mapPoint a b x) kind) ((mapState a b st).grids.map List.length)
        rows).getD o 0 =
      ((List.range x.length).map (rowScale a kind)).prod *
        (tensorSum (factorTable 0 st x kind) (st.grids.map List.length) rows).getD o 0 := by
  rw [mapState_sizes, tensorSum_getD _ _ rows o ho, tensorSum_getD _ _ rows o ho, ← sum_map_mul_left]
  congr 1
  apply List.map_congr_left
  intro jr hjr
  obtain ⟨hl, hb⟩ := mem_prodIdx _ jr.1 (List.of_mem_zip hjr).1
  simp only [List.length_map] at hl hb
  rw [← mul_assoc]
  congr 1
  unfold coefOf
  rw [← hd, ← hl, ← List.prod_map_mul]
  congr 1
  apply List.map_congr_left
  intro k hk
  rw [List.mem_range] at hk
  have hks : k < st.grids.length := by omega
  have hn : jr.1.getD k 0 < (st.grids.getD k []).length := by
    have := hb k hks
    simpa [List.getD_eq_getElem?_getD, List.getElem?_eq_getElem hks] using this
  have hn' : jr.1.getD k 0 < ((mapState a b st).grids.getD k []).length := by
    rw [mapState_grid a b st k hks]; simpa using hn
  rw [factorTable_entry (mapState a b st) (mapPoint a b x) kind k _ (by simp [mapPoint]; omega) hn',
    factorTable_entry st x kind k _ (by omega) hn, entry_affine a b ha st x kind k _ hks (by omega) hn]


open Finset in
theorem prod_rowScale_zero (a : ℕ → Q) (n : ℕ) : ((List.range n).map (rowScale a fun _ => 0)).prod = 1 := by
  apply List.prod_eq_one
  intro v hv
  rw [List.mem_map] at hv
  obtain ⟨d, _, rfl⟩ := hv
  rfl

open Finset in
theorem prod_rowScale_single (a : ℕ → Q) (n m : ℕ) (hm : m < n) (k : ℕ) (c : Q) (kind : ℕ → ℕ)
    (hk : ∀ d, kind d = if d = m then k else 0) (hc : rowScale a kind m = c) :
    ((List.range n).map (rowScale a kind)).prod = c := by
  rw [Amisc.LL.list_prod_range, ← Finset.mul_prod_erase _ _ (mem_range.mpr hm), hc]
  have : ∏ d ∈ (range n).erase m, rowScale a kind d = 1 := by
    apply Finset.prod_eq_one
    intro d hd
    have hdm := (Finset.mem_erase.mp hd).1
    have : kind d = 0 := by rw [hk d, if_neg hdm]
    unfold rowScale
    rw [this]
    rfl
  rw [this, mul_one]

open Finset in
theorem prod_rowScale_pair (a : ℕ → Q) (L m n : ℕ) (hm : m < L) (hn : n < L) (hmn : m ≠ n) (kind : ℕ → ℕ)
    (hk : ∀ d, kind d = if d = m ∨ d = n then 1 else 0) :
    ((List.range L).map (rowScale a kind)).prod = (a m)⁻¹ * (a n)⁻¹ := by
  rw [Amisc.LL.list_prod_range, ← Finset.mul_prod_erase _ _ (mem_range.mpr hm),
    ← Finset.mul_prod_erase _ _ (Finset.mem_erase.mpr ⟨Ne.symm hmn, mem_range.mpr hn⟩)]
  have h1 : rowScale a kind m = (a m)⁻¹ := by unfold rowScale; rw [hk m]; simp
  have h2 : rowScale a kind n = (a n)⁻¹ := by unfold rowScale; rw [hk n]; simp
  have : ∏ d ∈ ((range L).erase m).erase n, rowScale a kind d = 1 := by
    apply Finset.prod_eq_one
    intro d hd
    have hdn := (Finset.mem_erase.mp hd).1
    have hdm := (Finset.mem_erase.mp (Finset.mem_erase.mp hd).2).1
    unfold rowScale
    rw [hk d]; simp [hdm, hdn]
  rw [h1, h2, this, mul_one]

section
variable (a b : ℕ → Q) (ha : ∀ d, 0 < a d) (st : LState) (x : List Q) (hd : st.grids.length = x.length)
  (rows : List (List Q)) (o : ℕ) (ho : o < (rows.head?.map List.length).getD 0)
include ha hd ho

/-- **predictions are equal at mapped points** -/
theorem predictT_affine :
    (predictT 0 (mapState a b st) rows (mapPoint a b x)).getD o 0 = (predictT 0 st rows x).getD o 0 := by
  unfold predictT
  rw [tensorSum_affine a b ha st x hd _ rows o ho, prod_rowScale_zero, one_mul]

/-- **gradient entry `m` scales by `1/a_m`** -/
theorem gradT_affine (m : ℕ) (hm : m < x.length) :
    (gradT 0 (mapState a b st) rows (mapPoint a b x) m).getD o 0 = (a m)⁻¹ * (gradT 0 st rows x m).getD o 0 := by
  unfold gradT
  rw [tensorSum_affine a b ha st x hd _ rows o ho,
    prod_rowScale_single a x.length m hm 1 (a m)⁻¹ _ (fun d => rfl) (by unfold rowScale; simp)]

/-- **Hessian entry `(m,n)` scales by `1/(a_m·a_n)`** -/
theorem hessT_affine (m n : ℕ) (hm : m < x.length) (hn : n < x.length) :
    (hessT 0 (mapState a b st) rows (mapPoint a b x) m n).getD o 0 =
      (a m)⁻¹ * (a n)⁻¹ * (hessT 0 st rows x m n).getD o 0 := by
  unfold hessT
  rw [tensorSum_affine a b ha st x hd _ rows o ho]
  by_cases hmn : m = n
  · subst hmn
    rw [prod_rowScale_single a x.length m hm 2 ((a m)⁻¹ * (a m)⁻¹) _ (fun d => by simp)
      (by unfold rowScale; simp)]
  · rw [prod_rowScale_pair a x.length m n hm hn hmn _ (fun d => by simp [hmn])]

end

end Amisc.TS
