/-
  AmiscProofs.CostProofs — the cost accounts of a component (`model_costs`, `misc_costs`) and the allocation report of
  `System.get_allocation` (C09): with a cost that depends on the model fidelity only, the report equals the ground truth.
-/
import Mathlib.Algebra.Order.Field.Basic
import Mathlib.Algebra.BigOperators.Group.List.Basic
import Mathlib.Tactic.Ring
import Mathlib.Tactic.FieldSimp
import Mathlib.Tactic.Linarith
import AmiscModel.Store

namespace Amisc.Cost

abbrev Call := List (Idx × List Q) × List (Idx × Idx × Nat)

/-- `qsum` is the list sum -/
theorem qsum_eq_sum (l : List Q) : qsum l = l.sum := by
  unfold qsum
  have : ∀ (l : List Q) (z : Q), l.foldl (· + ·) z = z + l.sum := by
    intro l; induction l with
    | nil => intro z; simp
    | cons x xs ih => intro z; simp only [List.foldl_cons, List.sum_cons, ih]; ring
  rw [this]; simp

theorem sum_const (l : List Q) (c : Q) (h : ∀ x ∈ l, x = c) : l.sum = c * l.length := by
  induction l with
  | nil => simp
  | cons x xs ih =>
      simp only [List.sum_cons, List.length_cons, Nat.cast_add, Nat.cast_one]
      rw [ih (fun y hy => h y (by simp [hy])), h x (by simp)]; ring

/-- the mean of reports that all equal `c`, together with an old average that is `c` (or absent), is `c` -/
theorem meanWith_const (costs : List Q) (old : Option Q) (c : Q) (hne : costs ≠ [])
    (hc : ∀ x ∈ costs, x = c) (ho : ∀ v, old = some v → v = c) : meanWith costs old = c := by
  unfold meanWith
  rw [qsum_eq_sum]
  have hall : ∀ x ∈ costs ++ old.toList, x = c := by
    intro x hx
    rcases List.mem_append.mp hx with h | h
    · exact hc x h
    · cases old with
      | none => simp at h
      | some v => simp at h; rw [h]; exact ho v rfl
  rw [sum_const _ c hall]
  have hlen : ((costs ++ old.toList).length : Q) ≠ 0 := by
    have : 0 < (costs ++ old.toList).length := by
      rw [List.length_append]
      have := List.length_pos_iff.mpr hne
      omega
    exact_mod_cast (Nat.pos_iff_ne_zero.mp this)
  field_simp

/-- `round` of an exact integer is that integer -/
theorem pyRound_int (n : Int) : pyRound (n : Q) = n := by
  unfold pyRound
  simp only [Rat.num_intCast, Rat.den_intCast, Nat.cast_one, Int.ediv_one, sub_self]
  norm_num

end Amisc.Cost

namespace Amisc.Cost

/-- every evaluation reports a cost that depends on its fidelity only (`c`), and the reports of a call are those of the
    points designed in it -/
structure ConstCall (c : Idx → Q) (call : Call) : Prop where
  const : ∀ r ∈ call.1, ∀ x ∈ r.2, x = c r.1
  count : ∀ a, ((call.1.filter (·.1 = a)).map (·.2.length)).sum = ((call.2.filter (·.1 = a)).map (·.2.2)).sum

def GoodAvg (c : Idx → Q) (av : Idx → Option Q) : Prop := ∀ a v, av a = some v → v = c a

structure Good (c : Idx → Q) (acc : CostAcc) : Prop where
  avg  : GoodAvg c acc.avg
  misc : ∀ e ∈ acc.misc, (e.npts = 0 ∧ e.cost = 0) ∨ (acc.avg e.alpha = some (c e.alpha) ∧ e.cost = c e.alpha * e.npts)

theorem updAvg_good (c : Idx → Q) (av : Idx → Option Q) (a : Idx) (costs : List Q) (h : GoodAvg c av)
    (hc : ∀ x ∈ costs, x = c a) :
    GoodAvg c (updAvg av a costs) ∧ (∀ b, av b = some (c b) → updAvg av a costs b = some (c b)) ∧
    (costs ≠ [] → updAvg av a costs a = some (c a)) := by
  unfold updAvg
  by_cases he : costs.isEmpty = true
  · rw [if_pos he]
    refine ⟨h, fun b hb => hb, fun hne => ?_⟩
    exact absurd (List.isEmpty_iff.mp he) hne
  · rw [if_neg he]
    have hne : costs ≠ [] := fun hh => he (by simp [hh])
    have hm := meanWith_const costs (av a) (c a) hne hc (h a)
    refine ⟨?_, ?_, ?_⟩
    · intro b v hv
      by_cases hb : b = a
      · subst hb; simp only [if_true] at hv; rw [← Option.some.inj hv, hm]
      · simp only [hb, if_false] at hv; exact h b v hv
    · intro b hb
      by_cases hba : b = a
      · subst hba; simp only [if_true]; rw [hm]
      · simp only [hba, if_false]; exact hb
    · intro _; simp only [if_true]; rw [hm]

theorem foldAvg_good (c : Idx → Q) : ∀ (rep : List (Idx × List Q)) (av : Idx → Option Q), GoodAvg c av →
    (∀ r ∈ rep, ∀ x ∈ r.2, x = c r.1) →
    GoodAvg c (rep.foldl (fun av r => updAvg av r.1 r.2) av) ∧
    (∀ b, av b = some (c b) → rep.foldl (fun av r => updAvg av r.1 r.2) av b = some (c b)) ∧
    (∀ r ∈ rep, r.2 ≠ [] → rep.foldl (fun av r => updAvg av r.1 r.2) av r.1 = some (c r.1))
  | [], av, h, _ => ⟨h, fun _ hb => hb, fun r hr => absurd hr (by simp)⟩
  | r0 :: rep, av, h, hc => by
      obtain ⟨g1, m1, s1⟩ := updAvg_good c av r0.1 r0.2 h (hc r0 (by simp))
      obtain ⟨g2, m2, s2⟩ := foldAvg_good c rep (updAvg av r0.1 r0.2) g1 (fun r hr => hc r (by simp [hr]))
      simp only [List.foldl_cons]
      refine ⟨g2, fun b hb => m2 b (m1 b hb), ?_⟩
      intro r hr hne
      rcases List.mem_cons.mp hr with rfl | hr'
      · exact m2 _ (s1 hne)
      · exact s2 r hr' hne

/-- booking the indices of a batch: the averages are not touched -/
theorem foldBook_avg : ∀ (design : List (Idx × Idx × Nat)) (acc : CostAcc),
    (design.foldl (fun ac d => bookIndex ac d.1 d.2.1 d.2.2) acc).avg = acc.avg
  | [], _ => rfl
  | d :: ds, acc => by simp only [List.foldl_cons]; rw [foldBook_avg ds]; rfl

theorem foldBook_misc : ∀ (design : List (Idx × Idx × Nat)) (acc : CostAcc),
    (design.foldl (fun ac d => bookIndex ac d.1 d.2.1 d.2.2) acc).misc =
      acc.misc ++ design.map fun d => { alpha := d.1, beta := d.2.1, npts := d.2.2, cost := (acc.avg d.1).getD 1 * (d.2.2 : Q) }
  | [], acc => by simp
  | d :: ds, acc => by
      simp only [List.foldl_cons]
      rw [foldBook_misc ds]
      simp [bookIndex]

theorem exists_pos_of_sum_pos {α : Type} (f : α → Nat) : ∀ (l : List α), 0 < (l.map f).sum → ∃ x ∈ l, 0 < f x
  | [], h => by simp at h
  | y :: ys, h => by
      simp only [List.map_cons, List.sum_cons] at h
      by_cases hy : 0 < f y
      · exact ⟨y, by simp, hy⟩
      · obtain ⟨x, hx, hpos⟩ := exists_pos_of_sum_pos f ys (by omega)
        exact ⟨x, by simp [hx], hpos⟩

theorem le_sum_of_mem {α : Type} (f : α → Nat) : ∀ (l : List α) (x : α), x ∈ l → f x ≤ (l.map f).sum
  | [], _, h => by simp at h
  | y :: ys, x, h => by
      simp only [List.map_cons, List.sum_cons]
      rcases List.mem_cons.mp h with rfl | h'
      · omega
      · have := le_sum_of_mem f ys x h'; omega

/-- a fidelity with a designed point has a non-empty report in the same call -/
theorem report_exists (c : Idx → Q) (call : Call) (h : ConstCall c call) (d : Idx × Idx × Nat) (hd : d ∈ call.2)
    (hn : 0 < d.2.2) : ∃ r ∈ call.1, r.1 = d.1 ∧ r.2 ≠ [] := by
  have hc := h.count d.1
  have hle := le_sum_of_mem (fun e : Idx × Idx × Nat => e.2.2) (call.2.filter (·.1 = d.1)) d
    (List.mem_filter.mpr ⟨hd, by simp⟩)
  have hpos : 0 < ((call.1.filter (·.1 = d.1)).map (·.2.length)).sum := by rw [hc]; omega
  obtain ⟨r, hr, hl⟩ := exists_pos_of_sum_pos (fun r : Idx × List Q => r.2.length) _ hpos
  obtain ⟨hr1, hr2⟩ := List.mem_filter.mp hr
  exact ⟨r, hr1, by simpa using hr2, List.length_pos_iff.mp hl⟩

/-- one activation preserves the invariant -/
theorem bookCall_good (c : Idx → Q) (acc : CostAcc) (call : Call) (hg : Good c acc) (hc : ConstCall c call) :
    Good c (bookCall acc call.1 call.2) := by
  obtain ⟨g2, m2, s2⟩ := foldAvg_good c call.1 acc.avg hg.avg hc.const
  unfold bookCall
  simp only []
  constructor
  · rw [foldBook_avg]; exact g2
  · intro e he
    rw [foldBook_avg]
    rw [foldBook_misc] at he
    rcases List.mem_append.mp he with h1 | h1
    · rcases hg.misc e h1 with hz | ⟨ha, hcost⟩
      · exact Or.inl hz
      · exact Or.inr ⟨m2 _ ha, hcost⟩
    · obtain ⟨d, hd, rfl⟩ := List.mem_map.mp h1
      simp only []
      by_cases hn : d.2.2 = 0
      · left; simp [hn]
      · right
        obtain ⟨r, hr, hr1, hr2⟩ := report_exists c call hc d hd (Nat.pos_of_ne_zero hn)
        have := s2 r hr hr2
        rw [hr1] at this
        exact ⟨this, by rw [this]; rfl⟩

theorem runCalls_good (c : Idx → Q) : ∀ (calls : List Call) (acc : CostAcc), Good c acc → (∀ cl ∈ calls, ConstCall c cl) →
    Good c (runCalls acc calls)
  | [], _, h, _ => h
  | cl :: cls, acc, h, hc => by
      unfold runCalls
      simp only [List.foldl_cons]
      exact runCalls_good c cls _ (bookCall_good c acc cl h (hc cl (by simp))) (fun x hx => hc x (by simp [hx]))

end Amisc.Cost

namespace Amisc.Cost

def sumNpts (acc : CostAcc) (a : Idx) : Nat := ((acc.misc.filter (·.alpha = a)).map (·.npts)).sum

theorem bookCall_sumNpts (acc : CostAcc) (call : Call) (a : Idx) :
    sumNpts (bookCall acc call.1 call.2) a = sumNpts acc a + ((call.2.filter (·.1 = a)).map (·.2.2)).sum := by
  unfold sumNpts bookCall
  simp only []
  rw [foldBook_misc, List.filter_append, List.map_append, List.sum_append, List.filter_map, List.map_map]
  rfl

theorem runCalls_sumNpts (c : Idx → Q) (a : Idx) : ∀ (calls : List Call) (acc : CostAcc), (∀ cl ∈ calls, ConstCall c cl) →
    sumNpts (runCalls acc calls) a = sumNpts acc a + trueEvals calls a
  | [], _, _ => by simp [runCalls, trueEvals]
  | cl :: cls, acc, h => by
      have ih := runCalls_sumNpts c a cls (bookCall acc cl.1 cl.2) (fun x hx => h x (by simp [hx]))
      unfold runCalls at ih ⊢
      simp only [List.foldl_cons]
      rw [ih, bookCall_sumNpts, ← (h cl (by simp)).count a]
      simp only [trueEvals, List.map_cons, List.sum_cons]
      omega

theorem foldl_add_int (l : List Int) : l.foldl (· + ·) 0 = l.sum := by
  have : ∀ (l : List Int) (z : Int), l.foldl (· + ·) z = z + l.sum := by
    intro l; induction l with
    | nil => intro z; simp
    | cons x xs ih => intro z; simp only [List.foldl_cons, List.sum_cons, ih]; omega
  rw [this]; simp

/-- under the invariant `get_allocation` recovers the number of points of every booked index exactly -/
theorem entryEvals_eq (c : Idx → Q) (hc0 : ∀ a, c a ≠ 0) (acc : CostAcc) (hg : Good c acc) (e : MiscEntry) (he : e ∈ acc.misc) :
    entryEvals acc e = (e.npts : Int) := by
  unfold entryEvals
  rcases hg.misc e he with ⟨hn, hcost⟩ | ⟨ha, hcost⟩
  · rw [hcost, hn, zero_div]
    exact_mod_cast pyRound_int 0
  · rw [ha, hcost, Option.getD_some, mul_div_cancel_left₀ _ (hc0 e.alpha)]
    exact_mod_cast pyRound_int (e.npts : Int)

theorem allocEvals_eq (c : Idx → Q) (hc0 : ∀ a, c a ≠ 0) (acc : CostAcc) (hg : Good c acc) (a : Idx) :
    allocEvals acc a = (sumNpts acc a : Int) := by
  unfold allocEvals sumNpts
  rw [foldl_add_int]
  have : (acc.misc.filter (·.alpha = a)).map (entryEvals acc) = (acc.misc.filter (·.alpha = a)).map fun e => (e.npts : Int) :=
    List.map_congr_left fun e he => entryEvals_eq c hc0 acc hg e (List.mem_filter.mp he).1
  rw [this]
  induction acc.misc.filter (·.alpha = a) with
  | nil => simp
  | cons x xs ih => simp only [List.map_cons, List.sum_cons, Nat.cast_add, ih]

theorem allocCost_eq (c : Idx → Q) (acc : CostAcc) (hg : Good c acc) (a : Idx) :
    allocCost acc a = c a * (sumNpts acc a : Q) := by
  unfold allocCost sumNpts
  rw [qsum_eq_sum]
  have hall : ∀ e ∈ acc.misc.filter (·.alpha = a), e.cost = c a * (e.npts : Q) := by
    intro e he
    obtain ⟨hm, ha⟩ := List.mem_filter.mp he
    have ha' : e.alpha = a := by simpa using ha
    rcases hg.misc e hm with ⟨hn, hcost⟩ | ⟨_, hcost⟩
    · rw [hcost, hn]; simp
    · rw [hcost, ha']
  have gen : ∀ (l : List MiscEntry), (∀ e ∈ l, e.cost = c a * (e.npts : Q)) →
      (l.map (·.cost)).sum = c a * (((l.map (·.npts)).sum : Nat) : Q) := by
    intro l hl
    induction l with
    | nil => simp
    | cons x xs ih =>
        simp only [List.map_cons, List.sum_cons]
        rw [ih (fun e he => hl e (by simp [he])), hl x (by simp)]; push_cast; ring
  exact gen _ hall

theorem reports_cost (c : Idx → Q) (a : Idx) : ∀ (l : List (Idx × List Q)), (∀ r ∈ l, ∀ x ∈ r.2, x = c r.1) →
    ((l.filter (·.1 = a)).map fun r => qsum r.2).sum = c a * ((((l.filter (·.1 = a)).map (·.2.length)).sum : Nat) : Q)
  | [], _ => by simp
  | r :: rs, hl => by
      have ih := reports_cost c a rs (fun x hx => hl x (by simp [hx]))
      by_cases hr : r.1 = a
      · rw [List.filter_cons_of_pos (by simpa using hr)]
        simp only [List.map_cons, List.sum_cons]
        rw [ih, qsum_eq_sum, sum_const r.2 (c r.1) (hl r (by simp)), hr]
        push_cast; ring
      · rw [List.filter_cons_of_neg (by simpa using hr)]
        exact ih

theorem trueCost_eq (c : Idx → Q) (a : Idx) : ∀ (calls : List Call), (∀ cl ∈ calls, ConstCall c cl) →
    trueCost calls a = c a * (trueEvals calls a : Q)
  | [], _ => by simp [trueCost, trueEvals, qsum]
  | cl :: cls, h => by
      have ih := trueCost_eq c a cls (fun x hx => h x (by simp [hx]))
      unfold trueCost trueEvals at ih ⊢
      rw [qsum_eq_sum] at ih ⊢
      simp only [List.map_cons, List.sum_cons]
      rw [ih, qsum_eq_sum, reports_cost c a cl.1 (h cl (by simp)).const]
      push_cast; ring

end Amisc.Cost
