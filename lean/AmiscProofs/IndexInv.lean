/-
  The invariant of `activate` (index sets + both weight trees) and its preservation for EVERY request.
-/
import AmiscProofs.CoeffUpdate

namespace Amisc

/-! ### characterisations of the Boolean tests -/

theorem backIn_iff {A : List Idx} {i : Idx} :
    backIn A i = true ↔ ∀ j, j < i.length → i.nth j = 0 ∨ i.dec j ∈ A := by
  simp [backIn, List.all_eq_true]

theorem backOK_iff {A : List Idx} {self c : Idx} :
    backOK A self c = true ↔ ∀ j, j < c.length → c.nth j = 0 ∨ c.dec j ∈ A ∨ c.dec j = self := by
  simp [backOK, List.all_eq_true]

theorem inMargin_iff {box : Idx} {A : List Idx} {i : Idx} :
    inMargin box A i = true ↔ i ∉ A ∧ i.le box = true ∧ backIn A i = true := by
  simp [inMargin, and_assoc]

theorem mem_nbrs {box : Idx} {A : List Idx} {idx c : Idx} :
    c ∈ nbrs box A idx ↔ ∃ k, k < idx.length ∧ c = idx.inc k ∧ c.le box = true ∧ backOK A idx c = true := by
  unfold nbrs
  rw [List.mem_filterMap]
  constructor
  · rintro ⟨k, hk, h⟩
    rw [List.mem_range] at hk
    by_cases hc : (idx.inc k).le box && backOK A idx (idx.inc k)
    · simp only [hc, if_true, Option.some.injEq] at h
      rw [Bool.and_eq_true] at hc
      exact ⟨k, hk, h.symm, h ▸ hc.1, h ▸ hc.2⟩
    · simp [hc] at h
  · rintro ⟨k, hk, rfl, h1, h2⟩
    exact ⟨k, List.mem_range.mpr hk, by simp [h1, h2]⟩

theorem inc_injective {i : Idx} {k l : Nat} (hk : k < i.length) (h : i.inc k = i.inc l) : k = l := by
  apply Classical.byContradiction
  intro hne
  have h1 := Idx.nth_inc_self i k hk
  rw [h, Idx.nth_inc_ne i l k (fun e => hne e.symm)] at h1
  omega

theorem nodup_filterMap_of_inj_on {α β : Type} (f : α → Option β) : ∀ (L : List α), L.Nodup →
    (∀ a ∈ L, ∀ a' ∈ L, ∀ b, f a = some b → f a' = some b → a = a') → (L.filterMap f).Nodup
  | [], _, _ => by simp
  | a :: L, hnd, hinj => by
      have hnd' := List.nodup_cons.mp hnd
      have ih := nodup_filterMap_of_inj_on f L hnd'.2
        (fun x hx y hy b hb hb' => hinj x (by simp [hx]) y (by simp [hy]) b hb hb')
      cases hfa : f a with
      | none => rw [List.filterMap_cons_none hfa]; exact ih
      | some b =>
          rw [List.filterMap_cons_some hfa, List.nodup_cons]
          refine ⟨?_, ih⟩
          intro hb
          obtain ⟨a', ha', hfa'⟩ := List.mem_filterMap.mp hb
          have := hinj a (by simp) a' (by simp [ha']) b hfa hfa'
          exact hnd'.1 (this ▸ ha')

theorem nbrs_nodup (box : Idx) (A : List Idx) (idx : Idx) : (nbrs box A idx).Nodup := by
  unfold nbrs
  apply nodup_filterMap_of_inj_on _ _ List.nodup_range
  intro a ha a' _ b hb hb'
  rw [List.mem_range] at ha
  by_cases hc : (idx.inc a).le box && backOK A idx (idx.inc a)
  · by_cases hc' : (idx.inc a').le box && backOK A idx (idx.inc a')
    · simp only [hc, hc', if_true, Option.some.injEq] at hb hb'
      exact inc_injective ha (hb.trans hb'.symm)
    · simp [hc'] at hb'
  · simp [hc] at hb

/-! ### `unionNew` -/

theorem unionNew_eq_append : ∀ (ys xs : List Idx), ys.Nodup → (∀ y ∈ ys, y ∉ xs) → unionNew xs ys = xs ++ ys
  | [], xs, _, _ => by simp [unionNew]
  | y :: ys, xs, hnd, hdis => by
      have hnd' := List.nodup_cons.mp hnd
      have hy : y ∉ xs := hdis y (by simp)
      have ih := unionNew_eq_append ys (xs ++ [y]) hnd'.2 (fun z hz => by
        intro hz'
        rcases List.mem_append.mp hz' with h | h
        · exact hdis z (by simp [hz]) h
        · simp only [List.mem_singleton] at h; subst h; exact hnd'.1 hz)
      simp only [unionNew, List.foldl_cons, hy, if_false] at ih ⊢
      rw [ih]; simp

theorem unionNew_singleton {xs : List Idx} {y : Idx} (h : y ∉ xs) : unionNew xs [y] = xs ++ [y] :=
  unionNew_eq_append [y] xs (by simp) (by simpa using h)

/-! ### the invariant -/

structure Inv (box : Idx) (st : IState) : Prop where
  nodupA : st.active.Nodup
  nodupC : st.cand.Nodup
  disj : ∀ i ∈ st.active, i ∉ st.cand
  down : ∀ s ∈ st.active, ∀ j, Idx.le j s = true → j ∈ st.active
  leBox : ∀ s ∈ st.active, Idx.le s box = true
  candEmpty : st.active = [] → st.cand = []
  candMargin : st.active ≠ [] → ∀ i, i ∈ st.cand ↔ inMargin box st.active i = true
  hasT : ∀ j, st.ctrain.has j = true ↔ j ∈ st.active
  valT : ∀ j ∈ st.active, st.ctrain.val j = IEsum st.active j
  hasE : ∀ j, st.ctest.has j = true ↔ j ∈ st.active ++ st.cand
  valE : ∀ j ∈ st.active ++ st.cand, st.ctest.val j = IEsum (st.active ++ st.cand) j

theorem inv_init (box : Idx) : Inv box IState.init := by
  refine ⟨by simp [IState.init], by simp [IState.init], by simp [IState.init], by simp [IState.init],
    by simp [IState.init], by simp [IState.init], by simp [IState.init], ?_, by simp [IState.init], ?_,
    by simp [IState.init]⟩ <;> simp [IState.init, CMap.has, CMap.get]

theorem activate_rejected {box : Idx} {st : IState} {idx : Idx}
    (h : idx ∈ st.active ∨ (idx ∉ st.cand ∧ idx.total > 0)) : activate box st idx = st := by
  unfold activate
  rcases h with h | h
  · simp [h]
  · by_cases hA : idx ∈ st.active
    · simp [hA]
    · simp only [hA, if_false]
      rw [if_pos h]

theorem activate_in_cand {box : Idx} {st : IState} {idx : Idx} (hA : idx ∉ st.active) (hC : idx ∈ st.cand) :
    activate box st idx =
      { active := unionNew st.active [idx],
        cand := unionNew (st.cand.erase idx) (nbrs box st.active idx),
        ctrain := updateCoeff [idx] st.active st.ctrain,
        ctest := updateCoeff (nbrs box st.active idx) (unionNew st.active [idx] ++ st.cand.erase idx) st.ctest } := by
  unfold activate
  simp [hA, hC]

theorem activate_initial {box : Idx} {st : IState} {idx : Idx} (hA : idx ∉ st.active) (hC : idx ∉ st.cand)
    (h0 : idx.total = 0) :
    activate box st idx =
      { active := unionNew st.active [idx],
        cand := unionNew st.cand (nbrs box st.active idx),
        ctrain := updateCoeff [idx] st.active st.ctrain,
        ctest := updateCoeff (nbrs box st.active idx) (unionNew st.active [idx] ++ st.cand)
                   (updateCoeff [idx] (st.active ++ st.cand) st.ctest) } := by
  unfold activate
  simp [hA, hC, h0]

/-- facts about a forward neighbour returned by `_neighbors` when `idx` is admissible -/
theorem nbr_facts {box : Idx} {st : IState} {idx n : Idx} (h : Inv box st) (hA : idx ∉ st.active)
    (hn : n ∈ nbrs box st.active idx) :
    n ∉ st.active ∧ n ≠ idx ∧ n ∉ st.cand ∧ Idx.le idx n = true ∧
      (∃ k, k < idx.length ∧ n = idx.inc k) := by
  obtain ⟨k, hk, rfl, _, _⟩ := mem_nbrs.mp hn
  have hle : Idx.le idx (idx.inc k) = true := Idx.le_inc idx k
  have hne : idx.inc k ≠ idx := by
    intro e
    have := Idx.nth_inc_self idx k hk
    rw [e] at this; omega
  have hnA : idx.inc k ∉ st.active := fun hin => hA (h.down _ hin idx hle)
  refine ⟨hnA, hne, ?_, hle, k, hk, rfl⟩
  intro hc
  have hne' : st.active ≠ [] := by
    intro he
    have := h.candEmpty he
    rw [this] at hc; simp at hc
  have hm := (h.candMargin hne' _).mp hc
  obtain ⟨_, _, hb⟩ := inMargin_iff.mp hm
  have := backIn_iff.mp hb k (by simpa using hk)
  rw [Idx.nth_inc_self idx k hk, Idx.dec_inc] at this
  rcases this with h0 | h1
  · omega
  · exact hA h1

/-- nothing in the accepted state lies in the cube above a new neighbour -/
theorem nothing_above_nbr {box : Idx} {st : IState} {idx n s : Idx} (h : Inv box st) (hA : idx ∉ st.active)
    (hn : n ∈ nbrs box st.active idx) (hs : s ∈ st.active ∨ s = idx ∨ s ∈ st.cand) : cubeDist s n = none := by
  obtain ⟨hnA, hne, hnC, hle, k, hk, hnk⟩ := nbr_facts h hA hn
  cases hc : cubeDist s n with
  | none => rfl
  | some d =>
      exfalso
      have hns : Idx.le n s = true := cubeDist_le hc
      rcases hs with hs | hs | hs
      · exact hnA (h.down s hs n hns)
      · subst hs
        have := Idx.le_antisymm hns hle
        exact hne this
      · have hne' : st.active ≠ [] := by
          intro he
          have := h.candEmpty he
          rw [this] at hs; simp at hs
        obtain ⟨_, _, hb⟩ := inMargin_iff.mp ((h.candMargin hne' s).mp hs)
        have hnes : n ≠ s := fun e => hnC (e ▸ hs)
        obtain ⟨l, hl, hl1, hle'⟩ := Idx.le_dec_of_le_of_ne hns hnes
        rcases backIn_iff.mp hb l hl with h0 | h1
        · omega
        · exact hnA (h.down _ h1 n hle')

/-- general bookkeeping step shared by both accepted branches: given the weights of `T = active' ++ cand'`, adding the
    neighbours yields the weights of `active' ++ (cand' ++ N)`. -/
theorem step_core {box : Idx} {st : IState} {idx : Idx} (h : Inv box st) (hlen : idx.length = box.length)
    (hA : idx ∉ st.active)
    (hback : backIn st.active idx = true) (hle : Idx.le idx box = true)
    (hzero : st.active = [] → idx = Idx.zero idx.length)
    (cand' : List Idx) (ctest' : CMap)
    (hcand' : ∀ i, i ∈ cand' ↔ i ∈ st.cand ∧ i ≠ idx) (hcnd : cand'.Nodup)
    (hhas' : ∀ j, ctest'.has j = true ↔ j ∈ (st.active ++ [idx]) ++ cand')
    (hval' : ∀ j ∈ (st.active ++ [idx]) ++ cand', ctest'.val j = IEsum ((st.active ++ [idx]) ++ cand') j) :
    Inv box { active := unionNew st.active [idx],
              cand := unionNew cand' (nbrs box st.active idx),
              ctrain := updateCoeff [idx] st.active st.ctrain,
              ctest := updateCoeff (nbrs box st.active idx) (unionNew st.active [idx] ++ cand') ctest' } := by
  have hN := nbrs_nodup box st.active idx
  have hNfresh : ∀ n ∈ nbrs box st.active idx, n ∉ cand' := fun n hn hc =>
    (nbr_facts h hA hn).2.2.1 ((hcand' n).mp hc).1
  rw [unionNew_singleton hA, unionNew_eq_append _ _ hN hNfresh]
  have hA'nd : (st.active ++ [idx]).Nodup := by
    rw [List.nodup_append]
    refine ⟨h.nodupA, by simp, ?_⟩
    intro a ha b hb
    simp only [List.mem_singleton] at hb
    subst hb
    intro e; subst e; exact hA ha
  have hTnd : ((st.active ++ [idx]) ++ cand').Nodup := by
    rw [List.nodup_append]
    refine ⟨hA'nd, hcnd, ?_⟩
    intro a ha b hb e
    subst e
    rcases List.mem_append.mp ha with h1 | h1
    · exact h.disj a h1 ((hcand' a).mp hb).1
    · simp only [List.mem_singleton] at h1
      exact ((hcand' a).mp hb).2 h1
  -- training weights
  have htrain := addNew (T := st.active) (N := [idx]) (m := st.ctrain) h.nodupA (by simp)
    (by simpa using hA) (by simp)
    (by
      intro s hs n hn
      simp only [List.mem_singleton] at hn; subst hn
      cases hc : cubeDist s n with
      | none => rfl
      | some d => exact absurd (h.down s hs n (cubeDist_le hc)) hA)
    h.hasT h.valT
  -- evaluation weights
  have htest := addNew (T := (st.active ++ [idx]) ++ cand') (N := nbrs box st.active idx) (m := ctest') hTnd hN
    (by
      intro n hn hc
      obtain ⟨hnA, hne, hnC, _, _⟩ := nbr_facts h hA hn
      rcases List.mem_append.mp hc with h1 | h1
      · rcases List.mem_append.mp h1 with h2 | h2
        · exact hnA h2
        · simp only [List.mem_singleton] at h2; exact hne h2
      · exact hnC ((hcand' n).mp h1).1)
    (by
      intro n hn n' hn' hne
      obtain ⟨k, hk, rfl, _, _⟩ := mem_nbrs.mp hn
      obtain ⟨l, hl, rfl, _, _⟩ := mem_nbrs.mp hn'
      exact cubeDist_inc_inc_ne idx hk hl (fun e => hne (e ▸ rfl)))
    (by
      intro s hs n hn
      apply nothing_above_nbr h hA hn
      rcases List.mem_append.mp hs with h1 | h1
      · rcases List.mem_append.mp h1 with h2 | h2
        · exact Or.inl h2
        · simp only [List.mem_singleton] at h2; exact Or.inr (Or.inl h2)
      · exact Or.inr (Or.inr ((hcand' s).mp h1).1))
    hhas' hval'
  have hdown' : ∀ s ∈ st.active ++ [idx], ∀ j, Idx.le j s = true → j ∈ st.active ++ [idx] := by
    intro s hs j hj
    rcases List.mem_append.mp hs with h1 | h1
    · exact List.mem_append.mpr (Or.inl (h.down s h1 j hj))
    · simp only [List.mem_singleton] at h1
      subst h1
      by_cases hjs : j = s
      · subst hjs; simp
      · obtain ⟨k, hk, hk1, hle'⟩ := Idx.le_dec_of_le_of_ne hj hjs
        rcases backIn_iff.mp hback k hk with h0 | h2
        · omega
        · exact List.mem_append.mpr (Or.inl (h.down _ h2 j hle'))
  refine ⟨hA'nd, ?_, ?_, hdown', ?_, by simp, ?_, ?_, htrain.2, ?_, ?_⟩
  · -- cand nodup
    rw [List.nodup_append]
    exact ⟨hcnd, hN, fun a ha b hb e => hNfresh b hb (e ▸ ha)⟩
  · -- disjoint
    intro i hi hc
    rcases List.mem_append.mp hc with h1 | h1
    · rcases List.mem_append.mp hi with h2 | h2
      · exact h.disj i h2 ((hcand' i).mp h1).1
      · simp only [List.mem_singleton] at h2; exact ((hcand' i).mp h1).2 h2
    · obtain ⟨hnA, hne, _, _, _⟩ := nbr_facts h hA h1
      rcases List.mem_append.mp hi with h2 | h2
      · exact hnA h2
      · simp only [List.mem_singleton] at h2; exact hne h2
  · -- ≤ box
    intro s hs
    rcases List.mem_append.mp hs with h1 | h1
    · exact h.leBox s h1
    · simp only [List.mem_singleton] at h1; subst h1; exact hle
  · -- candidates = margin
    intro _ i
    rw [List.mem_append, inMargin_iff]
    constructor
    · rintro (hi | hi)
      · obtain ⟨hiC, hine⟩ := (hcand' i).mp hi
        have hne' : st.active ≠ [] := by
          intro he
          have := h.candEmpty he
          rw [this] at hiC; simp at hiC
        obtain ⟨h1, h2, h3⟩ := inMargin_iff.mp ((h.candMargin hne' i).mp hiC)
        refine ⟨?_, h2, ?_⟩
        · intro hc
          rcases List.mem_append.mp hc with h4 | h4
          · exact h1 h4
          · simp only [List.mem_singleton] at h4; exact hine h4
        · rw [backIn_iff] at h3 ⊢
          intro j hj
          rcases h3 j hj with h5 | h5
          · exact Or.inl h5
          · exact Or.inr (List.mem_append.mpr (Or.inl h5))
      · obtain ⟨hnA, hne, _, _, _⟩ := nbr_facts h hA hi
        obtain ⟨k, hk, rfl, hb1, hb2⟩ := mem_nbrs.mp hi
        refine ⟨?_, hb1, ?_⟩
        · intro hc
          rcases List.mem_append.mp hc with h4 | h4
          · exact hnA h4
          · simp only [List.mem_singleton] at h4; exact hne h4
        · rw [backIn_iff]
          intro j hj
          rcases backOK_iff.mp hb2 j hj with h5 | h5 | h5
          · exact Or.inl h5
          · exact Or.inr (List.mem_append.mpr (Or.inl h5))
          · exact Or.inr (List.mem_append.mpr (Or.inr (by simp [h5])))
    · rintro ⟨hiA, hib, hiback⟩
      have hilen : i.length = idx.length := by rw [Idx.le_length hib, hlen]
      have hiA1 : i ∉ st.active := fun hc => hiA (List.mem_append.mpr (Or.inl hc))
      have hine : i ≠ idx := fun e => hiA (List.mem_append.mpr (Or.inr (by simp [e])))
      by_cases hex : ∃ j, j < i.length ∧ 1 ≤ i.nth j ∧ i.dec j = idx
      · obtain ⟨j, hj, hj1, hje⟩ := hex
        right
        rw [mem_nbrs]
        refine ⟨j, by omega, ?_, ?_, ?_⟩
        · rw [← hje, Idx.inc_dec i j hj1]
        · exact hib
        · rw [backOK_iff]
          intro l hl
          rcases backIn_iff.mp hiback l hl with h5 | h5
          · exact Or.inl h5
          · rcases List.mem_append.mp h5 with h6 | h6
            · exact Or.inr (Or.inl h6)
            · simp only [List.mem_singleton] at h6; exact Or.inr (Or.inr h6)
      · left
        have hbackA : backIn st.active i = true := by
          rw [backIn_iff]
          intro j hj
          rcases backIn_iff.mp hiback j hj with h5 | h5
          · exact Or.inl h5
          · rcases List.mem_append.mp h5 with h6 | h6
            · exact Or.inr h6
            · simp only [List.mem_singleton] at h6
              by_cases h0 : i.nth j = 0
              · exact Or.inl h0
              · exact absurd ⟨j, hj, by omega, h6⟩ hex
        by_cases hne' : st.active = []
        · exfalso
          apply hine
          rw [hzero hne']
          have hall : ∀ j, i.nth j = 0 := by
            intro j
            by_cases hj : j < i.length
            · rcases backIn_iff.mp hbackA j hj with h5 | h5
              · exact h5
              · rw [hne'] at h5; simp at h5
            · exact Idx.nth_eq_zero_of_length_le i j (by omega)
          apply Idx.ext_nth
          · simp [Idx.zero, hilen]
          · intro k _; rw [hall k, Idx.nth_zero]
        · rw [hcand']
          exact ⟨(h.candMargin hne' i).mpr (inMargin_iff.mpr ⟨hiA1, hib, hbackA⟩), hine⟩
  · exact htrain.1
  · intro j
    rw [htest.1 j]
    simp [List.append_assoc]
  · intro j hj
    have hj' : j ∈ (st.active ++ [idx]) ++ cand' ++ nbrs box st.active idx := by
      simpa [List.append_assoc] using hj
    rw [htest.2 j hj']
    simp [List.append_assoc]

/-- **Invariant preservation for every request** (admissible or not) of the right length. -/
theorem inv_activate {box : Idx} {st : IState} {idx : Idx} (h : Inv box st) (hlen : idx.length = box.length) :
    Inv box (activate box st idx) := by
  by_cases hA : idx ∈ st.active
  · rw [activate_rejected (Or.inl hA)]; exact h
  by_cases hC : idx ∈ st.cand
  · -- candidate moved to the active set
    rw [activate_in_cand hA hC]
    have hne' : st.active ≠ [] := by
      intro he
      have := h.candEmpty he
      rw [this] at hC; simp at hC
    obtain ⟨_, hle, hback⟩ := inMargin_iff.mp ((h.candMargin hne' idx).mp hC)
    have hperm : (st.active ++ st.cand).Perm ((st.active ++ [idx]) ++ st.cand.erase idx) := by
      have h1 : st.cand.Perm (idx :: st.cand.erase idx) := List.perm_cons_erase hC
      have h2 : (st.active ++ st.cand).Perm (st.active ++ (idx :: st.cand.erase idx)) := h1.append_left _
      simpa [List.append_assoc] using h2
    exact step_core h hlen hA hback hle (fun he => absurd he hne') (st.cand.erase idx) st.ctest
      (fun i => by rw [h.nodupC.mem_erase_iff]; exact ⟨fun ⟨a, b⟩ => ⟨b, a⟩, fun ⟨a, b⟩ => ⟨b, a⟩⟩)
      (h.nodupC.erase idx)
      (fun j => by rw [h.hasE j]; exact hperm.mem_iff)
      (fun j hj => by
        rw [h.valE j (hperm.mem_iff.mpr hj)]
        exact IEsum_perm hperm j)
  · by_cases h0 : idx.total = 0
    · -- the very first (all-zero) index
      rw [activate_initial hA hC h0]
      have hz : idx = Idx.zero idx.length := (Idx.total_eq_zero_iff idx).mp h0
      have hemp : st.active = [] := by
        cases hact : st.active with
        | nil => rfl
        | cons s rest =>
            exfalso
            have hs : s ∈ st.active := by rw [hact]; simp
            have hsl : s.length = idx.length := by rw [Idx.le_length (h.leBox s hs), hlen]
            have : Idx.le idx s = true := by rw [hz, ← hsl]; exact Idx.zero_le s
            exact hA (h.down s hs idx this)
      have hcemp : st.cand = [] := h.candEmpty hemp
      have hback : backIn st.active idx = true := by
        rw [backIn_iff]
        intro j _
        left
        rw [hz, Idx.nth_zero]
      have hle : Idx.le idx box = true := by rw [hz, hlen]; exact Idx.zero_le box
      have hfirst := addNew (T := st.active ++ st.cand) (N := [idx]) (m := st.ctest)
        (by simp [hemp, hcemp]) (by simp) (by simp [hemp, hcemp]) (by simp) (by simp [hemp, hcemp])
        h.hasE h.valE
      have := step_core h hlen hA hback hle (fun _ => hz) st.cand
        (updateCoeff [idx] (st.active ++ st.cand) st.ctest)
        (fun i => by simp [hcemp]) h.nodupC
        (fun j => by rw [hfirst.1 j]; simp [hcemp])
        (fun j hj => by
          have hj' : j ∈ st.active ++ st.cand ++ [idx] := by simpa [hcemp] using hj
          rw [hfirst.2 j hj']
          simp [hcemp])
      exact this
    · rw [activate_rejected (Or.inr ⟨hC, Nat.pos_of_ne_zero h0⟩)]; exact h

/-- the invariant holds in every reachable state, for every sequence of (well-typed) requests -/
theorem inv_run (box : Idx) : ∀ (rs : List Idx), (∀ r ∈ rs, r.length = box.length) → Inv box (run box rs) := by
  intro rs
  unfold run
  suffices H : ∀ (st : IState), Inv box st → (∀ r ∈ rs, r.length = box.length) →
      Inv box (rs.foldl (activate box) st) from H _ (inv_init box)
  induction rs with
  | nil => intro st h _; exact h
  | cons r rs ih =>
      intro st h hr
      simp only [List.foldl_cons]
      exact ih _ (inv_activate h (hr r (by simp))) (fun x hx => hr x (by simp [hx]))

end Amisc
