/-
  Bridge between the list model of multi-index sets / inclusion–exclusion weights (`Amisc.IE`, `Amisc.term`) and the
  `Finset (Fin d → ℕ)` formulation in which the combination identity is proved (`Amisc.Comb.ie`, `combination_exact`).
-/
import AmiscProofs.IEBridge
import AmiscProofs.Combination
import Mathlib.Algebra.BigOperators.Fin
import Mathlib.Data.List.OfFn
import Mathlib.Algebra.BigOperators.Group.Finset.Basic

open Finset

namespace Amisc.SB

open Amisc.Comb

/-- one factor of the inclusion–exclusion sign: `+1` when equal, `-1` when one above, `0` otherwise -/
def tau (a b : ℕ) : ℤ := if a = b then 1 else if a = b + 1 then -1 else 0

/-! ### list side -/

theorem term_eq_prod : ∀ (s i : Idx), s.length = i.length → term s i = (List.zipWith tau s i).prod
  | [], [], _ => by simp [term, cubeDist, sgn]
  | [], _ :: _, h => by simp at h
  | _ :: _, [], h => by simp at h
  | n :: ns, o :: os, h => by
      have hl : ns.length = os.length := by simpa using h
      have ih := term_eq_prod ns os hl
      rw [List.zipWith_cons_cons, List.prod_cons, ← ih]
      unfold term tau
      rw [cubeDist]
      by_cases h1 : n = o
      · simp [h1]
      · by_cases h2 : n = o + 1
        · subst h2
          simp only [h1, if_false, if_true]
          cases hc : cubeDist ns os with
          | none => simp
          | some k => simp [sgn_succ]
        · simp [h1, h2]


/-! ### Finset side: `ie` as a sum over the members -/

variable {d : ℕ}

theorem up_injective (i : Fin d → ℕ) : Function.Injective (up i) := by
  intro e e' h
  ext k
  have hk := congrFun h k
  unfold up at hk
  by_cases h1 : k ∈ e <;> by_cases h2 : k ∈ e' <;> simp [h1, h2] at hk ⊢

theorem prod_tau_up (i : Fin d → ℕ) (e : Finset (Fin d)) : ∏ k, tau (up i e k) (i k) = (-1 : ℤ) ^ e.card := by
  have : ∀ k, tau (up i e k) (i k) = if k ∈ e then (-1 : ℤ) else 1 := by
    intro k
    unfold up tau
    by_cases hk : k ∈ e <;> simp [hk]
  simp only [this]
  rw [Finset.prod_ite, Finset.prod_const_one, mul_one, Finset.prod_const]
  congr 2
  ext k; simp

theorem eq_up_of_prod_ne_zero (i s : Fin d → ℕ) (h : ∏ k, tau (s k) (i k) ≠ 0) :
    s = up i (univ.filter fun k => s k = i k + 1) := by
  funext k
  have hk : tau (s k) (i k) ≠ 0 := fun h0 => h (Finset.prod_eq_zero (mem_univ k) h0)
  unfold tau at hk
  unfold up
  by_cases h1 : s k = i k
  · have : ¬ s k = i k + 1 := by omega
    simp [h1]
  · by_cases h2 : s k = i k + 1
    · simp [h2]
    · simp [h1, h2] at hk

/-- the inclusion–exclusion weight as a sum of sign products over the members of the set -/
theorem ie_eq_sum_tau (S : Finset (Fin d → ℕ)) (i : Fin d → ℕ) : ie S i = ∑ s ∈ S, ∏ k, tau (s k) (i k) := by
  unfold ie
  rw [← Finset.sum_filter]
  have h1 : ∑ e ∈ (univ : Finset (Fin d)).powerset.filter (fun e => up i e ∈ S), (-1 : ℤ) ^ e.card =
      ∑ e ∈ (univ : Finset (Fin d)).powerset.filter (fun e => up i e ∈ S), ∏ k, tau (up i e k) (i k) :=
    Finset.sum_congr rfl fun e _ => (prod_tau_up i e).symm
  rw [h1, ← Finset.sum_image (f := fun s : Fin d → ℕ => ∏ k, tau (s k) (i k)) (g := up i)
    (fun a _ b _ h => up_injective i h)]
  apply Finset.sum_subset
  · intro s hs
    rw [mem_image] at hs
    obtain ⟨e, he, rfl⟩ := hs
    exact (mem_filter.mp he).2
  · intro s hs hnot
    apply Classical.byContradiction
    intro hne
    apply hnot
    rw [mem_image]
    refine ⟨univ.filter fun k => s k = i k + 1, ?_, (eq_up_of_prod_ne_zero i s hne).symm⟩
    rw [mem_filter]
    refine ⟨by simp, ?_⟩
    rw [← eq_up_of_prod_ne_zero i s hne]; exact hs


/-! ### lists ↔ functions -/

/-- a multi-index list as a function on `Fin d` -/
def toFn (d : ℕ) (s : Idx) : Fin d → ℕ := fun k => Idx.nth s k

theorem nth_eq_getElem : ∀ (s : Idx) (k : ℕ) (hk : k < s.length), Idx.nth s k = s[k]
  | a :: as, 0, _ => by simp [Idx.nth]
  | a :: as, k + 1, hk => by
      simp only [Idx.nth, List.getElem_cons_succ]
      exact nth_eq_getElem as k (by simpa using hk)

theorem toFn_injOn {d : ℕ} {s t : Idx} (hs : s.length = d) (ht : t.length = d) (h : toFn d s = toFn d t) : s = t := by
  apply Idx.ext_nth (by omega)
  intro k hk
  have := congrFun h ⟨k, by omega⟩
  exact this

theorem nth_ofFn {d : ℕ} (f : Fin d → ℕ) (k : Fin d) : Idx.nth (List.ofFn f) k = f k := by
  rw [nth_eq_getElem _ _ (by simp)]
  simp

theorem toFn_ofFn {d : ℕ} (f : Fin d → ℕ) : toFn d (List.ofFn f) = f := by
  funext k; exact nth_ofFn f k

theorem term_eq_prod_fin {d : ℕ} (s i : Idx) (hs : s.length = d) (hi : i.length = d) :
    term s i = ∏ k : Fin d, tau (toFn d s k) (toFn d i k) := by
  rw [term_eq_prod s i (by omega), ← List.prod_ofFn]
  congr 1
  apply List.ext_getElem
  · simp [hs, hi]
  · intro k h1 h2
    have hk : k < d := by simpa using h2
    simp only [List.getElem_zipWith, List.getElem_ofFn, toFn]
    rw [nth_eq_getElem s k (by omega), nth_eq_getElem i k (by omega)]

/-- the image of an index list as a `Finset` of functions -/
def toSet (d : ℕ) (S : List Idx) : Finset (Fin d → ℕ) := (S.map (toFn d)).toFinset

theorem map_toFn_nodup {d : ℕ} {S : List Idx} (hnd : S.Nodup) (hlen : ∀ s ∈ S, s.length = d) :
    (S.map (toFn d)).Nodup := by
  rw [List.nodup_map_iff_inj_on hnd]
  intro a ha b hb h
  exact toFn_injOn (hlen a ha) (hlen b hb) h

theorem sum_toSet {d : ℕ} {M : Type*} [AddCommMonoid M] {S : List Idx} (hnd : S.Nodup)
    (hlen : ∀ s ∈ S, s.length = d) (f : (Fin d → ℕ) → M) :
    ∑ s' ∈ toSet d S, f s' = (S.map fun s => f (toFn d s)).sum := by
  unfold toSet
  rw [List.sum_toFinset f (map_toFn_nodup hnd hlen), List.map_map]
  rfl

/-- **the list weight `IE` is the Finset weight `ie` of the image set** -/
theorem IE_eq_ie {d : ℕ} {S : List Idx} (hnd : S.Nodup) (hlen : ∀ s ∈ S, s.length = d) (i : Idx) (hi : i.length = d) :
    IE S i = ie (toSet d S) (toFn d i) := by
  rw [IE_eq_IEsum hnd (fun s hs => by rw [hlen s hs, hi]), ie_eq_sum_tau, sum_toSet hnd hlen]
  unfold IEsum
  congr 1
  apply List.map_congr_left
  intro s hs
  exact term_eq_prod_fin s i (hlen s hs) hi

/-- downward-closedness transfers -/
theorem DC_toSet {d : ℕ} {S : List Idx} (hlen : ∀ s ∈ S, s.length = d)
    (hdown : ∀ s ∈ S, ∀ j, Idx.le j s = true → j ∈ S) : DC (toSet d S) := by
  intro i' hi' j' hle
  unfold toSet at hi' ⊢
  rw [List.mem_toFinset, List.mem_map] at hi' ⊢
  obtain ⟨s, hs, rfl⟩ := hi'
  refine ⟨List.ofFn j', ?_, toFn_ofFn j'⟩
  apply hdown s hs
  rw [Idx.le_iff_nth]
  refine ⟨by simp [hlen s hs], ?_⟩
  intro k
  by_cases hk : k < d
  · have := hle ⟨k, hk⟩
    rw [show Idx.nth (List.ofFn j') k = j' ⟨k, hk⟩ from nth_ofFn j' ⟨k, hk⟩]
    exact this
  · rw [Idx.nth_eq_zero_of_length_le _ _ (by simp; omega)]
    exact Nat.zero_le _

theorem mem_toSet {d : ℕ} {S : List Idx} {s : Idx} (hs : s ∈ S) : toFn d s ∈ toSet d S := by
  unfold toSet
  rw [List.mem_toFinset, List.mem_map]
  exact ⟨s, hs, rfl⟩

/-- **list form of the combination identity**: for a duplicate-free, downward-closed list of indices of length `d`, 1-d
    operator values `u k n` (dimension `k`, level `n`) that are stable from level `l_k` on, and `l ∈ S`:
    Σ_{i∈S} IE(S,i) · Π_k u k (i_k) = Π_k u k (l_k). -/
theorem combination_exact_list {d : ℕ} {R : Type*} [CommRing R] {S : List Idx} (hnd : S.Nodup)
    (hlen : ∀ s ∈ S, s.length = d) (hdown : ∀ s ∈ S, ∀ j, Idx.le j s = true → j ∈ S)
    (u : ℕ → ℕ → R) (l : Idx) (hl : l ∈ S) (hu : ∀ k, k < d → ∀ m, Idx.nth l k ≤ m → u k m = u k (Idx.nth l k)) :
    (S.map fun i => (IE S i : R) * ∏ k : Fin d, u k (Idx.nth i k)).sum = ∏ k : Fin d, u k (Idx.nth l k) := by
  have hce := combination_exact (R := R) (toSet d S) (DC_toSet hlen hdown) (fun k n => u k n) (toFn d l)
    (mem_toSet hl) (fun k m hm => hu k k.2 m hm)
  rw [sum_toSet hnd hlen] at hce
  refine Eq.trans ?_ hce
  congr 1
  apply List.map_congr_left
  intro i hi
  rw [IE_eq_ie hnd hlen i (hlen i hi)]
  rfl

/-- the weights of a non-empty downward-closed set sum to one (list form, C01) -/
theorem sum_IE_eq_one {d : ℕ} {S : List Idx} (hnd : S.Nodup) (hlen : ∀ s ∈ S, s.length = d)
    (hdown : ∀ s ∈ S, ∀ j, Idx.le j s = true → j ∈ S) (hne : S ≠ []) : (S.map fun i => IE S i).sum = 1 := by
  obtain ⟨l, hl⟩ := List.exists_mem_of_ne_nil S hne
  have := combination_exact_list (R := ℤ) hnd hlen hdown (fun _ _ => 1) l hl (fun _ _ _ _ => rfl)
  simpa using this

end Amisc.SB
