/-
  The combination-technique identity over finite downward-closed sets of multi-indices (Finset (Fin d → ℕ)).
  `combination_exact`: Σ_{i∈S} c_i Π_k u_k(i_k) = Π_k u_k(l_k) whenever l ∈ S and every u_k is stationary from l_k on.
  `sum_ie_eq_one`: the inclusion–exclusion weights of a non-empty downward-closed set sum to 1.
-/
import Mathlib.Algebra.BigOperators.Pi
import Mathlib.Algebra.BigOperators.Ring.Finset
import Mathlib.Algebra.BigOperators.Intervals
import Mathlib.Data.Fintype.Pi
import Mathlib.Data.Fintype.BigOperators
import Mathlib.Tactic.Ring
import Mathlib.Tactic.Linarith

namespace Amisc.Comb

open Finset

variable {d : ℕ} {R : Type*} [CommRing R]

def up (i : Fin d → ℕ) (e : Finset (Fin d)) : Fin d → ℕ := fun k => if k ∈ e then i k + 1 else i k
def down (j : Fin d → ℕ) (e : Finset (Fin d)) : Fin d → ℕ := fun k => if k ∈ e then j k - 1 else j k

def ie (S : Finset (Fin d → ℕ)) (i : Fin d → ℕ) : ℤ :=
  ∑ e ∈ (univ : Finset (Fin d)).powerset, if up i e ∈ S then (-1 : ℤ) ^ e.card else 0

def DC (S : Finset (Fin d → ℕ)) : Prop := ∀ i ∈ S, ∀ j : Fin d → ℕ, (∀ k, j k ≤ i k) → j ∈ S

def delta (u : ℕ → R) (n : ℕ) : R := if n = 0 then u 0 else u n - u (n - 1)

theorem sum_delta (u : ℕ → R) (m : ℕ) : ∑ n ∈ range (m + 1), delta u n = u m := by
  induction m with
  | zero => simp [delta]
  | succ k ih => rw [sum_range_succ, ih]; simp [delta]

theorem down_up (i : Fin d → ℕ) (e : Finset (Fin d)) : down (up i e) e = i := by
  funext k; unfold down up; by_cases h : k ∈ e <;> simp [h]

theorem up_down (j : Fin d → ℕ) (e : Finset (Fin d)) (h : ∀ k ∈ e, 0 < j k) : up (down j e) e = j := by
  funext k; unfold down up; by_cases hk : k ∈ e
  · have := h k hk; simp [hk]; omega
  · simp [hk]

theorem down_le (j : Fin d → ℕ) (e : Finset (Fin d)) : ∀ k, down j e k ≤ j k := by
  intro k; unfold down; by_cases hk : k ∈ e <;> simp [hk]

theorem up_pos (i : Fin d → ℕ) (e : Finset (Fin d)) : ∀ k ∈ e, 0 < up i e k := by
  intro k hk; unfold up; simp [hk]

/-- product of surpluses expanded over subsets of dimensions -/
theorem prod_delta_expand (u : Fin d → ℕ → R) (j : Fin d → ℕ) :
    ∏ k, delta (u k) (j k) =
      ∑ e ∈ (univ : Finset (Fin d)).powerset,
        if (∀ k ∈ e, 0 < j k) then ((-1 : R) ^ e.card) * ∏ k, u k (down j e k) else 0 := by
  have h : ∀ k, delta (u k) (j k) = (if 0 < j k then - u k (j k - 1) else 0) + u k (j k) := by
    intro k; unfold delta; by_cases hk : j k = 0
    · simp [hk]
    · have : 0 < j k := Nat.pos_of_ne_zero hk
      simp [hk, this]; ring
  simp_rw [h]
  rw [Finset.prod_add]
  refine Finset.sum_congr rfl fun e _ => ?_
  by_cases he : ∀ k ∈ e, 0 < j k
  · rw [if_pos he]
    have h1 : ∏ k ∈ e, (if 0 < j k then - u k (j k - 1) else 0) = (-1 : R) ^ e.card * ∏ k ∈ e, u k (j k - 1) := by
      rw [← Finset.prod_const, ← Finset.prod_mul_distrib]
      refine Finset.prod_congr rfl fun k hk => ?_
      simp [he k hk]
    rw [h1, mul_assoc]
    congr 1
    rw [← Finset.prod_sdiff (subset_univ e), mul_comm]
    congr 1
    · refine Finset.prod_congr rfl fun k hk => ?_
      have : k ∉ e := (Finset.mem_sdiff.mp hk).2
      simp [down, this]
    · refine Finset.prod_congr rfl fun k hk => ?_
      simp [down, hk]
  · rw [if_neg he]
    push Not at he
    obtain ⟨k, hk, hk0⟩ := he
    have : (if 0 < j k then - u k (j k - 1) else 0) = 0 := by simp; omega
    rw [Finset.prod_eq_zero hk this, zero_mul]


/-- re-indexing identity: combination-technique sum = sum of tensorised surpluses -/
theorem comb_eq_sum_delta (S : Finset (Fin d → ℕ)) (hS : DC S) (u : Fin d → ℕ → R) :
    ∑ i ∈ S, (ie S i : R) * ∏ k, u k (i k) = ∑ j ∈ S, ∏ k, delta (u k) (j k) := by
  simp_rw [prod_delta_expand]
  unfold ie
  push_cast
  simp_rw [Finset.sum_mul]
  rw [Finset.sum_comm]
  conv_rhs => rw [Finset.sum_comm]
  refine Finset.sum_congr rfl fun e _ => ?_
  -- fixed e: bijection i ↦ up i e
  simp_rw [ite_mul, zero_mul]
  rw [← Finset.sum_filter, ← Finset.sum_filter]
  refine Finset.sum_nbij' (fun i => up i e) (fun j => down j e) ?_ ?_ ?_ ?_ ?_
  · intro i hi
    simp only [Finset.mem_filter] at hi ⊢
    exact ⟨hi.2, up_pos i e⟩
  · intro j hj
    simp only [Finset.mem_filter] at hj ⊢
    refine ⟨hS j hj.1 _ (down_le j e), ?_⟩
    rw [up_down j e hj.2]; exact hj.1
  · intro i _; exact down_up i e
  · intro j hj
    simp only [Finset.mem_filter] at hj
    exact up_down j e hj.2
  · intro i _
    rw [down_up]

theorem delta_eq_zero_of_gt (u : ℕ → R) (l n : ℕ) (hu : ∀ m, l ≤ m → u m = u l) (hn : l < n) : delta u n = 0 := by
  unfold delta
  have h0 : n ≠ 0 := by omega
  rw [if_neg h0, hu n (le_of_lt hn), hu (n - 1) (by omega), sub_self]

/-- the combination-technique identity -/
theorem combination_exact (S : Finset (Fin d → ℕ)) (hS : DC S) (u : Fin d → ℕ → R)
    (l : Fin d → ℕ) (hl : l ∈ S) (hu : ∀ k m, l k ≤ m → u k m = u k (l k)) :
    ∑ i ∈ S, (ie S i : R) * ∏ k, u k (i k) = ∏ k, u k (l k) := by
  rw [comb_eq_sum_delta S hS u]
  -- restrict to the box below l
  have hbox : Fintype.piFinset (fun k => range (l k + 1)) ⊆ S := by
    intro j hj
    rw [Fintype.mem_piFinset] at hj
    exact hS l hl j (fun k => by have := hj k; rw [mem_range] at this; omega)
  rw [← Finset.sum_subset hbox]
  · rw [← Finset.prod_univ_sum]
    exact Finset.prod_congr rfl fun k _ => sum_delta (u k) (l k)
  · intro j _ hj
    rw [Fintype.mem_piFinset] at hj
    push Not at hj
    obtain ⟨k, hk⟩ := hj
    rw [mem_range] at hk
    exact Finset.prod_eq_zero (mem_univ k) (delta_eq_zero_of_gt (u k) (l k) (j k) (hu k) (by omega))

/-- weights sum to one -/
theorem sum_ie_eq_one (S : Finset (Fin d → ℕ)) (hS : DC S) (hne : S.Nonempty) : ∑ i ∈ S, ie S i = 1 := by
  obtain ⟨i0, hi0⟩ := hne
  have hz : (fun _ => 0 : Fin d → ℕ) ∈ S := hS i0 hi0 _ (fun k => Nat.zero_le _)
  have := combination_exact (R := ℤ) S hS (fun _ _ => 1) (fun _ => 0) hz (fun _ _ _ => rfl)
  simpa using this

end Amisc.Comb
