/-
  Affine equivariance of the derivative factors: under x ↦ a·x + b (a > 0) of evaluation point, grid and tolerance the first
  derivative factor of `Lagrange.gradient` scales by 1/a and the second derivative factor of `Lagrange.hessian` by 1/a².
-/
import AmiscProofs.InterpScale

namespace Amisc

theorem qsum_range_scale (c : Q) (n : Nat) (f f' : Nat → Q) (h : ∀ p, p < n → f' p = c * f p) :
    qsum ((List.range n).map f') = c * qsum ((List.range n).map f) := by
  rw [← qsum_map_mul, List.map_map]
  congr 1
  apply List.map_congr_left
  intro p hp
  exact h p (List.mem_range.mp hp)

theorem getD_map_affine (a b : Q) (grid : List Q) {p : Nat} (hp : p < grid.length) :
    (grid.map fun g => a * g + b).getD p 0 = a * grid.getD p 0 + b := by
  simp [List.getD_eq_getElem?_getD, List.getElem?_map, List.getElem?_eq_getElem hp]

theorem zipWith_scale (g g' : Q → Q → Q) (a c : Q) (hg : ∀ w d, g' w (a * d) = c * g w d) : ∀ (ws ds : List Q),
    List.zipWith g' ws (ds.map (a * ·)) = (List.zipWith g ws ds).map (c * ·)
  | [], _ => by simp
  | _ :: _, [] => by simp
  | w :: ws, d :: ds => by
      simp only [List.map_cons, List.zipWith_cons_cons, hg, zipWith_scale g g' a c hg ws ds]

theorem dBasis_affine (a b tol x : Q) (ha : 0 < a) (grid ws : List Q) (j : Nat) (hj : j < grid.length) :
    dBasis (a * tol) (a * x + b) (grid.map fun g => a * g + b) ws j = a⁻¹ * dBasis tol x grid ws j := by
  have hne : a ≠ 0 := ha.ne'
  unfold dBasis
  simp only [flagged_affine a b tol x ha grid, List.length_map]
  by_cases h1 : (flagged tol x grid).getD j false = true
  · rw [if_pos h1, if_pos h1]
    rw [qsum_range_scale a⁻¹ grid.length
      (fun p => if p = j then 0 else ws.getD p 0 / ws.getD j 0 / (x - grid.getD p 0))]
    · ring
    · intro p hp
      by_cases hpj : p = j
      · simp [hpj]
      · simp only [hpj, if_false]
        rw [getD_map_affine a b grid hp]
        have : a * x + b - (a * grid.getD p 0 + b) = a * (x - grid.getD p 0) := by ring
        rw [this, div_mul_eq_div_div_swap, div_div, mul_comm (x - grid.getD p 0) a, ← div_div, div_eq_inv_mul _ a]
        ring
  · by_cases h2 : (flagged tol x grid).any id = true
    · rw [if_neg h1, if_neg h1, if_pos h2, if_pos h2]
      rw [getD_map_affine a b grid hj]
      have : a * x + b - (a * grid.getD j 0 + b) = a * (x - grid.getD j 0) := by ring
      rw [this, div_mul_eq_div_div_swap, div_eq_inv_mul _ a]
    · have h2' : (flagged tol x grid).any id = false := by simpa using h2
      rw [if_neg h1, if_neg h1, if_neg h2, if_neg h2]
      rw [quots_affine_of_no_flag a b tol x ha grid ws h2', qsum_map_mul, diffs_affine_of_no_flag a b tol x ha grid h2',
        zipWith_scale (fun w d => w / (d * d)) (fun w d => w / (d * d)) a (a⁻¹ * a⁻¹)
          (by intro w d; rw [div_eq_mul_inv, div_eq_mul_inv, mul_inv, mul_inv]; ring), qsum_map_mul]
      have hdj : ((diffs tol x grid).map (a * ·)).getD j 1 = a * (diffs tol x grid).getD j 1 := by
        have : j < (diffs tol x grid).length := by simp [diffs, hj]
        simp [List.getD_eq_getElem?_getD, List.getElem?_map, List.getElem?_eq_getElem this]
      rw [hdj]
      set qs := qsum (quots tol x grid ws)
      set sq := qsum (List.zipWith (fun w d => w / (d * d)) ws (diffs tol x grid))
      set dj := (diffs tol x grid).getD j 1
      have e1 : a⁻¹ * qs * (a * dj) = qs * dj := by field_simp
      have e2 : a⁻¹ * a⁻¹ * sq / (a⁻¹ * qs) = a⁻¹ * (sq / qs) := by
        rw [mul_assoc, mul_div_mul_left _ _ (inv_ne_zero hne), mul_div_assoc]
      have e3 : 1 / (a * dj) = a⁻¹ * (1 / dj) := by rw [one_div, one_div, mul_inv]
      rw [e1, e2, e3]
      ring


theorem d2Basis_affine (a b tol x : Q) (ha : 0 < a) (grid ws : List Q) (j : Nat) (hj : j < grid.length) :
    d2Basis (a * tol) (a * x + b) (grid.map fun g => a * g + b) ws j = a⁻¹ * a⁻¹ * d2Basis tol x grid ws j := by
  have hne : a ≠ 0 := ha.ne'
  unfold d2Basis
  simp only [flagged_affine a b tol x ha grid, List.length_map]
  by_cases h1 : (flagged tol x grid).getD j false = true
  · rw [if_pos h1, if_pos h1]
    have hs1 : qsum ((List.range grid.length).map fun p => if p = j then 0 else
          ws.getD p 0 / ws.getD j 0 / (a * x + b - (grid.map fun g => a * g + b).getD p 0)) =
        a⁻¹ * qsum ((List.range grid.length).map fun p => if p = j then 0 else
          ws.getD p 0 / ws.getD j 0 / (x - grid.getD p 0)) := by
      apply qsum_range_scale
      intro p hp
      by_cases hpj : p = j
      · simp [hpj]
      · simp only [hpj, if_false]
        rw [getD_map_affine a b grid hp]
        have : a * x + b - (a * grid.getD p 0 + b) = a * (x - grid.getD p 0) := by ring
        rw [this, div_eq_mul_inv _ (a * (x - grid.getD p 0)), div_eq_mul_inv _ (x - grid.getD p 0), mul_inv]
        ring
    have hs2 : qsum ((List.range grid.length).map fun p => if p = j then 0 else
          ws.getD p 0 / ws.getD j 0 / ((a * x + b - (grid.map fun g => a * g + b).getD p 0) *
            (a * x + b - (grid.map fun g => a * g + b).getD p 0))) =
        a⁻¹ * a⁻¹ * qsum ((List.range grid.length).map fun p => if p = j then 0 else
          ws.getD p 0 / ws.getD j 0 / ((x - grid.getD p 0) * (x - grid.getD p 0))) := by
      apply qsum_range_scale
      intro p hp
      by_cases hpj : p = j
      · simp [hpj]
      · simp only [hpj, if_false]
        rw [getD_map_affine a b grid hp]
        have : a * x + b - (a * grid.getD p 0 + b) = a * (x - grid.getD p 0) := by ring
        rw [this, div_eq_mul_inv _ (a * (x - grid.getD p 0) * (a * (x - grid.getD p 0))),
          div_eq_mul_inv _ ((x - grid.getD p 0) * (x - grid.getD p 0)), mul_inv, mul_inv, mul_inv]
        ring
    rw [hs1, hs2]
    ring
  · by_cases h2 : (flagged tol x grid).any id = true
    · rw [if_neg h1, if_neg h1, if_pos h2, if_pos h2]
      have hi : List.idxOf true (flagged tol x grid) < grid.length := by
        have : List.idxOf true (flagged tol x grid) < (flagged tol x grid).length := by
          apply List.idxOf_lt_length_iff.mpr
          rw [List.any_eq_true] at h2
          obtain ⟨y, hy, hyt⟩ := h2
          simp only [id] at hyt
          exact hyt ▸ hy
        simpa [flagged] using this
      set i := List.idxOf true (flagged tol x grid)
      rw [getD_map_affine a b grid hi, getD_map_affine a b grid hj]
      rw [qsum_range_scale a⁻¹ grid.length
        (fun p => if p = i then 0 else ws.getD p 0 / ws.getD i 0 / (grid.getD i 0 - grid.getD p 0))]
      · have e : a * grid.getD i 0 + b - (a * grid.getD j 0 + b) = a * (grid.getD i 0 - grid.getD j 0) := by ring
        rw [e, div_eq_mul_inv _ (a * (grid.getD i 0 - grid.getD j 0)), one_div (a * (grid.getD i 0 - grid.getD j 0)),
          mul_inv, div_eq_mul_inv _ (grid.getD i 0 - grid.getD j 0), one_div]
        ring
      · intro p hp
        by_cases hpi : p = i
        · simp [hpi]
        · simp only [hpi, if_false]
          rw [getD_map_affine a b grid hp]
          have : a * grid.getD i 0 + b - (a * grid.getD p 0 + b) = a * (grid.getD i 0 - grid.getD p 0) := by ring
          rw [this, div_eq_mul_inv _ (a * (grid.getD i 0 - grid.getD p 0)),
            div_eq_mul_inv _ (grid.getD i 0 - grid.getD p 0), mul_inv]
          ring
    · have h2' : (flagged tol x grid).any id = false := by simpa using h2
      rw [if_neg h1, if_neg h1, if_neg h2, if_neg h2]
      rw [quots_affine_of_no_flag a b tol x ha grid ws h2', qsum_map_mul, diffs_affine_of_no_flag a b tol x ha grid h2',
        zipWith_scale (fun w d => w / (d * d)) (fun w d => w / (d * d)) a (a⁻¹ * a⁻¹)
          (by intro w d; rw [div_eq_mul_inv, div_eq_mul_inv, mul_inv, mul_inv]; ring), qsum_map_mul,
        zipWith_scale (fun w d => w / (d * d * d)) (fun w d => w / (d * d * d)) a (a⁻¹ * a⁻¹ * a⁻¹)
          (by intro w d; rw [div_eq_mul_inv, div_eq_mul_inv, mul_inv, mul_inv, mul_inv, mul_inv]; ring), qsum_map_mul]
      have hdj : ((diffs tol x grid).map (a * ·)).getD j 1 = a * (diffs tol x grid).getD j 1 := by
        have : j < (diffs tol x grid).length := by simp [diffs, hj]
        simp [List.getD_eq_getElem?_getD, List.getElem?_map, List.getElem?_eq_getElem this]
      rw [hdj]
      set qs := qsum (quots tol x grid ws)
      set s2 := qsum (List.zipWith (fun w d => w / (d * d)) ws (diffs tol x grid))
      set s3 := qsum (List.zipWith (fun w d => w / (d * d * d)) ws (diffs tol x grid))
      set dj := (diffs tol x grid).getD j 1
      have hai : a⁻¹ ≠ 0 := inv_ne_zero hne
      have e1 : a⁻¹ * qs * (a * dj) = qs * dj := by field_simp
      have e2 : -(2 * (a⁻¹ * a⁻¹ * a⁻¹ * s3)) / (a⁻¹ * qs) = a⁻¹ * a⁻¹ * (-(2 * s3) / qs) := by
        rw [show -(2 * (a⁻¹ * a⁻¹ * a⁻¹ * s3)) = a⁻¹ * (a⁻¹ * a⁻¹ * -(2 * s3)) by ring,
          mul_div_mul_left _ _ hai, mul_div_assoc]
      have e3 : -(a⁻¹ * a⁻¹ * s2) / (a⁻¹ * qs) = a⁻¹ * (-s2 / qs) := by
        rw [show -(a⁻¹ * a⁻¹ * s2) = a⁻¹ * (a⁻¹ * -s2) by ring, mul_div_mul_left _ _ hai, mul_div_assoc]
      have e4 : -(a⁻¹ * a⁻¹ * s2) / (qs * dj) = a⁻¹ * a⁻¹ * (-s2 / (qs * dj)) := by
        rw [show -(a⁻¹ * a⁻¹ * s2) = a⁻¹ * a⁻¹ * -s2 by ring, mul_div_assoc]
      have e5 : 2 / (a * dj * (a * dj)) = a⁻¹ * a⁻¹ * (2 / (dj * dj)) := by
        rw [div_eq_mul_inv, div_eq_mul_inv, mul_inv, mul_inv, mul_inv]; ring
      rw [e1, e2, e3, e4, e5]
      ring

end Amisc
