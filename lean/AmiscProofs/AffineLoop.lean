/-
  AmiscProofs.AffineLoop — what "fixed point within tolerance" means for AFFINE loops (C06, C04):
  the error of a returned iterate against the exact linear solve is the residual amplified by the loop's sensitivity
  `(I − A)⁻¹ A`.  Matrix form over any commutative ring (any number of coupling variables) and the scalar bound over ℚ.
-/
import Mathlib.Data.Matrix.Mul
import Mathlib.Algebra.Order.Field.Basic
import Mathlib.Algebra.Order.AbsoluteValue.Basic
import Mathlib.Tactic.Ring
import Mathlib.Tactic.Abel
import Mathlib.Tactic.FieldSimp
import Mathlib.Tactic.Linarith
import AmiscModel.Sys

namespace Amisc.AffineLoop

open Matrix

variable {n : Type*} [Fintype n] [DecidableEq n] {R : Type*} [CommRing R]

/-- **Error identity of an affine loop** `F c = A c + b` with exact solution `xs = A xs + b`: for the returned value
    `y = F c` of ANY iterate `c`,  `(I − A)(y − xs) = A (c − y)`.  The error is the residual `y − c` pushed through the
    loop's sensitivity; a zero residual gives `(I − A)(y − xs) = 0`. -/
theorem error_identity (A : Matrix n n R) (b xs c : n → R) (hxs : xs = A *ᵥ xs + b) :
    (1 - A) *ᵥ ((A *ᵥ c + b) - xs) = A *ᵥ (c - (A *ᵥ c + b)) := by
  have h2 : A *ᵥ xs = xs - b := by rw [eq_sub_iff_add_eq]; exact hxs.symm
  rw [Matrix.sub_mulVec, Matrix.one_mulVec]
  simp only [Matrix.mulVec_sub, Matrix.mulVec_add, h2]
  abel

/-- if the loop matrix has an inverse sensitivity `S (I − A) = I`, the error IS `S A (c − y)` -/
theorem error_eq_sensitivity_mul_residual (A S : Matrix n n R) (hS : S * (1 - A) = 1) (b xs c : n → R)
    (hxs : xs = A *ᵥ xs + b) :
    (A *ᵥ c + b) - xs = (S * A) *ᵥ (c - (A *ᵥ c + b)) := by
  have h := congrArg (fun v => S *ᵥ v) (error_identity A b xs c hxs)
  simp only [Matrix.mulVec_mulVec, hS, Matrix.one_mulVec] at h
  exact h

/-- exact residual 0 ⇒ exact linear solve -/
theorem zero_residual_is_solution (A S : Matrix n n R) (hS : S * (1 - A) = 1) (b xs c : n → R)
    (hxs : xs = A *ᵥ xs + b) (hres : A *ᵥ c + b = c) : A *ᵥ c + b = xs := by
  have h := error_eq_sensitivity_mul_residual A S hS b xs c hxs
  rw [hres] at h ⊢
  rw [sub_self, Matrix.mulVec_zero] at h
  exact sub_eq_zero.mp h

/-! ### scalar loops over ℚ (the model's number type) -/

/-- `|a c + b − c*| ≤ |a| / |1 − a| · tol` whenever the residual `|a c + b − c| ≤ tol`; `c* = b / (1 − a)` -/
theorem scalar_bound (a b c tol : ℚ) (ha : a ≠ 1) (hres : |a * c + b - c| ≤ tol) :
    |a * c + b - b / (1 - a)| ≤ |a| / |1 - a| * tol := by
  have h1a : (1 - a) ≠ 0 := sub_ne_zero.mpr (Ne.symm ha)
  have key : a * c + b - b / (1 - a) = a / (1 - a) * (-(a * c + b - c)) := by
    field_simp; ring
  rw [key, abs_mul, abs_neg, abs_div]
  exact mul_le_mul_of_nonneg_left hres (div_nonneg (abs_nonneg _) (abs_nonneg _))

/-- the model's `qabs` is the absolute value -/
theorem qabs_eq_abs (x : Q) : qabs x = |x| := by
  unfold qabs
  split
  · rename_i h; exact (abs_of_neg h).symm
  · rename_i h; exact (abs_of_nonneg (not_lt.mp h)).symm

end Amisc.AffineLoop

namespace Amisc.AffineLoop

/-- the running maximum dominates its start value and every element -/
theorem foldl_max_ge (l : List Q) : ∀ (m : Q),
    m ≤ l.foldl (fun m d => if d > m then d else m) m ∧ ∀ d ∈ l, d ≤ l.foldl (fun m d => if d > m then d else m) m := by
  induction l with
  | nil => intro m; simp
  | cons x xs ih =>
      intro m
      simp only [List.foldl_cons, List.mem_cons, forall_eq_or_imp]
      obtain ⟨h1, h2⟩ := ih (if x > m then x else m)
      refine ⟨le_trans ?_ h1, le_trans ?_ h1, h2⟩
      · split <;> [exact le_of_lt ‹_›; exact le_refl _]
      · split <;> [exact le_refl _; exact not_lt.mp ‹_›]

/-- `maxAbsDiff` bounds every component of the difference -/
theorem abs_sub_le_maxAbsDiff (u v : List Q) (i : Nat) (hu : i < u.length) (hv : i < v.length) :
    |u[i] - v[i]| ≤ maxAbsDiff u v := by
  unfold maxAbsDiff
  have hm : qabs (u[i] - v[i]) ∈ List.zipWith (fun u v => qabs (u - v)) u v := by
    rw [List.mem_iff_getElem]
    exact ⟨i, by simp [hu, hv], by simp⟩
  rw [← qabs_eq_abs]
  exact (foldl_max_ge _ 0).2 _ hm

end Amisc.AffineLoop
