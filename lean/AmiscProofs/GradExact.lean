/-
  Component level (weighted sum over indices): `Component.gradient` / `hessian` are the derivatives of the polynomial
  `Component.predict` evaluates, and for polynomial models of the sparse space they are the model's analytic derivatives.
-/
import AmiscProofs.SparseExact
import AmiscProofs.TensorDeriv
import Mathlib.Algebra.Polynomial.Roots

open Polynomial Finset Lagrange

namespace Amisc.GE

open Amisc.LL Amisc.Tensor Amisc.SB Amisc.SE Amisc.TD

theorem tensorSum_length (table : List (List Q)) (sizes : List ℕ) (rows : List (List Q)) :
    (tensorSum table sizes rows).length = (rows.head?.map List.length).getD 0 := by
  simp [tensorSum]

/-- the slice polynomial of the whole component surrogate in coordinate `m` (single output) -/
noncomputable def compSlice (S : List Idx) (c : Idx → ℤ) (st : Idx → LState) (rows : Idx → List (List Q))
    (x : List Q) (m : ℕ) (kind : ℕ → ℕ) : ℚ[X] :=
  (S.map fun i => C (c i : ℚ) * slicePoly (st i) x m (rows i) 0 kind).sum

theorem eval_compSlice (S : List Idx) (c : Idx → ℤ) (st : Idx → LState) (rows : Idx → List (List Q))
    (x : List Q) (m : ℕ) (kind : ℕ → ℕ) (t : Q) :
    eval t (compSlice S c st rows x m kind) =
      (S.map fun i => (c i : ℚ) * eval t (slicePoly (st i) x m (rows i) 0 kind)).sum := by
  unfold compSlice
  rw [eval_listSum, List.map_map]
  congr 1
  apply List.map_congr_left
  intro i _
  simp

theorem derivative_compSlice (S : List Idx) (c : Idx → ℤ) (st : Idx → LState) (rows : Idx → List (List Q))
    (x : List Q) (m : ℕ) (kind : ℕ → ℕ) :
    derivative (compSlice S c st rows x m kind) =
      (S.map fun i => C (c i : ℚ) * derivative (slicePoly (st i) x m (rows i) 0 kind)).sum := by
  unfold compSlice
  rw [map_list_sum, List.map_map]
  congr 1
  apply List.map_congr_left
  intro i _
  simp

section
variable (S : List Idx) (c : Idx → ℤ) (st : Idx → LState) (rows : Idx → List (List Q)) (x : List Q) (m : ℕ)
  (hd : ∀ i ∈ S, (st i).grids.length = x.length) (hm : m < x.length)
  (hg : ∀ i ∈ S, GoodDim ((st i).grids.getD m []) ((st i).wts.getD m []))
  (hny : ∀ i ∈ S, ((rows i).head?.map List.length).getD 0 = 1)
include hd hm hg hny

/-- **`Component.predict/gradient/hessian` (single output)**: one polynomial `P` in `x_m` with
    `predict(x[m:=t]) = P(t)` for all `t`, `gradient_m(x) = P'(x_m)`, `hessian_mm(x) = P''(x_m)`. -/
theorem component_derivatives :
    (∀ t, (miscSum (S.map fun i => (c i, predictT 0 (st i) (rows i) (x.set m t)))).getD 0 0 =
      eval t (compSlice S c st rows x m fun _ => 0)) ∧
    (miscSum (S.map fun i => (c i, gradT 0 (st i) (rows i) x m))).getD 0 0 =
      eval (x.getD m 0) (derivative (compSlice S c st rows x m fun _ => 0)) ∧
    (miscSum (S.map fun i => (c i, hessT 0 (st i) (rows i) x m m))).getD 0 0 =
      eval (x.getD m 0) (derivative (derivative (compSlice S c st rows x m fun _ => 0))) := by
  have hlen1 : ∀ (g : Idx → List Q), (∀ i ∈ S, (g i).length = 1) →
      ∀ t ∈ S.map (fun i => (c i, g i)), t.2.length = 1 := by
    intro g hgl t ht
    rw [List.mem_map] at ht
    obtain ⟨i, hi, rfl⟩ := ht
    exact hgl i hi
  refine ⟨fun t => ?_, ?_, ?_⟩
  · rw [miscSum_single _ (hlen1 _ (fun i hi => by unfold predictT; rw [tensorSum_length, hny i hi])),
      eval_compSlice, List.map_map]
    congr 1
    apply List.map_congr_left
    intro i hi
    simp only [Function.comp]
    rw [(grad_hess_are_derivatives (st i) x (hd i hi) (rows i) 0 (by rw [hny i hi]; exact Nat.one_pos) m hm
      (hg i hi)).1 t]
  · rw [miscSum_single _ (hlen1 _ (fun i hi => by unfold gradT; rw [tensorSum_length, hny i hi])),
      derivative_compSlice, eval_listSum, List.map_map, List.map_map]
    congr 1
    apply List.map_congr_left
    intro i hi
    simp only [Function.comp]
    rw [(grad_hess_are_derivatives (st i) x (hd i hi) (rows i) 0 (by rw [hny i hi]; exact Nat.one_pos) m hm
      (hg i hi)).2.1]
    simp
  · rw [miscSum_single _ (hlen1 _ (fun i hi => by unfold hessT; rw [tensorSum_length, hny i hi])),
      derivative_compSlice, map_list_sum, eval_listSum, List.map_map, List.map_map, List.map_map]
    congr 1
    apply List.map_congr_left
    intro i hi
    simp only [Function.comp]
    rw [(grad_hess_are_derivatives (st i) x (hd i hi) (rows i) 0 (by rw [hny i hi]; exact Nat.one_pos) m hm
      (hg i hi)).2.2]
    simp

end


/-! ### polynomial models of the sparse space: reported derivatives = analytic derivatives -/

/-- the true model as a polynomial in `x_m`, the other coordinates frozen at `x` -/
noncomputable def slice (f : PolyModel) (d : ℕ) (x : List Q) (m : ℕ) : ℚ[X] :=
  (f.map fun t => C (t.1 * ((List.range d).map fun k => if k = m then 1 else eval (x.getD k 0) (t.2 k)).prod) *
    t.2 m).sum

theorem evalAt_set (f : PolyModel) (d : ℕ) (x : List Q) (m : ℕ) (hm : m < d) (hx : x.length = d) (t : Q) :
    f.evalAt d (x.set m t) = eval t (slice f d x m) := by
  unfold PolyModel.evalAt slice
  rw [eval_listSum, List.map_map]
  congr 1
  apply List.map_congr_left
  intro tm _
  simp only [Function.comp, eval_mul, eval_C]
  rw [list_prod_range, list_prod_range, ← Finset.mul_prod_erase _ _ (mem_range.mpr hm),
    ← Finset.mul_prod_erase (range d) _ (mem_range.mpr hm)]
  simp only [if_true, one_mul]
  rw [getD_set_eq x m t (by omega)]
  have : ∏ k ∈ (range d).erase m, eval ((x.set m t).getD k 0) (tm.2 k) =
      ∏ k ∈ (range d).erase m, (if k = m then 1 else eval (x.getD k 0) (tm.2 k)) := by
    apply Finset.prod_congr rfl
    intro k hk
    have hkm := (Finset.mem_erase.mp hk).1
    rw [if_neg hkm, getD_set_ne x m k t hkm]
  rw [this]; ring

theorem rowsOfPoly_ny (st : LState) (f : PolyModel) (hpos : ∀ n ∈ st.grids.map List.length, 0 < n) :
    ((rowsOfPoly st f).head?.map List.length).getD 0 = 1 := by
  unfold rowsOfPoly
  obtain ⟨j0, rest, hjr⟩ := List.exists_cons_of_ne_nil (prodIdx_ne_nil _ hpos)
  rw [hjr]; simp

/-- **C11, second sentence**: for every polynomial model of the sparse polynomial space of the index set, the reported
    Jacobian entry and diagonal Hessian entry equal the model's analytic first / second partial derivative — at every
    point, for every duplicate-free downward-closed set with inclusion–exclusion weights. -/
theorem derivatives_exact {na d : ℕ} (S : List Idx) (hnd : S.Nodup) (hlen : ∀ s ∈ S, s.length = na + d)
    (hdown : ∀ s ∈ S, ∀ j, Idx.le j s = true → j ∈ S)
    (nodes : ℕ → List Q) (gs : ℕ → ℕ) (hgs : Monotone gs) (hnodes : ∀ k, k < d → (nodes k).Nodup)
    (st : Idx → LState) (hN : Nested na d nodes gs st S) (f : PolyModel)
    (hf : ∀ t ∈ f, ∃ l ∈ S, (∀ k, k < d → (t.2 k).degree < gs (Idx.nth l (na + k))) ∧
      (∀ k, k < d → gs (Idx.nth l (na + k)) ≤ (nodes k).length))
    (x : List Q) (hx : x.length = d) (m : ℕ) (hm : m < d) :
    (miscSum (S.map fun i => (IE S i, gradT 0 (st i) (rowsOfPoly (st i) f) x m))).getD 0 0 =
      eval (x.getD m 0) (derivative (slice f d x m)) ∧
    (miscSum (S.map fun i => (IE S i, hessT 0 (st i) (rowsOfPoly (st i) f) x m m))).getD 0 0 =
      eval (x.getD m 0) (derivative (derivative (slice f d x m))) := by
  have hpos : ∀ i ∈ S, ∀ n ∈ (st i).grids.map List.length, 0 < n := by
    intro i hi n hn
    rw [List.mem_map] at hn
    obtain ⟨g, hg, rfl⟩ := hn
    obtain ⟨k, hk, rfl⟩ := List.getElem_of_mem hg
    have := (hN.good i hi k (by rw [← hN.dims i hi]; exact hk)).pos
    simpa [List.getD_eq_getElem?_getD, List.getElem?_eq_getElem hk] using this
  obtain ⟨h1, h2, h3⟩ := component_derivatives S (IE S) st (fun i => rowsOfPoly (st i) f) x m
    (fun i hi => by rw [hN.dims i hi, hx]) (by omega) (fun i hi => hN.good i hi m hm)
    (fun i hi => rowsOfPoly_ny (st i) f (hpos i hi))
  have hP : compSlice S (IE S) st (fun i => rowsOfPoly (st i) f) x m (fun _ => 0) = slice f d x m := by
    apply Polynomial.funext
    intro t
    rw [← h1 t, ← evalAt_set f d x m hm hx t]
    exact misc_exact S hnd hlen hdown nodes gs hgs hnodes st hN f hf (x.set m t) (by simp [hx])
  rw [hP] at h2 h3
  exact ⟨h2, h3⟩


/-! ### cross terms: analytic mixed partial derivatives -/

/-- the partial derivative of a polynomial model in coordinate `m`, again as a polynomial model -/
noncomputable def dModel (f : PolyModel) (m : ℕ) : PolyModel :=
  f.map fun t => (t.1, Function.update t.2 m (derivative (t.2 m)))

theorem eval_derivative_slice (f : PolyModel) (d : ℕ) (x : List Q) (m : ℕ) (hm : m < d) :
    eval (x.getD m 0) (derivative (slice f d x m)) = (dModel f m).evalAt d x := by
  unfold slice dModel PolyModel.evalAt
  rw [map_list_sum, eval_listSum, List.map_map, List.map_map, List.map_map]
  congr 1
  apply List.map_congr_left
  intro t _
  simp only [Function.comp, derivative_mul, derivative_C, zero_mul, zero_add, eval_mul, eval_C]
  rw [list_prod_range, list_prod_range, ← Finset.mul_prod_erase (range d) _ (mem_range.mpr hm),
    ← Finset.mul_prod_erase (range d) _ (mem_range.mpr hm)]
  simp only [if_true, one_mul, Function.update_self]
  have : ∏ k ∈ (range d).erase m, eval (x.getD k 0) (Function.update t.2 m (derivative (t.2 m)) k) =
      ∏ k ∈ (range d).erase m, (if k = m then 1 else eval (x.getD k 0) (t.2 k)) := by
    apply Finset.prod_congr rfl
    intro k hk
    have hkm := (Finset.mem_erase.mp hk).1
    rw [if_neg hkm, Function.update_of_ne hkm]
  rw [this]; ring

/-- the gradient slice polynomial of the component in coordinate `n` (other factors: first derivative in `m`) -/
theorem cross_derivative_exact {na d : ℕ} (S : List Idx) (hnd : S.Nodup) (hlen : ∀ s ∈ S, s.length = na + d)
    (hdown : ∀ s ∈ S, ∀ j, Idx.le j s = true → j ∈ S)
    (nodes : ℕ → List Q) (gs : ℕ → ℕ) (hgs : Monotone gs) (hnodes : ∀ k, k < d → (nodes k).Nodup)
    (st : Idx → LState) (hN : Nested na d nodes gs st S) (f : PolyModel)
    (hf : ∀ t ∈ f, ∃ l ∈ S, (∀ k, k < d → (t.2 k).degree < gs (Idx.nth l (na + k))) ∧
      (∀ k, k < d → gs (Idx.nth l (na + k)) ≤ (nodes k).length))
    (x : List Q) (hx : x.length = d) (m n : ℕ) (hm : m < d) (hn : n < d) (hmn : m ≠ n) :
    (miscSum (S.map fun i => (IE S i, hessT 0 (st i) (rowsOfPoly (st i) f) x m n))).getD 0 0 =
      eval (x.getD n 0) (derivative (slice (dModel f m) d x n)) := by
  have hpos : ∀ i ∈ S, ∀ k ∈ (st i).grids.map List.length, 0 < k := by
    intro i hi k hk
    rw [List.mem_map] at hk
    obtain ⟨g, hg, rfl⟩ := hk
    obtain ⟨j, hj, rfl⟩ := List.getElem_of_mem hg
    have := (hN.good i hi j (by rw [← hN.dims i hi]; exact hj)).pos
    simpa [List.getD_eq_getElem?_getD, List.getElem?_eq_getElem hj] using this
  have hny : ∀ i ∈ S, ((rowsOfPoly (st i) f).head?.map List.length).getD 0 = 1 :=
    fun i hi => rowsOfPoly_ny (st i) f (hpos i hi)
  have hlen1 : ∀ (g : Idx → List Q), (∀ i ∈ S, (g i).length = 1) →
      ∀ t ∈ S.map (fun i => (IE S i, g i)), t.2.length = 1 := by
    intro g hgl t ht
    rw [List.mem_map] at ht
    obtain ⟨i, hi, rfl⟩ := ht
    exact hgl i hi
  -- the polynomial in x_n whose value is the component's gradient entry m
  let kindm : ℕ → ℕ := fun k => if k = m then 1 else 0
  have hQ : ∀ t, (miscSum (S.map fun i => (IE S i, gradT 0 (st i) (rowsOfPoly (st i) f) (x.set n t) m))).getD 0 0 =
      eval t (compSlice S (IE S) st (fun i => rowsOfPoly (st i) f) x n kindm) := by
    intro t
    rw [miscSum_single _ (hlen1 _ (fun i hi => by unfold gradT; rw [tensorSum_length, hny i hi])), eval_compSlice,
      List.map_map]
    congr 1
    apply List.map_congr_left
    intro i hi
    simp only [Function.comp]
    rw [(hess_cross_is_derivative (st i) x (by rw [hN.dims i hi, hx]) (rowsOfPoly (st i) f) 0
      (by rw [hny i hi]; exact Nat.one_pos) m n hmn (by omega) (hN.good i hi n hn)).1 t]
  have hH : (miscSum (S.map fun i => (IE S i, hessT 0 (st i) (rowsOfPoly (st i) f) x m n))).getD 0 0 =
      eval (x.getD n 0) (derivative (compSlice S (IE S) st (fun i => rowsOfPoly (st i) f) x n kindm)) := by
    rw [miscSum_single _ (hlen1 _ (fun i hi => by unfold hessT; rw [tensorSum_length, hny i hi])),
      derivative_compSlice, eval_listSum, List.map_map, List.map_map]
    congr 1
    apply List.map_congr_left
    intro i hi
    simp only [Function.comp]
    rw [(hess_cross_is_derivative (st i) x (by rw [hN.dims i hi, hx]) (rowsOfPoly (st i) f) 0
      (by rw [hny i hi]; exact Nat.one_pos) m n hmn (by omega) (hN.good i hi n hn)).2]
    simp only [eval_mul, eval_C]
    rfl
  -- that polynomial is the slice of the analytic partial derivative ∂f/∂x_m
  have hP : compSlice S (IE S) st (fun i => rowsOfPoly (st i) f) x n kindm = slice (dModel f m) d x n := by
    apply Polynomial.funext
    intro t
    rw [← hQ t, ← evalAt_set (dModel f m) d x n hn hx t]
    have hxs : (x.set n t).length = d := by simp [hx]
    rw [(derivatives_exact S hnd hlen hdown nodes gs hgs hnodes st hN f hf (x.set n t) hxs m hm).1,
      eval_derivative_slice f d (x.set n t) m hm]
  rw [hH, hP]

end Amisc.GE
