/-
  Bridge for derivatives: the values computed by `Lagrange.gradient` / `Lagrange.hessian` for one basis function (list model
  `dBasis`, `d2Basis`, all three node branches) are the first / second derivative of Mathlib's `Lagrange.basis`.
-/
import AmiscProofs.ListLagrange
import AmiscProofs.BaryDeriv2

open Polynomial Finset Lagrange

namespace Amisc.LL

/-- position of the (unique) flagged node -/
theorem flagged_idxOf : ∀ (grid : List Q) (x : Q) (k : ℕ) (hk : k < grid.length), grid.Nodup → x = nodeFn grid k →
    (flagged 0 x grid).idxOf true = k
  | [], _, k, hk, _, _ => by simp at hk
  | y :: ys, x, 0, _, _, hx => by
      have : x = y := by simpa [nodeFn] using hx
      subst this
      simp [flagged, qabs]
  | y :: ys, x, k + 1, hk, hnd, hx => by
      have hnd' := List.nodup_cons.mp hnd
      have hx' : x = nodeFn ys k := by simpa [nodeFn] using hx
      have hk' : k < ys.length := by simpa using hk
      have hxy : x ≠ y := by
        intro e
        apply hnd'.1
        rw [← e, hx', nodeFn_lt hk']
        exact List.getElem_mem hk'
      have ih := flagged_idxOf ys x k hk' hnd'.2 hx'
      unfold flagged at ih ⊢
      rw [List.map_cons, List.idxOf_cons_ne, ih]
      intro h
      simp only [decide_eq_true_eq, qabs_le_zero, sub_eq_zero] at h
      exact hxy h

/-- a range sum with one index masked is the sum over the erased range -/
theorem qsum_range_mask (n j : ℕ) (f : ℕ → Q) :
    qsum ((List.range n).map fun p => if p = j then 0 else f p) = ∑ p ∈ (range n).erase j, f p := by
  rw [qsum_eq_sum, list_sum_range]
  by_cases hj : j ∈ range n
  · rw [← Finset.add_sum_erase _ _ hj]
    simp only [if_true, zero_add]
    apply Finset.sum_congr rfl
    intro p hp
    rw [if_neg (Finset.mem_erase.mp hp).1]
  · rw [Finset.erase_eq_of_notMem hj]
    apply Finset.sum_congr rfl
    intro p hp
    rw [if_neg (fun e : p = j => hj (e ▸ hp))]

theorem zipWith_off_getD (x : Q) (grid ws : List Q) (hlen : ws.length = grid.length) (g : Q → Q → Q)
    (j : ℕ) (hj : j < grid.length) :
    (List.zipWith g ws (grid.map fun xk => x - xk)).getD j 0 = g (ws.getD j 0) (x - nodeFn grid j) := by
  have hj' : j < ws.length := by omega
  simp [List.getD_eq_getElem?_getD, List.getElem?_zipWith, List.getElem?_eq_getElem hj', List.getElem?_eq_getElem hj,
    nodeFn_lt hj]

theorem qsum_zipWith_off (x : Q) (grid ws : List Q) (hlen : ws.length = grid.length) (g : Q → Q → Q) :
    qsum (List.zipWith g ws (grid.map fun xk => x - xk)) =
      ∑ i ∈ range grid.length, g (ws.getD i 0) (x - nodeFn grid i) := by
  rw [qsum_eq_sum, list_sum_eq_range]
  have : (List.zipWith g ws (grid.map fun xk => x - xk)).length = grid.length := by simp [hlen]
  rw [this]
  apply Finset.sum_congr rfl
  intro i hi
  exact zipWith_off_getD x grid ws hlen g i (mem_range.mp hi)

theorem diffs_off_getD (x : Q) (grid : List Q) (hx : ∀ k, k < grid.length → x ≠ nodeFn grid k) (j : ℕ)
    (hj : j < grid.length) : (diffs 0 x grid).getD j 1 = x - nodeFn grid j := by
  rw [diffs_off x grid hx]
  simp [List.getD_eq_getElem?_getD, List.getElem?_eq_getElem hj, nodeFn_lt hj]

section
variable (grid ws : List Q) (hnd : grid.Nodup) (hlen : ws.length = grid.length) (c : Q) (hc : c ≠ 0)
  (hw : ∀ i, i < grid.length → ws.getD i 0 = c * nodalWeight (range grid.length) (nodeFn grid) i)
include hnd hlen hc hw

/-- **`Lagrange.gradient`'s 1-d factor is the derivative of the Lagrange basis polynomial** (all node branches) -/
theorem dBasis_eq_eval (x : Q) (j : ℕ) (hj : j < grid.length) :
    dBasis 0 x grid ws j = eval x (derivative (Lagrange.basis (range grid.length) (nodeFn grid) j)) := by
  have hinj := injOn_nodeFn hnd
  have hjm : j ∈ range grid.length := mem_range.mpr hj
  unfold dBasis
  dsimp only
  rw [flagged_getD x grid j hj]
  by_cases h1 : x = nodeFn grid j
  · rw [if_pos (by simpa using h1), qsum_range_mask, h1, ← Amisc.Bary.dBasis_at_own_node hinj j hjm hc]
    congr 1
    apply Finset.sum_congr rfl
    intro p hp
    rw [hw p (mem_range.mp (Finset.mem_erase.mp hp).2), hw j hj]
    rfl
  · rw [if_neg (by simpa using h1)]
    by_cases h2 : (flagged 0 x grid).any id = true
    · rw [if_pos h2]
      obtain ⟨k, hk, hxk⟩ := (flagged_any x grid).mp h2
      have hkj : k ≠ j := fun e => h1 (e ▸ hxk)
      rw [flagged_idxOf grid x k hk hnd hxk, hxk,
        ← Amisc.Bary.dBasis_at_other_node hinj k j (mem_range.mpr hk) hjm hkj hc, hw j hj, hw k hk]
      rfl
    · rw [if_neg h2]
      have hx : ∀ k, k < grid.length → x ≠ nodeFn grid k := by
        intro k hk e
        exact h2 ((flagged_any x grid).mpr ⟨k, hk, e⟩)
      rw [diffs_off_getD x grid hx j hj, qsum_quots_off x grid ws hlen hx, diffs_off x grid hx,
        qsum_zipWith_off x grid ws hlen (fun w d => w / (d * d))]
      have := Amisc.Bary.dBasis_offnode hinj j hjm hc (fun i hi => hx i (mem_range.mp hi))
      simp only at this
      rw [← this, hw j hj]
      have hS : (∑ i ∈ range grid.length, ws.getD i 0 / (x - nodeFn grid i)) =
          ∑ i ∈ range grid.length, c * nodalWeight (range grid.length) (nodeFn grid) i * (x - nodeFn grid i)⁻¹ :=
        Finset.sum_congr rfl fun i hi => by rw [hw i (mem_range.mp hi), div_eq_mul_inv]
      have hS2 : (∑ i ∈ range grid.length, ws.getD i 0 / ((x - nodeFn grid i) * (x - nodeFn grid i))) =
          ∑ i ∈ range grid.length, c * nodalWeight (range grid.length) (nodeFn grid) i * ((x - nodeFn grid i)⁻¹) ^ 2 :=
        Finset.sum_congr rfl fun i hi => by rw [hw i (mem_range.mp hi), div_eq_mul_inv, mul_inv, sq]
      rw [hS, hS2]


/-- **`Lagrange.hessian`'s diagonal 1-d factor is the second derivative of the Lagrange basis polynomial** -/
theorem d2Basis_eq_eval (x : Q) (j : ℕ) (hj : j < grid.length) :
    d2Basis 0 x grid ws j =
      eval x (derivative (derivative (Lagrange.basis (range grid.length) (nodeFn grid) j))) := by
  have hinj := injOn_nodeFn hnd
  have hjm : j ∈ range grid.length := mem_range.mpr hj
  unfold d2Basis
  dsimp only
  rw [flagged_getD x grid j hj]
  by_cases h1 : x = nodeFn grid j
  · rw [if_pos (by simpa using h1), qsum_range_mask, qsum_range_mask, h1,
      ← Amisc.Bary.d2Basis_at_own_node hinj j hjm hc]
    have e1 : (∑ p ∈ (range grid.length).erase j, ws.getD p 0 / ws.getD j 0 / (nodeFn grid j - grid.getD p 0)) =
        ∑ p ∈ (range grid.length).erase j, (c * nodalWeight (range grid.length) (nodeFn grid) p /
          (c * nodalWeight (range grid.length) (nodeFn grid) j)) / (nodeFn grid j - nodeFn grid p) :=
      Finset.sum_congr rfl fun p hp => by
        rw [hw p (mem_range.mp (Finset.mem_erase.mp hp).2), hw j hj]; rfl
    have e2 : (∑ p ∈ (range grid.length).erase j, ws.getD p 0 / ws.getD j 0 /
          ((nodeFn grid j - grid.getD p 0) * (nodeFn grid j - grid.getD p 0))) =
        ∑ p ∈ (range grid.length).erase j, (c * nodalWeight (range grid.length) (nodeFn grid) p /
          (c * nodalWeight (range grid.length) (nodeFn grid) j)) /
            ((nodeFn grid j - nodeFn grid p) * (nodeFn grid j - nodeFn grid p)) :=
      Finset.sum_congr rfl fun p hp => by
        rw [hw p (mem_range.mp (Finset.mem_erase.mp hp).2), hw j hj]; rfl
    rw [e1, e2]
  · rw [if_neg (by simpa using h1)]
    by_cases h2 : (flagged 0 x grid).any id = true
    · rw [if_pos h2]
      obtain ⟨k, hk, hxk⟩ := (flagged_any x grid).mp h2
      have hkj : k ≠ j := fun e => h1 (e ▸ hxk)
      rw [flagged_idxOf grid x k hk hnd hxk, qsum_range_mask]
      conv_rhs => rw [hxk]
      rw [← Amisc.Bary.d2Basis_at_other_node hinj k j (mem_range.mpr hk) hjm hkj hc, hw j hj, hw k hk]
      have e1 : (∑ p ∈ (range grid.length).erase k,
            ws.getD p 0 / (c * nodalWeight (range grid.length) (nodeFn grid) k) / (grid.getD k 0 - grid.getD p 0)) =
          ∑ p ∈ (range grid.length).erase k, (c * nodalWeight (range grid.length) (nodeFn grid) p /
            (c * nodalWeight (range grid.length) (nodeFn grid) k)) / (nodeFn grid k - nodeFn grid p) :=
        Finset.sum_congr rfl fun p hp => by
          rw [hw p (mem_range.mp (Finset.mem_erase.mp hp).2)]; rfl
      rw [e1]
      rfl
    · rw [if_neg h2]
      have hx : ∀ k, k < grid.length → x ≠ nodeFn grid k := by
        intro k hk e
        exact h2 ((flagged_any x grid).mpr ⟨k, hk, e⟩)
      rw [diffs_off_getD x grid hx j hj, qsum_quots_off x grid ws hlen hx, diffs_off x grid hx,
        qsum_zipWith_off x grid ws hlen (fun w d => w / (d * d)),
        qsum_zipWith_off x grid ws hlen (fun w d => w / (d * d * d))]
      have := Amisc.Bary.d2Basis_offnode hinj j hjm hc (fun i hi => hx i (mem_range.mp hi))
      simp only at this
      rw [← this, hw j hj]
      have hS : (∑ i ∈ range grid.length, ws.getD i 0 / (x - nodeFn grid i)) =
          ∑ i ∈ range grid.length, c * nodalWeight (range grid.length) (nodeFn grid) i * (x - nodeFn grid i)⁻¹ :=
        Finset.sum_congr rfl fun i hi => by rw [hw i (mem_range.mp hi), div_eq_mul_inv]
      have hS2 : (∑ i ∈ range grid.length, ws.getD i 0 / ((x - nodeFn grid i) * (x - nodeFn grid i))) =
          ∑ i ∈ range grid.length, c * nodalWeight (range grid.length) (nodeFn grid) i * ((x - nodeFn grid i)⁻¹) ^ 2 :=
        Finset.sum_congr rfl fun i hi => by rw [hw i (mem_range.mp hi), div_eq_mul_inv, mul_inv, sq]
      have hS3 : (∑ i ∈ range grid.length,
            ws.getD i 0 / ((x - nodeFn grid i) * (x - nodeFn grid i) * (x - nodeFn grid i))) =
          ∑ i ∈ range grid.length, c * nodalWeight (range grid.length) (nodeFn grid) i * ((x - nodeFn grid i)⁻¹) ^ 3 :=
        Finset.sum_congr rfl fun i hi => by
          rw [hw i (mem_range.mp hi), div_eq_mul_inv, mul_inv, mul_inv, pow_succ, sq]
      rw [hS, hS2, hS3]

end

end Amisc.LL
