/-
  `Lagrange.gradient` / `Lagrange.hessian` (list model `gradT`, `hessT`) are the partial derivatives of the polynomial that
  `Lagrange.predict` (`predictT`) evaluates: with all coordinates but `x_m` frozen, the prediction is `eval x_m P` for an
  explicit polynomial `P`, the reported gradient is `eval x_m P'` and the reported diagonal Hessian entry `eval x_m P''`;
  a cross entry `(m,n)` is the derivative in `x_n` of the polynomial whose value is the gradient entry `m`.
-/
import AmiscProofs.Tensor
import AmiscProofs.ListDeriv
import AmiscProofs.StoreProofs

open Polynomial Finset Lagrange

namespace Amisc.TD

open Amisc.LL Amisc.Tensor

theorem mem_prodIdx : ∀ (sizes : List ℕ) (j : List ℕ), j ∈ prodIdx sizes →
    j.length = sizes.length ∧ ∀ d, d < sizes.length → j.getD d 0 < sizes.getD d 0
  | [], j, h => by
      simp [prodIdx] at h; subst h; simp
  | n :: ns, j, h => by
      rw [prodIdx, List.mem_flatMap] at h
      obtain ⟨a, ha, hj⟩ := h
      rw [List.mem_map] at hj
      obtain ⟨j', hj', rfl⟩ := hj
      obtain ⟨ih1, ih2⟩ := mem_prodIdx ns j' hj'
      refine ⟨by simp [ih1], ?_⟩
      intro d hd
      cases d with
      | zero => simpa using List.mem_range.mp ha
      | succ d =>
          have := ih2 d (by simpa using hd)
          simpa using this

/-- coefficient of a tensor node with dimension `m` left out -/
def coefEx (table : List (List Q)) (m : ℕ) (j : List ℕ) : Q :=
  ((List.range j.length).map fun d => if d = m then 1 else (table.getD d []).getD (j.getD d 0) 0).prod

theorem coefOf_split (table : List (List Q)) (m : ℕ) (j : List ℕ) (hm : m < j.length) :
    coefOf table j = (table.getD m []).getD (j.getD m 0) 0 * coefEx table m j := by
  unfold coefOf coefEx
  rw [list_prod_range, list_prod_range, ← Finset.mul_prod_erase _ _ (mem_range.mpr hm),
    ← Finset.mul_prod_erase (range j.length) _ (mem_range.mpr hm)]
  simp only [if_true, one_mul]
  congr 1
  apply Finset.prod_congr rfl
  intro d hd
  rw [if_neg (Finset.mem_erase.mp hd).1]

/-- `coefEx` only reads the rows other than `m` -/
theorem coefEx_congr (T T' : List (List Q)) (m : ℕ) (j : List ℕ)
    (h : ∀ d, d ≠ m → d < j.length → (T.getD d []).getD (j.getD d 0) 0 = (T'.getD d []).getD (j.getD d 0) 0) :
    coefEx T m j = coefEx T' m j := by
  unfold coefEx
  congr 1
  apply List.map_congr_left
  intro d hd
  by_cases hdm : d = m
  · simp [hdm]
  · simp only [hdm, if_false]
    exact h d hdm (List.mem_range.mp hd)

/-- one output column of `tensorSum` as a plain sum over (node, data row) pairs -/
theorem tensorSum_getD (table : List (List Q)) (sizes : List ℕ) (rows : List (List Q)) (o : ℕ)
    (ho : o < (rows.head?.map List.length).getD 0) :
    (tensorSum table sizes rows).getD o 0 =
      (((prodIdx sizes).zip rows).map fun jr => coefOf table jr.1 * jr.2.getD o 0).sum := by
  unfold tensorSum
  simp only [List.getD_eq_getElem?_getD, List.getElem?_map, List.getElem?_range ho, Option.map_some, Option.getD_some]
  rw [qsum_eq_sum, List.zip_map_left, List.map_map]
  congr 1
  apply List.map_congr_left
  intro jr _
  simp [coefOf, qprod_eq_prod, List.getD_eq_getElem?_getD]

/-- … with row `m` of the table given by a function `φ` of the node number -/
theorem tensorSum_row (table : List (List Q)) (sizes : List ℕ) (rows : List (List Q)) (o m : ℕ)
    (ho : o < (rows.head?.map List.length).getD 0) (hm : m < sizes.length) (φ : ℕ → Q)
    (hφ : ∀ a, a < sizes.getD m 0 → (table.getD m []).getD a 0 = φ a) :
    (tensorSum table sizes rows).getD o 0 =
      (((prodIdx sizes).zip rows).map fun jr => coefEx table m jr.1 * jr.2.getD o 0 * φ (jr.1.getD m 0)).sum := by
  rw [tensorSum_getD table sizes rows o ho]
  congr 1
  apply List.map_congr_left
  intro jr hjr
  have hj : jr.1 ∈ prodIdx sizes := (List.of_mem_zip hjr).1
  obtain ⟨hl, hb⟩ := mem_prodIdx sizes jr.1 hj
  rw [coefOf_split table m jr.1 (by omega), hφ _ (hb m hm)]
  ring

/-- the polynomial in the `m`-th coordinate obtained by freezing all other coordinates -/
noncomputable def rowPoly (table : List (List Q)) (m : ℕ) (B : ℕ → ℚ[X]) (sizes : List ℕ) (rows : List (List Q))
    (o : ℕ) : ℚ[X] :=
  (((prodIdx sizes).zip rows).map fun jr => C (coefEx table m jr.1 * jr.2.getD o 0) * B (jr.1.getD m 0)).sum

theorem eval_rowPoly (table : List (List Q)) (m : ℕ) (B : ℕ → ℚ[X]) (sizes : List ℕ) (rows : List (List Q)) (o : ℕ)
    (t : Q) :
    eval t (rowPoly table m B sizes rows o) =
      (((prodIdx sizes).zip rows).map fun jr => coefEx table m jr.1 * jr.2.getD o 0 * eval t (B (jr.1.getD m 0))).sum := by
  unfold rowPoly
  rw [eval_listSum, List.map_map]
  congr 1
  apply List.map_congr_left
  intro jr _
  simp

theorem derivative_rowPoly (table : List (List Q)) (m : ℕ) (B : ℕ → ℚ[X]) (sizes : List ℕ) (rows : List (List Q))
    (o : ℕ) :
    derivative (rowPoly table m B sizes rows o) = rowPoly table m (fun a => derivative (B a)) sizes rows o := by
  unfold rowPoly
  rw [map_list_sum, List.map_map]
  congr 1
  apply List.map_congr_left
  intro jr _
  simp


/-- entry of the factor table: value / first / second derivative factor of node `a` in dimension `k` -/
def entry (st : LState) (x : List Q) (kind : ℕ → ℕ) (k a : ℕ) : Q :=
  match kind k with
  | 0 => basis 0 (x.getD k 0) (st.grids.getD k []) (st.wts.getD k []) a
  | 1 => dBasis 0 (x.getD k 0) (st.grids.getD k []) (st.wts.getD k []) a
  | _ => d2Basis 0 (x.getD k 0) (st.grids.getD k []) (st.wts.getD k []) a

theorem factorTable_entry (st : LState) (x : List Q) (kind : ℕ → ℕ) (k a : ℕ) (hk : k < x.length)
    (ha : a < (st.grids.getD k []).length) :
    ((factorTable 0 st x kind).getD k []).getD a 0 = entry st x kind k a := by
  unfold factorTable entry
  simp only [List.getD_eq_getElem?_getD, List.getElem?_map, List.getElem?_range hk, Option.map_some, Option.getD_some]
  have ha' : a < ((st.grids[k]?).getD []).length := by simpa [List.getD_eq_getElem?_getD] using ha
  simp only [List.getElem?_map, List.getElem?_range ha', Option.map_some, Option.getD_some]
  generalize kind k = kk
  match kk with
  | 0 => rfl
  | 1 => rfl
  | _ + 2 => rfl

theorem getD_set_ne (x : List Q) (m d : ℕ) (t : Q) (h : d ≠ m) : (x.set m t).getD d 0 = x.getD d 0 := by
  simp [List.getD_eq_getElem?_getD, List.getElem?_set_ne (Ne.symm h)]

theorem getD_set_eq (x : List Q) (m : ℕ) (t : Q) (h : m < x.length) : (x.set m t).getD m 0 = t := by
  simp [List.getD_eq_getElem?_getD, List.getElem?_set_self h]

/-- rows other than `m` of the factor table do not depend on `x_m` nor on `kind m` -/
theorem coefEx_factorTable (st : LState) (x x' : List Q) (kind kind' : ℕ → ℕ) (m : ℕ) (j : List ℕ)
    (hlen : x'.length = x.length) (hd : st.grids.length = x.length) (hj : j ∈ prodIdx (st.grids.map List.length))
    (hx : ∀ d, d ≠ m → x'.getD d 0 = x.getD d 0) (hkind : ∀ d, d ≠ m → kind' d = kind d) :
    coefEx (factorTable 0 st x' kind') m j = coefEx (factorTable 0 st x kind) m j := by
  obtain ⟨hl, hb⟩ := mem_prodIdx _ j hj
  simp only [List.length_map] at hl hb
  apply coefEx_congr
  intro d hdm hdj
  have hdx : d < x.length := by omega
  have ha : j.getD d 0 < (st.grids.getD d []).length := by
    have := hb d (by omega)
    simpa [List.getD_eq_getElem?_getD, List.getElem?_eq_getElem (show d < st.grids.length by omega)] using this
  rw [factorTable_entry st x' kind' d _ (by omega) ha, factorTable_entry st x kind d _ hdx ha]
  unfold entry
  rw [hkind d hdm, hx d hdm]

/-- the polynomial in `x_m` evaluated by the tensor sum whose other factors are given by `kind` -/
noncomputable def slicePoly (st : LState) (x : List Q) (m : ℕ) (rows : List (List Q)) (o : ℕ) (kind : ℕ → ℕ) : ℚ[X] :=
  rowPoly (factorTable 0 st x kind) m
    (fun a => Lagrange.basis (range (st.grids.getD m []).length) (nodeFn (st.grids.getD m [])) a)
    (st.grids.map List.length) rows o

theorem size_m (st : LState) (x : List Q) (m : ℕ) (hd : st.grids.length = x.length) (hm : m < x.length) :
    (st.grids.map List.length).getD m 0 = (st.grids.getD m []).length := by
  have : m < st.grids.length := by omega
  simp [List.getD_eq_getElem?_getD, List.getElem?_eq_getElem this]

section
variable (st : LState) (x : List Q) (m : ℕ) (hd : st.grids.length = x.length) (hm : m < x.length)
  (hg : GoodDim (st.grids.getD m []) (st.wts.getD m []))
  (rows : List (List Q)) (o : ℕ) (ho : o < (rows.head?.map List.length).getD 0)
include hd hm hg ho

/-- moving `x_m` to `t` evaluates the slice polynomial at `t` -/
theorem slice_value (kind : ℕ → ℕ) (hk : kind m = 0) (t : Q) :
    (tensorSum (factorTable 0 st (x.set m t) kind) (st.grids.map List.length) rows).getD o 0 =
      eval t (slicePoly st x m rows o kind) := by
  obtain ⟨c, hc, hw⟩ := hg.wt
  unfold slicePoly
  rw [eval_rowPoly, tensorSum_row _ _ rows o m ho (by simp [hd, hm])
    (fun a => eval t (Lagrange.basis (range (st.grids.getD m []).length) (nodeFn (st.grids.getD m [])) a))]
  · congr 1
    apply List.map_congr_left
    intro jr hjr
    rw [coefEx_factorTable st x (x.set m t) kind kind m jr.1 (by simp) hd (List.of_mem_zip hjr).1
      (fun d hdm => getD_set_ne x m d t hdm) (fun _ _ => rfl)]
  · intro a ha
    rw [size_m st x m hd hm] at ha
    rw [factorTable_entry st (x.set m t) kind m a (by simpa using hm) ha]
    unfold entry
    rw [hk, getD_set_eq x m t hm]
    exact basis_eq_eval _ _ hg.nodup hg.len c hc hw t a ha

/-- the table with a first-derivative factor in dimension `m` evaluates the derivative of the slice polynomial -/
theorem slice_deriv (kind : ℕ → ℕ) (_hk : kind m = 0) :
    (tensorSum (factorTable 0 st x (Function.update kind m 1)) (st.grids.map List.length) rows).getD o 0 =
      eval (x.getD m 0) (derivative (slicePoly st x m rows o kind)) := by
  obtain ⟨c, hc, hw⟩ := hg.wt
  unfold slicePoly
  rw [derivative_rowPoly, eval_rowPoly, tensorSum_row _ _ rows o m ho (by simp [hd, hm])
    (fun a => eval (x.getD m 0)
      (derivative (Lagrange.basis (range (st.grids.getD m []).length) (nodeFn (st.grids.getD m [])) a)))]
  · congr 1
    apply List.map_congr_left
    intro jr hjr
    rw [coefEx_factorTable st x x kind (Function.update kind m 1) m jr.1 rfl hd (List.of_mem_zip hjr).1
      (fun _ _ => rfl) (fun d hdm => Function.update_of_ne hdm _ _)]
  · intro a ha
    rw [size_m st x m hd hm] at ha
    rw [factorTable_entry st x _ m a hm ha]
    unfold entry
    rw [Function.update_self]
    exact dBasis_eq_eval _ _ hg.nodup hg.len c hc hw _ a ha

/-- … and with a second-derivative factor, the second derivative -/
theorem slice_deriv2 (kind : ℕ → ℕ) (_hk : kind m = 0) :
    (tensorSum (factorTable 0 st x (Function.update kind m 2)) (st.grids.map List.length) rows).getD o 0 =
      eval (x.getD m 0) (derivative (derivative (slicePoly st x m rows o kind))) := by
  obtain ⟨c, hc, hw⟩ := hg.wt
  unfold slicePoly
  rw [derivative_rowPoly, derivative_rowPoly, eval_rowPoly, tensorSum_row _ _ rows o m ho (by simp [hd, hm])
    (fun a => eval (x.getD m 0) (derivative
      (derivative (Lagrange.basis (range (st.grids.getD m []).length) (nodeFn (st.grids.getD m [])) a))))]
  · congr 1
    apply List.map_congr_left
    intro jr hjr
    rw [coefEx_factorTable st x x kind (Function.update kind m 2) m jr.1 rfl hd (List.of_mem_zip hjr).1
      (fun _ _ => rfl) (fun d hdm => Function.update_of_ne hdm _ _)]
  · intro a ha
    rw [size_m st x m hd hm] at ha
    rw [factorTable_entry st x _ m a hm ha]
    unfold entry
    rw [Function.update_self]
    exact d2Basis_eq_eval _ _ hg.nodup hg.len c hc hw _ a ha

end


/-! ### `predictT` / `gradT` / `hessT` -/

section
variable (st : LState) (x : List Q) (hd : st.grids.length = x.length)
  (rows : List (List Q)) (o : ℕ) (ho : o < (rows.head?.map List.length).getD 0)
include hd ho

/-- **the reported gradient and diagonal Hessian entry are the derivatives of the polynomial the prediction evaluates**:
    with every coordinate but `x_m` frozen there is an explicit polynomial `P` with `predict(x[m:=t]) = P(t)` for all `t`,
    `gradient_m(x) = P'(x_m)` and `hessian_mm(x) = P''(x_m)` — at nodes, near nodes and in the interior alike. -/
theorem grad_hess_are_derivatives (m : ℕ) (hm : m < x.length)
    (hg : GoodDim (st.grids.getD m []) (st.wts.getD m [])) :
    (∀ t, (predictT 0 st rows (x.set m t)).getD o 0 = eval t (slicePoly st x m rows o fun _ => 0)) ∧
    (gradT 0 st rows x m).getD o 0 = eval (x.getD m 0) (derivative (slicePoly st x m rows o fun _ => 0)) ∧
    (hessT 0 st rows x m m).getD o 0 =
      eval (x.getD m 0) (derivative (derivative (slicePoly st x m rows o fun _ => 0))) := by
  refine ⟨fun t => ?_, ?_, ?_⟩
  · exact slice_value st x m hd hm hg rows o ho (fun _ => 0) rfl t
  · have := slice_deriv st x m hd hm hg rows o ho (fun _ => 0) rfl
    unfold gradT
    have hk : (fun d => if d = m then 1 else 0) = Function.update (fun _ : ℕ => 0) m 1 := by
      funext d; by_cases h : d = m <;> simp [h, Function.update]
    rw [hk]; exact this
  · have := slice_deriv2 st x m hd hm hg rows o ho (fun _ => 0) rfl
    unfold hessT
    have hk : (fun d => if m = m then (if d = m then 2 else 0) else (if d = m ∨ d = m then 1 else 0)) =
        Function.update (fun _ : ℕ => 0) m 2 := by
      funext d; by_cases h : d = m <;> simp [h, Function.update]
    rw [hk]; exact this

/-- **cross terms**: the reported Hessian entry `(m,n)`, `m ≠ n`, is the derivative in `x_n` of the polynomial whose value
    is the reported gradient entry `m` -/
theorem hess_cross_is_derivative (m n : ℕ) (hmn : m ≠ n) (hn : n < x.length)
    (hg : GoodDim (st.grids.getD n []) (st.wts.getD n [])) :
    (∀ t, (gradT 0 st rows (x.set n t) m).getD o 0 =
      eval t (slicePoly st x n rows o fun d => if d = m then 1 else 0)) ∧
    (hessT 0 st rows x m n).getD o 0 =
      eval (x.getD n 0) (derivative (slicePoly st x n rows o fun d => if d = m then 1 else 0)) := by
  have hk0 : (fun d => if d = m then 1 else 0) n = 0 := by simp [Ne.symm hmn]
  refine ⟨fun t => ?_, ?_⟩
  · exact slice_value st x n hd hn hg rows o ho (fun d => if d = m then 1 else 0) hk0 t
  · have := slice_deriv st x n hd hn hg rows o ho (fun d => if d = m then 1 else 0) hk0
    unfold hessT
    have hk : (fun d => if m = n then (if d = m then 2 else 0) else (if d = m ∨ d = n then 1 else 0)) =
        Function.update (fun d : ℕ => if d = m then 1 else 0) n 1 := by
      funext d
      by_cases h1 : d = n
      · subst h1; simp [hmn, Function.update]
      · by_cases h2 : d = m <;> simp [h1, h2, hmn, Function.update]
    rw [hk]; exact this

end


/-! ### the prediction of one tensor term is the tensor-product Lagrange interpolant of its data (C05) -/

/-- product of the Lagrange basis polynomials of a tensor node, evaluated at `x` -/
noncomputable def lagCoef (st : LState) (x : List Q) (j : List ℕ) : Q :=
  ((List.range j.length).map fun d =>
    eval (x.getD d 0) (Lagrange.basis (range (st.grids.getD d []).length) (nodeFn (st.grids.getD d [])) (j.getD d 0))).prod

theorem predictT_is_lagrange_interpolant (st : LState) (x : List Q) (hd : st.grids.length = x.length)
    (hgood : ∀ k, k < x.length → GoodDim (st.grids.getD k []) (st.wts.getD k []))
    (rows : List (List Q)) (o : ℕ) (ho : o < (rows.head?.map List.length).getD 0) :
    (predictT 0 st rows x).getD o 0 =
      (((prodIdx (st.grids.map List.length)).zip rows).map fun jr => lagCoef st x jr.1 * jr.2.getD o 0).sum := by
  unfold predictT
  rw [tensorSum_getD _ _ rows o ho]
  congr 1
  apply List.map_congr_left
  intro jr hjr
  obtain ⟨hl, hb⟩ := mem_prodIdx _ jr.1 (List.of_mem_zip hjr).1
  simp only [List.length_map] at hl hb
  congr 1
  unfold coefOf lagCoef
  congr 1
  apply List.map_congr_left
  intro k hk
  rw [List.mem_range] at hk
  have hkx : k < x.length := by omega
  have ha : jr.1.getD k 0 < (st.grids.getD k []).length := by
    have := hb k (by omega)
    simpa [List.getD_eq_getElem?_getD, List.getElem?_eq_getElem (show k < st.grids.length by omega)] using this
  rw [factorTable_entry st x _ k _ hkx ha]
  obtain ⟨c, hc, hw⟩ := (hgood k hkx).wt
  exact basis_eq_eval _ _ (hgood k hkx).nodup (hgood k hkx).len c hc hw _ _ ha


theorem sum_zip_single {α : Type} [DecidableEq α] : ∀ (L : List α) (R : List (List Q)) (g : List Q → Q) (k : ℕ)
    (hk : k < L.length), L.Nodup → R.length = L.length →
    ((L.zip R).map fun jr => if jr.1 = L[k] then g jr.2 else 0).sum = g (R.getD k [])
  | [], _, _, k, hk, _, _ => by simp at hk
  | a :: L, [], _, _, _, _, hR => by simp at hR
  | a :: L, r :: R, g, 0, _, hnd, _ => by
      have hna : ∀ jr ∈ L.zip R, jr.1 ≠ a := by
        intro jr hjr e
        exact (List.nodup_cons.mp hnd).1 (e ▸ (List.of_mem_zip hjr).1)
      simp only [List.zip_cons_cons, List.map_cons, List.sum_cons, List.getElem_cons_zero, if_true, List.getD_cons_zero]
      have : ((L.zip R).map fun jr => if jr.1 = a then g jr.2 else 0) = (L.zip R).map fun _ => (0 : Q) :=
        List.map_congr_left fun jr hjr => if_neg (hna jr hjr)
      rw [this]; simp
  | a :: L, r :: R, g, k + 1, hk, hnd, hR => by
      have hnd' := List.nodup_cons.mp hnd
      have hk' : k < L.length := by simpa using hk
      have hne : a ≠ L[k] := fun e => hnd'.1 (e ▸ List.getElem_mem hk')
      simp only [List.zip_cons_cons, List.map_cons, List.sum_cons, List.getElem_cons_succ, List.getD_cons_succ, if_neg hne,
        zero_add]
      exact sum_zip_single L R g k hk' hnd'.2 (by simpa using hR)

/-- at a grid point the product of basis values is the indicator of that node -/
theorem lagCoef_at_node (st : LState) (x : List Q) (hd : st.grids.length = x.length)
    (hgood : ∀ k, k < x.length → GoodDim (st.grids.getD k []) (st.wts.getD k []))
    (j js : List ℕ) (hj : j ∈ prodIdx (st.grids.map List.length)) (hjs : js ∈ prodIdx (st.grids.map List.length))
    (hx : ∀ k, k < x.length → x.getD k 0 = nodeFn (st.grids.getD k []) (js.getD k 0)) :
    lagCoef st x j = if j = js then 1 else 0 := by
  obtain ⟨hl, hb⟩ := mem_prodIdx _ j hj
  obtain ⟨hls, hbs⟩ := mem_prodIdx _ js hjs
  simp only [List.length_map] at hl hb hls hbs
  have hsz : ∀ k, k < x.length → ∀ (i : List ℕ), i.getD k 0 < (st.grids.map List.length).getD k 0 →
      i.getD k 0 < (st.grids.getD k []).length := by
    intro k hk i h
    simpa [List.getD_eq_getElem?_getD, List.getElem?_eq_getElem (show k < st.grids.length by omega)] using h
  unfold lagCoef
  by_cases hjj : j = js
  · subst hjj
    rw [if_pos rfl]
    apply List.prod_eq_one
    intro v hv
    rw [List.mem_map] at hv
    obtain ⟨k, hk, rfl⟩ := hv
    rw [List.mem_range] at hk
    have hkx : k < x.length := by omega
    rw [hx k hkx]
    exact eval_basis_self (injOn_nodeFn (hgood k hkx).nodup) (mem_range.mpr (hsz k hkx j (hb k (by omega))))
  · rw [if_neg hjj]
    -- some coordinate differs
    have : ∃ k, k < j.length ∧ j.getD k 0 ≠ js.getD k 0 := by
      apply Classical.byContradiction
      intro hne
      apply hjj
      apply List.ext_getElem (by omega)
      intro k h1 h2
      have := Classical.not_not.mp (fun h => hne ⟨k, h1, h⟩)
      simpa [List.getD_eq_getElem?_getD, List.getElem?_eq_getElem h1, List.getElem?_eq_getElem h2] using this
    obtain ⟨k, hk, hne⟩ := this
    have hkx : k < x.length := by omega
    apply List.prod_eq_zero
    rw [List.mem_map]
    refine ⟨k, List.mem_range.mpr hk, ?_⟩
    rw [hx k hkx]
    exact eval_basis_of_ne hne (mem_range.mpr (hsz k hkx js (hbs k (by omega))))

/-- **each term reproduces its training data**: at the grid point of tensor node number `n` the prediction is the `n`-th data
    row -/
theorem predictT_at_node (st : LState) (x : List Q) (hd : st.grids.length = x.length)
    (hgood : ∀ k, k < x.length → GoodDim (st.grids.getD k []) (st.wts.getD k []))
    (rows : List (List Q)) (o : ℕ) (ho : o < (rows.head?.map List.length).getD 0)
    (hrows : rows.length = (prodIdx (st.grids.map List.length)).length)
    (n : ℕ) (hn : n < (prodIdx (st.grids.map List.length)).length)
    (hx : ∀ k, k < x.length →
      x.getD k 0 = nodeFn (st.grids.getD k []) (((prodIdx (st.grids.map List.length))[n]).getD k 0)) :
    (predictT 0 st rows x).getD o 0 = (rows.getD n []).getD o 0 := by
  rw [predictT_is_lagrange_interpolant st x hd hgood rows o ho]
  have hmem := List.getElem_mem hn
  rw [← sum_zip_single (prodIdx (st.grids.map List.length)) rows (fun r => r.getD o 0) n hn (Amisc.prodIdx_nodup _) hrows]
  congr 1
  apply List.map_congr_left
  intro jr hjr
  rw [lagCoef_at_node st x hd hgood jr.1 _ (List.of_mem_zip hjr).1 hmem hx]
  by_cases h : jr.1 = (prodIdx (st.grids.map List.length))[n] <;> simp [h]


/-- **the prediction of one term is linear in its data**: if every data entry of `rows` is `a·rows₁ + b·rows₂` then so is
    every predicted output -/
theorem tensorSum_lincomb (table : List (List Q)) (sizes : List ℕ) (rows r1 r2 : List (List Q)) (a b : Q) (o : ℕ)
    (ho : o < (rows.head?.map List.length).getD 0) (ho1 : o < (r1.head?.map List.length).getD 0)
    (ho2 : o < (r2.head?.map List.length).getD 0)
    (hl1 : r1.length = rows.length) (hl2 : r2.length = rows.length)
    (h : ∀ n, n < rows.length → (rows.getD n []).getD o 0 = a * (r1.getD n []).getD o 0 + b * (r2.getD n []).getD o 0) :
    (tensorSum table sizes rows).getD o 0 =
      a * (tensorSum table sizes r1).getD o 0 + b * (tensorSum table sizes r2).getD o 0 := by
  rw [tensorSum_getD _ _ rows o ho, tensorSum_getD _ _ r1 o ho1, tensorSum_getD _ _ r2 o ho2]
  -- a sum over `zip L R` as a sum over positions
  have key : ∀ (R : List (List Q)), (((prodIdx sizes).zip R).map fun jr => coefOf table jr.1 * jr.2.getD o 0) =
      (List.range (min (prodIdx sizes).length R.length)).map fun n =>
        coefOf table ((prodIdx sizes).getD n []) * (R.getD n []).getD o 0 := by
    intro R
    apply List.ext_getElem
    · simp
    · intro n h1 h2
      have hn : n < min (prodIdx sizes).length R.length := by simpa using h2
      have hnL : n < (prodIdx sizes).length := by omega
      have hnR : n < R.length := by omega
      simp [List.getD_eq_getElem?_getD, List.getElem?_eq_getElem hnL, List.getElem?_eq_getElem hnR]
  rw [key rows, key r1, key r2, hl1, hl2, ← sum_map_mul_left, ← sum_map_mul_left]
  have hadd : ∀ (L : List ℕ) (f g : ℕ → Q), (L.map fun n => f n + g n).sum = (L.map f).sum + (L.map g).sum := by
    intro L f g
    induction L with
    | nil => simp
    | cons x L ih => simp only [List.map_cons, List.sum_cons, ih]; ring
  rw [← hadd]
  congr 1
  apply List.map_congr_left
  intro n hn
  rw [List.mem_range] at hn
  rw [h n (by omega)]
  ring

end Amisc.TD
