/-
  Second derivatives of the Lagrange basis polynomials in barycentric form — the formulas coded in `Lagrange.hessian`
  (diagonal terms): off the nodes, at another node, at the own node.
-/
import AmiscProofs.BaryDeriv

open Polynomial Finset Lagrange

namespace Amisc.Bary

variable {F : Type*} [Field F] {ι : Type*} [DecidableEq ι]
variable {s : Finset ι} {v : ι → F}

/-- differentiating `ℓ_j · (X - x_j) = w_j · nodal` twice: `ℓ_j''(x)(x - x_j) + 2 ℓ_j'(x) = w_j nodal''(x)` -/
theorem basis_second_identity (j : ι) (hj : j ∈ s) (x : F) :
    eval x (derivative (derivative (Lagrange.basis s v j))) * (x - v j) +
      2 * eval x (derivative (Lagrange.basis s v j)) =
      nodalWeight s v j * eval x (derivative (derivative (nodal s v))) := by
  have hid := congrArg (fun p => eval x (derivative (derivative p))) (basis_mul_X_sub (s := s) (v := v) j hj)
  simp only [derivative_mul, derivative_sub, derivative_X, derivative_C, sub_zero, mul_one, eval_add, eval_mul,
    eval_sub, eval_X, eval_C, zero_mul, zero_add, derivative_add] at hid
  linear_combination hid

/-- `2·N³·Σ w_k/(x-x_k)³ = 2·N'² − N·N''` -/
theorem S3_eq (hvs : Set.InjOn v s) (hs : s.Nonempty) {x : F} (hx : ∀ i ∈ s, x ≠ v i) :
    2 * (eval x (nodal s v)) ^ 3 * (∑ i ∈ s, nodalWeight s v i * ((x - v i)⁻¹) ^ 3) =
      2 * (eval x (derivative (nodal s v))) ^ 2 -
        eval x (nodal s v) * eval x (derivative (derivative (nodal s v))) := by
  set N := nodal s v with hN
  have hNx : eval x N ≠ 0 := eval_nodal_not_at_node hx
  -- q = (N - N(x)) / (X - x)
  set p : F[X] := N - C (eval x N) with hp
  have hroot : IsRoot p x := by simp [hp, IsRoot]
  set q := p /ₘ (X - C x) with hq
  have hmul : (X - C x) * q = p := mul_divByMonic_eq_iff_isRoot.mpr hroot
  have hqx : eval x q = eval x (derivative N) := by
    have := congrArg (fun r => eval x (derivative r)) hmul
    simp only [derivative_mul, derivative_sub, derivative_X, derivative_C, sub_zero, one_mul, eval_add,
      eval_mul, eval_sub, eval_X, eval_C, sub_self, zero_mul, add_zero, hp] at this
    exact this
  have hqv : ∀ i ∈ s, eval (v i) q * (x - v i) = eval x N := by
    intro i hi
    have h1 := congrArg (eval (v i)) hmul
    simp only [eval_mul, eval_sub, eval_X, eval_C, hp, hN, eval_nodal_at_node hi, zero_sub] at h1
    linear_combination (-1 : F) * h1
  have hpdeg : p.degree = #s := by
    rw [hp, degree_sub_C (by rw [hN, degree_nodal]; exact_mod_cast hs.card_pos), hN, degree_nodal]
  have hp0 : p ≠ 0 := by intro h; rw [h, degree_zero] at hpdeg; exact absurd hpdeg (by simp)
  have hqdeg : q.degree < #s := by
    calc q.degree < p.degree := degree_divByMonic_lt p (X - C x) hp0 (by rw [degree_X_sub_C]; exact zero_lt_one)
      _ = #s := hpdeg
  -- q2 = (q - q(x)) / (X - x)
  set p2 : F[X] := q - C (eval x q) with hp2
  have hroot2 : IsRoot p2 x := by simp [hp2, IsRoot]
  set q2 := p2 /ₘ (X - C x) with hq2
  have hmul2 : (X - C x) * q2 = p2 := mul_divByMonic_eq_iff_isRoot.mpr hroot2
  -- 2 q2(x) = N''(x)
  have hq2x : 2 * eval x q2 = eval x (derivative (derivative N)) := by
    have hN' : N = C (eval x N) + (X - C x) * (C (eval x q) + (X - C x) * q2) := by
      rw [hmul2, hp2]
      have : C (eval x q) + (q - C (eval x q)) = q := by ring
      rw [this, hmul, hp]; ring
    have := congrArg (fun r => eval x (derivative (derivative r))) hN'
    simp only [derivative_mul, derivative_sub, derivative_X, derivative_C, sub_zero, one_mul, eval_add,
      eval_mul, eval_sub, eval_X, eval_C, sub_self, zero_mul, add_zero, derivative_add, zero_add, derivative_one,
      mul_zero] at this
    linear_combination -this
  have hq2v : ∀ i ∈ s, eval (v i) q2 * (x - v i) = eval x (derivative N) - eval (v i) q := by
    intro i hi
    have h1 := congrArg (eval (v i)) hmul2
    simp only [eval_mul, eval_sub, eval_X, eval_C, hp2, hqx] at h1
    linear_combination (-1 : F) * h1
  have hq2deg : q2.degree < #s := by
    by_cases hp20 : p2 = 0
    · have : q2 = 0 := by rw [hq2, hp20, zero_divByMonic]
      rw [this, degree_zero]; exact WithBot.bot_lt_coe _
    · have h0 : ((0 : ℕ) : WithBot ℕ) ≤ (#s : WithBot ℕ) := by exact_mod_cast Nat.zero_le _
      calc q2.degree < p2.degree := degree_divByMonic_lt p2 (X - C x) hp20 (by rw [degree_X_sub_C]; exact zero_lt_one)
        _ ≤ max q.degree (C (eval x q)).degree := by rw [hp2]; exact degree_sub_le _ _
        _ ≤ #s := max_le (le_of_lt hqdeg) (le_trans degree_C_le h0)
  have hb := eval_eq_bary hvs hq2deg hx
  -- substitute q2(v i)
  have hsum : (∑ i ∈ s, nodalWeight s v i * (x - v i)⁻¹ * eval (v i) q2) =
      eval x (derivative N) * (∑ i ∈ s, nodalWeight s v i * ((x - v i)⁻¹) ^ 2) -
        eval x N * (∑ i ∈ s, nodalWeight s v i * ((x - v i)⁻¹) ^ 3) := by
    rw [Finset.mul_sum, Finset.mul_sum, ← Finset.sum_sub_distrib]
    refine Finset.sum_congr rfl fun i hi => ?_
    have hne : x - v i ≠ 0 := sub_ne_zero_of_ne (hx i hi)
    have e1 : eval (v i) q = eval x N * (x - v i)⁻¹ := by
      rw [eq_mul_inv_iff_mul_eq₀ hne]; exact hqv i hi
    have e2 : eval (v i) q2 = (eval x (derivative N) - eval (v i) q) * (x - v i)⁻¹ := by
      rw [eq_mul_inv_iff_mul_eq₀ hne]; exact hq2v i hi
    rw [e2, e1]; ring
  rw [hsum, S2_eq hvs hs hx, ← hN] at hb
  have hb' : eval x q2 * eval x N = (eval x (derivative N)) ^ 2 -
      (eval x N) ^ 3 * (∑ i ∈ s, nodalWeight s v i * ((x - v i)⁻¹) ^ 3) := by
    rw [hb]; field_simp
  linear_combination (2 : F) * hb' - eval x N * hq2x


/-- second derivative off the nodes, in the shape `Lagrange.hessian` computes it:
    `front·(first + second)` with `front = w_j/(S·d)`, `first = −S''/S + 2(S'/S)²`, `second = 2S'/(S·d) + 2/d²`,
    `S = Σ w/(x−x_k)`, `S' = −Σ w/(x−x_k)²`, `S'' = 2Σ w/(x−x_k)³`, `d = x − x_j` -/
theorem d2Basis_offnode (hvs : Set.InjOn v s) (j : ι) (hj : j ∈ s) {x c : F} (hc : c ≠ 0)
    (hx : ∀ i ∈ s, x ≠ v i) :
    let S := ∑ i ∈ s, c * nodalWeight s v i * (x - v i)⁻¹
    let qp := - ∑ i ∈ s, c * nodalWeight s v i * ((x - v i)⁻¹) ^ 2
    let qpp := 2 * ∑ i ∈ s, c * nodalWeight s v i * ((x - v i)⁻¹) ^ 3
    (c * nodalWeight s v j / (S * (x - v j))) *
        ((- qpp / S + 2 * ((qp / S) * (qp / S))) + (2 * (qp / (S * (x - v j))) + 2 / ((x - v j) * (x - v j)))) =
      eval x (derivative (derivative (Lagrange.basis s v j))) := by
  intro S qp qpp
  have hs : s.Nonempty := ⟨j, hj⟩
  have hN : eval x (nodal s v) ≠ 0 := eval_nodal_not_at_node hx
  have hd : x - v j ≠ 0 := sub_ne_zero_of_ne (hx j hj)
  have hS : S = c * (eval x (nodal s v))⁻¹ := by
    show (∑ i ∈ s, c * nodalWeight s v i * (x - v i)⁻¹) = _
    rw [← S1_eq hvs hs hx, Finset.mul_sum]
    exact Finset.sum_congr rfl fun i _ => by ring
  have hqp : qp = - (c * (eval x (derivative (nodal s v)) / (eval x (nodal s v)) ^ 2)) := by
    show - (∑ i ∈ s, c * nodalWeight s v i * ((x - v i)⁻¹) ^ 2) = _
    rw [← S2_eq hvs hs hx, Finset.mul_sum]
    congr 1
    exact Finset.sum_congr rfl fun i _ => by ring
  have hqpp : qpp = 2 * (c * ∑ i ∈ s, nodalWeight s v i * ((x - v i)⁻¹) ^ 3) := by
    show 2 * (∑ i ∈ s, c * nodalWeight s v i * ((x - v i)⁻¹) ^ 3) = _
    congr 1
    rw [Finset.mul_sum]
    exact Finset.sum_congr rfl fun i _ => by ring
  have h3 := S3_eq hvs hs hx
  set T := ∑ i ∈ s, nodalWeight s v i * ((x - v i)⁻¹) ^ 3 with hT
  -- first = N''/N
  have hfirst : - qpp / S + 2 * ((qp / S) * (qp / S)) =
      eval x (derivative (derivative (nodal s v))) / eval x (nodal s v) := by
    rw [hqpp, hqp, hS]
    field_simp
    linear_combination (-1 : F) * h3
  -- ℓ' and ℓ''
  have hB : eval x (Lagrange.basis s v j) = eval x (nodal s v) * (nodalWeight s v j * (x - v j)⁻¹) :=
    eval_basis_not_at_node hj (hx j hj)
  have hid1 := congrArg (fun p => eval x (derivative p)) (basis_mul_X_sub (s := s) (v := v) j hj)
  simp only [derivative_mul, derivative_sub, derivative_X, derivative_C, sub_zero, mul_one, eval_add, eval_mul,
    eval_sub, eval_X, eval_C, zero_mul, zero_add] at hid1
  rw [hB] at hid1
  have hid2 := basis_second_identity (s := s) (v := v) j hj x
  have key : eval x (derivative (derivative (Lagrange.basis s v j))) =
      (nodalWeight s v j * eval x (derivative (derivative (nodal s v))) -
        2 * ((nodalWeight s v j * eval x (derivative (nodal s v)) -
          eval x (nodal s v) * (nodalWeight s v j * (x - v j)⁻¹)) / (x - v j))) / (x - v j) := by
    rw [eq_div_iff hd]
    have : eval x (derivative (Lagrange.basis s v j)) =
        (nodalWeight s v j * eval x (derivative (nodal s v)) -
          eval x (nodal s v) * (nodalWeight s v j * (x - v j)⁻¹)) / (x - v j) := by
      rw [eq_div_iff hd]; linear_combination hid1
    rw [← this]
    linear_combination hid2
  rw [hfirst, key, hqp, hS]
  field_simp
  ring


/-- second derivative at another node `i ≠ j`:
    `(−2·(w_j/w_i)/(x_i−x_j))·(Σ_{p≠i} (w_p/w_i)/(x_i−x_p) + 1/(x_i−x_j))` -/
theorem d2Basis_at_other_node (hvs : Set.InjOn v s) (i j : ι) (hi : i ∈ s) (hj : j ∈ s) (hij : i ≠ j) {c : F}
    (hc : c ≠ 0) :
    (-2 * (c * nodalWeight s v j / (c * nodalWeight s v i)) / (v i - v j)) *
        ((∑ p ∈ s.erase i, (c * nodalWeight s v p / (c * nodalWeight s v i)) / (v i - v p)) + 1 / (v i - v j)) =
      eval (v i) (derivative (derivative (Lagrange.basis s v j))) := by
  have hd : v i - v j ≠ 0 := sub_ne_zero_of_ne (fun e => hij (hvs hi hj e))
  have hwi : nodalWeight s v i ≠ 0 := nodalWeight_ne_zero hvs hi
  have h1 := dBasis_at_other_node hvs i j hi hj hij hc
  have h2 := dBasis_at_own_node hvs i hi hc
  have hidj := basis_second_identity (s := s) (v := v) j hj (v i)
  have hidi := basis_second_identity (s := s) (v := v) i hi (v i)
  rw [sub_self, mul_zero, zero_add] at hidi
  set sI := ∑ p ∈ s.erase i, (c * nodalWeight s v p / (c * nodalWeight s v i)) / (v i - v p) with hsI
  rw [← h2] at hidi
  rw [← h1] at hidj
  -- N''(x_i) = -2 sI / w_i
  have hN2 : eval (v i) (derivative (derivative (nodal s v))) = -2 * sI / nodalWeight s v i := by
    rw [eq_div_iff hwi]; linear_combination -hidi
  rw [hN2] at hidj
  have key : eval (v i) (derivative (derivative (Lagrange.basis s v j))) =
      (nodalWeight s v j * (-2 * sI / nodalWeight s v i) -
        2 * (c * nodalWeight s v j / (c * nodalWeight s v i) / (v i - v j))) / (v i - v j) := by
    rw [eq_div_iff hd]; linear_combination hidj
  rw [key]
  field_simp
  ring

/-- the second derivatives of all basis polynomials sum to zero -/
theorem sum_d2Basis_eq_zero (hvs : Set.InjOn v s) (hs : s.Nonempty) (x : F) :
    ∑ p ∈ s, eval x (derivative (derivative (Lagrange.basis s v p))) = 0 := by
  have h := congrArg (fun q => eval x (derivative (derivative q))) (sum_basis hvs hs)
  simpa [derivative_sum, eval_finsetSum] using h

/-- second derivative at the own node: `2·s₁² + 2·s₂`, `s₁ = Σ_{p≠j} (w_p/w_j)/(x_j−x_p)`, `s₂ = Σ_{p≠j} (w_p/w_j)/(x_j−x_p)²` -/
theorem d2Basis_at_own_node (hvs : Set.InjOn v s) (j : ι) (hj : j ∈ s) {c : F} (hc : c ≠ 0) :
    2 * ((∑ p ∈ s.erase j, (c * nodalWeight s v p / (c * nodalWeight s v j)) / (v j - v p)) *
         (∑ p ∈ s.erase j, (c * nodalWeight s v p / (c * nodalWeight s v j)) / (v j - v p))) +
      2 * (∑ p ∈ s.erase j, (c * nodalWeight s v p / (c * nodalWeight s v j)) / ((v j - v p) * (v j - v p))) =
      eval (v j) (derivative (derivative (Lagrange.basis s v j))) := by
  have hs : s.Nonempty := ⟨j, hj⟩
  have h0 := sum_d2Basis_eq_zero hvs hs (v j)
  rw [← Finset.add_sum_erase _ _ hj] at h0
  set s1 := ∑ p ∈ s.erase j, (c * nodalWeight s v p / (c * nodalWeight s v j)) / (v j - v p) with hs1
  have hsum : ∑ p ∈ s.erase j, eval (v j) (derivative (derivative (Lagrange.basis s v p))) =
      ∑ p ∈ s.erase j, ((-2 * s1) * ((c * nodalWeight s v p / (c * nodalWeight s v j)) / (v j - v p)) +
        (-2) * ((c * nodalWeight s v p / (c * nodalWeight s v j)) / ((v j - v p) * (v j - v p)))) := by
    refine Finset.sum_congr rfl fun p hp => ?_
    obtain ⟨hpj, hps⟩ := Finset.mem_erase.mp hp
    rw [← d2Basis_at_other_node hvs j p hj hps (fun e => hpj e.symm) hc]
    have hd : v j - v p ≠ 0 := sub_ne_zero_of_ne (fun e => hpj (hvs hps hj e.symm))
    rw [← hs1]
    field_simp
    ring
  rw [hsum, Finset.sum_add_distrib, ← Finset.mul_sum, ← Finset.mul_sum, ← hs1] at h0
  linear_combination -h0

end Amisc.Bary
