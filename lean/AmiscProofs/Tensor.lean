/-
  Tensor-product algebra of the list model: for product-form data the tensor sum of `Lagrange.predict` factorises into the
  product of the 1-d interpolation sums.
-/
import AmiscProofs.ListLagrange

open Polynomial Finset Lagrange

namespace Amisc.Tensor

open Amisc.LL

/-- coefficient of one tensor node (as in `tensorSum`) -/
def coefOf (table : List (List Q)) (j : List ℕ) : Q :=
  ((List.range j.length).map fun d => (table.getD d []).getD (j.getD d 0) 0).prod

/-- product-form data value at one tensor node -/
def dataOf (g : ℕ → ℕ → Q) (j : List ℕ) : Q :=
  ((List.range j.length).map fun k => g k (j.getD k 0)).prod

theorem coefOf_nil (table : List (List Q)) : coefOf table [] = 1 := by simp [coefOf]
theorem dataOf_nil (g : ℕ → ℕ → Q) : dataOf g [] = 1 := by simp [dataOf]

theorem coefOf_cons (table : List (List Q)) (a : ℕ) (j : List ℕ) :
    coefOf table (a :: j) = (table.getD 0 []).getD a 0 * coefOf (table.drop 1) j := by
  unfold coefOf
  rw [List.length_cons, List.range_succ_eq_map, List.map_cons, List.prod_cons, List.map_map]
  congr 1
  congr 1
  apply List.map_congr_left
  intro k _
  simp [List.getD_eq_getElem?_getD]

theorem dataOf_cons (g : ℕ → ℕ → Q) (a : ℕ) (j : List ℕ) :
    dataOf g (a :: j) = g 0 a * dataOf (fun k => g (k + 1)) j := by
  unfold dataOf
  rw [List.length_cons, List.range_succ_eq_map, List.map_cons, List.prod_cons, List.map_map]
  congr 1

theorem sum_flatMap {α β : Type} (l : List α) (f : α → List β) (h : β → Q) :
    ((l.flatMap f).map h).sum = (l.map fun a => ((f a).map h).sum).sum := by
  induction l with
  | nil => simp
  | cons a l ih => simp [List.flatMap_cons, ih]

theorem sum_map_mul_left {α : Type} (l : List α) (c : Q) (f : α → Q) :
    (l.map fun a => c * f a).sum = c * (l.map f).sum := by
  induction l with
  | nil => simp
  | cons a l ih => simp [ih, mul_add]

theorem sum_map_mul_right {α : Type} (l : List α) (c : Q) (f : α → Q) :
    (l.map fun a => f a * c).sum = (l.map f).sum * c := by
  induction l with
  | nil => simp
  | cons a l ih => simp [ih, add_mul]

/-- **factorisation**: Σ over all tensor nodes of (Π_d T[d][j_d]) · (Π_d g_d(j_d)) = Π_d Σ_a T[d][a] · g_d(a) -/
theorem tensor_factor : ∀ (sizes : List ℕ) (table : List (List Q)) (g : ℕ → ℕ → Q),
    ((prodIdx sizes).map fun j => coefOf table j * dataOf g j).sum =
      ((List.range sizes.length).map fun k =>
        ((List.range (sizes.getD k 0)).map fun a => (table.getD k []).getD a 0 * g k a).sum).prod
  | [], table, g => by simp [prodIdx, coefOf_nil, dataOf_nil]
  | n :: ns, table, g => by
      rw [prodIdx, sum_flatMap]
      simp only [List.map_map, Function.comp_def, coefOf_cons, dataOf_cons]
      have ih := tensor_factor ns (table.drop 1) (fun k => g (k + 1))
      have hin : ∀ a, ((prodIdx ns).map fun j =>
          (table.getD 0 []).getD a 0 * coefOf (table.drop 1) j * (g 0 a * dataOf (fun k => g (k + 1)) j)).sum =
          ((table.getD 0 []).getD a 0 * g 0 a) *
            ((prodIdx ns).map fun j => coefOf (table.drop 1) j * dataOf (fun k => g (k + 1)) j).sum := by
        intro a
        rw [← sum_map_mul_left]
        apply congrArg
        apply List.map_congr_left
        intro j _
        ring
      simp only [hin, ih]
      rw [sum_map_mul_right]
      rw [List.length_cons, List.range_succ_eq_map, List.map_cons, List.prod_cons, List.map_map]
      congr 1
      congr 1
      apply List.map_congr_left
      intro k _
      simp [List.getD_eq_getElem?_getD]


/-- single-output rows of product-form data, in tensor-node order -/
def prodRows (g : ℕ → ℕ → Q) (sizes : List ℕ) : List (List Q) := (prodIdx sizes).map fun j => [dataOf g j]

theorem prodIdx_ne_nil : ∀ (sizes : List ℕ), (∀ n ∈ sizes, 0 < n) → prodIdx sizes ≠ []
  | [], _ => by simp [prodIdx]
  | n :: ns, h => by
      have hn : 0 < n := h n (by simp)
      have ih := prodIdx_ne_nil ns (fun m hm => h m (by simp [hm]))
      obtain ⟨j, hj⟩ := List.exists_mem_of_ne_nil _ ih
      intro hnil
      have : (0 :: j) ∈ prodIdx (n :: ns) := by
        rw [prodIdx, List.mem_flatMap]
        exact ⟨0, List.mem_range.mpr hn, List.mem_map.mpr ⟨j, hj, rfl⟩⟩
      rw [hnil] at this
      exact List.not_mem_nil this

/-- `tensorSum` on product-form data is the product of the 1-d sums -/
theorem tensorSum_product (table : List (List Q)) (sizes : List ℕ) (g : ℕ → ℕ → Q) (hpos : ∀ n ∈ sizes, 0 < n) :
    tensorSum table sizes (prodRows g sizes) =
      [((List.range sizes.length).map fun k =>
        ((List.range (sizes.getD k 0)).map fun a => (table.getD k []).getD a 0 * g k a).sum).prod] := by
  have hne := prodIdx_ne_nil sizes hpos
  unfold tensorSum prodRows
  obtain ⟨j0, rest, hjr⟩ := List.exists_cons_of_ne_nil hne
  have hny : (((prodIdx sizes).map fun j => [dataOf g j]).head?.map List.length).getD 0 = 1 := by
    rw [hjr]; simp
  simp only [hny, List.range_one, List.map_cons, List.map_nil]
  congr 1
  rw [← tensor_factor sizes table g, qsum_eq_sum, List.zip_map', List.map_map]
  congr 1
  apply List.map_congr_left
  intro j _
  simp [coefOf, qprod_eq_prod]


/-- what `Lagrange.refine` guarantees for one dimension of an interpolator state: distinct nodes, one weight per node, and
    weights proportional to the nodal (barycentric) weights -/
structure GoodDim (grid ws : List Q) : Prop where
  nodup : grid.Nodup
  len : ws.length = grid.length
  pos : 0 < grid.length
  wt : ∃ c : Q, c ≠ 0 ∧ ∀ i, i < grid.length → ws.getD i 0 = c * nodalWeight (range grid.length) (nodeFn grid) i

/-- the 1-d interpolation sum of dimension `k` as the model computes it -/
def interp1 (st : LState) (x : List Q) (p : ℕ → ℚ[X]) (k : ℕ) : Q :=
  ∑ a ∈ range (st.grids.getD k []).length,
    basis 0 (x.getD k 0) (st.grids.getD k []) (st.wts.getD k []) a * eval (nodeFn (st.grids.getD k []) a) (p k)

theorem factorTable_getD (st : LState) (x : List Q) (k a : ℕ) (hk : k < x.length)
    (ha : a < (st.grids.getD k []).length) :
    ((factorTable 0 st x fun _ => 0).getD k []).getD a 0 =
      basis 0 (x.getD k 0) (st.grids.getD k []) (st.wts.getD k []) a := by
  unfold factorTable
  simp only [List.getD_eq_getElem?_getD, List.getElem?_map, List.getElem?_range hk, Option.map_some, Option.getD_some]
  have ha' : a < ((st.grids[k]?).getD []).length := by simpa [List.getD_eq_getElem?_getD] using ha
  simp [List.getElem?_range ha']

/-- **`Lagrange.predict` on product-form data** `y(node j) = Π_k p_k(node_k(j_k))`: the prediction is the product of the
    1-d interpolation sums (pure algebra, no exactness assumption) -/
theorem predictT_product (st : LState) (x : List Q) (p : ℕ → ℚ[X]) (hd : st.grids.length = x.length)
    (hpos : ∀ k, k < x.length → 0 < (st.grids.getD k []).length) :
    predictT 0 st (prodRows (fun k a => eval (nodeFn (st.grids.getD k []) a) (p k)) (st.grids.map List.length)) x =
      [((List.range x.length).map fun k => interp1 st x p k).prod] := by
  unfold predictT
  rw [tensorSum_product]
  · simp only [List.length_map, hd]
    congr 1; congr 1
    apply List.map_congr_left
    intro k hk
    rw [List.mem_range] at hk
    have hk' : k < st.grids.length := by omega
    have hsz : (st.grids.map List.length).getD k 0 = (st.grids.getD k []).length := by
      simp [List.getD_eq_getElem?_getD, List.getElem?_eq_getElem hk']
    rw [hsz, list_sum_range]
    unfold interp1
    apply Finset.sum_congr rfl
    intro a ha
    rw [factorTable_getD st x k a hk (mem_range.mp ha)]
  · intro n hn
    rw [List.mem_map] at hn
    obtain ⟨g, hg, rfl⟩ := hn
    obtain ⟨k, hk, rfl⟩ := List.getElem_of_mem hg
    have := hpos k (by omega)
    simpa [List.getD_eq_getElem?_getD, List.getElem?_eq_getElem hk] using this

/-- … and it reproduces the product polynomial when each factor's degree is below the number of nodes -/
theorem predictT_exact (st : LState) (x : List Q) (p : ℕ → ℚ[X]) (hd : st.grids.length = x.length)
    (hgood : ∀ k, k < x.length → GoodDim (st.grids.getD k []) (st.wts.getD k []))
    (hdeg : ∀ k, k < x.length → (p k).degree < (st.grids.getD k []).length) :
    predictT 0 st (prodRows (fun k a => eval (nodeFn (st.grids.getD k []) a) (p k)) (st.grids.map List.length)) x =
      [((List.range x.length).map fun k => eval (x.getD k 0) (p k)).prod] := by
  rw [predictT_product st x p hd (fun k hk => (hgood k hk).pos)]
  congr 1; congr 1
  apply List.map_congr_left
  intro k hk
  rw [List.mem_range] at hk
  obtain ⟨c, hc, hw⟩ := (hgood k hk).wt
  exact interp1_exact _ _ (hgood k hk).nodup (hgood k hk).len c hc hw (p k) (hdeg k hk) _


/-- the 1-d interpolation sum of dimension `k` for arbitrary product-form data `g k a` (value factor of node `a`) -/
def interp1g (st : LState) (x : List Q) (g : ℕ → ℕ → Q) (k : ℕ) : Q :=
  ∑ a ∈ range (st.grids.getD k []).length,
    basis 0 (x.getD k 0) (st.grids.getD k []) (st.wts.getD k []) a * g k a

/-- `Lagrange.predict` on ANY product-form data `y(node j) = Π_k g_k(j_k)` -/
theorem predictT_productg (st : LState) (x : List Q) (g : ℕ → ℕ → Q) (hd : st.grids.length = x.length)
    (hpos : ∀ k, k < x.length → 0 < (st.grids.getD k []).length) :
    predictT 0 st (prodRows g (st.grids.map List.length)) x =
      [((List.range x.length).map fun k => interp1g st x g k).prod] := by
  unfold predictT
  rw [tensorSum_product]
  · simp only [List.length_map, hd]
    congr 1; congr 1
    apply List.map_congr_left
    intro k hk
    rw [List.mem_range] at hk
    have hk' : k < st.grids.length := by omega
    have hsz : (st.grids.map List.length).getD k 0 = (st.grids.getD k []).length := by
      simp [List.getD_eq_getElem?_getD, List.getElem?_eq_getElem hk']
    rw [hsz, list_sum_range]
    unfold interp1g
    apply Finset.sum_congr rfl
    intro a ha
    rw [factorTable_getD st x k a hk (mem_range.mp ha)]
  · intro n hn
    rw [List.mem_map] at hn
    obtain ⟨gg, hg, rfl⟩ := hn
    obtain ⟨k, hk, rfl⟩ := List.getElem_of_mem hg
    have := hpos k (by omega)
    simpa [List.getD_eq_getElem?_getD, List.getElem?_eq_getElem hk] using this

/-- at a grid node the model's basis values are the node indicators (tolerance 0) -/
theorem basis_at_node (grid ws : List Q) (hg : GoodDim grid ws) (n a : ℕ) (hn : n < grid.length) (ha : a < grid.length) :
    basis 0 (nodeFn grid n) grid ws a = if a = n then 1 else 0 := by
  obtain ⟨c, hc, hw⟩ := hg.wt
  rw [basis_eq_eval grid ws hg.nodup hg.len c hc hw _ a ha]
  by_cases h : a = n
  · subst h; rw [if_pos rfl]; exact eval_basis_self (injOn_nodeFn hg.nodup) (mem_range.mpr ha)
  · rw [if_neg h]; exact eval_basis_of_ne h (mem_range.mpr hn)

end Amisc.Tensor
