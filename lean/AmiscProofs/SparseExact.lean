/-
  Exactness of the component surrogate (list model) on product-form polynomials of its sparse polynomial space:
  weights = inclusion–exclusion (C01)  ∘  tensor terms = products of 1-d Lagrange interpolants (C05)  ∘  combination identity.
-/
import AmiscProofs.Tensor
import AmiscProofs.SparseBridge

open Polynomial Finset Lagrange

namespace Amisc.SE

open Amisc.LL Amisc.Tensor Amisc.SB

/-- value at `x` of the Lagrange interpolant of `p` on a grid (Mathlib side, independent of any weight scaling) -/
noncomputable def lag (grid : List Q) (p : ℚ[X]) (x : Q) : Q :=
  ∑ a ∈ range grid.length, eval x (Lagrange.basis (range grid.length) (nodeFn grid) a) * eval (nodeFn grid a) p

theorem lag_exact (grid : List Q) (hnd : grid.Nodup) (p : ℚ[X]) (hp : p.degree < grid.length) (x : Q) :
    lag grid p x = eval x p := by
  have hinj := injOn_nodeFn hnd
  have hcard : p.degree < (range grid.length).card := by simpa using hp
  have := eq_interpolate hinj hcard
  conv_rhs => rw [this]
  rw [interpolate_apply, eval_finsetSum]
  unfold lag
  apply Finset.sum_congr rfl
  intro j _
  rw [eval_mul, eval_C, mul_comm]

/-- the model's 1-d interpolation sum is the Lagrange interpolant, whatever common factor the weights carry -/
theorem interp1_eq_lag (st : LState) (x : List Q) (p : ℕ → ℚ[X]) (k : ℕ)
    (hg : GoodDim (st.grids.getD k []) (st.wts.getD k [])) :
    interp1 st x p k = lag (st.grids.getD k []) (p k) (x.getD k 0) := by
  unfold interp1 lag
  obtain ⟨c, hc, hw⟩ := hg.wt
  apply Finset.sum_congr rfl
  intro a ha
  rw [basis_eq_eval _ _ hg.nodup hg.len c hc hw _ a (mem_range.mp ha)]

theorem list_prod_range_fin {d : ℕ} (f : ℕ → Q) : ((List.range d).map f).prod = ∏ k : Fin d, f k := by
  rw [list_prod_range, Fin.prod_univ_eq_prod_range]


/-- single-output weighted sum of `Component.predict`: with one value per term, `miscSum` is the weighted sum of the values -/
theorem miscSum_single (terms : List (Int × List Q)) (hlen : ∀ t ∈ terms, t.2.length = 1) :
    (miscSum terms).getD 0 0 = (terms.map fun t => (t.1 : Q) * t.2.getD 0 0).sum := by
  unfold miscSum
  have hsum : (terms.map fun t => (t.1 : Q) * t.2.getD 0 0).sum =
      ((terms.filter fun t => t.1 ≠ 0).map fun t => (t.1 : Q) * t.2.getD 0 0).sum := by
    induction terms with
    | nil => simp
    | cons t ts ih =>
        have ih' := ih (fun u hu => hlen u (by simp [hu]))
        by_cases ht : t.1 = 0
        · simp only [List.filter_cons, ht, ne_eq, not_true_eq_false, decide_false, Bool.false_eq_true, if_false,
            List.map_cons, List.sum_cons, Int.cast_zero, zero_mul, zero_add]
          exact ih'
        · simp only [List.filter_cons, ht, ne_eq, not_false_eq_true, decide_true, if_true, List.map_cons, List.sum_cons]
          rw [ih']
  rw [hsum]
  have hlen' : ∀ t ∈ terms.filter (fun t => t.1 ≠ 0), t.2.length = 1 := fun t ht => hlen t (List.mem_filter.mp ht).1
  generalize terms.filter (fun t => t.1 ≠ 0) = L at hlen'
  cases L with
  | nil => simp
  | cons t ts =>
      simp only
      have hfold : ∀ (ts : List (Int × List Q)) (acc : List Q), acc.length = 1 → (∀ u ∈ ts, u.2.length = 1) →
          (ts.foldl (fun acc u => List.zipWith (· + ·) acc (u.2.map fun v => (u.1 : Q) * v)) acc).getD 0 0 =
            acc.getD 0 0 + (ts.map fun u => (u.1 : Q) * u.2.getD 0 0).sum := by
        intro ts
        induction ts with
        | nil => intro acc _ _; simp
        | cons u us ih =>
            intro acc hacc hus
            rw [List.foldl_cons, ih _ (by simp [hacc, hus u (by simp)]) (fun w hw => hus w (by simp [hw]))]
            have hu := hus u (by simp)
            obtain ⟨a, rfl⟩ := List.length_eq_one_iff.mp hacc
            obtain ⟨b, hb⟩ := List.length_eq_one_iff.mp hu
            simp [hb]; ring
      rw [hfold ts _ (by simp [hlen' t (by simp)]) (fun u hu => hlen' u (by simp [hu]))]
      obtain ⟨b, hb⟩ := List.length_eq_one_iff.mp (hlen' t (by simp))
      simp [hb]



/-- the per-index interpolator states use NESTED grids: a multi-index is `alpha ++ beta` with `na` leading model-fidelity
    entries that the interpolator never looks at; level `n` of input dimension `k` is the first `gs n` nodes of one node
    sequence per dimension, and every dimension is in the state `Lagrange.refine` guarantees (`GoodDim`) -/
structure Nested (na d : ℕ) (nodes : ℕ → List Q) (gs : ℕ → ℕ) (st : Idx → LState) (S : List Idx) : Prop where
  dims : ∀ i ∈ S, (st i).grids.length = d
  grid : ∀ i ∈ S, ∀ k, k < d → (st i).grids.getD k [] = (nodes k).take (gs (Idx.nth i (na + k)))
  good : ∀ i ∈ S, ∀ k, k < d → GoodDim ((st i).grids.getD k []) ((st i).wts.getD k [])

/-- training data of a product-form model `f(x) = Π_k p_k(x_k)` on the tensor grid of a state (node order of the model) -/
noncomputable def rowsOf (st : LState) (p : ℕ → ℚ[X]) : List (List Q) :=
  prodRows (fun k a => eval (nodeFn (st.grids.getD k []) a) (p k)) (st.grids.map List.length)

/-- level-`n` interpolant of dimension `k` -/
noncomputable def uLvl (nodes : ℕ → List Q) (gs : ℕ → ℕ) (p : ℕ → ℚ[X]) (x : List Q) (k n : ℕ) : Q :=
  lag ((nodes k).take (gs n)) (p k) (x.getD k 0)

theorem term_value {na d : ℕ} {nodes : ℕ → List Q} {gs : ℕ → ℕ} {st : Idx → LState} {S : List Idx}
    (hN : Nested na d nodes gs st S) (p : ℕ → ℚ[X]) (x : List Q) (hx : x.length = d) (i : Idx) (hi : i ∈ S) :
    predictT 0 (st i) (rowsOf (st i) p) x = [∏ k : Fin d, uLvl nodes gs p x k (Idx.nth i (na + k))] := by
  unfold rowsOf
  rw [predictT_product (st i) x p (by rw [hN.dims i hi, hx]) (fun k hk => (hN.good i hi k (by omega)).pos), hx,
    list_prod_range_fin]
  congr 1
  apply Finset.prod_congr rfl
  intro k _
  rw [interp1_eq_lag (st i) x p k (hN.good i hi k k.2)]
  unfold uLvl
  rw [hN.grid i hi k k.2]

/-- the combination identity for the level interpolants of one product term; the `na` leading (model-fidelity) entries of the
    indices enter the weights but not the interpolants -/
theorem comb_uLvl {na d : ℕ} (S : List Idx) (hnd : S.Nodup) (hlen : ∀ s ∈ S, s.length = na + d)
    (hdown : ∀ s ∈ S, ∀ j, Idx.le j s = true → j ∈ S)
    (nodes : ℕ → List Q) (gs : ℕ → ℕ) (hgs : Monotone gs) (hnodes : ∀ k, k < d → (nodes k).Nodup)
    (p : ℕ → ℚ[X]) (l : Idx) (hl : l ∈ S) (hdeg : ∀ k, k < d → (p k).degree < gs (Idx.nth l (na + k)))
    (hlong : ∀ k, k < d → gs (Idx.nth l (na + k)) ≤ (nodes k).length) (x : List Q) :
    (S.map fun i => (IE S i : ℚ) * ∏ k : Fin d, uLvl nodes gs p x k (Idx.nth i (na + k))).sum =
      ∏ k : Fin d, eval (x.getD k 0) (p k) := by
  have hstable : ∀ k, k < d → ∀ m, Idx.nth l (na + k) ≤ m → uLvl nodes gs p x k m = eval (x.getD k 0) (p k) := by
    intro k hk m hm
    unfold uLvl
    apply lag_exact _ ((hnodes k hk).sublist (List.take_sublist _ _))
    have h1 : gs (Idx.nth l (na + k)) ≤ gs m := hgs hm
    have h2 := hlong k hk
    have hlen' : gs (Idx.nth l (na + k)) ≤ ((nodes k).take (gs m)).length := by
      rw [List.length_take]; omega
    exact lt_of_lt_of_le (hdeg k hk) (by exact_mod_cast hlen')
  -- operators over all `na + d` index entries: the first `na` are the constant 1
  let u' : ℕ → ℕ → ℚ := fun k n => if k < na then 1 else uLvl nodes gs p x (k - na) n
  have hsplit : ∀ i : Idx, ∏ k : Fin (na + d), u' k (Idx.nth i k) =
      ∏ k : Fin d, uLvl nodes gs p x k (Idx.nth i (na + k)) := by
    intro i
    rw [Fin.prod_univ_eq_prod_range (fun k => u' k (Idx.nth i k)) (na + d), Finset.prod_range_add,
      Fin.prod_univ_eq_prod_range (fun k => uLvl nodes gs p x k (Idx.nth i (na + k))) d]
    have h1 : ∏ k ∈ range na, u' k (Idx.nth i k) = 1 := by
      apply Finset.prod_eq_one
      intro k hk
      simp only [u', if_pos (mem_range.mp hk)]
    rw [h1, one_mul]
    apply Finset.prod_congr rfl
    intro k _
    simp only [u']
    rw [if_neg (by omega), Nat.add_sub_cancel_left]
  have hce := combination_exact_list (d := na + d) (R := ℚ) hnd hlen hdown u' l hl (by
    intro k hk m hm
    simp only [u']
    by_cases hka : k < na
    · simp [hka]
    · rw [if_neg hka, if_neg hka]
      have hk' : k - na < d := by omega
      have hm' : Idx.nth l (na + (k - na)) ≤ m := by rw [show na + (k - na) = k by omega]; exact hm
      rw [hstable (k - na) hk' m hm', hstable (k - na) hk' (Idx.nth l k) (by rw [show na + (k - na) = k by omega])])
  simp only [hsplit] at hce
  rw [hce]
  apply Finset.prod_congr rfl
  intro k _
  exact hstable k k.2 _ le_rfl

/-- **C03, product form**: for a duplicate-free downward-closed index set `S` with inclusion–exclusion weights, nested grids
    of `gs level` distinct nodes, and a product polynomial whose factor degrees are below the grid size of SOME member `l` of
    `S` in every dimension, the component surrogate (weighted sum of tensor-product barycentric interpolants of the model's
    values) equals the polynomial at EVERY point `x` — inside or outside the domain. -/
theorem misc_exact_product {na d : ℕ} (S : List Idx) (hnd : S.Nodup) (hlen : ∀ s ∈ S, s.length = na + d)
    (hdown : ∀ s ∈ S, ∀ j, Idx.le j s = true → j ∈ S)
    (nodes : ℕ → List Q) (gs : ℕ → ℕ) (hgs : Monotone gs) (hnodes : ∀ k, k < d → (nodes k).Nodup)
    (st : Idx → LState) (hN : Nested na d nodes gs st S)
    (p : ℕ → ℚ[X]) (l : Idx) (hl : l ∈ S) (hdeg : ∀ k, k < d → (p k).degree < gs (Idx.nth l (na + k)))
    (hlong : ∀ k, k < d → gs (Idx.nth l (na + k)) ≤ (nodes k).length)
    (x : List Q) (hx : x.length = d) :
    (miscSum (S.map fun i => (IE S i, predictT 0 (st i) (rowsOf (st i) p) x))).getD 0 0 =
      ((List.range d).map fun k => eval (x.getD k 0) (p k)).prod := by
  rw [miscSum_single]
  · rw [List.map_map]
    have hlhs : (S.map ((fun t : Int × List Q => (t.1 : Q) * t.2.getD 0 0) ∘
        fun i => (IE S i, predictT 0 (st i) (rowsOf (st i) p) x))) =
        S.map fun i => (IE S i : ℚ) * ∏ k : Fin d, uLvl nodes gs p x k (Idx.nth i (na + k)) := by
      apply List.map_congr_left
      intro i hi
      simp only [Function.comp]
      rw [term_value hN p x hx i hi]
      simp
    rw [hlhs, comb_uLvl S hnd hlen hdown nodes gs hgs hnodes p l hl hdeg hlong x, list_prod_range_fin]
  · intro t ht
    rw [List.mem_map] at ht
    obtain ⟨i, hi, rfl⟩ := ht
    rw [term_value hN p x hx i hi]
    rfl

/-! ### what `Lagrange.refine` produces satisfies `GoodDim` -/

theorem goodDim_wtsInit (C : Q) (hC : C ≠ 0) (grid : List Q) (hnd : grid.Nodup) (hpos : 0 < grid.length) :
    GoodDim grid (wtsInit C grid) :=
  ⟨hnd, wtsInit_length C grid, hpos, C ^ (grid.length - 1), pow_ne_zero _ hC, fun i hi => wtsInit_eq C grid i hi⟩

/-! ### general polynomials of the sparse space: finite sums of product-form terms -/

/-- a polynomial model given as a finite sum of product terms `c · Π_k p_k(x_k)` -/
abbrev PolyModel := List (Q × (ℕ → ℚ[X]))

noncomputable def PolyModel.evalAt (f : PolyModel) (d : ℕ) (x : List Q) : Q :=
  (f.map fun t => t.1 * ((List.range d).map fun k => eval (x.getD k 0) (t.2 k)).prod).sum

/-- training data of a polynomial model on the tensor grid of a state -/
noncomputable def rowsOfPoly (st : LState) (f : PolyModel) : List (List Q) :=
  (prodIdx (st.grids.map List.length)).map fun j =>
    [(f.map fun t => t.1 * dataOf (fun k a => eval (nodeFn (st.grids.getD k []) a) (t.2 k)) j).sum]

theorem sum_map_sum_comm {α β : Type} (L : List α) (T : List β) (h : α → β → Q) :
    (L.map fun a => (T.map fun t => h a t).sum).sum = (T.map fun t => (L.map fun a => h a t).sum).sum := by
  induction T with
  | nil => simp
  | cons t T ih =>
      simp only [List.map_cons, List.sum_cons]
      rw [← ih]
      clear ih
      induction L with
      | nil => simp
      | cons a L ihL => simp only [List.map_cons, List.sum_cons]; rw [ihL]; ring

/-- `tensorSum` is linear in the data -/
theorem tensorSum_linear (table : List (List Q)) (sizes : List ℕ) (T : List (Q × (ℕ → ℕ → Q)))
    (hpos : ∀ n ∈ sizes, 0 < n) :
    tensorSum table sizes ((prodIdx sizes).map fun j => [(T.map fun t => t.1 * dataOf t.2 j).sum]) =
      [(T.map fun t => t.1 * (tensorSum table sizes (prodRows t.2 sizes)).getD 0 0).sum] := by
  have hne := prodIdx_ne_nil sizes hpos
  obtain ⟨j0, rest, hjr⟩ := List.exists_cons_of_ne_nil hne
  have hrhs : ∀ t : Q × (ℕ → ℕ → Q), (tensorSum table sizes (prodRows t.2 sizes)).getD 0 0 =
      ((prodIdx sizes).map fun j => coefOf table j * dataOf t.2 j).sum := by
    intro t
    rw [tensorSum_product table sizes t.2 hpos, ← tensor_factor]
    simp
  simp only [hrhs]
  unfold tensorSum
  have hny : (((prodIdx sizes).map fun j => [(T.map fun t => t.1 * dataOf t.2 j).sum]).head?.map List.length).getD 0 = 1 := by
    rw [hjr]; simp
  simp only [hny, List.range_one, List.map_cons, List.map_nil]
  congr 1
  rw [qsum_eq_sum, List.zip_map', List.map_map]
  have : ((prodIdx sizes).map ((fun (x : Q × List Q) => x.1 * x.2.getD 0 0) ∘ fun j =>
      (qprod ((List.range j.length).map fun d => (table.getD d []).getD (j.getD d 0) 0),
        [(T.map fun t => t.1 * dataOf t.2 j).sum]))) =
      (prodIdx sizes).map fun j => (T.map fun t => coefOf table j * (t.1 * dataOf t.2 j)).sum := by
    apply List.map_congr_left
    intro j _
    simp only [Function.comp, coefOf, qprod_eq_prod]
    rw [sum_map_mul_left]
    simp
  rw [this, sum_map_sum_comm]
  congr 1
  apply List.map_congr_left
  intro t _
  rw [← sum_map_mul_left]
  congr 1
  apply List.map_congr_left
  intro j _
  ring



theorem term_value_poly {na d : ℕ} {nodes : ℕ → List Q} {gs : ℕ → ℕ} {st : Idx → LState} {S : List Idx}
    (hN : Nested na d nodes gs st S) (f : PolyModel) (x : List Q) (hx : x.length = d) (i : Idx) (hi : i ∈ S) :
    predictT 0 (st i) (rowsOfPoly (st i) f) x =
      [(f.map fun t => t.1 * ∏ k : Fin d, uLvl nodes gs t.2 x k (Idx.nth i (na + k))).sum] := by
  unfold predictT rowsOfPoly
  have hpos : ∀ n ∈ (st i).grids.map List.length, 0 < n := by
    intro n hn
    rw [List.mem_map] at hn
    obtain ⟨g, hg, rfl⟩ := hn
    obtain ⟨k, hk, rfl⟩ := List.getElem_of_mem hg
    have := (hN.good i hi k (by rw [← hN.dims i hi]; exact hk)).pos
    simpa [List.getD_eq_getElem?_getD, List.getElem?_eq_getElem hk] using this
  have hlin := tensorSum_linear (factorTable 0 (st i) x fun _ => 0) ((st i).grids.map List.length)
    (f.map fun t => (t.1, fun k a => eval (nodeFn ((st i).grids.getD k []) a) (t.2 k))) hpos
  simp only [List.map_map, Function.comp_def] at hlin
  rw [hlin]
  congr 1; congr 1
  apply List.map_congr_left
  intro t _
  have := term_value hN t.2 x hx i hi
  unfold predictT rowsOf at this
  rw [this]
  simp

/-- **C03**: the component surrogate reproduces EVERY polynomial of the sparse polynomial space of its index set — any finite
    sum of product terms each of whose factor degrees is below the grid size reached by some member of the set — at every
    point, for every duplicate-free downward-closed set with inclusion–exclusion weights, whatever number `na` of
    model-fidelity entries the indices carry (the model ignores them). -/
theorem misc_exact {na d : ℕ} (S : List Idx) (hnd : S.Nodup) (hlen : ∀ s ∈ S, s.length = na + d)
    (hdown : ∀ s ∈ S, ∀ j, Idx.le j s = true → j ∈ S)
    (nodes : ℕ → List Q) (gs : ℕ → ℕ) (hgs : Monotone gs) (hnodes : ∀ k, k < d → (nodes k).Nodup)
    (st : Idx → LState) (hN : Nested na d nodes gs st S) (f : PolyModel)
    (hf : ∀ t ∈ f, ∃ l ∈ S, (∀ k, k < d → (t.2 k).degree < gs (Idx.nth l (na + k))) ∧
      (∀ k, k < d → gs (Idx.nth l (na + k)) ≤ (nodes k).length))
    (x : List Q) (hx : x.length = d) :
    (miscSum (S.map fun i => (IE S i, predictT 0 (st i) (rowsOfPoly (st i) f) x))).getD 0 0 = f.evalAt d x := by
  rw [miscSum_single]
  · rw [List.map_map]
    have hlhs : (S.map ((fun t : Int × List Q => (t.1 : Q) * t.2.getD 0 0) ∘
        fun i => (IE S i, predictT 0 (st i) (rowsOfPoly (st i) f) x))) =
        S.map fun i => (f.map fun t => (IE S i : ℚ) *
          (t.1 * ∏ k : Fin d, uLvl nodes gs t.2 x k (Idx.nth i (na + k)))).sum := by
      apply List.map_congr_left
      intro i hi
      simp only [Function.comp]
      rw [term_value_poly hN f x hx i hi, sum_map_mul_left]
      simp
    rw [hlhs, sum_map_sum_comm]
    unfold PolyModel.evalAt
    congr 1
    apply List.map_congr_left
    intro t ht
    obtain ⟨l, hl, hdeg, hlong⟩ := hf t ht
    rw [list_prod_range_fin, ← comb_uLvl S hnd hlen hdown nodes gs hgs hnodes t.2 l hl hdeg hlong x,
      ← sum_map_mul_left]
    congr 1
    apply List.map_congr_left
    intro i _
    ring
  · intro t ht
    rw [List.mem_map] at ht
    obtain ⟨i, hi, rfl⟩ := ht
    rw [term_value_poly hN f x hx i hi]
    rfl


/-! ### the surrogate interpolates its training data (single fidelity or not): unit pulses + linearity -/

/-- generic form of the combination step: per-dimension level operators `u k n` that equal `c k` from the level of `l` on;
    the `na` leading index entries do not enter the operators -/
theorem comb_offset {na d : ℕ} (S : List Idx) (hnd : S.Nodup) (hlen : ∀ s ∈ S, s.length = na + d)
    (hdown : ∀ s ∈ S, ∀ j, Idx.le j s = true → j ∈ S) (u : ℕ → ℕ → ℚ) (c : ℕ → ℚ) (l : Idx) (hl : l ∈ S)
    (hstable : ∀ k, k < d → ∀ m, Idx.nth l (na + k) ≤ m → u k m = c k) :
    (S.map fun i => (IE S i : ℚ) * ∏ k : Fin d, u k (Idx.nth i (na + k))).sum = ∏ k : Fin d, c k := by
  let u' : ℕ → ℕ → ℚ := fun k n => if k < na then 1 else u (k - na) n
  have hsplit : ∀ i : Idx, ∏ k : Fin (na + d), u' k (Idx.nth i k) = ∏ k : Fin d, u k (Idx.nth i (na + k)) := by
    intro i
    rw [Fin.prod_univ_eq_prod_range (fun k => u' k (Idx.nth i k)) (na + d), Finset.prod_range_add,
      Fin.prod_univ_eq_prod_range (fun k => u k (Idx.nth i (na + k))) d]
    have h1 : ∏ k ∈ range na, u' k (Idx.nth i k) = 1 := by
      apply Finset.prod_eq_one
      intro k hk
      simp only [u', if_pos (mem_range.mp hk)]
    rw [h1, one_mul]
    apply Finset.prod_congr rfl
    intro k _
    simp only [u']
    rw [if_neg (by omega), Nat.add_sub_cancel_left]
  have hce := combination_exact_list (d := na + d) (R := ℚ) hnd hlen hdown u' l hl (by
    intro k hk m hm
    simp only [u']
    by_cases hka : k < na
    · simp [hka]
    · rw [if_neg hka, if_neg hka]
      have hk' : k - na < d := by omega
      have hm' : Idx.nth l (na + (k - na)) ≤ m := by rw [show na + (k - na) = k by omega]; exact hm
      rw [hstable (k - na) hk' m hm', hstable (k - na) hk' (Idx.nth l k) (by rw [show na + (k - na) = k by omega])])
  simp only [hsplit] at hce
  rw [hce]
  apply Finset.prod_congr rfl
  intro k _
  exact hstable k k.2 _ le_rfl

/-- product-form data of the unit pulse at node multi-index `p` -/
def pulse (p : ℕ → ℕ) : ℕ → ℕ → Q := fun k a => if a = p k then 1 else 0

/-- level operator of the pulse: the `p k`-th basis polynomial of level `n` if that node belongs to the level, else 0 -/
noncomputable def uPulse (nodes : ℕ → List Q) (gs : ℕ → ℕ) (p : ℕ → ℕ) (x : List Q) (k n : ℕ) : Q :=
  if p k < ((nodes k).take (gs n)).length then
    eval (x.getD k 0) (Lagrange.basis (range ((nodes k).take (gs n)).length) (nodeFn ((nodes k).take (gs n))) (p k))
  else 0

theorem term_value_pulse {na d : ℕ} {nodes : ℕ → List Q} {gs : ℕ → ℕ} {st : Idx → LState} {S : List Idx}
    (hN : Nested na d nodes gs st S) (p : ℕ → ℕ) (x : List Q) (hx : x.length = d) (i : Idx) (hi : i ∈ S) :
    predictT 0 (st i) (prodRows (pulse p) ((st i).grids.map List.length)) x =
      [∏ k : Fin d, uPulse nodes gs p x k (Idx.nth i (na + k))] := by
  rw [predictT_productg (st i) x (pulse p) (by rw [hN.dims i hi, hx]) (fun k hk => (hN.good i hi k (by omega)).pos), hx,
    list_prod_range_fin]
  congr 1
  apply Finset.prod_congr rfl
  intro k _
  have hg := hN.good i hi k k.2
  obtain ⟨c, hc, hw⟩ := hg.wt
  unfold interp1g uPulse pulse
  rw [← hN.grid i hi k k.2]
  simp only [mul_ite, mul_one, mul_zero]
  rw [Finset.sum_ite_eq']
  by_cases hp : p k < ((st i).grids.getD k []).length
  · rw [if_pos (mem_range.mpr hp), if_pos hp, basis_eq_eval _ _ hg.nodup hg.len c hc hw _ _ hp]
  · rw [if_neg (fun h => hp (mem_range.mp h)), if_neg hp]

/-- **the surrogate of a unit pulse is 1 at that training point and 0 at every other training point of the sparse grid**:
    `z` = the grid point with node numbers `a` of some member `l` of `S`, pulse at node numbers `p` -/
theorem misc_interpolates_pulse {na d : ℕ} (S : List Idx) (hnd : S.Nodup) (hlen : ∀ s ∈ S, s.length = na + d)
    (hdown : ∀ s ∈ S, ∀ j, Idx.le j s = true → j ∈ S)
    (nodes : ℕ → List Q) (gs : ℕ → ℕ) (hgs : Monotone gs) (hnodes : ∀ k, k < d → (nodes k).Nodup)
    (st : Idx → LState) (hN : Nested na d nodes gs st S) (p a : ℕ → ℕ) (l : Idx) (hl : l ∈ S)
    (ha : ∀ k, k < d → a k < gs (Idx.nth l (na + k)))
    (hlong : ∀ k, k < d → gs (Idx.nth l (na + k)) ≤ (nodes k).length)
    (x : List Q) (hx : x.length = d) (hxa : ∀ k, k < d → x.getD k 0 = (nodes k).getD (a k) 0) :
    (miscSum (S.map fun i => (IE S i, predictT 0 (st i) (prodRows (pulse p) ((st i).grids.map List.length)) x))).getD 0 0 =
      ∏ k : Fin d, (if p k = a k then (1 : ℚ) else 0) := by
  rw [miscSum_single]
  · rw [List.map_map]
    have hlhs : (S.map ((fun t : Int × List Q => (t.1 : Q) * t.2.getD 0 0) ∘
        fun i => (IE S i, predictT 0 (st i) (prodRows (pulse p) ((st i).grids.map List.length)) x))) =
        S.map fun i => (IE S i : ℚ) * ∏ k : Fin d, uPulse nodes gs p x k (Idx.nth i (na + k)) := by
      apply List.map_congr_left
      intro i hi
      simp only [Function.comp]
      rw [term_value_pulse hN p x hx i hi]
      simp
    rw [hlhs]
    apply comb_offset S hnd hlen hdown (uPulse nodes gs p x) (fun k => if p k = a k then 1 else 0) l hl
    intro k hk m hm
    unfold uPulse
    have h1 : gs (Idx.nth l (na + k)) ≤ gs m := hgs hm
    have hL : a k < ((nodes k).take (gs m)).length := by
      rw [List.length_take]; have := ha k hk; have := hlong k hk; omega
    have hxk : x.getD k 0 = nodeFn ((nodes k).take (gs m)) (a k) := by
      rw [hxa k hk]
      unfold nodeFn
      simp only [List.getD_eq_getElem?_getD]
      rw [List.getElem?_take_of_lt (by rw [List.length_take] at hL; omega)]
    have hndk := (hnodes k hk).sublist (List.take_sublist (gs m) (nodes k))
    by_cases hp : p k < ((nodes k).take (gs m)).length
    · rw [if_pos hp, hxk]
      by_cases hpa : p k = a k
      · rw [if_pos hpa, hpa]; exact eval_basis_self (injOn_nodeFn hndk) (mem_range.mpr hL)
      · rw [if_neg hpa]; exact eval_basis_of_ne hpa (mem_range.mpr hL)
    · rw [if_neg hp, if_neg]
      intro e; rw [e] at hp; exact hp hL
  · intro t ht
    rw [List.mem_map] at ht
    obtain ⟨i, hi, rfl⟩ := ht
    rw [term_value_pulse hN p x hx i hi]
    rfl

end Amisc.SE
