/-
  Consequences of the invariant used by the property theorems of C01 / C02 / C18.
-/
import AmiscProofs.IndexInv
import AmiscProofs.IEBridge

namespace Amisc

theorem CMap.get_of_has_val {m : CMap} {j : Idx} {v : Int} (hh : m.has j = true) (hv : m.val j = v) :
    m.get j = some v := by
  unfold CMap.has at hh; unfold CMap.val at hv
  cases hg : m.get j with
  | none => simp [hg] at hh
  | some w => simp [hg] at hv; rw [hv]

theorem CMap.get_of_not_has {m : CMap} {j : Idx} (hh : ¬ m.has j = true) : m.get j = none := by
  unfold CMap.has at hh
  cases hg : m.get j with
  | none => rfl
  | some w => simp [hg] at hh

theorem Inv.lenA {box : Idx} {st : IState} (h : Inv box st) : ∀ s ∈ st.active, s.length = box.length :=
  fun s hs => Idx.le_length (h.leBox s hs)

theorem Inv.lenC {box : Idx} {st : IState} (h : Inv box st) : ∀ s ∈ st.cand, s.length = box.length := by
  intro s hs
  have hne : st.active ≠ [] := by
    intro he
    have := h.candEmpty he
    rw [this] at hs; simp at hs
  exact Idx.le_length (inMargin_iff.mp ((h.candMargin hne s).mp hs)).2.1

theorem Inv.nodupAC {box : Idx} {st : IState} (h : Inv box st) : (st.active ++ st.cand).Nodup := by
  rw [List.nodup_append]
  exact ⟨h.nodupA, h.nodupC, fun a ha b hb e => h.disj a ha (e ▸ hb)⟩

/-- a non-empty downward-closed set contains the zero index -/
theorem Inv.zero_mem {box : Idx} {st : IState} (h : Inv box st) (hne : st.active ≠ []) :
    Idx.zero box.length ∈ st.active := by
  cases hact : st.active with
  | nil => exact absurd hact hne
  | cons s rest =>
      have hs : s ∈ st.active := by rw [hact]; simp
      have := h.down s hs (Idx.zero s.length) (Idx.zero_le s)
      rw [h.lenA s hs] at this
      rw [← hact]; exact this

theorem backIn_congr {A B : List Idx} (h : ∀ x, x ∈ A ↔ x ∈ B) (i : Idx) : backIn A i = backIn B i := by
  unfold backIn
  congr 1
  funext j
  simp [h]

theorem inMargin_congr {box : Idx} {A B : List Idx} (h : ∀ x, x ∈ A ↔ x ∈ B) (i : Idx) :
    inMargin box A i = inMargin box B i := by
  unfold inMargin
  rw [backIn_congr h i]
  simp [h]

/-! ### `fullBox` and `is_downward_closed` -/

theorem mem_fullBox : ∀ {b j : Idx}, j ∈ fullBox b ↔ Idx.le j b = true
  | [], [] => by simp [fullBox, Idx.le]
  | [], _ :: _ => by simp [fullBox, Idx.le]
  | b :: bs, [] => by simp [fullBox, Idx.le]
  | b :: bs, a :: as => by
      simp only [fullBox, List.mem_flatMap, List.mem_range, List.mem_map, List.cons.injEq, Idx.le,
        Bool.and_eq_true, decide_eq_true_eq]
      constructor
      · rintro ⟨x, hx, y, hy, rfl, rfl⟩
        exact ⟨by omega, mem_fullBox.mp hy⟩
      · rintro ⟨h1, h2⟩
        exact ⟨a, by omega, as, mem_fullBox.mpr h2, rfl, rfl⟩

/-- `Component.is_downward_closed` (every smaller index present) ⇔ order formulation -/
theorem isDownwardClosed_iff {A : List Idx} :
    isDownwardClosed A = true ↔ ∀ s ∈ A, ∀ j, Idx.le j s = true → j ∈ A := by
  simp [isDownwardClosed, List.all_eq_true, mem_fullBox]

/-- order formulation ⇒ neighbour formulation -/
theorem isDC_of_down {A : List Idx} (h : ∀ s ∈ A, ∀ j, Idx.le j s = true → j ∈ A) : isDC A = true := by
  simp only [isDC, List.all_eq_true]
  intro s hs
  rw [backIn_iff]
  intro j _
  exact Or.inr (h s hs _ (Idx.dec_le s j))

/-- neighbour formulation ⇒ order formulation (induction on the distance) -/
theorem down_of_isDC {A : List Idx} (h : isDC A = true) : ∀ s ∈ A, ∀ j, Idx.le j s = true → j ∈ A := by
  simp only [isDC, List.all_eq_true] at h
  intro s
  induction hn : s.total using Nat.strongRecOn generalizing s with
  | _ n ih =>
      intro hs j hj
      by_cases hjs : j = s
      · subst hjs; exact hs
      · obtain ⟨k, hk, hk1, hle⟩ := Idx.le_dec_of_le_of_ne hj hjs
        rcases backIn_iff.mp (h s hs) k hk with h0 | h1
        · omega
        · have hlt : (s.dec k).total < n := by
            subst hn
            clear ih hle h1 hj hjs hs h
            induction s generalizing k with
            | nil => simp at hk
            | cons a s ihs =>
                cases k with
                | zero => simp only [Idx.nth] at hk1; simp only [Idx.dec, Idx.total]; omega
                | succ k =>
                    simp only [Idx.nth] at hk1
                    simp only [Idx.dec, Idx.total]
                    have := ihs k (by simpa using hk) hk1
                    omega
          exact ih _ hlt (s.dec k) rfl h1 j hle

theorem dec_total_lt : ∀ (s : Idx) (k : Nat), 1 ≤ s.nth k → (s.dec k).total < s.total
  | [], _, h => by simp [Idx.nth] at h
  | a :: s, 0, h => by simp only [Idx.nth] at h; simp only [Idx.dec, Idx.total]; omega
  | a :: s, k + 1, h => by
      simp only [Idx.nth] at h
      simp only [Idx.dec, Idx.total]
      have := dec_total_lt s k h
      omega

/-- if some index of the box is missing from a downward-closed set, the admissible margin is non-empty -/
theorem exists_margin {box : Idx} {A : List Idx} :
    ∀ (i : Idx), i ∉ A → Idx.le i box = true → ∃ c, inMargin box A c = true := by
  intro i
  induction hn : i.total using Nat.strongRecOn generalizing i with
  | _ n ih =>
      intro hiA hib
      by_cases hb : backIn A i = true
      · exact ⟨i, inMargin_iff.mpr ⟨hiA, hib, hb⟩⟩
      · have : ∃ j, j < i.length ∧ ¬ (i.nth j = 0 ∨ i.dec j ∈ A) := by
          apply Classical.byContradiction
          intro hc
          apply hb
          rw [backIn_iff]
          intro j hj
          apply Classical.byContradiction
          intro hc'
          exact hc ⟨j, hj, hc'⟩
        obtain ⟨j, _, hj2⟩ := this
        have h1 : 1 ≤ i.nth j := by
          apply Classical.byContradiction; intro hc; exact hj2 (Or.inl (by omega))
        have h2 : i.dec j ∉ A := fun hc => hj2 (Or.inr hc)
        exact ih _ (by subst hn; exact dec_total_lt i j h1) (i.dec j) rfl h2
          (Idx.le_trans (Idx.dec_le i j) hib)


/-- active ∪ candidate is downward closed as well (candidates are margin points: all their backward neighbours are active) -/
theorem Inv.downAC {box : Idx} {st : IState} (h : Inv box st) :
    ∀ s ∈ st.active ++ st.cand, ∀ j, Idx.le j s = true → j ∈ st.active ++ st.cand := by
  intro s hs j hj
  rcases List.mem_append.mp hs with hA | hC
  · exact List.mem_append_left _ (h.down s hA j hj)
  · by_cases hjs : j = s
    · subst hjs; exact hs
    · have hne : st.active ≠ [] := fun e => by rw [h.candEmpty e] at hC; simp at hC
      have hm := (h.candMargin hne s).mp hC
      rw [inMargin_iff] at hm
      obtain ⟨k, hk, hk1, hle⟩ := Idx.le_dec_of_le_of_ne hj hjs
      rcases (backIn_iff.mp hm.2.2) k hk with h0 | hdec
      · omega
      · exact List.mem_append_left _ (h.down _ hdec j hle)

end Amisc
