/-
  Values and derivatives of the Lagrange basis polynomials in barycentric form — exactly the formulas coded in
  `Lagrange.predict` / `gradient` / `hessian` (over any field, Mathlib's `Lagrange.basis`).
  Weights may carry any common non-zero factor `c` (amisc scales them by the interval capacity).
-/
import AmiscProofs.Bary

open Polynomial Finset Lagrange

namespace Amisc.Bary

variable {F : Type*} [Field F] {ι : Type*} [DecidableEq ι]
variable {s : Finset ι} {v : ι → F}

/-- polynomial identity behind all derivative formulas: `ℓ_j · (X - x_j) = w_j · nodal` -/
theorem basis_mul_X_sub (j : ι) (hj : j ∈ s) :
    Lagrange.basis s v j * (X - C (v j)) = C (nodalWeight s v j) * nodal s v := by
  rw [basis_eq_prod_sub_inv_mul_nodal_div hj, ← nodal_erase_eq_nodal_div hj, nodal_eq_mul_nodal_erase hj]
  ring

/-- **second barycentric form** (value), weights scaled by any `c ≠ 0` -/
theorem second_form_basis (hvs : Set.InjOn v s) (j : ι) (hj : j ∈ s) {x c : F} (hc : c ≠ 0)
    (hx : ∀ i ∈ s, x ≠ v i) :
    (c * nodalWeight s v j * (x - v j)⁻¹) / (∑ i ∈ s, c * nodalWeight s v i * (x - v i)⁻¹) =
      eval x (Lagrange.basis s v j) := by
  have hs : s.Nonempty := ⟨j, hj⟩
  have hN : eval x (nodal s v) ≠ 0 := eval_nodal_not_at_node hx
  rw [eval_basis_not_at_node hj (hx j hj)]
  have : (∑ i ∈ s, c * nodalWeight s v i * (x - v i)⁻¹) = c * (eval x (nodal s v))⁻¹ := by
    rw [← S1_eq hvs hs hx, Finset.mul_sum]
    exact Finset.sum_congr rfl fun i _ => by ring
  rw [this]
  field_simp

/-- first derivative off the nodes: `(w_j/(S·d))·(S₂/S − 1/d)` with `S = Σ w_k/(x−x_k)`, `S₂ = Σ w_k/(x−x_k)²` -/
theorem dBasis_offnode (hvs : Set.InjOn v s) (j : ι) (hj : j ∈ s) {x c : F} (hc : c ≠ 0)
    (hx : ∀ i ∈ s, x ≠ v i) :
    let S := ∑ i ∈ s, c * nodalWeight s v i * (x - v i)⁻¹
    let S2 := ∑ i ∈ s, c * nodalWeight s v i * ((x - v i)⁻¹) ^ 2
    (c * nodalWeight s v j / (S * (x - v j))) * (S2 / S - 1 / (x - v j)) =
      eval x (derivative (Lagrange.basis s v j)) := by
  intro S S2
  have hs : s.Nonempty := ⟨j, hj⟩
  have hN : eval x (nodal s v) ≠ 0 := eval_nodal_not_at_node hx
  have hd : x - v j ≠ 0 := sub_ne_zero_of_ne (hx j hj)
  have hS : S = c * (eval x (nodal s v))⁻¹ := by
    show (∑ i ∈ s, c * nodalWeight s v i * (x - v i)⁻¹) = _
    rw [← S1_eq hvs hs hx, Finset.mul_sum]
    exact Finset.sum_congr rfl fun i _ => by ring
  have hS2 : S2 = c * (eval x (derivative (nodal s v)) / (eval x (nodal s v)) ^ 2) := by
    show (∑ i ∈ s, c * nodalWeight s v i * ((x - v i)⁻¹) ^ 2) = _
    rw [← S2_eq hvs hs hx, Finset.mul_sum]
    exact Finset.sum_congr rfl fun i _ => by ring
  -- differentiate ℓ_j (X - x_j) = w_j nodal and evaluate at x
  have hid := congrArg (fun p => eval x (derivative p)) (basis_mul_X_sub (s := s) (v := v) j hj)
  simp only [derivative_mul, derivative_sub, derivative_X, derivative_C, sub_zero, mul_one, eval_add, eval_mul,
    eval_sub, eval_X, eval_C, zero_mul, zero_add] at hid
  have hB : eval x (Lagrange.basis s v j) = eval x (nodal s v) * (nodalWeight s v j * (x - v j)⁻¹) :=
    eval_basis_not_at_node hj (hx j hj)
  rw [hB] at hid
  rw [hS, hS2]
  have key : eval x (derivative (Lagrange.basis s v j)) =
      (nodalWeight s v j * eval x (derivative (nodal s v)) -
        eval x (nodal s v) * (nodalWeight s v j * (x - v j)⁻¹)) / (x - v j) := by
    rw [eq_div_iff hd]
    linear_combination hid
  rw [key]
  field_simp

/-- first derivative at another node `i ≠ j`: `(w_j/w_i)/(x_i − x_j)` -/
theorem dBasis_at_other_node (hvs : Set.InjOn v s) (i j : ι) (hi : i ∈ s) (hj : j ∈ s) (hij : i ≠ j) {c : F}
    (hc : c ≠ 0) :
    (c * nodalWeight s v j / (c * nodalWeight s v i)) / (v i - v j) =
      eval (v i) (derivative (Lagrange.basis s v j)) := by
  have hd : v i - v j ≠ 0 := sub_ne_zero_of_ne (fun e => hij (hvs hi hj e))
  have hwi : nodalWeight s v i ≠ 0 := nodalWeight_ne_zero hvs hi
  have hid := congrArg (fun p => eval (v i) (derivative p)) (basis_mul_X_sub (s := s) (v := v) j hj)
  simp only [derivative_mul, derivative_sub, derivative_X, derivative_C, sub_zero, mul_one, eval_add, eval_mul,
    eval_sub, eval_X, eval_C, zero_mul, zero_add] at hid
  rw [eval_basis_of_ne (fun e => hij e.symm) hi, add_zero] at hid
  have hnod : eval (v i) (derivative (nodal s v)) = (nodalWeight s v i)⁻¹ := by
    rw [nodalWeight_eq_eval_derivative_nodal hi, inv_inv]
  rw [hnod] at hid
  field_simp at hid
  have key : eval (v i) (derivative (Lagrange.basis s v j)) =
      nodalWeight s v j / (nodalWeight s v i * (v i - v j)) := by
    rw [eq_div_iff (mul_ne_zero hwi hd)]
    linear_combination hid
  rw [key]
  field_simp

/-- the derivatives of all basis polynomials sum to zero at every point (Σ ℓ_p = 1) -/
theorem sum_dBasis_eq_zero (hvs : Set.InjOn v s) (hs : s.Nonempty) (x : F) :
    ∑ p ∈ s, eval x (derivative (Lagrange.basis s v p)) = 0 := by
  have h := congrArg (fun q => eval x (derivative q)) (sum_basis hvs hs)
  simpa [derivative_sum, eval_finsetSum] using h

/-- first derivative at the own node: `−Σ_{p≠j} (w_p/w_j)/(x_j − x_p)` -/
theorem dBasis_at_own_node (hvs : Set.InjOn v s) (j : ι) (hj : j ∈ s) {c : F} (hc : c ≠ 0) :
    - ∑ p ∈ s.erase j, (c * nodalWeight s v p / (c * nodalWeight s v j)) / (v j - v p) =
      eval (v j) (derivative (Lagrange.basis s v j)) := by
  have hs : s.Nonempty := ⟨j, hj⟩
  have h0 := sum_dBasis_eq_zero hvs hs (v j)
  rw [← Finset.add_sum_erase _ _ hj] at h0
  have : ∑ p ∈ s.erase j, eval (v j) (derivative (Lagrange.basis s v p)) =
      ∑ p ∈ s.erase j, (c * nodalWeight s v p / (c * nodalWeight s v j)) / (v j - v p) := by
    refine Finset.sum_congr rfl fun p hp => ?_
    obtain ⟨hpj, hps⟩ := Finset.mem_erase.mp hp
    exact (dBasis_at_other_node hvs j p hj hps (fun e => hpj e.symm) hc).symm
  rw [this] at h0
  linear_combination -h0

end Amisc.Bary
