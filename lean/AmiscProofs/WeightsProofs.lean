/-
  Incremental barycentric weights (`Lagrange.refine`, model `wtsAdd` / `wtsExtend`) agree with the direct formula
  (`wtsInit`) when the same capacity is used — unconditionally in a field with x/0 = 0.
-/
import AmiscModel.Interp
import Mathlib.Tactic.FieldSimp
import Mathlib.Tactic.Ring
import Mathlib.Algebra.Order.Field.Rat
import Mathlib.Algebra.BigOperators.Group.List.Basic

namespace Amisc

theorem qprod_eq_prod (l : List Q) : qprod l = l.prod := by
  unfold qprod
  have : ∀ (l : List Q) (a : Q), l.foldl (· * ·) a = a * l.prod := by
    intro l
    induction l with
    | nil => intro a; simp
    | cons b l ih => intro a; simp only [List.foldl_cons, List.prod_cons]; rw [ih]; ring
  rw [this l 1, one_mul]

theorem prod_map_inv {α : Type} (L : List α) (f : α → Q) : ((L.map f).prod)⁻¹ = (L.map fun i => (f i)⁻¹).prod := by
  induction L with
  | nil => simp
  | cons a L ih => simp only [List.map_cons, List.prod_cons, mul_inv, ih]

/-- closed form of one direct weight: w_j = ∏_{i ≠ j} C / (x_j - x_i) -/
def directWeight (C : Q) (xs : List Q) (j : Nat) : Q :=
  ((List.range xs.length).map fun i => if i = j then 1 else C / (xs.getD j 0 - xs.getD i 0)).prod

theorem wtsInit_getD (C : Q) (xs : List Q) (j : Nat) (hj : j < xs.length) :
    (wtsInit C xs).getD j 0 = directWeight C xs j := by
  unfold wtsInit directWeight
  rw [List.getD_eq_getElem?_getD, List.getElem?_map, List.getElem?_range hj]
  simp only [Option.map_some, Option.getD_some, qprod_eq_prod]
  rw [one_div, prod_map_inv]
  congr 1
  apply List.map_congr_left
  intro i _
  by_cases hij : i = j
  · simp [hij]
  · simp [hij, inv_div]

theorem getD_append_lt (xs : List Q) (x : Q) {i : Nat} (hi : i < xs.length) : (xs ++ [x]).getD i 0 = xs.getD i 0 := by
  simp [List.getD_eq_getElem?_getD, List.getElem?_append_left hi]

theorem getD_append_last (xs : List Q) (x : Q) : (xs ++ [x]).getD xs.length 0 = x := by
  simp [List.getD_eq_getElem?_getD]

theorem directWeight_append_lt (C : Q) (xs : List Q) (x : Q) {j : Nat} (hj : j < xs.length) :
    directWeight C (xs ++ [x]) j = directWeight C xs j * (C / (xs.getD j 0 - x)) := by
  unfold directWeight
  simp only [List.length_append, List.length_singleton, List.range_succ, List.map_append, List.map_singleton,
    List.prod_append, List.prod_singleton]
  have hne : ¬ xs.length = j := by omega
  rw [if_neg hne, getD_append_lt xs x hj, getD_append_last]
  congr 2
  apply List.map_congr_left
  intro i hi
  rw [List.mem_range] at hi
  rw [getD_append_lt xs x hi]

theorem directWeight_append_last (C : Q) (xs : List Q) (x : Q) :
    directWeight C (xs ++ [x]) xs.length = (xs.map fun xi => C / (x - xi)).prod := by
  unfold directWeight
  simp only [List.length_append, List.length_singleton, List.range_succ, List.map_append, List.map_singleton,
    List.prod_append, List.prod_singleton, if_true, mul_one]
  rw [getD_append_last]
  -- map over range n of C/(x - xs[i]) = map over xs
  have : ∀ (ys : List Q) (k : Nat), ((List.range' k ys.length).map fun i =>
      if i = k + ys.length + 0 then (1 : Q) else C / (x - (ys).getD (i - k) 0)).prod = (ys.map fun xi => C / (x - xi)).prod := by
    intro ys
    induction ys with
    | nil => intro k; simp
    | cons y ys ih =>
        intro k
        simp only [List.length_cons, List.range'_succ, List.map_cons, List.prod_cons]
        have h1 : ¬ k = k + (ys.length + 1) + 0 := by omega
        rw [if_neg h1]
        simp only [Nat.sub_self, List.getD_cons_zero]
        congr 1
        have := ih (k + 1)
        rw [← this]
        congr 1
        apply List.map_congr_left
        intro i hi
        rw [List.mem_range'] at hi
        obtain ⟨t, ht, rfl⟩ := hi
        have e1 : (k + 1 + 1 * t = k + (ys.length + 1) + 0) ↔ (k + 1 + 1 * t = k + 1 + ys.length + 0) := by omega
        have e2 : k + 1 + 1 * t - k = (k + 1 + 1 * t - (k + 1)) + 1 := by omega
        simp only [e1, e2, List.getD_cons_succ]
  have h := this xs 0
  rw [List.range_eq_range'] 
  rw [← h]
  congr 1
  apply List.map_congr_left
  intro i hi
  rw [List.mem_range'] at hi
  obtain ⟨t, ht, rfl⟩ := hi
  have hlt : 0 + 1 * t < xs.length := by omega
  have e : (0 + 1 * t = xs.length) ↔ (0 + 1 * t = 0 + xs.length + 0) := by omega
  simp only [e, getD_append_lt xs x hlt, Nat.sub_zero]

/-- **Incremental = direct**: extending the weights of `xs` by one node with the SAME capacity gives the direct weights of
    the extended grid. -/
theorem wtsInit_length (C : Q) (xs : List Q) : (wtsInit C xs).length = xs.length := by simp [wtsInit]

theorem wtsInit_getElem? (C : Q) (xs : List Q) (j : Nat) (hj : j < xs.length) :
    (wtsInit C xs)[j]? = some (directWeight C xs j) := by
  have h := wtsInit_getD C xs j hj
  have hl : j < (wtsInit C xs).length := by rw [wtsInit_length]; exact hj
  rw [List.getD_eq_getElem?_getD, List.getElem?_eq_getElem hl, Option.getD_some] at h
  rw [List.getElem?_eq_getElem hl, h]

theorem wtsAdd_wtsInit (C : Q) (xs : List Q) (x : Q) : wtsAdd C xs (wtsInit C xs) x = wtsInit C (xs ++ [x]) := by
  apply List.ext_getElem?
  intro j
  by_cases hjl : j < xs.length
  · rw [wtsInit_getElem? C (xs ++ [x]) j (by simp; omega), directWeight_append_lt C xs x hjl]
    unfold wtsAdd
    rw [List.getElem?_append_left (by simp [wtsInit_length]; exact hjl), List.getElem?_zipWith,
      wtsInit_getElem? C xs j hjl, List.getElem?_eq_getElem hjl]
    simp [List.getD_eq_getElem?_getD, List.getElem?_eq_getElem hjl]
  · by_cases hje : j = xs.length
    · subst hje
      rw [wtsInit_getElem? C (xs ++ [x]) xs.length (by simp), directWeight_append_last]
      unfold wtsAdd
      rw [List.getElem?_append_right (by simp [wtsInit_length])]
      simp [wtsInit_length, qprod_eq_prod]
    · have h1 : (wtsAdd C xs (wtsInit C xs) x).length ≤ j := by simp [wtsAdd, wtsInit_length]; omega
      have h2 : (wtsInit C (xs ++ [x])).length ≤ j := by simp [wtsInit_length]; omega
      rw [List.getElem?_eq_none h1, List.getElem?_eq_none h2]

/-- the whole incremental extension with one capacity equals the direct computation on the final grid -/
theorem wtsExtend_wtsInit (C : Q) : ∀ (new xs : List Q), wtsExtend C xs (wtsInit C xs) new = (xs ++ new, wtsInit C (xs ++ new))
  | [], xs => by simp [wtsExtend]
  | x :: rest, xs => by
      simp only [wtsExtend]
      rw [wtsAdd_wtsInit, wtsExtend_wtsInit C rest (xs ++ [x])]
      simp

/-! ### consistency under a CHANGED capacity (the rescaling step of `Lagrange.refine`) -/

theorem prod_ite_const (c : Q) : ∀ (n j : Nat), j < n →
    ((List.range n).map fun i => if i = j then (1 : Q) else c).prod = c ^ (n - 1)
  | 0, j, h => by omega
  | n + 1, j, h => by
      rw [List.range_succ, List.map_append, List.prod_append]
      simp only [List.map_singleton, List.prod_singleton]
      by_cases hj : j = n
      · subst hj
        simp only [if_true, mul_one, Nat.add_sub_cancel]
        have : ((List.range j).map fun i => if i = j then (1 : Q) else c) = (List.range j).map fun _ => c := by
          apply List.map_congr_left
          intro i hi
          rw [List.mem_range] at hi
          have : ¬ i = j := by omega
          simp [this]
        rw [this]
        simp
      · have hjn : j < n := by omega
        rw [prod_ite_const c n j hjn]
        have : ¬ n = j := fun e => hj e.symm
        simp only [this, if_false, Nat.add_sub_cancel]
        have hn : n = (n - 1) + 1 := by omega
        conv_rhs => rw [hn, pow_succ]

theorem directWeight_scale (C0 C : Q) (h0 : C0 ≠ 0) (xs : List Q) (j : Nat) (hj : j < xs.length) :
    directWeight C xs j = (C / C0) ^ (xs.length - 1) * directWeight C0 xs j := by
  unfold directWeight
  rw [← prod_ite_const (C / C0) xs.length j hj, ← List.prod_map_mul]
  congr 1
  apply List.map_congr_left
  intro i _
  by_cases hij : i = j
  · simp [hij]
  · simp only [hij, if_false]
    by_cases hd : xs.getD j 0 - xs.getD i 0 = 0
    · rw [hd]; simp
    · field_simp

theorem range_map_getD (f : Q → Q) : ∀ (t : List Q), (List.range t.length).map (fun i => f (t.getD i 0)) = t.map f := by
  intro t
  apply List.ext_getElem
  · simp
  · intro i h1 h2
    simp only [List.length_map, List.length_range] at h1
    simp [List.getD_eq_getElem?_getD, List.getElem?_eq_getElem h1]

/-- the reference weight of node 0 computed by the rescaling step is the direct weight under the current capacity -/
theorem w0_eq_directWeight (C : Q) (x : Q) (t : List Q) :
    1 / qprod (((x :: t).drop 1).map fun xi => ((x :: t).getD 0 0 - xi) / C) = directWeight C (x :: t) 0 := by
  unfold directWeight
  simp only [List.drop_one, List.tail_cons, List.getD_cons_zero, List.length_cons, qprod_eq_prod]
  rw [one_div, prod_map_inv]
  rw [List.range_succ_eq_map, List.map_cons, List.prod_cons, List.map_map]
  simp only [if_true, one_mul]
  rw [← range_map_getD (fun xi => ((x - xi) / C)⁻¹) t]
  congr 1
  apply List.map_congr_left
  intro i _
  simp [inv_div]

theorem directWeight_ne_zero (C : Q) (hC : C ≠ 0) (xs : List Q) (j : Nat)
    (hd : ∀ i, i < xs.length → i ≠ j → xs.getD j 0 ≠ xs.getD i 0) : directWeight C xs j ≠ 0 := by
  unfold directWeight
  have gen : ∀ (L : List Nat), (∀ i ∈ L, i < xs.length) →
      (L.map fun i => if i = j then (1 : Q) else C / (xs.getD j 0 - xs.getD i 0)).prod ≠ 0 := by
    intro L
    induction L with
    | nil => intro _; simp
    | cons i L ih =>
        intro hL
        simp only [List.map_cons, List.prod_cons]
        apply mul_ne_zero
        · by_cases hij : i = j
          · simp [hij]
          · simp only [hij, if_false]
            exact div_ne_zero hC (sub_ne_zero_of_ne (hd i (hL i (by simp)) hij))
        · exact ih (fun k hk => hL k (by simp [hk]))
  exact gen _ (fun i hi => List.mem_range.mp hi)

/-- **The rescaling step restores consistency**: weights that were computed with ANY earlier capacity `C0` become the direct
    weights under the current capacity `C`. -/
theorem rescaleWts_correct (C0 C : Q) (h0 : C0 ≠ 0) (xs : List Q) (hlen : 1 < xs.length)
    (hd : ∀ i, i < xs.length → i ≠ 0 → xs.getD 0 0 ≠ xs.getD i 0) :
    rescaleWts C xs (wtsInit C0 xs) = wtsInit C xs := by
  unfold rescaleWts
  rw [if_pos hlen]
  obtain ⟨x, t, rfl⟩ : ∃ x t, xs = x :: t := by
    cases xs with
    | nil => simp at hlen
    | cons x t => exact ⟨x, t, rfl⟩
  simp only []
  rw [w0_eq_directWeight]
  have hw0 : (wtsInit C0 (x :: t)).getD 0 0 = directWeight C0 (x :: t) 0 := wtsInit_getD C0 (x :: t) 0 (by simp)
  rw [hw0]
  have hne := directWeight_ne_zero C0 h0 (x :: t) 0 hd
  apply List.ext_getElem?
  intro j
  by_cases hj : j < (x :: t).length
  · rw [wtsInit_getElem? C (x :: t) j hj, List.getElem?_map, wtsInit_getElem? C0 (x :: t) j hj]
    simp only [Option.map_some, Option.some.injEq]
    rw [directWeight_scale C0 C h0 (x :: t) j hj, directWeight_scale C0 C h0 (x :: t) 0 (by simp)]
    field_simp
  · have h1 : ((wtsInit C0 (x :: t)).map (· * (directWeight C (x :: t) 0 / directWeight C0 (x :: t) 0))).length ≤ j := by
      simp [wtsInit_length]; simp at hj; omega
    have h2 : (wtsInit C (x :: t)).length ≤ j := by simp [wtsInit_length]; simp at hj; omega
    rw [List.getElem?_eq_none h1, List.getElem?_eq_none h2]

end Amisc
