import AmiscModel.Interp
import AmiscProofs.ListLagrange

namespace Amisc.Snap

/-- flags of the tolerance-`tol` rule when exactly node `i` lies within the tolerance of `x` -/
theorem flagged_single (tol x : Q) (grid : List Q) (i : Nat)
    (hfl : ∀ k, k < grid.length → (qabs (x - grid.getD k 0) ≤ tol ↔ k = i)) (k : Nat) (hk : k < grid.length) :
    (flagged tol x grid).getD k false = decide (k = i) := by
  unfold flagged
  rw [List.getD_eq_getElem?_getD, List.getElem?_map, List.getElem?_eq_getElem hk]
  simp only [Option.map_some, Option.getD_some]
  have := hfl k hk
  rw [List.getD_eq_getElem?_getD, List.getElem?_eq_getElem hk, Option.getD_some] at this
  by_cases h : k = i
  · rw [decide_eq_true (this.mpr h), decide_eq_true h]
  · rw [decide_eq_false (fun hh => h (this.mp hh)), decide_eq_false h]

theorem any_flagged (tol x : Q) (grid : List Q) (i : Nat) (hi : i < grid.length)
    (hfl : ∀ k, k < grid.length → (qabs (x - grid.getD k 0) ≤ tol ↔ k = i)) : (flagged tol x grid).any id = true := by
  rw [List.any_eq_true]
  refine ⟨true, ?_, rfl⟩
  have h := flagged_single tol x grid i hfl i hi
  simp only [decide_true] at h
  have hlen : i < (flagged tol x grid).length := by simp [flagged, hi]
  rw [List.getD_eq_getElem?_getD, List.getElem?_eq_getElem hlen, Option.getD_some] at h
  rw [← h]; exact List.getElem_mem hlen

/-- **node snapping**: when exactly one node lies within the coincidence tolerance of `x`, every basis value computed with that
    tolerance at `x` is the exact-arithmetic (tolerance 0) basis value AT THAT NODE -/
theorem basis_snaps (tol x : Q) (grid ws : List Q) (i : Nat) (hi : i < grid.length) (hnd : grid.Nodup)
    (hfl : ∀ k, k < grid.length → (qabs (x - grid.getD k 0) ≤ tol ↔ k = i)) (j : Nat) (hj : j < grid.length) :
    basis tol x grid ws j = basis 0 (grid.getD i 0) grid ws j := by
  -- the tolerance-0 rule at the node flags exactly that node
  have hfl0 : ∀ k, k < grid.length → (qabs (grid.getD i 0 - grid.getD k 0) ≤ 0 ↔ k = i) := by
    intro k hk
    rw [LL.qabs_le_zero, sub_eq_zero]
    constructor
    · intro h
      rw [List.getD_eq_getElem?_getD, List.getD_eq_getElem?_getD, List.getElem?_eq_getElem hi, List.getElem?_eq_getElem hk] at h
      simp only [Option.getD_some] at h
      exact ((List.Nodup.getElem_inj_iff hnd).mp h).symm
    · intro h; rw [h]
  unfold basis
  simp only []
  rw [flagged_single tol x grid i hfl j hj, flagged_single 0 _ grid i hfl0 j hj, any_flagged tol x grid i hi hfl,
    any_flagged 0 _ grid i hi hfl0]
  simp only [if_true]

end Amisc.Snap

namespace Amisc.Snap

theorem flagged_far (t x : Q) (grid : List Q) (h : ∀ k, k < grid.length → ¬ qabs (x - grid.getD k 0) ≤ t) :
    flagged t x grid = grid.map fun _ => false := by
  unfold flagged
  apply List.map_congr_left
  intro xk hxk
  obtain ⟨k, hk, rfl⟩ := List.getElem_of_mem hxk
  have := h k hk
  rw [List.getD_eq_getElem?_getD, List.getElem?_eq_getElem hk, Option.getD_some] at this
  exact decide_eq_false this

theorem diffs_far (t x : Q) (grid : List Q) (h : ∀ k, k < grid.length → ¬ qabs (x - grid.getD k 0) ≤ t) :
    diffs t x grid = grid.map fun xk => x - xk := by
  unfold diffs
  apply List.map_congr_left
  intro xk hxk
  obtain ⟨k, hk, rfl⟩ := List.getElem_of_mem hxk
  have := h k hk
  rw [List.getD_eq_getElem?_getD, List.getElem?_eq_getElem hk, Option.getD_some] at this
  rw [if_neg this]

/-- away from the nodes the first- and second-derivative formulas do not depend on the coincidence tolerance either -/
theorem dBasis_far (tol x : Q) (grid ws : List Q) (htol : 0 ≤ tol)
    (hfar : ∀ k, k < grid.length → ¬ qabs (x - grid.getD k 0) ≤ tol) (j : Nat) :
    dBasis tol x grid ws j = dBasis 0 x grid ws j ∧ d2Basis tol x grid ws j = d2Basis 0 x grid ws j := by
  have hq : ∀ k, k < grid.length → ¬ qabs (x - grid.getD k 0) ≤ 0 := fun k hk h => hfar k hk (le_trans h htol)
  unfold dBasis d2Basis quots
  simp only []
  rw [flagged_far tol x grid hfar, flagged_far 0 x grid hq, diffs_far tol x grid hfar, diffs_far 0 x grid hq]
  exact ⟨rfl, rfl⟩

end Amisc.Snap
