/-
  Basic lemmas about `Idx` (lists of naturals as multi-indices), `cubeDist`, `CMap`.
-/
import AmiscModel.Index

namespace Amisc

namespace Idx

theorem le_length : ∀ {i j : Idx}, le i j = true → i.length = j.length
  | [], [], _ => rfl
  | [], _ :: _, h => by simp [le] at h
  | _ :: _, [], h => by simp [le] at h
  | a :: as, b :: bs, h => by
      simp only [le, Bool.and_eq_true, decide_eq_true_eq] at h
      simp [le_length h.2]

theorem le_refl : ∀ (i : Idx), le i i = true
  | [] => rfl
  | a :: as => by simp [le, le_refl as]

theorem le_trans : ∀ {i j k : Idx}, le i j = true → le j k = true → le i k = true
  | [], [], [], _, _ => rfl
  | [], [], _ :: _, _, h => by simp [le] at h
  | [], _ :: _, _, h, _ => by simp [le] at h
  | _ :: _, [], _, h, _ => by simp [le] at h
  | _ :: _, _ :: _, [], _, h => by simp [le] at h
  | a :: as, b :: bs, c :: cs, h1, h2 => by
      simp only [le, Bool.and_eq_true, decide_eq_true_eq] at h1 h2 ⊢
      exact ⟨Nat.le_trans h1.1 h2.1, le_trans h1.2 h2.2⟩

theorem le_antisymm : ∀ {i j : Idx}, le i j = true → le j i = true → i = j
  | [], [], _, _ => rfl
  | [], _ :: _, h, _ => by simp [le] at h
  | _ :: _, [], h, _ => by simp [le] at h
  | a :: as, b :: bs, h1, h2 => by
      simp only [le, Bool.and_eq_true, decide_eq_true_eq] at h1 h2
      rw [Nat.le_antisymm h1.1 h2.1, le_antisymm h1.2 h2.2]

@[simp] theorem inc_length : ∀ (i : Idx) (k : Nat), (inc i k).length = i.length
  | [], _ => rfl
  | _ :: _, 0 => rfl
  | a :: as, k + 1 => by simp [inc, inc_length as k]

@[simp] theorem dec_length : ∀ (i : Idx) (k : Nat), (dec i k).length = i.length
  | [], _ => rfl
  | _ :: _, 0 => rfl
  | a :: as, k + 1 => by simp [dec, dec_length as k]

theorem dec_inc : ∀ (i : Idx) (k : Nat), dec (inc i k) k = i
  | [], _ => rfl
  | _ :: _, 0 => by simp [inc, dec]
  | a :: as, k + 1 => by simp [inc, dec, dec_inc as k]

theorem inc_dec : ∀ (i : Idx) (k : Nat), 1 ≤ nth i k → inc (dec i k) k = i
  | [], _, h => by simp [nth] at h
  | a :: as, 0, h => by simp only [nth] at h; simp only [dec, inc]; congr 1; omega
  | a :: as, k + 1, h => by simp only [nth] at h; simp [inc, dec, inc_dec as k h]

theorem nth_inc_self : ∀ (i : Idx) (k : Nat), k < i.length → nth (inc i k) k = nth i k + 1
  | [], _, h => by simp at h
  | _ :: _, 0, _ => rfl
  | a :: as, k + 1, h => by
      simp only [inc, nth]; exact nth_inc_self as k (by simpa using h)

theorem nth_inc_ne : ∀ (i : Idx) (k l : Nat), k ≠ l → nth (inc i k) l = nth i l
  | [], _, _, _ => rfl
  | _ :: _, 0, 0, h => absurd rfl h
  | _ :: _, 0, _ + 1, _ => rfl
  | _ :: _, _ + 1, 0, _ => rfl
  | a :: as, k + 1, l + 1, h => by
      simp only [inc, nth]; exact nth_inc_ne as k l (by omega)

theorem nth_dec_self : ∀ (i : Idx) (k : Nat), nth (dec i k) k = nth i k - 1
  | [], _ => rfl
  | _ :: _, 0 => rfl
  | a :: as, k + 1 => by simp only [dec, nth]; exact nth_dec_self as k

theorem nth_dec_ne : ∀ (i : Idx) (k l : Nat), k ≠ l → nth (dec i k) l = nth i l
  | [], _, _, _ => rfl
  | _ :: _, 0, 0, h => absurd rfl h
  | _ :: _, 0, _ + 1, _ => rfl
  | _ :: _, _ + 1, 0, _ => rfl
  | a :: as, k + 1, l + 1, h => by
      simp only [dec, nth]; exact nth_dec_ne as k l (by omega)

theorem nth_eq_zero_of_length_le : ∀ (i : Idx) (k : Nat), i.length ≤ k → nth i k = 0
  | [], _, _ => rfl
  | _ :: _, 0, h => by simp at h
  | a :: as, k + 1, h => by simp only [nth]; exact nth_eq_zero_of_length_le as k (by simpa using h)

/-- extensionality through `nth` -/
theorem ext_nth : ∀ {i j : Idx}, i.length = j.length → (∀ k, k < i.length → nth i k = nth j k) → i = j
  | [], [], _, _ => rfl
  | [], _ :: _, h, _ => by simp at h
  | _ :: _, [], h, _ => by simp at h
  | a :: as, b :: bs, hl, h => by
      have h0 := h 0 (by simp)
      simp only [nth] at h0
      have : as = bs := ext_nth (by simpa using hl) (fun k hk => by
        have := h (k + 1) (by simpa using hk); simpa [nth] using this)
      rw [h0, this]

theorem le_iff_nth : ∀ {i j : Idx}, le i j = true ↔ i.length = j.length ∧ ∀ k, nth i k ≤ nth j k
  | [], [] => by simp [le, nth]
  | [], _ :: _ => by simp [le]
  | _ :: _, [] => by simp [le]
  | a :: as, b :: bs => by
      simp only [le, Bool.and_eq_true, decide_eq_true_eq, le_iff_nth (i := as) (j := bs), List.length_cons,
        Nat.add_right_cancel_iff]
      constructor
      · rintro ⟨h1, h2, h3⟩
        refine ⟨h2, fun k => ?_⟩
        cases k with
        | zero => simpa [nth] using h1
        | succ k => simpa [nth] using h3 k
      · rintro ⟨h1, h2⟩
        refine ⟨by simpa [nth] using h2 0, h1, fun k => by simpa [nth] using h2 (k + 1)⟩

theorem dec_le (i : Idx) (k : Nat) : le (dec i k) i = true := by
  rw [le_iff_nth]
  refine ⟨dec_length i k, fun l => ?_⟩
  by_cases h : k = l
  · subst h; rw [nth_dec_self]; omega
  · rw [nth_dec_ne i k l h]; exact Nat.le_refl _

theorem le_inc (i : Idx) (k : Nat) : le i (inc i k) = true := by
  rw [le_iff_nth]
  refine ⟨(inc_length i k).symm, fun l => ?_⟩
  by_cases h : k = l
  · subst h
    by_cases hk : k < i.length
    · rw [nth_inc_self i k hk]; omega
    · rw [nth_eq_zero_of_length_le i k (by omega)]; omega
  · rw [nth_inc_ne i k l h]; exact Nat.le_refl _

/-- a strictly smaller index lies below one of the backward neighbours -/
theorem le_dec_of_le_of_ne {j i : Idx} (h : le j i = true) (hne : j ≠ i) :
    ∃ k, k < i.length ∧ 1 ≤ nth i k ∧ le j (dec i k) = true := by
  rw [le_iff_nth] at h
  obtain ⟨hl, hn⟩ := h
  have : ∃ k, k < i.length ∧ nth j k ≠ nth i k := by
    apply Classical.byContradiction
    intro hc
    apply hne
    apply ext_nth hl
    intro k hk
    apply Classical.byContradiction
    intro hk'
    exact hc ⟨k, by omega, hk'⟩
  obtain ⟨k, hk, hkne⟩ := this
  have hlt : nth j k < nth i k := Nat.lt_of_le_of_ne (hn k) hkne
  refine ⟨k, hk, by omega, ?_⟩
  rw [le_iff_nth]
  refine ⟨by rw [dec_length]; exact hl, fun l => ?_⟩
  by_cases hkl : k = l
  · subst hkl; rw [nth_dec_self]; omega
  · rw [nth_dec_ne i k l hkl]; exact hn l

theorem total_eq_zero_iff : ∀ (i : Idx), total i = 0 ↔ i = zero i.length
  | [] => by simp [total, zero]
  | a :: as => by
      simp only [total, zero, List.length_cons, List.replicate_succ, List.cons.injEq]
      have := total_eq_zero_iff as
      simp only [zero] at this
      rw [← this]; omega

theorem zero_le : ∀ (i : Idx), le (zero i.length) i = true
  | [] => rfl
  | a :: as => by
      simp only [zero, List.length_cons, List.replicate_succ, le, Nat.zero_le, decide_true, Bool.true_and]
      exact zero_le as

theorem nth_zero (d k : Nat) : nth (zero d) k = 0 := by
  induction d generalizing k with
  | zero => rfl
  | succ d ih =>
      cases k with
      | zero => rfl
      | succ k => simp only [zero, List.replicate_succ, nth]; exact ih k

end Idx

/-! ### cubeDist -/

theorem cubeDist_self : ∀ (i : Idx), cubeDist i i = some 0
  | [] => rfl
  | a :: as => by simp [cubeDist, cubeDist_self as]

theorem cubeDist_le : ∀ {s j : Idx} {k : Nat}, cubeDist s j = some k → Idx.le j s = true
  | [], [], _, _ => rfl
  | [], _ :: _, _, h => by simp [cubeDist] at h
  | _ :: _, [], _, h => by simp [cubeDist] at h
  | n :: ns, o :: os, k, h => by
      simp only [cubeDist] at h
      simp only [Idx.le, Bool.and_eq_true, decide_eq_true_eq]
      split at h
      · next heq => exact ⟨by omega, cubeDist_le h⟩
      · split at h
        · next heq =>
            cases hc : cubeDist ns os with
            | none => simp [hc] at h
            | some k' => exact ⟨by omega, cubeDist_le hc⟩
        · simp at h

theorem cubeDist_eq_zero : ∀ {s j : Idx}, cubeDist s j = some 0 → s = j
  | [], [], _ => rfl
  | [], _ :: _, h => by simp [cubeDist] at h
  | _ :: _, [], h => by simp [cubeDist] at h
  | n :: ns, o :: os, h => by
      simp only [cubeDist] at h
      split at h
      · next heq => rw [heq, cubeDist_eq_zero h]
      · split at h
        · cases hc : cubeDist ns os with
          | none => simp [hc] at h
          | some k' => simp [hc] at h
        · simp at h

/-- `cubeDist s j` is defined iff `j ≤ s ≤ j + 1` componentwise -/
theorem cubeDist_isSome_iff : ∀ {s j : Idx},
    (cubeDist s j).isSome = true ↔ s.length = j.length ∧ ∀ k, Idx.nth j k ≤ Idx.nth s k ∧ Idx.nth s k ≤ Idx.nth j k + 1
  | [], [] => by simp [cubeDist, Idx.nth]
  | [], _ :: _ => by simp [cubeDist]
  | _ :: _, [] => by simp [cubeDist]
  | n :: ns, o :: os => by
      have ih := cubeDist_isSome_iff (s := ns) (j := os)
      simp only [cubeDist, List.length_cons, Nat.add_right_cancel_iff]
      constructor
      · intro h
        split at h
        · next heq =>
            obtain ⟨h1, h2⟩ := ih.mp h
            refine ⟨h1, fun k => ?_⟩
            cases k with
            | zero => simp [Idx.nth, heq]
            | succ k => simpa [Idx.nth] using h2 k
        · split at h
          · next hne heq =>
              have h' : (cubeDist ns os).isSome = true := by
                cases hc : cubeDist ns os with
                | none => simp [hc] at h
                | some _ => rfl
              obtain ⟨h1, h2⟩ := ih.mp h'
              refine ⟨h1, fun k => ?_⟩
              cases k with
              | zero => simp [Idx.nth, heq]
              | succ k => simpa [Idx.nth] using h2 k
          · simp at h
      · rintro ⟨h1, h2⟩
        have h0 := h2 0
        simp only [Idx.nth] at h0
        have hrest : (cubeDist ns os).isSome = true :=
          ih.mpr ⟨h1, fun k => by simpa [Idx.nth] using h2 (k + 1)⟩
        split
        · exact hrest
        · split
          · cases hc : cubeDist ns os with
            | none => simp [hc] at hrest
            | some _ => rfl
          · omega

/-- two distinct forward neighbours of one index never differ by a 0/1 vector -/
theorem cubeDist_inc_inc_ne (i : Idx) {k l : Nat} (hk : k < i.length) (hl : l < i.length) (h : k ≠ l) :
    cubeDist (i.inc k) (i.inc l) = none := by
  cases hc : cubeDist (i.inc k) (i.inc l) with
  | none => rfl
  | some d =>
      have : (cubeDist (i.inc k) (i.inc l)).isSome = true := by simp [hc]
      obtain ⟨_, h2⟩ := cubeDist_isSome_iff.mp this
      have := (h2 l).1
      rw [Idx.nth_inc_self i l hl, Idx.nth_inc_ne i k l h] at this
      omega

theorem term_self (i : Idx) : term i i = 1 := by simp [term, cubeDist_self, sgn]

theorem term_eq_zero_of_none {s i : Idx} (h : cubeDist s i = none) : term s i = 0 := by simp [term, h]

/-! ### CMap -/

namespace CMap

theorem get_bump : ∀ (m : CMap) (i j : Idx) (δ : Int),
    (m.bump i δ).get j = if j = i then some ((m.get i).getD 0 + δ) else m.get j
  | [], i, j, δ => by
      simp only [bump, get]
      by_cases h : i = j
      · subst h; simp
      · have : ¬ j = i := fun e => h e.symm
        simp [h, this]
  | (k, v) :: rest, i, j, δ => by
      simp only [bump]
      by_cases hki : k = i
      · subst hki
        simp only [if_true, get]
        by_cases hkj : k = j
        · subst hkj; simp
        · have : ¬ j = k := fun e => hkj e.symm
          simp [hkj, this]
      · simp only [hki, if_false, get]
        by_cases hkj : k = j
        · subst hkj
          have : ¬ k = i := hki
          simp [this]
        · simp only [hkj, if_false]
          exact get_bump rest i j δ

end CMap

end Amisc
