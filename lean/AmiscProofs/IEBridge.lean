/-
  The inclusion–exclusion value in the form of the property statement (sum over 0/1 offset vectors `e` with
  `i + e ∈ S`) equals the sum over members used by the invariant.
-/
import AmiscProofs.CoeffUpdate

namespace Amisc

theorem sgn_succ (k : Nat) : sgn (k + 1) = - sgn k := by
  unfold sgn
  rcases Nat.mod_two_eq_zero_or_one k with h | h <;> simp [Nat.add_mod, h]

theorem sum_map_add_int {α : Type} (L : List α) (f g : α → Int) :
    (L.map fun x => f x + g x).sum = (L.map f).sum + (L.map g).sum := by
  induction L with
  | nil => rfl
  | cons a L ih => simp only [List.map_cons, List.sum_cons, ih]; omega

theorem sum_map_neg_int {α : Type} (L : List α) (f : α → Int) :
    (L.map fun x => - f x).sum = - (L.map f).sum := by
  induction L with
  | nil => rfl
  | cons a L ih => simp only [List.map_cons, List.sum_cons, ih]; omega

theorem sum_map_zero_int {α : Type} (L : List α) : (L.map fun _ => (0 : Int)).sum = 0 := by
  induction L with
  | nil => rfl
  | cons a L ih => simp only [List.map_cons, List.sum_cons, ih]; rfl

/-- Lemma A: the contribution of a member `s` is the sum over offsets `e` with `i + e = s`. -/
theorem term_eq_sum_cube : ∀ (s i : Idx), s.length = i.length →
    term s i = ((cube i.length).map fun e => if i.add e = s then sgn e.total else 0).sum
  | [], [], _ => by simp [term, cubeDist, cube, Idx.add, sgn, Idx.total]
  | [], _ :: _, h => by simp at h
  | _ :: _, [], h => by simp at h
  | b :: s, a :: i, h => by
      have ih := term_eq_sum_cube s i (by simpa using h)
      simp only [List.length_cons, cube, List.map_append, List.map_map, List.sum_append]
      have e0 : ((cube i.length).map ((fun e => if Idx.add (a :: i) e = b :: s then sgn (Idx.total e) else 0) ∘
            fun x => 0 :: x)).sum =
          if a = b then term s i else 0 := by
        by_cases hab : a = b
        · subst hab
          rw [if_pos rfl, ih]
          congr 1
          apply List.map_congr_left
          intro e _
          simp [Idx.add, Idx.total]
        · rw [if_neg hab]
          refine Eq.trans ?_ (sum_map_zero_int (cube i.length))
          congr 1
          apply List.map_congr_left
          intro e _
          simp [Idx.add, hab]
      have e1 : ((cube i.length).map ((fun e => if Idx.add (a :: i) e = b :: s then sgn (Idx.total e) else 0) ∘
            fun x => 1 :: x)).sum =
          if a + 1 = b then - term s i else 0 := by
        by_cases hab : a + 1 = b
        · subst hab
          rw [if_pos rfl, ih, ← sum_map_neg_int]
          congr 1
          apply List.map_congr_left
          intro e _
          simp only [Function.comp, Idx.add, Idx.total, List.cons.injEq, true_and]
          rw [Nat.add_comm 1, sgn_succ]
          split <;> simp
        · rw [if_neg hab]
          refine Eq.trans ?_ (sum_map_zero_int (cube i.length))
          congr 1
          apply List.map_congr_left
          intro e _
          simp [Idx.add, hab]
      rw [e0, e1]
      unfold term
      simp only [cubeDist]
      by_cases h1 : b = a
      · subst h1
        simp
      · by_cases h2 : b = a + 1
        · subst h2
          have : ¬ a = a + 1 := by omega
          simp only [h1, if_false, if_true, this]
          cases hc : cubeDist s i with
          | none => simp
          | some k => simp [sgn_succ]
        · have h1' : ¬ a = b := fun e => h1 e.symm
          have h2' : ¬ a + 1 = b := fun e => h2 e.symm
          simp [h1, h2, h1', h2']

theorem IE_cons {S : List Idx} {s i : Idx} (hs : s ∉ S) (hlen : s.length = i.length) :
    IE (s :: S) i = term s i + IE S i := by
  unfold IE
  rw [term_eq_sum_cube s i hlen, ← sum_map_add_int]
  congr 1
  apply List.map_congr_left
  intro e _
  by_cases h1 : i.add e = s
  · subst h1
    simp [hs]
  · have : ¬ s = i.add e := fun e' => h1 e'.symm
    simp [h1]

/-- **Bridge**: for a duplicate-free set of indices of the length of `i`, the offset form and the member form of the
    inclusion–exclusion weight agree. -/
theorem IE_eq_IEsum : ∀ {S : List Idx} {i : Idx}, S.Nodup → (∀ s ∈ S, s.length = i.length) → IE S i = IEsum S i
  | [], i, _, _ => by
      unfold IE IEsum
      simp only [List.not_mem_nil, if_false, List.map_nil, List.sum_nil]
      exact sum_map_zero_int _
  | s :: S, i, hnd, hlen => by
      have hnd' := List.nodup_cons.mp hnd
      rw [IE_cons hnd'.1 (hlen s (by simp)), IE_eq_IEsum hnd'.2 (fun x hx => hlen x (by simp [hx]))]
      simp [IEsum]

/-- `IE` depends on the set only through membership -/
theorem IE_congr {S T : List Idx} (h : ∀ x, x ∈ S ↔ x ∈ T) (i : Idx) : IE S i = IE T i := by
  unfold IE
  congr 1
  apply List.map_congr_left
  intro e _
  simp [h]

end Amisc
